package main

import (
	"encoding/json"

	"google.golang.org/protobuf/reflect/protoreflect"
)

func init() { register("shapes-c05", shapesC05Driver) }

// shapes-c05 (C05, "hand-written proto files"): the file of a descriptor set of the ProtoShapes model - every scalar kind,
// well-known type, cardinality, oneof, nesting, recursion and every buf.validate / j5 annotation with its option values -
// is printed, the text is parsed again and compared with the descriptor it was printed from.
func shapesC05Driver(raw json.RawMessage) *Out {
	var c shCase
	if err := json.Unmarshal(raw, &c); err != nil {
		return &Out{Skip: "bad case: " + err.Error()}
	}
	shNormalise(&c)
	out := &Out{Key: "c05|" + shKey(&c)}
	b, err := shBuild(&c)
	if err != nil {
		out.Skip = "unbuildable: " + err.Error()
		return out
	}
	out.Nontrivial = true
	c05Check(out, "shapes:"+c.Mode, []protoreflect.FileDescriptor{b.File})
	return out
}
