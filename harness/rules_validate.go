package main

// Property C12, driver "rules-validate": one case = one field declaration of spec/J5Validate.tla with all its
// candidate values and the model's verdict Allows(decl, cand) for each.  The declaration is compiled from j5s
// text with the real protobuild.PackageSet, a dynamicpb message of the compiled type is populated with each
// candidate and handed to bufbuild/protovalidate-go; accept/reject is compared with the model (CONTRACT).

import (
	"encoding/json"
	"errors"
	"fmt"
	"math"
	"strings"

	"github.com/bufbuild/protovalidate-go"
	"google.golang.org/protobuf/reflect/protoreflect"
	"google.golang.org/protobuf/types/dynamicpb"
)

type rlCand struct {
	T     string   `json:"t"`
	N     int      `json:"n"`
	S     string   `json:"s"`
	Items []rlCand `json:"items"`
}

type rlCandCase struct {
	Cand   rlCand   `json:"cand"`
	Allows bool     `json:"allows"`
	Why    []string `json:"why"`
	Bad    []int    `json:"bad"` // 1-based indices of list items the model's item rules reject
}

type rlValidateCase struct {
	Decl  rlDecl       `json:"decl"`
	Cands []rlCandCase `json:"cands"`
	Opts  rlOpts       `json:"opts"`
}

const (
	rlTMIN = -1000
	rlTMAX = 1000
)

var rlKeyAtoms = map[string]string{
	"empty":      "",
	"id62ok":     "0123456789abcdefABCDEF",
	"id62short":  "0123456789abcdefABCDE",
	"id62long":   "0123456789abcdefABCDEFG",
	"id62sym":    "0123456789abcdefABCDE_",
	"uuidok":     "123e4567-e89b-12d3-a456-426614174000",
	"uuidshort":  "123e4567-e89b-12d3-a456-42661417400",
	"uuidnonhex": "123e4567-e89b-12d3-a456-42661417400g",
	"text":       "hello world",
}

var rlClassRune = map[string]string{"lower": "a", "upper": "A", "digit": "7", "uni": "é"}

// rlScalar concretises a non-list candidate for a field of the given descriptor.
func rlScalar(fd protoreflect.FieldDescriptor, kind string, c rlCand) (protoreflect.Value, error) {
	switch c.T {
	case "int":
		var v int64
		switch {
		case c.N == rlTMIN:
			switch kind {
			case "int32":
				v = math.MinInt32
			case "int64":
				v = math.MinInt64
			default:
				v = 0
			}
		case c.N == rlTMAX:
			switch kind {
			case "int32":
				return protoreflect.ValueOfInt32(math.MaxInt32), nil
			case "int64":
				return protoreflect.ValueOfInt64(math.MaxInt64), nil
			case "uint32":
				return protoreflect.ValueOfUint32(math.MaxUint32), nil
			case "uint64":
				return protoreflect.ValueOfUint64(math.MaxUint64), nil
			}
		default:
			v = int64(c.N)
		}
		switch fd.Kind() {
		case protoreflect.Int32Kind:
			return protoreflect.ValueOfInt32(int32(v)), nil
		case protoreflect.Int64Kind:
			return protoreflect.ValueOfInt64(v), nil
		case protoreflect.Uint32Kind:
			return protoreflect.ValueOfUint32(uint32(v)), nil
		case protoreflect.Uint64Kind:
			return protoreflect.ValueOfUint64(uint64(v)), nil
		}
		return protoreflect.Value{}, fmt.Errorf("integer candidate for %s field", fd.Kind())
	case "str":
		if fd.Kind() != protoreflect.StringKind {
			return protoreflect.Value{}, fmt.Errorf("string candidate for %s field", fd.Kind())
		}
		return protoreflect.ValueOfString(strings.Repeat(rlClassRune[c.S], c.N)), nil
	case "atom":
		if fd.Kind() != protoreflect.StringKind {
			return protoreflect.Value{}, fmt.Errorf("key candidate for %s field", fd.Kind())
		}
		s, ok := rlKeyAtoms[c.S]
		if !ok {
			return protoreflect.Value{}, fmt.Errorf("unknown key atom %q", c.S)
		}
		return protoreflect.ValueOfString(s), nil
	case "bytes":
		if fd.Kind() != protoreflect.BytesKind {
			return protoreflect.Value{}, fmt.Errorf("bytes candidate for %s field", fd.Kind())
		}
		b := make([]byte, c.N)
		for i := range b {
			b[i] = byte(0xF0 + i)
		}
		return protoreflect.ValueOfBytes(b), nil
	case "bool":
		if fd.Kind() != protoreflect.BoolKind {
			return protoreflect.Value{}, fmt.Errorf("bool candidate for %s field", fd.Kind())
		}
		return protoreflect.ValueOfBool(c.N == 1), nil
	case "enum":
		if fd.Kind() != protoreflect.EnumKind {
			return protoreflect.Value{}, fmt.Errorf("enum candidate for %s field", fd.Kind())
		}
		// option i of the source is looked up BY NAME in the compiled enum (numbering itself is C02's business);
		// 0 is the *_UNSPECIFIED value, -1 and NOpts+1 are numbers no option has
		if c.N >= 1 && c.N <= len(rlEnumOptions) {
			want := rlEnumOptions[c.N-1]
			vals := fd.Enum().Values()
			for i := 0; i < vals.Len(); i++ {
				if strings.HasSuffix(string(vals.Get(i).Name()), "_"+want) {
					return protoreflect.ValueOfEnum(vals.Get(i).Number()), nil
				}
			}
			return protoreflect.Value{}, fmt.Errorf("enum option %s not in compiled enum", want)
		}
		if c.N == 0 {
			return protoreflect.ValueOfEnum(0), nil
		}
		n := int32(c.N)
		if c.N > len(rlEnumOptions) {
			n = int32(fd.Enum().Values().Len() + 5) // above every defined number
		}
		if fd.Enum().Values().ByNumber(protoreflect.EnumNumber(n)) != nil {
			return protoreflect.Value{}, fmt.Errorf("number %d is defined in the compiled enum", n)
		}
		return protoreflect.ValueOfEnum(protoreflect.EnumNumber(n)), nil
	}
	return protoreflect.Value{}, fmt.Errorf("unknown candidate type %q", c.T)
}

// rlPopulate builds the message for one candidate.
func rlPopulate(md protoreflect.MessageDescriptor, d *rlDecl, c rlCand, anchor bool) (*dynamicpb.Message, error) {
	msg := dynamicpb.NewMessage(md)
	if anchor {
		if afd := md.Fields().ByName("anchor"); afd != nil {
			msg.Set(afd, protoreflect.ValueOfString(rlKeyAtoms["id62ok"]))
		}
	}
	// sibling fields (rlOpts.Siblings) are required: give them valid values, the verdict is about the subject
	if f := md.Fields().ByName("sib_key"); f != nil {
		msg.Set(f, protoreflect.ValueOfString(rlKeyAtoms["id62ok"]))
	}
	if f := md.Fields().ByName("sib_uuid"); f != nil {
		msg.Set(f, protoreflect.ValueOfString("123e4567-e89b-12d3-a456-426614174000"))
	}
	if f := md.Fields().ByName("sib_when"); f != nil {
		ts := msg.Mutable(f).Message()
		ts.Set(ts.Descriptor().Fields().ByName("seconds"), protoreflect.ValueOfInt64(1700000000))
	}
	if f := md.Fields().ByName("sib_tags"); f != nil {
		msg.Mutable(f).List().Append(protoreflect.ValueOfString("t"))
	}
	fd := md.Fields().ByName("subject")
	if fd == nil {
		return nil, fmt.Errorf("compiled message has no field `subject`")
	}
	switch c.T {
	case "absent":
		return msg, nil
	case "list":
		if !fd.IsList() {
			return nil, fmt.Errorf("list candidate for non-repeated field")
		}
		l := msg.Mutable(fd).List()
		for _, it := range c.Items {
			v, err := rlScalar(fd, d.Kind, it)
			if err != nil {
				return nil, err
			}
			l.Append(v)
		}
		return msg, nil
	}
	if fd.IsList() || fd.IsMap() {
		return nil, fmt.Errorf("scalar candidate for repeated field")
	}
	v, err := rlScalar(fd, d.Kind, c)
	if err != nil {
		return nil, err
	}
	msg.Set(fd, v) // for a proto3-optional field this records presence even for the zero value
	return msg, nil
}

// rlCandClass names where the candidate sits relative to the declared bounds (signature component).
func rlCandClass(d *rlDecl, c rlCand) string {
	rel := func(n, lo, hi int) string {
		switch {
		case lo != rlNA && n == lo && hi != rlNA && n == hi:
			return "at-min-and-max"
		case lo != rlNA && n == lo:
			return "at-min"
		case hi != rlNA && n == hi:
			return "at-max"
		case lo != rlNA && n < lo:
			return "below-min"
		case hi != rlNA && n > hi:
			return "above-max"
		}
		return "inside"
	}
	switch c.T {
	case "absent":
		return "absent"
	case "int":
		if c.N == 0 && d.Minimum == rlNA && d.Maximum == rlNA {
			return "zero"
		}
		return rel(c.N, d.Minimum, d.Maximum)
	case "str":
		if d.Kind == "key_custom" || (d.MinLength == rlNA && d.MaxLength == rlNA) {
			if c.N == 0 {
				return "empty"
			}
			return "class-" + c.S
		}
		return "len-" + rel(c.N, d.MinLength, d.MaxLength) + "/" + c.S
	case "bytes":
		if d.MinLength == rlNA && d.MaxLength == rlNA {
			if c.N == 0 {
				return "empty"
			}
			return "nonempty"
		}
		return "len-" + rel(c.N, d.MinLength, d.MaxLength)
	case "atom":
		return c.S
	case "bool":
		return fmt.Sprintf("value-%v", c.N == 1)
	case "enum":
		switch {
		case c.N == 0:
			return "unspecified"
		case c.N < 0 || c.N > len(rlEnumOptions):
			return "undefined-number"
		}
		in := func(xs []int) bool {
			for _, x := range xs {
				if x == c.N {
					return true
				}
			}
			return false
		}
		s := "option"
		if len(d.In) > 0 {
			if in(d.In) {
				s += "-in"
			} else {
				s += "-not-in"
			}
		}
		if len(d.NotIn) > 0 {
			if in(d.NotIn) {
				s += "-excluded"
			} else {
				s += "-not-excluded"
			}
		}
		return s
	case "list":
		s := "count-" + rel(c.N, d.MinItems, d.MaxItems)
		seen := map[string]bool{}
		dup := false
		for _, it := range c.Items {
			k := fmt.Sprintf("%s/%d/%s", it.T, it.N, it.S)
			if seen[k] {
				dup = true
			}
			seen[k] = true
		}
		if dup {
			s += "/duplicate"
		}
		return s
	}
	return c.T
}

// rlConstraintAttr maps a protovalidate constraint id ("int32.lt", "string.min_len", "required", ...) onto the
// declared attribute it belongs to.
func rlConstraintAttr(id string) string {
	base := id
	if i := strings.LastIndex(id, "."); i >= 0 {
		base = id[i+1:]
	}
	switch base {
	case "lt", "lte", "lt_now":
		return "maximum"
	case "gt", "gte", "gt_now":
		return "minimum"
	case "min_len":
		return "minLength"
	case "max_len":
		return "maxLength"
	case "pattern":
		return "pattern"
	case "uuid", "uuid_empty":
		return "format"
	case "in":
		return "in"
	case "not_in":
		return "notIn"
	case "defined_only":
		return "definedOnly"
	case "min_items":
		return "minItems"
	case "max_items":
		return "maxItems"
	case "unique":
		return "unique"
	case "const":
		return "const"
	case "required":
		return "pres"
	}
	// gt_lt, gte_lte ... combined range ids
	if strings.HasPrefix(base, "gt") && strings.Contains(base, "lt") {
		return "range"
	}
	return id
}

type rlVerdict struct {
	accepted bool
	ids      []string // constraint ids of the violations on `subject`
	idx      []int    // for each id: 0-based index of the list item it is about, -1 for the field itself
	other    string   // non-validation error (compilation / runtime error of the constraint)
}

func rlValidateMsg(v protovalidate.Validator, msg *dynamicpb.Message) rlVerdict {
	err := v.Validate(msg)
	if err == nil {
		return rlVerdict{accepted: true}
	}
	var ve *protovalidate.ValidationError
	if errors.As(err, &ve) {
		out := rlVerdict{}
		onSubject := false
		for _, viol := range ve.Violations {
			els := viol.Proto.GetField().GetElements()
			if len(els) > 0 && els[0].GetFieldName() == "subject" {
				onSubject = true
				out.ids = append(out.ids, viol.Proto.GetConstraintId())
				ix := -1
				if len(els) > 0 && els[len(els)-1].Subscript != nil {
					ix = int(els[len(els)-1].GetIndex())
				}
				out.idx = append(out.idx, ix)
			}
		}
		out.accepted = !onSubject
		if !onSubject {
			out.other = "violations only on other fields: " + err.Error()
		}
		return out
	}
	return rlVerdict{other: fmt.Sprintf("%T: %v", err, err)}
}

func init() { register("rules-validate", rlValidateDriver) }

// rlItemDecl is the declaration of one item of an array (same rules, cardinality single).
func rlItemDecl(d *rlDecl) *rlDecl {
	c := *d
	c.Card = "single"
	return &c
}

// rlItemsConstrained: does the item type itself carry a validation constraint?
func rlItemsConstrained(d *rlDecl) bool {
	switch d.Kind {
	case "enum", "key_id62", "key_uuid", "key_custom":
		return true
	}
	return d.Minimum != rlNA || d.Maximum != rlNA || d.MinLength != rlNA || d.MaxLength != rlNA ||
		(d.Pattern != "na") || d.Const != "na"
}

func rlDeclKey(d *rlDecl) string {
	b, _ := json.Marshal(d)
	return string(b)
}

func rlCompileErrClass(err error) string {
	s := err.Error()
	switch {
	case strings.Contains(s, "not found"):
		return "link-not-found"
	case strings.Contains(s, "not implemented"):
		return "not-implemented"
	}
	if len(s) > 60 {
		s = s[:60]
	}
	return s
}

func rlValidateDriver(raw json.RawMessage) *Out {
	var c rlValidateCase
	if err := json.Unmarshal(raw, &c); err != nil {
		return &Out{Skip: "bad case: " + err.Error()}
	}
	d := &c.Decl
	out := &Out{Key: rlDeclKey(d)}
	if c.Opts.EnumNums {
		out.Key += "|enumNums"
	}
	if c.Opts.ZeroPrefixed {
		out.Key += "|zeroPrefixed"
	}
	if c.Opts.ListRepeat != "" {
		out.Key += "|listRepeat=" + c.Opts.ListRepeat
	}
	fam := rlFamily(d.Kind)
	where := d.Card + ":" + d.Kind
	msgs, _, text, err := rlCompile([]rlUnit{{Msg: "Subject", Decl: d}}, c.Opts)
	if err != nil {
		// a documented declaration the compiler rejects belongs to C07: counted, not decided here
		out.Skip = "compile:" + rlCompileErrClass(err)
		out.Note = err.Error() + "\n" + text
		return out
	}
	md := msgs["Subject"]
	if md == nil {
		out.Skip = "compile: no message Subject"
		return out
	}
	val, err := protovalidate.New()
	if err != nil {
		out.Skip = "validator: " + err.Error()
		return out
	}
	nAcc, nRej := 0, 0
	for _, cc := range c.Cands {
		msg, err := rlPopulate(md, d, cc.Cand, c.Opts.Anchor)
		if err != nil {
			out.D("C12|harness|cannot-populate", "%v (decl %s)", err, where)
			continue
		}
		vd := rlValidateMsg(val, msg)
		class := rlCandClass(d, cc.Cand)
		ev := map[string]any{"op": "validate", "decl": d, "cand": cc.Cand, "real": vd.accepted, "err": vd.other != "" && !vd.accepted}
		if vd.other != "" && !vd.accepted {
			// the compiled constraint cannot be evaluated at all
			out.V(fmt.Sprintf("C12|%s|constraint-error|%s", fam, where), "validator fails on %s candidate %s: %s\n%s", where, class, vd.other, text)
			out.Events = append(out.Events, ev)
			continue
		}
		out.Events = append(out.Events, ev)
		if vd.accepted {
			nAcc++
		} else {
			nRej++
		}
		if vd.accepted == cc.Allows {
			continue
		}
		if !vd.accepted && d.Pres == "optional" && cc.Cand.T == "absent" {
			// an explicitly optional field that is left out is rejected by a value rule
			out.V(fmt.Sprintf("C12|optional|rejects-absent|%s|%s", fam, where),
				"an absent optional field is rejected by its value rules (%s): the compiled field does not track presence\n%s", strings.Join(vd.ids, ","), text)
			continue
		}
		// name the declared rule(s) at fault
		var attrs []string
		itemIdx := -1
		if vd.accepted {
			// rules reject, compiled constraints accept: the rule(s) that alone would have rejected (from the model)
			attrs = append(attrs, cc.Why...)
			if len(cc.Bad) > 0 {
				itemIdx = cc.Bad[0] - 1
			}
		} else {
			first := -2
			for i, id := range vd.ids {
				ix := vd.idx[i]
				if first == -2 {
					first = ix
				}
				if ix != first {
					continue // one item (or the field itself) names the finding; other items fail for their own reasons
				}
				attr := rlConstraintAttr(id)
				if attr == "range" {
					// combined range constraint "<lower op>_<upper op>[_exclusive]": the side on which the candidate sits
					cl := class
					if ix >= 0 && ix < len(cc.Cand.Items) {
						cl = rlCandClass(rlItemDecl(d), cc.Cand.Items[ix])
					}
					ops := strings.Split(id[strings.LastIndex(id, ".")+1:], "_")
					switch {
					case strings.Contains(cl, "min-and-max") && len(ops) >= 2:
						// the candidate equals both bounds: the strict operator(s) reject it
						if ops[0] == "gt" {
							attrs = append(attrs, "minimum")
						}
						if ops[1] == "lt" {
							attrs = append(attrs, "maximum")
						}
						attr = ""
					case strings.Contains(cl, "max"):
						attr = "maximum"
					default:
						attr = "minimum"
					}
				}
				if attr != "" {
					attrs = append(attrs, attr)
				}
				if ix >= 0 && itemIdx < 0 {
					itemIdx = ix
				}
			}
		}
		if len(attrs) == 0 && vd.accepted && rlIsInt(d.Kind) {
			// no single rule explains the rejection (both bounds exclude the value): the exclusive flags that are set
			if d.Xmin == "t" {
				attrs = append(attrs, "xmin")
			}
			if d.Xmax == "t" {
				attrs = append(attrs, "xmax")
			}
		}
		// a candidate equal to both bounds is named after the culprit's side
		sideMin, sideMax := false, false
		for _, a := range attrs {
			sideMin = sideMin || a == "minimum" || a == "xmin"
			sideMax = sideMax || a == "maximum" || a == "xmax"
		}
		fixSide := func(cl string) string {
			if sideMin && !sideMax {
				return strings.Replace(cl, "at-min-and-max", "at-min", 1)
			}
			if sideMax && !sideMin {
				return strings.Replace(cl, "at-min-and-max", "at-max", 1)
			}
			return cl
		}
		class = fixSide(class)
		seenW := map[string]bool{}
		var why []string
		arrayLevel := false
		for _, a := range attrs {
			if a == "minItems" || a == "maxItems" || a == "unique" {
				arrayLevel = true
			}
			w := rlRuleSummary(d, a)
			if !seenW[w] {
				seenW[w] = true
				why = append(why, w)
			}
		}
		if len(why) == 0 {
			why = []string{"several-rules"}
			arrayLevel = d.Card != "single" && len(cc.Bad) == 0
		}
		verdict := "rejects"
		if vd.accepted {
			verdict = "accepts"
		}
		sigFam, variant := fam, "-"
		if d.Card != "single" {
			if arrayLevel {
				// array-level rule; whether the items carry a constraint of their own decides where the writer puts it
				sigFam = "array"
				variant = "bare-items"
				if rlItemsConstrained(d) {
					variant = "ruled-items"
				}
			} else if itemIdx >= 0 && itemIdx < len(cc.Cand.Items) {
				class = "item-" + fixSide(rlCandClass(rlItemDecl(d), cc.Cand.Items[itemIdx]))
			}
		}
		if d.Kind == "enum" && !c.Opts.EnumNums && !arrayLevel {
			variant = "positional-numbers"
		}
		sig := fmt.Sprintf("C12|%s|%s|%s|%s-%s|%s", sigFam, variant, rlSortedJoin(why), verdict, class, where)
		if vd.accepted {
			out.V(sig, "rules reject the value but the compiled constraints accept it: %s candidate %+v\n%s", where, cc.Cand, text)
		} else {
			out.V(sig, "rules allow the value but the compiled constraints reject it (%s): %s candidate %+v\n%s", strings.Join(vd.ids, ","), where, cc.Cand, text)
		}
	}
	out.Nontrivial = nAcc > 0 && nRej > 0
	out.Obs = map[string]any{"accepted": nAcc, "rejected": nRej}
	return out
}
