package main

// Building dynamicpb messages from model value trees and projecting real messages back onto the
// model's vocabulary (the equality of C01: decimals numerically, empty flattened object = absent).

import (
	"encoding/hex"
	"fmt"
	"math"
	"sort"

	"github.com/shopspring/decimal"
	"google.golang.org/protobuf/proto"
	"google.golang.org/protobuf/reflect/protoreflect"
	"google.golang.org/protobuf/types/dynamicpb"
)

// wxErrNoPresence: the model says the field is `optional` (tracks presence) but the realised descriptor does not
var wxErrNoPresence = fmt.Errorf("optional field without presence")

func wxPropByName(n *wSch, name string) *wProp {
	for i := range n.Props {
		if n.Props[i].Name == name {
			return &n.Props[i]
		}
	}
	return nil
}

func wxFieldOf(md protoreflect.MessageDescriptor, p *wProp) (protoreflect.FieldDescriptor, error) {
	fd := md.Fields().ByName(protoreflect.Name(wxSnakeOf(p.Name)))
	if fd == nil {
		return nil, fmt.Errorf("harness: no proto field %s in %s", wxSnakeOf(p.Name), md.FullName())
	}
	return fd, nil
}

// payload of every Any in the explored space: j5.types.date.v1.Date{2024,2,29} (a type present in the
// global registry, reflected by the codec as a plain object)
const wireAnyType = "j5.types.date.v1.Date"
const wireAnyJSON = `{"year":2024,"month":2,"day":29}`

// ... and, when the codec does not look inside (no WithProtoToAny: the JSON text of the payload is carried as it is),
// a payload whose strings hold the characters that JSON libraries like to escape on their own
const wireAnyJSONText = `{"year":2024,"note":"<a&b> x>y \u2028 \\ \"q\" é"}`

// wireAnyCur is the JSON payload of the case being run (set by wireDriver)
var wireAnyCur = wireAnyJSON

func wireAnyProto() []byte { return []byte{0x08, 0xe8, 0x0f, 0x10, 0x02, 0x18, 0x1d} }

func wxAtomValue(fd protoreflect.FieldDescriptor, kind, atom string) (protoreflect.Value, error) {
	a := wireAtoms[kind][atom]
	if a == nil {
		return protoreflect.Value{}, fmt.Errorf("harness: unknown atom %s/%s", kind, atom)
	}
	switch kind {
	case "int32":
		return protoreflect.ValueOfInt32(int32(a.i64)), nil
	case "int64":
		return protoreflect.ValueOfInt64(a.i64), nil
	case "uint32":
		return protoreflect.ValueOfUint32(uint32(a.u64)), nil
	case "uint64":
		return protoreflect.ValueOfUint64(a.u64), nil
	case "float32":
		return protoreflect.ValueOfFloat32(float32(a.f64)), nil
	case "float64":
		return protoreflect.ValueOfFloat64(a.f64), nil
	case "string", "key":
		return protoreflect.ValueOfString(a.str), nil
	case "bool":
		return protoreflect.ValueOfBool(a.i64 == 1), nil
	case "bytes":
		return protoreflect.ValueOfBytes(append([]byte{}, a.by...)), nil
	case "enum":
		return protoreflect.ValueOfEnum(protoreflect.EnumNumber(a.i64)), nil
	case "timestamp":
		m := dynamicpb.NewMessage(fd.Message())
		f := fd.Message().Fields()
		if a.sec != 0 {
			m.Set(f.ByName("seconds"), protoreflect.ValueOfInt64(a.sec))
		}
		if a.nanos != 0 {
			m.Set(f.ByName("nanos"), protoreflect.ValueOfInt32(a.nanos))
		}
		return protoreflect.ValueOfMessage(m), nil
	case "date":
		m := dynamicpb.NewMessage(fd.Message())
		f := fd.Message().Fields()
		if a.y != 0 {
			m.Set(f.ByName("year"), protoreflect.ValueOfInt32(a.y))
		}
		if a.m != 0 {
			m.Set(f.ByName("month"), protoreflect.ValueOfInt32(a.m))
		}
		if a.d != 0 {
			m.Set(f.ByName("day"), protoreflect.ValueOfInt32(a.d))
		}
		return protoreflect.ValueOfMessage(m), nil
	case "decimal":
		m := dynamicpb.NewMessage(fd.Message())
		m.Set(fd.Message().Fields().ByName("value"), protoreflect.ValueOfString(a.str))
		return protoreflect.ValueOfMessage(m), nil
	}
	return protoreflect.Value{}, fmt.Errorf("harness: no value for kind %s", kind)
}

func wxAnyValue(fd protoreflect.FieldDescriptor, n *wSch, v *wVal) (protoreflect.Value, error) {
	m := dynamicpb.NewMessage(fd.Message())
	f := fd.Message().Fields()
	if n.Fl == "pb" {
		m.Set(f.ByName("type_url"), protoreflect.ValueOfString("type.googleapis.com/"+wireAnyType))
		if v.A != "protoE" { // an inner message without set fields has no bytes: the value stays unset
			m.Set(f.ByName("value"), protoreflect.ValueOfBytes(wireAnyProto()))
		}
		return protoreflect.ValueOfMessage(m), nil
	}
	m.Set(f.ByName("type_name"), protoreflect.ValueOfString(wireAnyType))
	if v.A == "jsonE" {
		m.Set(f.ByName("j5_json"), protoreflect.ValueOfBytes([]byte("{}")))
	}
	if v.A == "json" || v.A == "both" {
		m.Set(f.ByName("j5_json"), protoreflect.ValueOfBytes([]byte(wireAnyCur)))
	}
	if v.A == "proto" || v.A == "both" {
		m.Set(f.ByName("proto"), protoreflect.ValueOfBytes(wireAnyProto()))
	}
	return protoreflect.ValueOfMessage(m), nil
}

func wxNodeValue(fd protoreflect.FieldDescriptor, n *wSch, v *wVal) (protoreflect.Value, error) {
	switch n.T {
	case "leaf":
		if v.T != "atom" {
			return protoreflect.Value{}, fmt.Errorf("harness: leaf value is %q", v.T)
		}
		return wxAtomValue(fd, n.Kind, v.A)
	case "obj", "oneof":
		m, err := wxBuildMsg(n, fd.Message(), v)
		if err != nil {
			return protoreflect.Value{}, err
		}
		return protoreflect.ValueOfMessage(m), nil
	case "any":
		return wxAnyValue(fd, n, v)
	}
	return protoreflect.Value{}, fmt.Errorf("harness: node %q", n.T)
}

func wxSetProp(msg protoreflect.Message, md protoreflect.MessageDescriptor, p *wProp, v *wVal) error {
	if p.Exp {
		for i := range v.M {
			arm := wxPropByName(&p.Sch, v.M[i].K)
			if arm == nil {
				return fmt.Errorf("harness: no arm %s in exposed oneof %s", v.M[i].K, p.Name)
			}
			if err := wxSetProp(msg, md, arm, &v.M[i].V); err != nil {
				return err
			}
		}
		return nil
	}
	fd, err := wxFieldOf(md, p)
	if err != nil {
		return err
	}
	switch p.Card {
	case "one", "opt":
		if p.Card == "opt" && p.Sch.T == "leaf" && v.T == "atom" && !fd.HasPresence() {
			if a := wireAtoms[p.Sch.Kind][v.A]; a != nil && a.zero {
				return wxErrNoPresence
			}
		}
		pv, err := wxNodeValue(fd, &p.Sch, v)
		if err != nil {
			return err
		}
		msg.Set(fd, pv)
	case "arr":
		if v.T != "arr" {
			return fmt.Errorf("harness: array value is %q", v.T)
		}
		list := msg.Mutable(fd).List()
		for i := range v.S {
			pv, err := wxNodeValue(fd, &p.Sch, &v.S[i])
			if err != nil {
				return err
			}
			list.Append(pv)
		}
	case "map":
		if v.T != "map" {
			return fmt.Errorf("harness: map value is %q", v.T)
		}
		mp := msg.Mutable(fd).Map()
		for i := range v.M {
			pv, err := wxNodeValue(fd.MapValue(), &p.Sch, &v.M[i].V)
			if err != nil {
				return err
			}
			mp.Set(protoreflect.ValueOfString(wxKeyOut(v.M[i].K)).MapKey(), pv)
		}
	}
	return nil
}

func wxBuildMsg(n *wSch, md protoreflect.MessageDescriptor, v *wVal) (protoreflect.Message, error) {
	if md == nil {
		return nil, fmt.Errorf("harness: nil descriptor for %s", n.Name)
	}
	msg := dynamicpb.NewMessage(md)
	for i := range v.M {
		p := wxPropByName(n, v.M[i].K)
		if p == nil {
			return nil, fmt.Errorf("harness: value member %q not in schema %s", v.M[i].K, n.Name)
		}
		if err := wxSetProp(msg, md, p, &v.M[i].V); err != nil {
			return nil, err
		}
	}
	return msg, nil
}

// ---- projection: real message -> value tree over atoms ----

func wxAtomOf(kind string, pv protoreflect.Value) string {
	tab := wireAtoms[kind]
	names := make([]string, 0, len(tab))
	for n := range tab {
		names = append(names, n)
	}
	sort.Strings(names)
	var conc string
	for _, n := range names {
		a := tab[n]
		if !a.val {
			continue
		}
		switch kind {
		case "int32", "int64":
			conc = fmt.Sprint(pv.Int())
			if pv.Int() == a.i64 {
				return n
			}
		case "uint32", "uint64":
			conc = fmt.Sprint(pv.Uint())
			if pv.Uint() == a.u64 {
				return n
			}
		case "float32":
			conc = fmt.Sprint(pv.Float())
			if math.Float32bits(float32(pv.Float())) == math.Float32bits(float32(a.f64)) {
				return n
			}
		case "float64":
			conc = fmt.Sprint(pv.Float())
			if math.Float64bits(pv.Float()) == math.Float64bits(a.f64) || (math.IsNaN(pv.Float()) && math.IsNaN(a.f64)) {
				return n
			}
		case "string", "key":
			conc = pv.String()
			if pv.String() == a.str {
				return n
			}
		case "bool":
			conc = fmt.Sprint(pv.Bool())
			if pv.Bool() == (a.i64 == 1) {
				return n
			}
		case "bytes":
			conc = hex.EncodeToString(pv.Bytes())
			if string(pv.Bytes()) == string(a.by) {
				return n
			}
		case "enum":
			conc = fmt.Sprint(pv.Enum())
			if int64(pv.Enum()) == a.i64 {
				return n
			}
		case "timestamp":
			m := pv.Message()
			f := m.Descriptor().Fields()
			s, ns := m.Get(f.ByName("seconds")).Int(), m.Get(f.ByName("nanos")).Int()
			conc = fmt.Sprintf("%d.%09d", s, ns)
			if s == a.sec && int32(ns) == a.nanos {
				return n
			}
		case "date":
			m := pv.Message()
			f := m.Descriptor().Fields()
			y, mo, d := m.Get(f.ByName("year")).Int(), m.Get(f.ByName("month")).Int(), m.Get(f.ByName("day")).Int()
			conc = fmt.Sprintf("%d-%d-%d", y, mo, d)
			if int32(y) == a.y && int32(mo) == a.m && int32(d) == a.d {
				return n
			}
		case "decimal":
			m := pv.Message()
			s := m.Get(m.Descriptor().Fields().ByName("value")).String()
			conc = s
			d1, e1 := decimal.NewFromString(s)
			d2, e2 := decimal.NewFromString(a.str)
			if e1 == nil && e2 == nil && d1.Equal(d2) {
				return n
			}
		}
	}
	return "?" + conc
}

func wxProjNode(n *wSch, pv protoreflect.Value) wVal {
	switch n.T {
	case "leaf":
		return wVal{T: "atom", A: wxAtomOf(n.Kind, pv)}
	case "obj", "oneof":
		return wxProjMsg(n, pv.Message())
	case "any":
		m := pv.Message()
		f := m.Descriptor().Fields()
		out := wVal{T: "any"}
		if n.Fl == "pb" {
			out.Tn = m.Get(f.ByName("type_url")).String()
			out.A = "proto:" + hex.EncodeToString(m.Get(f.ByName("value")).Bytes())
			if out.Tn == "type.googleapis.com/"+wireAnyType && string(m.Get(f.ByName("value")).Bytes()) == string(wireAnyProto()) {
				out.A = "proto"
			}
			if out.Tn == "type.googleapis.com/"+wireAnyType && len(m.Get(f.ByName("value")).Bytes()) == 0 {
				out.A = "protoE"
			}
			return out
		}
		out.Tn = m.Get(f.ByName("type_name")).String()
		hasJ, hasP := m.Has(f.ByName("j5_json")), m.Has(f.ByName("proto"))
		jOK := string(m.Get(f.ByName("j5_json")).Bytes()) == wireAnyCur
		pOK := string(m.Get(f.ByName("proto")).Bytes()) == string(wireAnyProto())
		switch {
		case hasJ && !hasP && string(m.Get(f.ByName("j5_json")).Bytes()) == "{}":
			out.A = "jsonE"
		case !hasJ && !hasP:
			out.A = "protoE"
		case hasJ && !hasP && jOK:
			out.A = "json"
		case hasP && !hasJ && pOK:
			out.A = "proto"
		case hasJ && hasP && jOK && pOK:
			out.A = "both"
		default:
			out.A = fmt.Sprintf("?json=%q proto=%x", m.Get(f.ByName("j5_json")).Bytes(), m.Get(f.ByName("proto")).Bytes())
		}
		return out
	}
	return wVal{T: "?"}
}

// wxProjMsg projects a message onto the value tree: only present members, schema order, maps sorted by key,
// an empty flattened sub-object is absent (the equivalence stated by C01).
func wxProjMsg(n *wSch, msg protoreflect.Message) wVal {
	out := wVal{T: n.T, M: []wKV{}}
	md := msg.Descriptor()
	for i := range n.Props {
		p := &n.Props[i]
		if p.Exp {
			od := md.Oneofs().ByName(protoreflect.Name(wxSnakeOf(p.Name)))
			if od == nil {
				continue
			}
			set := msg.WhichOneof(od)
			if set == nil {
				continue
			}
			ov := wVal{T: "oneof", M: []wKV{}}
			for j := range p.Sch.Props {
				arm := &p.Sch.Props[j]
				if wxSnakeOf(arm.Name) == string(set.Name()) {
					ov.M = append(ov.M, wKV{arm.Name, wxProjNode(&arm.Sch, msg.Get(set))})
				}
			}
			out.M = append(out.M, wKV{p.Name, ov})
			continue
		}
		fd := md.Fields().ByName(protoreflect.Name(wxSnakeOf(p.Name)))
		if fd == nil || !msg.Has(fd) {
			continue
		}
		switch p.Card {
		case "one", "opt":
			v := wxProjNode(&p.Sch, msg.Get(fd))
			if p.Flat && len(v.M) == 0 {
				continue
			}
			out.M = append(out.M, wKV{p.Name, v})
		case "arr":
			l := msg.Get(fd).List()
			av := wVal{T: "arr", S: []wVal{}}
			for k := 0; k < l.Len(); k++ {
				av.S = append(av.S, wxProjNode(&p.Sch, l.Get(k)))
			}
			out.M = append(out.M, wKV{p.Name, av})
		case "map":
			mv := wVal{T: "map", M: []wKV{}}
			msg.Get(fd).Map().Range(func(k protoreflect.MapKey, v protoreflect.Value) bool {
				mv.M = append(mv.M, wKV{wxKeyIn(k.String()), wxProjNode(&p.Sch, v)})
				return true
			})
			sort.Slice(mv.M, func(a, b int) bool { return mv.M[a].K < mv.M[b].K })
			out.M = append(out.M, wKV{p.Name, mv})
		}
	}
	return out
}

// wxValEqual compares an original message with the message decoded from its encoding. The documented normalisation of an
// Any applies: a j5 Any given as proto bytes only comes back carrying the JSON text of the same payload (orig "proto" ->
// back "both" WithProtoToAny; an inner message without set fields has no bytes either way: orig "protoE" -> back "jsonE").
func wxValEqual(a, b *wVal) bool {
	if a.T == "any" && b.T == "any" && a.Tn == b.Tn && a.A != b.A {
		return (a.A == "protoE" && b.A == "jsonE") || (a.A == "proto" && b.A == "both")
	}
	if a.T != b.T || a.A != b.A || a.Tn != b.Tn || len(a.M) != len(b.M) || len(a.S) != len(b.S) {
		return false
	}
	for i := range a.M {
		if a.M[i].K != b.M[i].K || !wxValEqual(&a.M[i].V, &b.M[i].V) {
			return false
		}
	}
	for i := range a.S {
		if !wxValEqual(&a.S[i], &b.S[i]) {
			return false
		}
	}
	return true
}

func wxValString(v *wVal) string {
	switch v.T {
	case "atom":
		return v.A
	case "any":
		return "any(" + v.Tn + "," + v.A + ")"
	case "arr":
		s := "["
		for i := range v.S {
			if i > 0 {
				s += ","
			}
			s += wxValString(&v.S[i])
		}
		return s + "]"
	case "reject":
		return "REJECT"
	}
	s := v.T + "{"
	for i := range v.M {
		if i > 0 {
			s += ","
		}
		s += v.M[i].K + ":" + wxValString(&v.M[i].V)
	}
	return s + "}"
}

var _ = proto.Equal
