package main

// C17: entity declarations expand to a complete, mutually consistent API.
//
// Driver "entity-expand": a case from spec/J5Entity.tla (declaration + EntityExpand(e)) is printed as
// .j5s, compiled in memory with the real protobuild.PackageSet, the compiled descriptors and the client
// API StateEntity are projected on the vocabulary of EntityExpand and compared with the expected
// expansion. C17 is a contract property: a difference on an attribute the statement lists is a
// violation with a specific signature; every other difference is drift.

import (
	"encoding/json"
	"fmt"
	"reflect"
	"regexp"
	"sort"
	"strings"

	"github.com/bufbuild/protocompile/linker"
)

type entCase struct {
	Focus string          `json:"focus"`
	Ast   json.RawMessage `json:"ast"`
	Src   entSrc          `json:"src"`
	Exp   entExpansion    `json:"exp"`
	// Text, when set, replaces the printed source (fixtures: the repository's own j5s files)
	Text string `json:"text,omitempty"`
	// Fixture: no model expectation comes with the case; only the trace (direction T) is produced
	Fixture bool `json:"fixture,omitempty"`
}

func init() {
	register("entity-expand", entityExpandDriver)
	register("entity-print", entityPrintDriver)
}

// entity-print: development aid, shows the source and the real projection
func entityPrintDriver(raw json.RawMessage) *Out {
	var c entCase
	if err := json.Unmarshal(raw, &c); err != nil {
		return &Out{Skip: "bad case: " + err.Error()}
	}
	text := entPrint(&c.Src)
	out := &Out{Note: text}
	res, _, err := compileBundle(newMemFiles(map[string]string{entFileName: text}), nil)
	if err != nil {
		out.Note += "\nERROR: " + err.Error()
		return out
	}
	printed := map[string]string{}
	for _, files := range res {
		for _, f := range files {
			s, _ := printFile(f)
			printed[f.Path()] = s
		}
	}
	out.Obs = printed
	return out
}

func entKeyOf(c *entCase) string {
	b, _ := json.Marshal(c.Src)
	return string(b)
}

func entAllFiles(res map[string]linker.Files) linker.Files {
	var all linker.Files
	for _, fs := range res {
		all = append(all, fs...)
	}
	return all
}

func entityExpandDriver(raw json.RawMessage) *Out {
	var c entCase
	if err := json.Unmarshal(raw, &c); err != nil {
		return &Out{Skip: "bad case: " + err.Error()}
	}
	out := &Out{Key: entKeyOf(&c)}
	text := c.Text
	if text == "" {
		text = entPrint(&c.Src)
	}
	res, _, err := compileBundle(newMemFiles(map[string]string{entFileName: text}), nil)
	if err != nil {
		// The expansion refers to one of its own parts under a name under which it does not define it:
		// the parts are not "all named from the entity name" by the same function. That is C17's own
		// subject (mutual consistency), observed as a link failure of the generated file.
		if parts := entDanglingParts(err.Error(), &c.Exp); len(parts) > 0 {
			class := strings.Join(parts, "+")
			if entEndsUpper(c.Src.Name) {
				class = "name-ends-upper"
			}
			out.V("C17|expansion|dangling-ref|"+class, "entity %s does not compile: the expansion refers to %v but defines the part under another name: %s",
				c.Src.Name, parts, entFirstLine(err.Error()))
			out.Nontrivial = true
			out.Note = text + "\n" + err.Error()
			return out
		}
		// Two parts of the expansion under one name ("one upsert topic per summary", every command service, ... "all named
		// from the entity name"): observed as a duplicate symbol in the generated files.
		if parts := entDuplicateParts(err.Error(), &c.Exp); len(parts) > 0 {
			out.V("C17|expansion|duplicate-part|"+strings.Join(parts, "+"), "entity %s does not compile: two parts of the expansion are generated under one name (%v): %s",
				c.Src.Name, parts, entFirstLine(err.Error()))
			out.Nontrivial = true
			out.Note = text + "\n" + err.Error()
			return out
		}
		// Any other rejection of a documented declaration is property C07's business; skipped and counted.
		out.Skip = "rejected: " + entErrClass(err.Error())
		out.Note = text + "\n" + err.Error()
		return out
	}
	files := entAllFiles(res)
	fs := entSplitFiles(files)
	real := entProject(fs, &c.Src, &c.Exp)
	api, route, printedErr, cerr := entClientAPI(files)
	clientFound := false
	var clientOthers []string
	if cerr == nil {
		clientFound, clientOthers = entProjectClient(api, real, c.Exp.Client.Name)
	}
	if c.Fixture {
		out.Nontrivial = true
		out.Events = entTraceEvents(&c, map[string]any{"op": "expand", "ast": c.Ast, "real": real, "client": cerr == nil && clientFound})
		return out
	}
	n := entCompare(out, &c, real)
	if route == "direct" && printedErr != nil && cerr == nil {
		// the generated .proto text does not parse back (properties C05 / C16); C17 goes on with the descriptors
		out.D("C17|client|printed-proto-unparseable|"+entPrintedClass(printedErr.Error(), &c.Src), "generated proto is not readable by the tool-chain: %s", entFirstLine(printedErr.Error()))
	}
	entCompareClient(out, &c, real, cerr, clientFound, clientOthers)
	out.Nontrivial = n > 0
	if len(out.Viol) > 0 || len(out.Drift) > 0 {
		out.Note = text
	}
	ev := map[string]any{"op": "expand", "ast": c.Ast, "real": real, "client": cerr == nil && clientFound}
	out.Events = entTraceEvents(&c, ev)
	return out
}

// entTraceEvents replays the declaration clause by clause (one event per specification action) and ends
// with the recorded real expansion and a reset.
func entTraceEvents(c *entCase, expand map[string]any) []any {
	var ast struct {
		Name      json.RawMessage   `json:"name"`
		Keys      []json.RawMessage `json:"keys"`
		Data      []json.RawMessage `json:"data"`
		Status    []string          `json:"status"`
		Events    []json.RawMessage `json:"events"`
		Commands  []json.RawMessage `json:"commands"`
		Summaries []json.RawMessage `json:"summaries"`
		Query     json.RawMessage   `json:"query"`
		Layout    string            `json:"layout"`
	}
	if err := json.Unmarshal(c.Ast, &ast); err != nil || ast.Name == nil {
		return nil
	}
	evs := []any{map[string]any{"op": "name", "name": ast.Name}}
	for _, k := range ast.Keys {
		evs = append(evs, map[string]any{"op": "key", "item": k})
	}
	evs = append(evs, map[string]any{"op": "advance"})
	for _, k := range ast.Data {
		evs = append(evs, map[string]any{"op": "data", "item": k})
	}
	evs = append(evs, map[string]any{"op": "advance"})
	for _, k := range ast.Status {
		evs = append(evs, map[string]any{"op": "status", "item": k})
	}
	evs = append(evs, map[string]any{"op": "advance"})
	for _, k := range ast.Events {
		evs = append(evs, map[string]any{"op": "event", "item": k})
	}
	evs = append(evs, map[string]any{"op": "advance"})
	for _, k := range ast.Commands {
		evs = append(evs, map[string]any{"op": "command", "item": k})
	}
	evs = append(evs, map[string]any{"op": "advance"})
	for _, k := range ast.Summaries {
		evs = append(evs, map[string]any{"op": "summary", "item": k})
	}
	evs = append(evs, map[string]any{"op": "advance"})
	evs = append(evs, map[string]any{"op": "query", "query": ast.Query, "layout": ast.Layout})
	evs = append(evs, expand)
	evs = append(evs, map[string]any{"op": "reset"})
	return evs
}

func entHasViol(out *Out, sig string) bool {
	for _, v := range out.Viol {
		if v.Sig == sig {
			return true
		}
	}
	return false
}

func entFirstLine(s string) string {
	if i := strings.IndexByte(s, '\n'); i >= 0 {
		s = s[:i]
	}
	if len(s) > 300 {
		s = s[:300]
	}
	return s
}

func entEndsUpper(name string) bool {
	if name == "" {
		return false
	}
	c := name[len(name)-1]
	return c >= 'A' && c <= 'Z'
}

var entNotFoundRe = regexp.MustCompile(`type ([A-Za-z0-9_.]+) not found`)

// entDanglingParts lists the parts of the expansion (state, event, ...) that the link error reports as
// referenced but undefined.
func entDanglingParts(msg string, want *entExpansion) []string {
	names := map[string]string{
		strings.ToLower(want.Schemas.Keys): "keys", strings.ToLower(want.Schemas.Data): "data", strings.ToLower(want.Schemas.Status): "status",
		strings.ToLower(want.Schemas.State): "state", strings.ToLower(want.Schemas.EventType): "event-type", strings.ToLower(want.Schemas.Event): "event",
	}
	seen := map[string]bool{}
	var parts []string
	for _, m := range entNotFoundRe.FindAllStringSubmatch(msg, -1) {
		n := m[1]
		if i := strings.LastIndex(n, "."); i >= 0 {
			n = n[i+1:]
		}
		if p, ok := names[strings.ToLower(n)]; ok && !seen[p] {
			seen[p] = true
			parts = append(parts, p)
		}
	}
	sort.Strings(parts)
	return parts
}

var entAlreadyDefinedRe = regexp.MustCompile(`symbol "([^"]+)" already defined`)

// entDuplicateParts names the kinds of expansion parts (by the names the model predicts for them) that the link error
// reports as defined twice.
func entDuplicateParts(msg string, want *entExpansion) []string {
	names := map[string]string{}
	add := func(n, kind string) {
		if n != "" {
			names[strings.ToLower(n)] = kind
		}
	}
	add(want.Publish.Name, "publish-topic")
	add(want.Publish.Message, "publish-message")
	for _, u := range want.Upserts {
		add(u.Name, "upsert-topic")
		add(u.Message, "upsert-message")
	}
	for _, cm := range want.Commands {
		add(cm.Name, "command-service")
	}
	seen := map[string]bool{}
	var parts []string
	for _, m := range entAlreadyDefinedRe.FindAllStringSubmatch(msg, -1) {
		n := m[1]
		if i := strings.LastIndex(n, "."); i >= 0 {
			n = n[i+1:]
		}
		if p, ok := names[strings.ToLower(n)]; ok && !seen[p] {
			seen[p] = true
			parts = append(parts, p)
		}
	}
	sort.Strings(parts)
	return parts
}

func entPrintedClass(msg string, src *entSrc) string {
	if strings.Contains(msg, "oneof must contain at least one field") && len(src.Events) == 0 {
		return "events=0|empty-oneof"
	}
	return entErrClass(msg)
}

func entErrClass(s string) string {
	// keep the class short and free of positions
	for _, marker := range []string{"duplicate", "not found", "already defined", "cannot be both", "unknown", "required", "invalid", "unexpected", "no such"} {
		if strings.Contains(strings.ToLower(s), marker) {
			return marker
		}
	}
	if len(s) > 60 {
		return s[:60]
	}
	return s
}

// ---------------------------------------------------------------------------------------------
// comparison on exactly the attributes of the statement

func entIndexWrap(fs []entWrapField) map[string]entWrapField {
	m := map[string]entWrapField{}
	for _, f := range fs {
		if _, dup := m[f.Name]; !dup {
			m[f.Name] = f
		}
	}
	return m
}

func entSubseq(params []string, keep map[string]bool) []string {
	out := []string{}
	for _, p := range params {
		if keep[p] {
			out = append(out, p)
		}
	}
	return out
}

func entSameSet(a, b []string) bool {
	if len(a) != len(b) {
		return false
	}
	m := map[string]int{}
	for _, x := range a {
		m[x]++
	}
	for _, x := range b {
		m[x]--
	}
	for _, v := range m {
		if v != 0 {
			return false
		}
	}
	return true
}

// entCompare evaluates the statement on the real expansion; returns the number of statement clauses
// that were exercised with a non-default shape (for the non-triviality count).
func entCompare(out *Out, c *entCase, real *entExpansion) int {
	want := &c.Exp
	nontrivial := 0
	V := func(sig, format string, a ...any) { out.V("C17|"+sig, format, a...) }
	D := func(sig, format string, a ...any) { out.D("C17|"+sig, format, a...) }

	// --- the six schemas, named from the entity
	type part struct{ part, want, real string }
	for _, p := range []part{
		{"keys", want.Schemas.Keys, real.Schemas.Keys}, {"data", want.Schemas.Data, real.Schemas.Data},
		{"status", want.Schemas.Status, real.Schemas.Status}, {"state", want.Schemas.State, real.Schemas.State},
		{"event-type", want.Schemas.EventType, real.Schemas.EventType}, {"event", want.Schemas.Event, real.Schemas.Event},
	} {
		if p.real == "" {
			V("schema|"+p.part+"|missing", "entity %s: no %s schema (expected %s)", c.Src.Name, p.part, p.want)
		} else if p.real != p.want {
			V("schema|"+p.part+"|name", "entity %s: %s schema is named %s, expected %s", c.Src.Name, p.part, p.real, p.want)
		}
	}

	// --- the same entity annotation on every part
	wantPart := map[string]string{want.Schemas.Keys: "KEYS", want.Schemas.Data: "DATA", want.Schemas.State: "STATE", want.Schemas.Event: "EVENT"}
	realPsm := map[string]entPsm{}
	for _, p := range real.Psm {
		realPsm[p.Msg] = p
	}
	for _, wp := range want.Psm {
		lp := strings.ToLower(wp.Part)
		// the message that plays the part in the real output (it may be wrongly named: reported above)
		name := map[string]string{"KEYS": real.Schemas.Keys, "DATA": real.Schemas.Data, "STATE": real.Schemas.State, "EVENT": real.Schemas.Event}[wp.Part]
		rp, ok := realPsm[name]
		if !ok {
			if name != "" {
				V("psm|"+lp+"|missing", "message %s carries no (j5.ext.v1.psm) annotation (expected entity %q part %s)", name, wp.Entity, wp.Part)
			}
			continue
		}
		if rp.Entity != wp.Entity {
			V("psm|"+lp+"|entity", "message %s is annotated with entity %q, expected %q", name, rp.Entity, wp.Entity)
		}
		if rp.Part != wp.Part {
			V("psm|"+lp+"|part", "message %s is annotated as part %s, expected %s", name, rp.Part, wp.Part)
		}
	}
	for _, rp := range real.Psm {
		if _, expected := wantPart[rp.Msg]; !expected && rp.Msg != real.Schemas.Keys && rp.Msg != real.Schemas.Data && rp.Msg != real.Schemas.State && rp.Msg != real.Schemas.Event {
			D("psm|extra", "message %s carries an unexpected psm annotation %q/%s", rp.Msg, rp.Entity, rp.Part)
		}
	}

	// --- Keys: one field per declared key, in order; primary keys required
	{
		var wn, rn []string
		for _, k := range want.Keys {
			wn = append(wn, k.Name)
		}
		for _, k := range real.Keys {
			rn = append(rn, k.Name)
		}
		if !reflect.DeepEqual(wn, rn) {
			if real.Schemas.Keys != "" {
				V("keys|fields", "%s has fields %v, the declared keys are %v", real.Schemas.Keys, rn, wn)
			}
		} else {
			for i, k := range want.Keys {
				rk := real.Keys[i]
				if k.Primary {
					nontrivial++
					if !rk.Required {
						V("keys|primary-not-required", "primary key %s.%s is not required", real.Schemas.Keys, rk.Name)
					}
					if !rk.Primary {
						D("keys|primary-flag", "primary key %s.%s is not marked (j5.ext.v1.key).primary_key", real.Schemas.Keys, rk.Name)
					}
				} else if rk.Required != k.Required {
					D("keys|required", "key %s.%s required=%v, model %v", real.Schemas.Keys, rk.Name, rk.Required, k.Required)
				}
				if rk.JSON != k.JSON || rk.Number != k.Number {
					D("keys|wire", "key %s.%s json=%s number=%d, model json=%s number=%d", real.Schemas.Keys, rk.Name, rk.JSON, rk.Number, k.JSON, k.Number)
				}
				if rk.Type != k.Type {
					D("keys|type|"+k.Type, "key %s.%s has representation %q for declared type %s", real.Schemas.Keys, rk.Name, rk.Type, k.Type)
				}
			}
		}
	}
	// --- Data (the statement demands the schema; its content is C02's contract: drift here)
	{
		var wn, rn []string
		for _, k := range want.Data {
			wn = append(wn, k.Name)
		}
		for _, k := range real.Data {
			rn = append(rn, k.Name)
		}
		if !reflect.DeepEqual(wn, rn) {
			D("data|fields", "%s has fields %v, the declared data fields are %v", real.Schemas.Data, rn, wn)
		} else {
			for i, k := range want.Data {
				rk := real.Data[i]
				if rk.JSON != k.JSON || rk.Number != k.Number || rk.Required != k.Required {
					D("data|wire", "data %s.%s json=%s number=%d required=%v, model %s/%d/%v", real.Schemas.Data, rk.Name, rk.JSON, rk.Number, rk.Required, k.JSON, k.Number, k.Required)
				}
				if rk.Type != k.Type {
					D("data|type|"+k.Type, "data %s.%s has representation %q for declared type %s", real.Schemas.Data, rk.Name, rk.Type, k.Type)
				}
			}
		}
	}

	// --- statuses numbered in declaration order after UNSPECIFIED
	if real.Schemas.Status != "" {
		nontrivial += len(c.Src.Status) - 1
		if len(real.Status) != len(want.Status) {
			V("status|count", "%s has %d values, expected UNSPECIFIED and the %d declared statuses", real.Schemas.Status, len(real.Status), len(c.Src.Status))
		} else {
			for i, wv := range want.Status {
				rv := real.Status[i]
				suffix := "UNSPECIFIED"
				if i > 0 {
					suffix = c.Src.Status[i-1]
				}
				if rv.Number != wv.Number {
					if i == 0 {
						V("status|unspecified-number", "%s: %s = %d, expected 0", real.Schemas.Status, rv.Name, rv.Number)
					} else {
						V("status|numbering", "%s: %s = %d, expected %d (declaration order after UNSPECIFIED)", real.Schemas.Status, rv.Name, rv.Number, wv.Number)
					}
				}
				if rv.Name != wv.Name {
					if rv.Name == suffix || strings.HasSuffix(rv.Name, "_"+suffix) {
						D("status|prefix", "%s value %s, model %s", real.Schemas.Status, rv.Name, wv.Name)
					} else {
						V("status|order", "%s value %d is %s, expected the status %s (%s)", real.Schemas.Status, i, rv.Name, suffix, wv.Name)
					}
				}
			}
		}
	}

	// --- State and Event: metadata + flattened keys (+ data/status | event oneof)
	wrap := func(which string, wantFs, realFs []entWrapField, present bool) {
		if !present {
			return
		}
		rm := entIndexWrap(realFs)
		for _, wf := range wantFs {
			rf, ok := rm[wf.Name]
			if !ok {
				V(which+"|"+wf.Name+"|missing", "%s message has no field %s", which, wf.Name)
				continue
			}
			// a wrongly named part is reported once (schema|<part>|name); the fields must point at the part as it is really named
			wantType := wf.Type
			for _, r := range [][2]string{{want.Schemas.Keys, real.Schemas.Keys}, {want.Schemas.Data, real.Schemas.Data},
				{want.Schemas.Status, real.Schemas.Status}, {want.Schemas.EventType, real.Schemas.EventType}} {
				if wf.Type == entPkg+"."+r[0] && r[1] != "" {
					wantType = entPkg + "." + r[1]
				}
			}
			if rf.Type != wantType {
				V(which+"|"+wf.Name+"|type", "%s.%s is of type %s, expected %s", which, wf.Name, rf.Type, wantType)
			}
			if wf.Flatten && !rf.Flatten {
				V(which+"|"+wf.Name+"|not-flattened", "%s.%s is not flattened", which, wf.Name)
			}
			if !wf.Flatten && rf.Flatten {
				D(which+"|"+wf.Name+"|flattened", "%s.%s is flattened, model not", which, wf.Name)
			}
			if rf.Number != wf.Number || rf.Required != wf.Required {
				D(which+"|"+wf.Name+"|wire", "%s.%s number=%d required=%v, model %d/%v", which, wf.Name, rf.Number, rf.Required, wf.Number, wf.Required)
			}
		}
		wm := entIndexWrap(wantFs)
		for _, rf := range realFs {
			if _, ok := wm[rf.Name]; !ok {
				D(which+"|extra-field", "%s message has an additional field %s", which, rf.Name)
			}
		}
	}
	wrap("state", want.State, real.State, real.Schemas.State != "")
	wrap("event", want.Event, real.Event, real.Schemas.Event != "")

	// --- the event oneof: exactly one option per declared event, pointing at the nested message of that name
	if real.Schemas.EventType != "" {
		nontrivial += len(want.EventType.Options)
		if len(real.EventType.Options) != len(want.EventType.Options) {
			V("event-oneof|option-count", "%s has %d options for %d declared events", real.Schemas.EventType, len(real.EventType.Options), len(want.EventType.Options))
		}
		byJSON := map[string]entOption{}
		for _, o := range real.EventType.Options {
			byJSON[o.JSON] = o
		}
		nested := map[string]bool{}
		for _, n := range real.EventType.Nested {
			nested[n.Name] = true
		}
		for i, wo := range want.EventType.Options {
			ro, ok := byJSON[wo.JSON]
			if !ok {
				V("event-oneof|option-missing", "%s has no option %s for event %s", real.Schemas.EventType, wo.JSON, c.Src.Events[i].Name)
				continue
			}
			// the target is <package>.<EventType as really named>.<event name>
			wantTarget := wo.Target
			if real.Schemas.EventType != want.Schemas.EventType {
				wantTarget = entPkg + "." + real.Schemas.EventType + "." + c.Src.Events[i].Name
			}
			if ro.Target != wantTarget {
				V("event-oneof|option-target", "option %s.%s points at %s, expected the nested message %s", real.Schemas.EventType, ro.JSON, ro.Target, wantTarget)
			}
			if !nested[c.Src.Events[i].Name] {
				V("event-oneof|nested-missing", "%s has no nested message %s", real.Schemas.EventType, c.Src.Events[i].Name)
			}
			if ro.Number != wo.Number || ro.Name != wo.Name {
				D("event-oneof|wire", "option %s: name=%s number=%d, model %s/%d", ro.JSON, ro.Name, ro.Number, wo.Name, wo.Number)
			}
			if i < len(real.EventType.Options) && real.EventType.Options[i].JSON != wo.JSON {
				D("event-oneof|order", "option %d is %s, model %s", i, real.EventType.Options[i].JSON, wo.JSON)
			}
		}
		for i, wn := range want.EventType.Nested {
			for _, rn := range real.EventType.Nested {
				if rn.Name == wn.Name && !reflect.DeepEqual(rn.Fields, wn.Fields) {
					D("event-oneof|nested-fields", "event %s (%d): fields %+v, model %+v", wn.Name, i, rn.Fields, wn.Fields)
				}
			}
		}
	}

	// --- query service with Get, List, Events
	if real.Query.Name == "" {
		V("query|missing", "no service carries (j5.ext.v1.service).state_query (expected %s)", want.Query.Name)
	} else {
		if real.Query.Name != want.Query.Name {
			V("query|name", "the query service is named %s, expected %s", real.Query.Name, want.Query.Name)
		}
		if real.Query.Entity != want.Query.Entity {
			V("query|annotation", "query service %s is annotated with entity %q, expected %q", real.Query.Name, real.Query.Entity, want.Query.Entity)
		}
		byRole := map[string]entQueryMethod{}
		for _, m := range real.Query.Methods {
			if m.Role != "" {
				byRole[m.Role] = m
			}
		}
		entityKeys := map[string]bool{}
		shardKeys := map[string]bool{}
		for i, k := range c.Src.Keys {
			if k.Shard && i < len(want.Keys) {
				shardKeys[want.Keys[i].Name] = true
			}
		}
		primary := map[string]bool{}
		var pkNames []string
		for _, k := range want.Keys {
			entityKeys[k.Name] = true
			if k.Primary {
				primary[k.Name] = true
				pkNames = append(pkNames, k.Name)
			}
		}
		if len(pkNames) > 1 {
			nontrivial++
		}
		for _, wm := range want.Query.Methods {
			tag := "query-" + wm.Role
			rm, ok := byRole[wm.Role]
			if !ok {
				// fall back on the name: a method without the role option is a different (drift-level) difference
				for _, m := range real.Query.Methods {
					if m.Name == wm.Name {
						rm, ok = m, true
						D(tag+"|role-option", "method %s does not carry (j5.ext.v1.method).state_query.%s", m.Name, wm.Role)
					}
				}
			}
			if !ok {
				V(tag+"|missing", "query service %s has no %s method (expected %s)", real.Query.Name, wm.Role, wm.Name)
				continue
			}
			if rm.Name != wm.Name {
				V(tag+"|name", "the %s method is named %s, expected %s", wm.Role, rm.Name, wm.Name)
			}
			if wm.Role == "get" || wm.Role == "events" {
				got := entSubseq(rm.Params, primary)
				if !reflect.DeepEqual(got, append([]string{}, pkNames...)) && !(len(got) == 0 && len(pkNames) == 0) {
					if entSameSet(got, pkNames) {
						V(tag+"|path-params|order", "%s path %s has the primary keys in order %v, declared order %v", rm.Name, rm.Path, got, pkNames)
					} else if len(got) < len(pkNames) {
						V(tag+"|path-params|missing", "%s path %s has primary-key parameters %v, declared primary keys %v", rm.Name, rm.Path, got, pkNames)
					} else {
						V(tag+"|path-params|duplicate", "%s path %s has primary-key parameters %v, declared primary keys %v", rm.Name, rm.Path, got, pkNames)
					}
				}
			}
			for _, p := range rm.Params {
				if !entityKeys[p] {
					V(tag+"|path-params|not-a-key", "%s path %s has parameter %s which is not a key of the entity", rm.Name, rm.Path, p)
				} else if (wm.Role == "get" || wm.Role == "events") && !primary[p] && !shardKeys[p] {
					// "primary-key fields ... as THE path parameters of Get and Events": a key that is neither primary nor a
					// shard key (EntityKey.shard_key: "part of the URL") is no path parameter
					V(tag+"|path-params|not-primary", "%s path %s has parameter %s, a key that is neither primary nor a shard key (declared primary keys %v)", rm.Name, rm.Path, p, pkNames)
				}
			}
			if !reflect.DeepEqual(append([]string{}, rm.Params...), append([]string{}, wm.Params...)) && !(len(rm.Params) == 0 && len(wm.Params) == 0) {
				// beyond the primary keys (shard keys): the model follows EntityKey.shard_key's documentation
				if reflect.DeepEqual(entSubseq(rm.Params, primary), entSubseq(wm.Params, primary)) {
					D(tag+"|path-params|shard", "%s path parameters %v, model %v", rm.Name, rm.Params, wm.Params)
				}
			}
			if rm.Verb != wm.Verb {
				D(tag+"|verb", "%s verb %s, model %s", rm.Name, rm.Verb, wm.Verb)
			}
			if rm.Path != wm.Path {
				D(tag+"|path", "%s path %s, model %s", rm.Name, rm.Path, wm.Path)
			}
			if rm.Request != wm.Request || rm.Response != wm.Response {
				D(tag+"|messages", "%s(%s) returns %s, model %s / %s", rm.Name, rm.Request, rm.Response, wm.Request, wm.Response)
			}
		}
		if len(real.Query.Methods) != len(want.Query.Methods) {
			D("query|method-count", "query service has %d methods, model %d", len(real.Query.Methods), len(want.Query.Methods))
		}
		if real.Query.EventsInGet != want.Query.EventsInGet {
			D("query|events-in-get", "Get response has events=%v, model %v", real.Query.EventsInGet, want.Query.EventsInGet)
		}
		// mutual consistency: a default status filter must name a value of the Status enum the same expansion defines
		statusValues := map[string]bool{}
		for _, v := range real.Status {
			statusValues[v.Name] = true
		}
		dangling := false
		for _, f := range real.Query.DefaultFilters {
			if real.Schemas.Status != "" && !statusValues[f] {
				dangling = true
				V("query|default-status-filter|dangling-value", "State.status default filter %q is not a value of %s (values %v)", f, real.Schemas.Status, real.Status)
			}
		}
		if !dangling && !reflect.DeepEqual(append([]string{}, real.Query.DefaultFilters...), append([]string{}, want.Query.DefaultFilters...)) {
			D("query|default-status-filter", "State.status default filters %v, model %v", real.Query.DefaultFilters, want.Query.DefaultFilters)
		}
	}

	// --- every declared command service
	nontrivial += len(want.Commands)
	for i, wc := range want.Commands {
		var rc *entCommand
		for j := range real.Commands {
			if real.Commands[j].Name == wc.Name {
				rc = &real.Commands[j]
			}
		}
		if rc == nil {
			if len(real.Commands) == len(want.Commands) {
				V("command|name", "command service %d is named %s, expected %s", i, real.Commands[i].Name, wc.Name)
				rc = &real.Commands[i]
			} else {
				V("command|missing", "declared command service %s is not generated (state_command services: %d of %d)", wc.Name, len(real.Commands), len(want.Commands))
				continue
			}
		}
		if rc.Entity != wc.Entity {
			V("command|annotation", "command service %s is annotated with entity %q, expected %q", rc.Name, rc.Entity, wc.Entity)
		}
		rms := map[string]entCmdMethod{}
		for _, m := range rc.Methods {
			rms[m.Name] = m
		}
		for _, wm := range wc.Methods {
			rm, ok := rms[wm.Name]
			if !ok {
				V("command|method-missing", "command service %s has no method %s", rc.Name, wm.Name)
				continue
			}
			if rm.Verb != wm.Verb || rm.Path != wm.Path {
				D("command|http", "%s.%s is %s %s, model %s %s", rc.Name, rm.Name, rm.Verb, rm.Path, wm.Verb, wm.Path)
			}
		}
		if len(rc.Methods) != len(wc.Methods) {
			D("command|method-count", "%s has %d methods, declared %d", rc.Name, len(rc.Methods), len(wc.Methods))
		}
	}
	if len(real.Commands) > len(want.Commands) {
		V("command|extra", "%d services carry state_command, %d command services are declared", len(real.Commands), len(want.Commands))
	}

	// --- publish topic
	if real.Publish.Name == "" {
		V("publish-topic|missing", "no topic with the event role (expected %s)", want.Publish.Name)
	} else {
		if real.Publish.Name != want.Publish.Name {
			V("publish-topic|name", "the publish topic is named %s, expected %s", real.Publish.Name, want.Publish.Name)
		}
		if real.Publish.Entity != want.Publish.Entity {
			V("publish-topic|annotation", "publish topic %s refers to entity %q, expected %q", real.Publish.Name, real.Publish.Entity, want.Publish.Entity)
		}
		if real.Publish.Method != want.Publish.Method || real.Publish.Message != want.Publish.Message || real.Publish.TopicName != want.Publish.TopicName {
			D("publish-topic|detail", "publish topic method=%s message=%s topic_name=%s, model %s/%s/%s", real.Publish.Method, real.Publish.Message, real.Publish.TopicName,
				want.Publish.Method, want.Publish.Message, want.Publish.TopicName)
		}
	}

	// --- one upsert topic per summary
	nontrivial += len(want.Upserts)
	if len(real.Upserts) < len(want.Upserts) {
		V("upsert-topic|missing", "%d upsert topics for %d declared summaries", len(real.Upserts), len(want.Upserts))
	} else if len(real.Upserts) > len(want.Upserts) {
		V("upsert-topic|extra", "%d upsert topics for %d declared summaries", len(real.Upserts), len(want.Upserts))
	}
	for i, wu := range want.Upserts {
		var ru *entUpsert
		for j := range real.Upserts {
			if real.Upserts[j].Name == wu.Name {
				ru = &real.Upserts[j]
			}
		}
		if ru == nil {
			if i < len(real.Upserts) && len(real.Upserts) == len(want.Upserts) {
				ru = &real.Upserts[i]
				V("upsert-topic|name", "the upsert topic of summary %d is named %s, expected %s", i, ru.Name, wu.Name)
			} else {
				continue
			}
		}
		if ru.Entity != wu.Entity {
			V("upsert-topic|annotation", "upsert topic %s refers to entity %q, expected %q", ru.Name, ru.Entity, wu.Entity)
		}
		if ru.Method != wu.Method || ru.Message != wu.Message || ru.TopicName != wu.TopicName {
			D("upsert-topic|detail", "upsert topic %s method=%s message=%s topic_name=%s, model %s/%s/%s", ru.Name, ru.Method, ru.Message, ru.TopicName, wu.Method, wu.Message, wu.TopicName)
		}
		if !reflect.DeepEqual(ru.Fields, wu.Fields) {
			D("upsert-topic|fields", "upsert message %s fields %+v, model %+v", ru.Message, ru.Fields, wu.Fields)
		}
	}
	return nontrivial
}

func entCompareClient(out *Out, c *entCase, real *entExpansion, cerr error, found bool, others []string) {
	want := &c.Exp.Client
	if cerr != nil {
		msg := cerr.Error()
		// the client refusing to group the parts of the entity is C17's observable; any other failure of the
		// tool-chain on compiler output belongs to C16
		if len(c.Src.Events) == 0 && strings.Contains(msg, "must contain at least one field") {
			// an entity without events expands to an EventType message whose oneof is empty: not a valid
			// protobuf descriptor, so neither the generated .proto nor the descriptors can be read by anything
			out.V("C17|client|unavailable|events=0|empty-oneof", "entity %s declares no event: the generated %s has an empty oneof, which no protobuf reader accepts; no client API can be derived: %s",
				c.Src.Name, c.Exp.Schemas.EventType, entFirstLine(msg))
		} else if strings.Contains(msg, "unknown enum value") && entHasViol(out, "C17|query|default-status-filter|dangling-value") {
			// consequence of the dangling default status filter reported above
			out.Note += "\nclient API unavailable: " + entFirstLine(msg)
		} else if strings.Contains(msg, "entity") {
			out.V("C17|client|entity-error", "client API: %s", entFirstLine(msg))
		} else {
			out.D("C17|client|unavailable|"+entErrClass(msg), "client API could not be built: %s", msg)
		}
		return
	}
	if !found {
		out.V("C17|client|entity-missing", "the client API has no state entity for %s (found %v)", want.Name, others)
		return
	}
	rc := &real.Client
	if rc.Name != want.Name {
		out.V("C17|client|name", "client state entity is named %q, expected %q", rc.Name, want.Name)
	}
	if len(others) > 0 {
		out.V("C17|client|split", "the parts of one entity are grouped into several state entities: %s and %v", rc.Name, others)
	}
	eq := func(a, b []string) bool {
		return (len(a) == 0 && len(b) == 0) || reflect.DeepEqual(a, b)
	}
	if !eq(rc.PrimaryKey, want.PrimaryKey) {
		out.V("C17|client|primary-key", "client primary key %v, declared primary keys in order %v", rc.PrimaryKey, want.PrimaryKey)
	}
	if !eq(rc.Events, want.Events) {
		if entSameSet(rc.Events, want.Events) {
			out.D("C17|client|events-order", "client events %v, declared %v", rc.Events, want.Events)
		} else {
			out.V("C17|client|events", "client events %v, declared events %v", rc.Events, want.Events)
		}
	}
	if !eq(rc.Query, want.Query) {
		if entSameSet(rc.Query, want.Query) {
			out.D("C17|client|query-order", "client query methods %v, model %v", rc.Query, want.Query)
		} else {
			out.V("C17|client|query", "client query service methods %v, expected %v", rc.Query, want.Query)
		}
	}
	if !entSameSet(rc.Commands, want.Commands) {
		out.V("C17|client|commands", "client command services %v, declared %v", rc.Commands, want.Commands)
	} else if !eq(rc.Commands, want.Commands) {
		out.D("C17|client|commands-order", "client command services %v, declared %v", rc.Commands, want.Commands)
	}
}

var _ = fmt.Sprintf
