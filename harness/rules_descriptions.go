package main

import (
	"encoding/json"
	"sort"
	"strings"

	"github.com/bufbuild/protocompile/linker"
	"github.com/pentops/j5/gen/j5/schema/v1/schema_j5pb"
	"github.com/pentops/j5/lib/j5schema"
	"google.golang.org/protobuf/reflect/protoreflect"
	"google.golang.org/protobuf/reflect/protoregistry"
)

func init() { register("rules-descriptions", rulesDescriptionsDriver) }

// rules-descriptions (C04, clause "descriptions"): a j5s file in which every describable element carries a description
// of its own is compiled and reflected (from the descriptors and from the printed text); the descriptions found on
// the reflected objects, oneofs, enums, properties and enum options are compared with the ones the source declares.
// The expected map is read off the SOURCE text by a small indentation scanner, not written by hand.
func rulesDescriptionsDriver(raw json.RawMessage) *Out {
	var c struct {
		Files map[string]string `json:"files"`
	}
	if err := json.Unmarshal(raw, &c); err != nil || len(c.Files) != 1 {
		return &Out{Skip: "bad case"}
	}
	out := &Out{Nontrivial: true}
	var name, text string
	for n, t := range c.Files {
		name, text = n, t
	}
	out.Key = "descriptions|" + text
	want := descDeclared(text)
	res, _, err := compileBundle(newMemFiles(c.Files), nil)
	if err != nil {
		out.Skip = "does not compile: " + err.Error()
		return out
	}
	var fd linker.File
	for _, files := range res {
		for _, f := range files {
			if strings.HasPrefix(f.Path(), strings.TrimSuffix(name, ".j5s")) {
				fd = f
			}
		}
	}
	if fd == nil {
		return &Out{Skip: "no compiled file"}
	}
	check := func(src string, f protoreflect.FileDescriptor) {
		files := &protoregistry.Files{}
		rlRegisterWithDeps(files, f)
		ss, err := j5schema.SchemaSetFromFiles(files, func(x protoreflect.FileDescriptor) bool { return x.Path() == f.Path() })
		if err != nil {
			out.V("C04|descriptions|reflect-error|"+src, "reflecting the compiled file fails: %v", err)
			return
		}
		got := map[string]string{}
		for _, pkg := range ss.Packages {
			for _, ref := range pkg.Schemas {
				if ref.To != nil {
					descCollect(ref.To.ToJ5Root(), got)
				}
			}
		}
		var keys []string
		for k := range want {
			keys = append(keys, k)
		}
		sort.Strings(keys)
		for _, k := range keys {
			if norm(got[k]) != norm(want[k]) {
				kind := "changed"
				if got[k] == "" {
					kind = "lost"
				}
				out.V("C04|descriptions|"+kind+"|"+descClass(k)+"|"+src, "%s: the source declares the description %q, the reflected schema (%s) has %q", k, want[k], src, got[k])
			}
		}
	}
	check("memory", fd)
	if printed, perr := printFile(fd); perr == nil {
		if tfd, terr := rlParseText(fd.Path(), printed); terr == nil {
			check("text", tfd)
		}
	}
	out.Obs = map[string]any{"declared": len(want)}
	return out
}

func norm(s string) string { return strings.Join(strings.Fields(s), " ") }

// descClass: the kind of element, for the signature (enum option / property / type)
func descClass(k string) string {
	switch {
	case strings.Contains(k, "#"):
		return "enum-option"
	case strings.Contains(k, "."):
		return "property"
	}
	return "type"
}

// descCollect records the descriptions of a root schema: "<Type>", "<Type>.<property>", "<Enum>#<OPTION>"
func descCollect(rs *schema_j5pb.RootSchema, got map[string]string) {
	switch t := rs.Type.(type) {
	case *schema_j5pb.RootSchema_Object:
		got[t.Object.Name] = t.Object.Description
		for _, p := range t.Object.Properties {
			got[t.Object.Name+"."+p.Name] = p.Description
		}
	case *schema_j5pb.RootSchema_Oneof:
		got[t.Oneof.Name] = t.Oneof.Description
		for _, p := range t.Oneof.Properties {
			got[t.Oneof.Name+"."+p.Name] = p.Description
		}
	case *schema_j5pb.RootSchema_Enum:
		got[t.Enum.Name] = t.Enum.Description
		for _, o := range t.Enum.Options {
			got[t.Enum.Name+"#"+strings.TrimPrefix(o.Name, t.Enum.Prefix)] = o.Description
		}
	}
}

// descDeclared reads the declared descriptions off the j5s text. Types nest by name (Parcel, Parcel_Size: the name of an
// inline type is the camel-cased field name inside its parent); a "| text" line describes the innermost open element.
func descDeclared(text string) map[string]string {
	type frame struct {
		key      string // key of the element itself
		typeName string // name of the type whose members are declared inside ("" if none)
	}
	want := map[string]string{}
	var stack []frame
	camel := func(s string) string { return strings.ToUpper(s[:1]) + s[1:] }
	for _, line := range strings.Split(text, "\n") {
		l := strings.TrimSpace(line)
		switch {
		case l == "}":
			if len(stack) > 0 {
				stack = stack[:len(stack)-1]
			}
		case strings.HasPrefix(l, "| "):
			if len(stack) > 0 {
				k := stack[len(stack)-1].key
				want[k] = strings.TrimSpace(want[k] + " " + strings.TrimPrefix(l, "| "))
			}
		case strings.HasSuffix(l, "{"):
			f := strings.Fields(strings.TrimSuffix(l, "{"))
			parentType := ""
			if len(stack) > 0 {
				parentType = stack[len(stack)-1].typeName
			}
			switch f[0] {
			case "object", "oneof", "enum":
				stack = append(stack, frame{key: f[1], typeName: f[1]})
			case "field", "option":
				if len(f) >= 3 { // field <name> <type> / option <name> object
					inner := ""
					if f[2] == "object" || f[2] == "oneof" || f[2] == "enum" {
						inner = parentType + "_" + camel(f[1])
					}
					key := parentType + "." + f[1]
					stack = append(stack, frame{key: key, typeName: inner})
				} else { // enum option
					stack = append(stack, frame{key: parentType + "#" + f[1], typeName: ""})
				}
			default:
				stack = append(stack, frame{key: "?" + l})
			}
		}
	}
	for k := range want {
		if strings.HasPrefix(k, "?") {
			delete(want, k)
		}
	}
	return want
}
