package main

// C01/C03/C06/C08 (J5 JSON wire format): shared vocabulary between spec/J5Wire.tla and the Go drivers.
//
// The model works on abstract trees with named atoms; this file is the trusted, literal
// concretiser: for every (kind, atom) the protobuf value and the canonical J5 JSON lexeme, and for
// every documented alternate spelling ("form") the lexeme of that spelling.

import (
	"encoding/base64"
	"encoding/json"
	"fmt"
	"math"
	"strings"
)

// ---- schema tree (emitted by the model) ----

type wSch struct {
	T     string  `json:"t"`    // leaf | obj | oneof | any
	Kind  string  `json:"kind"` // leaf: scalar kind or "enum"
	Fl    string  `json:"fl"`   // any: "j5" | "pb"
	Name  string  `json:"name"` // obj/oneof: type name
	Props []wProp `json:"props"`
}

type wProp struct {
	Name string `json:"name"` // JSON name (lowerCamel); proto name is its snake_case
	Card string `json:"card"` // one | opt | arr | map
	Flat bool   `json:"flat"` // flattened object
	Exp  bool   `json:"exp"`  // exposed proto oneof (fields live on the parent message)
	Sch  wSch   `json:"sch"`
}

// ---- value tree ----

type wVal struct {
	T  string `json:"t"` // atom | obj | oneof | arr | map | any | reject | unset
	A  string `json:"a"`
	M  []wKV  `json:"m"`
	S  []wVal `json:"s"`
	Tn string `json:"tn"`
}

type wKV struct {
	K string `json:"k"`
	V wVal   `json:"v"`
}

// ---- abstract JSON tree ----

type wJ struct {
	J    string `json:"j"` // obj | arr | str | num | bool | null
	Kind string `json:"kind"`
	A    string `json:"a"`
	F    string `json:"f"`
	M    []wJKV `json:"m"`
	S    []wJ   `json:"s"`
}

type wJKV struct {
	K string `json:"k"`
	V wJ     `json:"v"`
}

// ---- atoms ----

// wAtom: one named value of a scalar kind. canon is the canonical J5 JSON lexeme *text* (for strings:
// the decoded string value; the serialiser does the quoting/escaping), jt its JSON type.
type wAtom struct {
	jt    string // str | num | bool
	canon string
	// protobuf-side value
	i64     int64
	u64     uint64
	f64     float64
	str     string
	by      []byte
	sec     int64
	nanos   int32
	y, m, d int32
	val     bool              // has a protobuf value (false: lexeme-only fault atom)
	good    bool              // representable in the documented wire format (C01/C03 space); false: fault / C08-only atom
	zero    bool              // proto3 zero value (no presence without `optional`)
	alt     map[string]string // form -> text for forms that cannot be derived mechanically (timestamps)
}

var wireAtoms = map[string]map[string]*wAtom{}

func wxIa(v int64, good bool) *wAtom {
	return &wAtom{jt: "num", canon: fmt.Sprintf("%d", v), i64: v, u64: uint64(v), good: good, zero: v == 0, val: true}
}
func wxUa(v uint64, good bool) *wAtom {
	return &wAtom{jt: "num", canon: fmt.Sprintf("%d", v), u64: v, i64: int64(v), good: good, zero: v == 0, val: true}
}
func wxFa(v float64, canon string, good bool) *wAtom {
	return &wAtom{jt: "num", canon: canon, f64: v, good: good, zero: v == 0 && !math.Signbit(v), val: true}
}
func wxSa(v string) *wAtom {
	return &wAtom{jt: "str", canon: v, str: v, good: true, zero: v == "", val: true}
}
func wxLongBytes(n int) []byte {
	b := make([]byte, n)
	for i := range b {
		b[i] = byte(i*7 + 251)
	}
	return b
}

func wxBa(b ...byte) *wAtom {
	return &wAtom{jt: "str", canon: base64.StdEncoding.EncodeToString(b), by: b, good: true, zero: len(b) == 0, val: true}
}
func wxTa(sec int64, nanos int32, canon string, alt map[string]string) *wAtom {
	return &wAtom{jt: "str", canon: canon, sec: sec, nanos: nanos, good: true, alt: alt, val: true}
}
func wxDa(y, m, d int32, canon string, good bool) *wAtom {
	return &wAtom{jt: "str", canon: canon, y: y, m: m, d: d, good: good, val: true}
}
func wxDca(v string) *wAtom { return &wAtom{jt: "str", canon: v, str: v, good: true, val: true} }

// raw lexeme atoms used only as injected faults (never built into a message)
func wxJunk(jt, text string) *wAtom { return &wAtom{jt: jt, canon: text, good: false} }

func init() {
	wireAtoms["int32"] = map[string]*wAtom{
		"min": wxIa(math.MinInt32, true), "m1": wxIa(-1, true), "zero": wxIa(0, true), "one": wxIa(1, true), "max": wxIa(math.MaxInt32, true),
		"over": wxJunk("num", "2147483648"), "under": wxJunk("num", "-2147483649"), "frac": wxJunk("num", "1.5"), "junk": wxJunk("num", "abc"), "empty": wxJunk("num", ""),
	}
	wireAtoms["int64"] = map[string]*wAtom{
		"min": wxIa(math.MinInt64, true), "m1": wxIa(-1, true), "zero": wxIa(0, true), "big53": wxIa(9007199254740993, true), "max": wxIa(math.MaxInt64, true),
		"over": wxJunk("num", "9223372036854775808"), "under": wxJunk("num", "-9223372036854775809"), "frac": wxJunk("num", "1.5"), "junk": wxJunk("num", "abc"), "empty": wxJunk("num", ""),
	}
	wireAtoms["uint32"] = map[string]*wAtom{
		"zero": wxUa(0, true), "one": wxUa(1, true), "max": wxUa(math.MaxUint32, true),
		"over": wxJunk("num", "4294967296"), "under": wxJunk("num", "-1"), "frac": wxJunk("num", "1.5"), "junk": wxJunk("num", "abc"), "empty": wxJunk("num", ""),
	}
	wireAtoms["uint64"] = map[string]*wAtom{
		"zero": wxUa(0, true), "one": wxUa(1, true), "big63": wxUa(1<<63, true), "max": wxUa(math.MaxUint64, true),
		"over": wxJunk("num", "18446744073709551616"), "under": wxJunk("num", "-1"), "frac": wxJunk("num", "1.5"), "junk": wxJunk("num", "abc"), "empty": wxJunk("num", ""),
	}
	wireAtoms["float32"] = map[string]*wAtom{
		"zero": wxFa(0, "0", true), "negzero": wxFa(math.Copysign(0, -1), "-0", true), "onehalf": wxFa(1.5, "1.5", true), "tiny": wxFa(float64(float32(1e-7)), "1e-07", true),
		"neg": wxFa(-2.25, "-2.25", true), "max": wxFa(math.MaxFloat32, "3.4028235e+38", true),
		"nan": wxFa(math.NaN(), "NaN", false), "pinf": wxFa(math.Inf(1), "+Inf", false), "ninf": wxFa(math.Inf(-1), "-Inf", false),
		"over": wxJunk("num", "1e39"), "junk": wxJunk("num", "abc"), "empty": wxJunk("num", ""),
	}
	wireAtoms["float64"] = map[string]*wAtom{
		"zero": wxFa(0, "0", true), "negzero": wxFa(math.Copysign(0, -1), "-0", true), "onehalf": wxFa(1.5, "1.5", true), "tiny": wxFa(1e-7, "1e-07", true),
		"tenth": wxFa(0.1, "0.1", true), "e21": wxFa(1e21, "1e+21", true), "max": wxFa(math.MaxFloat64, "1.7976931348623157e+308", true),
		"nan": wxFa(math.NaN(), "NaN", false), "pinf": wxFa(math.Inf(1), "+Inf", false), "ninf": wxFa(math.Inf(-1), "-Inf", false),
		"over": wxJunk("num", "1e400"), "junk": wxJunk("num", "abc"), "empty": wxJunk("num", ""),
	}
	wireAtoms["string"] = map[string]*wAtom{
		"zero": wxSa(""), "ascii": wxSa("hello"), "esc": wxSa("q\"uo\\te/"), "ctrl": wxSa("\x01\n\t\r\b\f\x7f\v\x00\x1f\x1b\x0e"), "nonbmp": wxSa("\U0001F600é "), "html": wxSa("<a&b>'"),
	}
	wireAtoms["key"] = map[string]*wAtom{
		"zero": wxSa(""), "id62": wxSa("0123456789abcdefghijAB"), "uuid": wxSa("123e4567-e89b-12d3-a456-426614174000"),
	}
	wireAtoms["bool"] = map[string]*wAtom{
		"false": {jt: "bool", canon: "false", good: true, zero: true, val: true}, "true": {jt: "bool", canon: "true", i64: 1, good: true, val: true},
	}
	wireAtoms["bytes"] = map[string]*wAtom{
		"zero": wxBa(), "len1": wxBa(0xfb), "len2": wxBa(0xfb, 0xff), "len3": wxBa(0xfb, 0xff, 0xfe), "len4": wxBa(0, 0x10, 0x83, 0x3f),
		"len257": wxBa(wxLongBytes(257)...), "len1000": wxBa(wxLongBytes(1000)...),
		"bad": wxJunk("str", "!!!!"), "badlen": wxJunk("str", "A"),
		"overpad": wxJunk("str", "QUJD="), "overpad2": wxJunk("str", "QUI=="), "overpadurl": wxJunk("str", "-_A=="), "onlypad": wxJunk("str", "===="),
	}
	wireAtoms["timestamp"] = map[string]*wAtom{
		"epoch":   wxTa(0, 0, "1970-01-01T00:00:00Z", map[string]string{"plus": "1970-01-01T05:30:00+05:30", "minus": "1969-12-31T16:00:00-08:00"}),
		"nanos":   wxTa(1709210096, 123456789, "2024-02-29T12:34:56.123456789Z", map[string]string{"plus": "2024-02-29T18:04:56.123456789+05:30", "minus": "2024-02-29T04:34:56.123456789-08:00"}),
		"pre1970": wxTa(-1, 500000000, "1969-12-31T23:59:59.5Z", map[string]string{"plus": "1970-01-01T05:29:59.5+05:30", "minus": "1969-12-31T15:59:59.5-08:00"}),
		"y0001":   wxTa(-62135596800, 0, "0001-01-01T00:00:00Z", map[string]string{"plus": "0001-01-01T05:30:00+05:30", "minus": "0001-01-01T00:00:00Z"}),
		"y9999":   wxTa(253402300799, 0, "9999-12-31T23:59:59Z", map[string]string{"plus": "9999-12-31T23:59:59Z", "minus": "9999-12-31T15:59:59-08:00"}),
		"bad":     wxJunk("str", "yesterday"), "dateonly": wxJunk("str", "2024-02-29"),
	}
	wireAtoms["date"] = map[string]*wAtom{
		"d0001": wxDa(1, 1, 1, "0001-01-01", true), "d0999": wxDa(999, 12, 31, "0999-12-31", true), "leap": wxDa(2024, 2, 29, "2024-02-29", true), "leap400": wxDa(2000, 2, 29, "2000-02-29", true), "d9999": wxDa(9999, 12, 31, "9999-12-31", true),
		// C08 well-formedness only (outside the representable range)
		"y0": wxDa(0, 0, 0, "0000-00-00", false), "y10000": wxDa(10000, 1, 1, "10000-01-01", false),
		"bad": wxJunk("str", "hello"), "badcal": wxJunk("str", "2024-02-30"), "badleap100": wxJunk("str", "2100-02-29"), "badleap": wxJunk("str", "2023-02-29"),
		"badmonth": wxJunk("str", "2024-13-01"), "badday0": wxJunk("str", "2024-06-00"), "badparts": wxJunk("str", "2024-02"),
	}
	wireAtoms["decimal"] = map[string]*wAtom{
		"zero": wxDca("0"), "neg": wxDca("-1.50"), "big": wxDca("123456789012345678901234567890.5"), "small": wxDca("0.000001"), "exp": wxDca("1e3"), "int": wxDca("42"),
		"bad": wxJunk("str", "1.2.3"), "junk": wxJunk("str", "abc"), "empty": wxJunk("str", ""),
	}
	wireAtoms["enum"] = map[string]*wAtom{
		"unspec": {jt: "str", canon: "UNSPECIFIED", i64: 0, good: true, zero: true, val: true}, "red": {jt: "str", canon: "RED", i64: 1, good: true, val: true}, "green": {jt: "str", canon: "GREEN", i64: 2, good: true, val: true},
		// an option whose name ENDS in the name of an earlier option (INFRARED / RED)
		"infra": {jt: "str", canon: "INFRARED", i64: 3, good: true, val: true},
		"nope":  wxJunk("str", "NOPE"), "pnope": wxJunk("str", "COLOR_NOPE"), "lower": wxJunk("str", "red"),
		// unknown names made of the prefix, something else, and the name of an option at the end (or twice the prefix)
		"ptail": wxJunk("str", "COLOR_NOT_RED"), "pdouble": wxJunk("str", "COLOR_COLOR_RED"), "ptailzero": wxJunk("str", "COLOR_RED_UNSPECIFIED"),
		"tailonly": wxJunk("str", "NOT_RED"),
	}
	// generic wrong-type replacement leaves (kind "x")
	wireAtoms["x"] = map[string]*wAtom{
		"true": {jt: "bool", canon: "true"}, "one": {jt: "num", canon: "1"}, "text": {jt: "str", canon: "x"}, "strtrue": {jt: "str", canon: "true"}, "strone": {jt: "str", canon: "1"},
	}
	// literal strings (oneof arm names, type names): kind "lit", atom = the text itself
}

const wireEnumPrefix = "COLOR_"

// wireLexeme gives the JSON type and text of a model leaf. For strings the text is the *decoded* value.
func wireLexeme(kind, atom, form string) (jt, text string, err error) {
	if kind == "lit" {
		return "str", atom, nil
	}
	tab, ok := wireAtoms[kind]
	if !ok {
		return "", "", fmt.Errorf("unknown kind %q", kind)
	}
	a, ok := tab[atom]
	if !ok {
		return "", "", fmt.Errorf("unknown atom %s/%s", kind, atom)
	}
	jt, text = a.jt, a.canon
	switch form {
	case "", "canon":
		switch kind {
		case "int64", "uint64":
			jt = "str"
		}
	case "bare":
		jt = "num"
	case "quoted":
		jt = "str"
	case "stdpad":
	case "stdnopad":
		text = strings.TrimRight(text, "=")
	case "urlpad":
		text = strings.NewReplacer("+", "-", "/", "_").Replace(text)
	case "urlnopad":
		text = strings.TrimRight(strings.NewReplacer("+", "-", "/", "_").Replace(text), "=")
	case "short":
	case "prefixed":
		text = wireEnumPrefix + text
	case "utc":
	case "plus", "minus":
		if a.alt == nil || a.alt[form] == "" {
			return "", "", fmt.Errorf("no %s spelling for %s/%s", form, kind, atom)
		}
		text = a.alt[form]
	default:
		return "", "", fmt.Errorf("unknown form %q", form)
	}
	return jt, text, nil
}

func wxSnakeOf(lowerCamel string) string {
	var sb strings.Builder
	for i, r := range lowerCamel {
		if r >= 'A' && r <= 'Z' {
			if i > 0 {
				sb.WriteByte('_')
			}
			sb.WriteRune(r - 'A' + 'a')
		} else {
			sb.WriteRune(r)
		}
	}
	return sb.String()
}

// ---- marshalling with exactly the model's record shapes (trace events are compared with model records) ----

func (n wSch) MarshalJSON() ([]byte, error) {
	switch n.T {
	case "leaf":
		return json.Marshal(map[string]any{"t": n.T, "kind": n.Kind})
	case "any":
		return json.Marshal(map[string]any{"t": n.T, "fl": n.Fl})
	}
	props := n.Props
	if props == nil {
		props = []wProp{}
	}
	return json.Marshal(map[string]any{"t": n.T, "name": n.Name, "props": props})
}

func (v wVal) MarshalJSON() ([]byte, error) {
	switch v.T {
	case "atom", "any":
		return json.Marshal(map[string]any{"t": v.T, "a": v.A})
	case "arr":
		s := v.S
		if s == nil {
			s = []wVal{}
		}
		return json.Marshal(map[string]any{"t": v.T, "s": s})
	case "obj", "oneof", "map":
		m := v.M
		if m == nil {
			m = []wKV{}
		}
		return json.Marshal(map[string]any{"t": v.T, "m": m})
	}
	return json.Marshal(map[string]any{"t": v.T})
}

func (j wJ) MarshalJSON() ([]byte, error) {
	switch j.J {
	case "obj":
		m := j.M
		if m == nil {
			m = []wJKV{}
		}
		return json.Marshal(map[string]any{"j": j.J, "m": m})
	case "arr":
		s := j.S
		if s == nil {
			s = []wJ{}
		}
		return json.Marshal(map[string]any{"j": j.J, "s": s})
	case "str", "num", "bool":
		return json.Marshal(map[string]any{"j": j.J, "kind": j.Kind, "a": j.A, "f": j.F})
	}
	return json.Marshal(map[string]any{"j": j.J})
}
