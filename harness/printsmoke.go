package main

import (
	"context"
	"encoding/json"
	"os"

	"github.com/bufbuild/protocompile"
	"github.com/pentops/j5/internal/protosrc"
)

func init() { register("print-tree", printTree) }

// print-tree: {"root": dir, "file": name} -> printed text of one hand-written proto file (development aid)
func printTree(raw json.RawMessage) *Out {
	var c struct{ Root, File string }
	_ = json.Unmarshal(raw, &c)
	resolver := protocompile.CompositeResolver{protosrc.NewFSResolver(os.DirFS(c.Root)), protosrc.BuiltinResolver, noMoreDeps{}}
	linked, err := protosrc.NewCompiler(resolver).CompileToLinkers(context.Background(), []string{c.File})
	if err != nil {
		return &Out{Note: err.Error()}
	}
	t, err := printFile(linked[0])
	if err != nil {
		return &Out{Note: err.Error()}
	}
	return &Out{Obs: t}
}
