package main

// BCL text family: C11 (parser total, diagnostics inside the file), C09 (formatter preserves meaning,
// idempotent, parseable), C19 (editor edits well-formed and equal to the formatter).
// The property predicates below are evaluated on real observations only.

import (
	"encoding/json"
	"fmt"
	"strings"
	"unicode"
	"unicode/utf8"

	"github.com/pentops/j5/internal/bcl/errpos"
	"github.com/pentops/j5/internal/bcl/internal/parser"
)

// ---------- positions ----------

type lineIndex struct {
	runeLens []int // rune length of each line (without its newline)
}

func newLineIndex(input string) *lineIndex {
	li := &lineIndex{}
	for _, l := range strings.Split(input, "\n") {
		li.runeLens = append(li.runeLens, utf8.RuneCountInString(l))
	}
	return li
}

// a point is inside the file when its line exists and its column is within the line, where the column
// just past the last rune (the newline / EOF position) is allowed
func (li *lineIndex) inside(p errpos.Point) bool {
	if p.Line < 0 || p.Line >= len(li.runeLens) {
		return false
	}
	return p.Column >= 0 && p.Column <= li.runeLens[p.Line]
}

func pointLE(a, b errpos.Point) bool {
	return a.Line < b.Line || (a.Line == b.Line && a.Column <= b.Column)
}

func posClass(li *lineIndex, start, end errpos.Point) string {
	switch {
	case !li.inside(start):
		return "start-outside"
	case !li.inside(end):
		return "end-outside"
	case !pointLE(start, end):
		return "start-after-end"
	}
	return ""
}

// ---------- C11 ----------

type diag struct {
	Msg        string
	Start, End errpos.Point
	HasPos     bool
}

type parseObs struct {
	tree  *parser.File
	diags []diag
	other string // non-diagnostic error
	human string
}

func parseOnce(input string, failFast bool) parseObs {
	var o parseObs
	tree, err := parser.ParseFile(input, failFast)
	if err == nil {
		o.tree = tree
		return o
	}
	ews, ok := errpos.AsErrorsWithSource(err)
	if !ok {
		o.other = err.Error()
		return o
	}
	for _, e := range ews.Errors {
		d := diag{}
		if e.Err != nil {
			d.Msg = e.Err.Error()
		}
		if e.Pos != nil {
			d.HasPos = true
			d.Start, d.End = e.Pos.Start, e.Pos.End
		}
		o.diags = append(o.diags, d)
	}
	o.human = ews.HumanString(2) // a panic here is caught by the worker: "rendering never fails"
	return o
}

// nodeVisitor walks every node of a syntax tree that carries a source position
func visitNodes(body parser.Body, f func(kind string, sn parser.SourceNode)) {
	var visitValue func(kind string, v parser.Value)
	visitValue = func(kind string, v parser.Value) {
		f(kind, v.SourceNode)
		if arr, ok := v.AsArray(); ok {
			for _, el := range arr {
				if ev, ok := el.(parser.Value); ok {
					visitValue("array-element", ev)
				}
			}
		}
	}
	visitRef := func(kind string, r parser.Reference) {
		f(kind, r.SourceNode)
		for _, id := range r.Idents {
			f(kind+"-ident", id.SourceNode)
		}
	}
	visitTag := func(kind string, t parser.TagValue) {
		f(kind, t.SourceNode)
		if t.Reference != nil {
			visitRef(kind+"-ref", *t.Reference)
		}
		if t.Value != nil {
			visitValue(kind+"-value", *t.Value)
		}
	}
	for _, st := range body.Statements {
		switch s := st.(type) {
		case *parser.Block:
			hk := "block-header"
			if s.Comment != nil {
				hk = "block-header-with-trailing-comment"
			}
			f(hk, s.BlockHeader.SourceNode)
			visitRef("block-type", s.Type)
			for _, t := range s.Tags {
				visitTag("tag", t)
			}
			for _, t := range s.Qualifiers {
				visitTag("qualifier", t)
			}
			if s.Description != nil {
				f("header-description", s.Description.SourceNode)
			}
			if s.Comment != nil {
				f("trailing-comment", s.Comment.SourceNode)
			}
			visitNodes(s.Body, f)
		case *parser.Assignment:
			f("assignment", s.SourceNode)
			visitRef("assignment-key", s.Key)
			visitValue("assignment-value", s.Value)
			if s.Comment != nil {
				f("trailing-comment", s.Comment.SourceNode)
			}
		case *parser.Description:
			f("description", s.SourceNode)
		default:
			f(fmt.Sprintf("%T", st), st.Source())
		}
	}
}

// c11Law evaluates property C11 on one input. sigCtx qualifies signatures (e.g. the model's case class).
func c11Law(input string, out *Out) (ff, ca parseObs) {
	li := newLineIndex(input)
	ff = parseOnce(input, true)
	ca = parseOnce(input, false)
	for _, m := range []struct {
		name string
		o    parseObs
	}{{"fail-fast", ff}, {"collect-all", ca}} {
		o := m.o
		if o.other != "" {
			out.V("C11|non-diagnostic-error|"+m.name, "ParseFile(%q, %s) returned an error without diagnostics: %s", input, m.name, o.other)
			continue
		}
		if o.tree == nil && len(o.diags) == 0 {
			out.V("C11|neither-tree-nor-diagnostics|"+m.name, "ParseFile(%q, %s) returned no tree and an empty diagnostic list", input, m.name)
		}
		for i, d := range o.diags {
			if !d.HasPos {
				out.V("C11|diagnostic-without-position|"+m.name, "diagnostic %d %q of %q has no position", i, d.Msg, input)
				continue
			}
			if c := posClass(li, d.Start, d.End); c != "" {
				out.V("C11|diagnostic-position|"+c+"|"+diagClass(d.Msg), "diagnostic %q of %q (%s) is at %v-%v", d.Msg, input, m.name, d.Start, d.End)
			}
		}
		if o.tree != nil {
			visitNodes(o.tree.Body, func(kind string, sn parser.SourceNode) {
				if c := posClass(li, sn.Start, sn.End); c != "" {
					out.V("C11|node-position|"+kind+"|"+c, "%s node of %q (%s) spans %v-%v", kind, input, m.name, sn.Start, sn.End)
				}
			})
		}
	}
	// collect-all reports the fail-fast diagnostic first; both modes agree on success
	if ff.other == "" && ca.other == "" {
		if (ff.tree != nil) != (ca.tree != nil) {
			out.V("C11|modes-disagree", "fail-fast tree=%v collect-all tree=%v for %q", ff.tree != nil, ca.tree != nil, input)
		} else if len(ff.diags) > 0 && len(ca.diags) > 0 {
			a, b := ff.diags[0], ca.diags[0]
			if a.Msg != b.Msg || a.Start != b.Start || a.End != b.End {
				out.V("C11|first-diagnostic-differs", "fail-fast reports %q at %v, collect-all first reports %q at %v for %q", a.Msg, a.Start, b.Msg, b.Start, input)
			}
		}
	}
	return ff, ca
}

func diagClass(msg string) string {
	switch {
	case strings.HasPrefix(msg, "unexpected character"):
		return "unexpected-character"
	case strings.HasPrefix(msg, "unexpected EOF"):
		return "unexpected-eof"
	case strings.HasPrefix(msg, "unexpected EOL"):
		return "unexpected-eol"
	case strings.HasPrefix(msg, "invalid escape"):
		return "invalid-escape"
	case strings.HasPrefix(msg, "unexpected second dot"):
		return "second-dot"
	case strings.HasPrefix(msg, "unexpected close block"):
		return "unexpected-close"
	case strings.HasPrefix(msg, "unclosed block"):
		return "unclosed-block"
	case strings.HasPrefix(msg, "unexpected EOF,"), strings.HasPrefix(msg, "unexpected "):
		return "unexpected-token"
	}
	return "other"
}

// ---------- position-free trees (C09) ----------

type pfNode struct {
	Kind     string   `json:"kind"`
	Head     string   `json:"head,omitempty"`
	Tags     []string `json:"tags,omitempty"`
	Quals    []string `json:"quals,omitempty"`
	Desc     []string `json:"desc,omitempty"` // paragraphs of space-joined words
	Comment  string   `json:"comment,omitempty"`
	HasCmt   bool     `json:"has_comment,omitempty"`
	Value    string   `json:"value,omitempty"`
	Append   bool     `json:"append,omitempty"`
	Children []pfNode `json:"children,omitempty"`
}

func descParagraphs(s string) []string {
	var paras []string
	cur := []string{}
	flush := func() {
		if len(cur) > 0 {
			paras = append(paras, strings.Join(cur, " "))
			cur = []string{}
		}
	}
	for _, line := range strings.Split(s, "\n") {
		if strings.TrimSpace(line) == "" {
			flush()
			continue
		}
		cur = append(cur, strings.Fields(line)...)
	}
	flush()
	return paras
}

func tagPF(t parser.TagValue) string {
	mark := ""
	switch t.Mark {
	case parser.TagMarkBang:
		mark = "!"
	case parser.TagMarkQuestion:
		mark = "?"
	}
	if t.Reference != nil {
		return mark + "ref:" + t.Reference.String()
	}
	if t.Value != nil {
		return mark + t.Value.GoString()
	}
	return mark + "<nil>"
}

func positionFree(body parser.Body) []pfNode {
	var out []pfNode
	for _, st := range body.Statements {
		switch s := st.(type) {
		case *parser.Block:
			n := pfNode{Kind: "block", Head: s.Type.String()}
			for _, t := range s.Tags {
				n.Tags = append(n.Tags, tagPF(t))
			}
			for _, t := range s.Qualifiers {
				n.Quals = append(n.Quals, tagPF(t))
			}
			if s.Description != nil {
				n.Desc = descParagraphs(s.Description.Value)
				if n.Desc == nil {
					n.Desc = []string{}
				}
			}
			if s.Comment != nil {
				n.HasCmt, n.Comment = true, s.Comment.Value
			}
			if s.Open {
				n.Kind = "open-block"
				n.Children = positionFree(s.Body)
			}
			out = append(out, n)
		case *parser.Assignment:
			n := pfNode{Kind: "assign", Head: s.Key.String(), Value: s.Value.GoString(), Append: s.Append}
			if s.Comment != nil {
				n.HasCmt, n.Comment = true, s.Comment.Value
			}
			out = append(out, n)
		case *parser.Description:
			out = append(out, pfNode{Kind: "description", Desc: descParagraphs(s.Value)})
		default:
			out = append(out, pfNode{Kind: fmt.Sprintf("%T", st)})
		}
	}
	return out
}

// comment tokens of a source text (comments are not part of the File tree)
func commentLits(input string) ([]string, bool) {
	toks, ok, err := parser.NewLexer(input).AllTokens(true)
	if err != nil || !ok {
		return nil, false
	}
	var out []string
	for _, t := range toks {
		if t.Type == parser.COMMENT || t.Type == parser.BLOCK_COMMENT {
			out = append(out, t.Type.String()+":"+t.Lit)
		}
	}
	return out, true
}

func jsonOf(v any) string {
	b, _ := json.Marshal(v)
	return string(b)
}

// c09Law evaluates property C09 on one input (no-op when the parser rejects it). cls is a short class
// name for the construct the case focuses on; it qualifies signatures so findings are specific.
func c09Law(input, cls string, out *Out) (formatted string, applicable bool) {
	tree, err := parser.ParseFile(input, true)
	if err != nil || tree == nil {
		return "", false
	}
	out.Nontrivial = true
	f1, err := parser.Fmt(input)
	if err != nil {
		out.V("C09|fmt-rejects-accepted-source|"+cls, "parser accepts %q but Fmt fails: %v", input, err)
		return "", true
	}
	tree2, err := parser.ParseFile(f1, true)
	if err != nil || tree2 == nil {
		out.V("C09|output-not-parseable|"+cls, "Fmt(%q) = %q which the parser rejects: %v", input, f1, err)
		return f1, true
	}
	a, b := jsonOf(positionFree(tree.Body)), jsonOf(positionFree(tree2.Body))
	if a != b {
		out.V("C09|meaning-changed|"+cls, "Fmt(%q) = %q: tree before %s, after %s", input, f1, a, b)
	}
	c1, ok1 := commentLits(input)
	c2, ok2 := commentLits(f1)
	if ok1 && ok2 && jsonOf(c1) != jsonOf(c2) {
		out.V("C09|comments-changed|"+cls, "Fmt(%q) = %q: comments before %v, after %v", input, f1, c1, c2)
	}
	f2, err := parser.Fmt(f1)
	if err != nil {
		out.V("C09|not-idempotent|"+cls, "Fmt(Fmt(%q)) fails: %v", input, err)
	} else if f2 != f1 {
		out.V("C09|not-idempotent|"+cls, "Fmt(%q) = %q but formatting again gives %q", input, f1, f2)
	}
	return f1, true
}

// ---------- C19 ----------

func applyEdits(input string, edits []parser.FmtDiff) string {
	lines := strings.Split(input, "\n")
	var sb strings.Builder
	next := 0
	emit := func(to int) {
		for ; next < to && next < len(lines); next++ {
			sb.WriteString(lines[next])
			if next < len(lines)-1 {
				sb.WriteString("\n")
			}
		}
	}
	for _, e := range edits {
		emit(e.FromLine)
		sb.WriteString(e.NewText)
		if e.ToLine > next {
			next = e.ToLine
		}
	}
	emit(len(lines))
	return sb.String()
}

// c19Law evaluates property C19 on one input (no-op when the formatter rejects it).
// dropTrailingBlankLines removes the lines at the end that hold only white space; the last line with content is kept
// as it is (a carriage return at its end is content)
func dropTrailingBlankLines(s string) string {
	lines := strings.Split(s, "\n")
	for len(lines) > 0 && strings.TrimSpace(lines[len(lines)-1]) == "" {
		lines = lines[:len(lines)-1]
	}
	return strings.Join(lines, "\n")
}

func c19Law(input, cls string, out *Out) (edits []parser.FmtDiff, applicable bool) {
	f1, err := parser.Fmt(input)
	if err != nil {
		return nil, false
	}
	out.Nontrivial = true
	failed := ""
	func() {
		defer func() {
			if r := recover(); r != nil {
				failed = fmt.Sprintf("panic: %v", r)
			}
		}()
		edits, err = parser.FmtDiffs(input)
		if err != nil {
			failed = err.Error()
		}
	}()
	if failed != "" {
		out.V("C19|edits-fail|"+cls, "Fmt accepts %q but FmtDiffs fails: %s", input, failed)
		return nil, true
	}
	nLines := len(strings.Split(input, "\n"))
	wellFormed := true
	for i, e := range edits {
		if e.FromLine < 0 || e.FromLine > e.ToLine || e.ToLine > nLines {
			out.V("C19|edit-range|"+cls, "edit %d of %q is [%d,%d) with %d lines", i, input, e.FromLine, e.ToLine, nLines)
			wellFormed = false
		}
		if i > 0 {
			p := edits[i-1]
			if e.FromLine < p.FromLine {
				out.V("C19|edits-not-ascending|"+cls, "edit %d [%d,%d) follows [%d,%d) for %q", i, e.FromLine, e.ToLine, p.FromLine, p.ToLine, input)
				wellFormed = false
			} else if e.FromLine < p.ToLine {
				out.V("C19|edits-overlap|"+cls, "edit %d [%d,%d) overlaps [%d,%d) for %q", i, e.FromLine, e.ToLine, p.FromLine, p.ToLine, input)
				wellFormed = false
			}
		}
	}
	if wellFormed {
		got := applyEdits(input, edits)
		// "up to trailing blank lines": trailing lines holding only white space count as blank
		if dropTrailingBlankLines(got) != dropTrailingBlankLines(f1) {
			out.V("C19|applied-differs|"+cls, "applying FmtDiffs(%q) gives %q, Fmt gives %q", input, got, f1)
		}
	}
	return edits, true
}

// ---------- lexer cases (spec/BclLexer.tla) ----------

var lexAtoms = map[string]string{
	"a": "a", "e2": "é", "true": "true", "false": "false", "1": "1", "d2": "٣", "sp": " ", "tab": "\t", "cr": "\r", "nbsp": " ",
	"nl": "\n", "dq": "\"", "bs": "\\", "sl": "/", "st": "*", "pipe": "|", "us": "_", "hash": "#", "arrow": "→",
}

func lexAtom(a string) string {
	if s, ok := lexAtoms[a]; ok {
		return s
	}
	return a // operators are named by their rune
}

func lexConcrete(atoms []string) string {
	var sb strings.Builder
	for _, a := range atoms {
		sb.WriteString(lexAtom(a))
	}
	return sb.String()
}

type lexTok struct {
	T   string   `json:"t"`
	Lit []string `json:"lit"`
	SL  int      `json:"sl"`
	SC  int      `json:"sc"`
	EL  int      `json:"el"`
	EC  int      `json:"ec"`
}

type lexErr struct {
	K string `json:"k"`
	L int    `json:"l"`
	C int    `json:"c"`
}

type lexCase struct {
	Inp  []string `json:"inp"`
	FF   bool     `json:"ff"`
	Toks []lexTok `json:"toks"`
	Errs []lexErr `json:"errs"`
	Raw  *string  `json:"raw"` // harness-generated input (no prediction)
}

func tokTypeName(t parser.TokenType) string { return t.String() }

func init() {
	register("bcl-lex", bclLexDriver)
}

// atomise maps a real text to the symbol classes of spec/BclLexer.tla (class-preserving for the lexer:
// it only uses unicode.IsLetter / IsDigit / IsSpace and rune equality)
func atomise(input string) []string {
	runes := []rune(input)
	var out []string
	isWord := func(r rune) bool { return unicode.IsLetter(r) || unicode.IsDigit(r) || r == '_' }
	for i := 0; i < len(runes); i++ {
		r := runes[i]
		// the words "true" / "false" standing alone are the model's word atoms; when they touch another word
		// character the lexing context decides whether they form a token, which the atomiser cannot know
		matched := false
		for _, w := range []string{"true", "false"} {
			n := len(w)
			if i+n <= len(runes) && string(runes[i:i+n]) == w {
				left := i > 0 && isWord(runes[i-1])
				right := i+n < len(runes) && isWord(runes[i+n])
				if !left && !right {
					out = append(out, w)
					i += n - 1
					matched = true
				} else if left && (unicode.IsDigit(runes[i-1]) || runes[i-1] == '_') && !right {
					return nil // ambiguous: e.g. "1true"
				}
				break
			}
		}
		if matched {
			continue
		}
		switch {
		case r == '\n':
			out = append(out, "nl")
		case r == '"':
			out = append(out, "dq")
		case r == '\\':
			out = append(out, "bs")
		case r == '/':
			out = append(out, "sl")
		case r == '*':
			out = append(out, "st")
		case r == '|':
			out = append(out, "pipe")
		case r == '_':
			out = append(out, "us")
		case strings.ContainsRune("={}[].,:+!?", r):
			out = append(out, string(r))
		case unicode.IsSpace(r):
			out = append(out, "sp")
		case unicode.IsDigit(r):
			if r < 128 {
				out = append(out, "1")
			} else {
				out = append(out, "d2")
			}
		case unicode.IsLetter(r):
			if r < 128 {
				out = append(out, "a")
			} else {
				out = append(out, "e2")
			}
		case r < 128:
			out = append(out, "hash")
		default:
			out = append(out, "arrow")
		}
	}
	if out == nil {
		out = []string{}
	}
	return out
}

func bclLexDriver(raw json.RawMessage) *Out {
	var c lexCase
	if err := json.Unmarshal(raw, &c); err != nil {
		return &Out{Skip: "bad case: " + err.Error()}
	}
	out := &Out{}
	input := lexConcrete(c.Inp)
	if c.Raw != nil {
		input = *c.Raw
	}
	out.Key = fmt.Sprintf("%v|%q", c.FF, input)
	ff, ca := c11Law(input, out)
	if c.Raw != nil {
		out.Nontrivial = len(input) > 0
		c.Inp = atomise(input)
		if c.Inp == nil || len(c.Inp) > 6000 {
			return out
		}
		c.Toks, c.Errs = nil, nil
	} else {
		out.Nontrivial = len(c.Inp) > 0
	}
	// drift: the model's exact tokens / errors against the real lexer
	lx := parser.NewLexer(input)
	toks, ok, err := lx.AllTokens(c.FF)
	if err != nil {
		out.D("C11|lexer-unexpected-error", "%v", err)
		return out
	}
	if c.Raw != nil {
		// no prediction to compare with: the trace specification replays the model on the atomised input
	} else if ok != (len(c.Errs) == 0) {
		out.D("C11|lexer-verdict", "model errs=%d, real ok=%v for %q", len(c.Errs), ok, input)
	} else if ok {
		if len(toks) != len(c.Toks) {
			out.D("C11|lexer-token-count", "model %d tokens, real %d for %q", len(c.Toks), len(toks), input)
		} else {
			for i, t := range toks {
				m := c.Toks[i]
				if tokTypeName(t.Type) != m.T || t.Start.Line != m.SL || t.Start.Column != m.SC || t.End.Line != m.EL || t.End.Column != m.EC {
					out.D("C11|lexer-token", "token %d of %q: model %s %d:%d-%d:%d, real %s %d:%d-%d:%d", i, input, m.T, m.SL, m.SC, m.EL, m.EC,
						tokTypeName(t.Type), t.Start.Line, t.Start.Column, t.End.Line, t.End.Column)
					break
				}
				if t.Type.IsLiteral() && t.Lit != lexConcrete(m.Lit) {
					out.D("C11|lexer-literal", "token %d of %q: model lit %q, real %q", i, input, lexConcrete(m.Lit), t.Lit)
					break
				}
			}
		}
	} else {
		if len(lx.Errors) != len(c.Errs) {
			out.D("C11|lexer-error-count", "model %d errors, real %d for %q", len(c.Errs), len(lx.Errors), input)
		} else {
			for i, e := range lx.Errors {
				m := c.Errs[i]
				if e.Pos == nil || e.Pos.Start.Line != m.L || e.Pos.Start.Column != m.C || !strings.Contains(e.Err.Error(), strings.Fields(m.K)[0]) {
					out.D("C11|lexer-error", "error %d of %q: model %q at %d:%d, real %v", i, input, m.K, m.L, m.C, e)
					break
				}
			}
		}
	}
	_ = ff
	_ = ca
	// events for trace validation: the real token stream
	ev := map[string]any{"op": "lex", "inp": c.Inp, "ff": c.FF, "ok": ok}
	var rt []map[string]any
	for _, t := range toks {
		rt = append(rt, map[string]any{"t": tokTypeName(t.Type), "sl": t.Start.Line, "sc": t.Start.Column, "el": t.End.Line, "ec": t.End.Column, "n": utf8.RuneCountInString(t.Lit)})
	}
	if rt == nil {
		rt = []map[string]any{}
	}
	ev["toks"] = rt
	var re []map[string]any
	for _, e := range lx.Errors {
		if e.Pos != nil {
			re = append(re, map[string]any{"l": e.Pos.Start.Line, "c": e.Pos.Start.Column})
		}
	}
	if re == nil {
		re = []map[string]any{}
	}
	ev["errs"] = re
	out.Events = append(out.Events, ev)
	return out
}

// ---------- token-level cases (spec/BclParser.tla, spec/BclFmt.tla) ----------

const longWords = "aaaaaaaaaa bbbbbbbbbb cccccccccc dddddddddd eeeeeeeeee ffffffffff gggggggggg hhhhhhhhhh iiiiiiiiii"

func tokLexeme(atom string, i int) string {
	l := string(rune('a' + i%20))
	d := string(rune('1' + i%9))
	if atom == "IDENT" {
		return l
	}
	// every seventh position the one-letter payload of a literal / comment / description is a per cent sign (same width;
	// text that passes through a formatter must not be read as a format)
	if i%7 == 3 {
		l = "%"
	}
	switch atom {
	case "BOOL":
		return "true"
	case "STRING":
		return `"` + l + `"`
	case "STRING_U":
		return `"é"`
	case "STRING_ML":
		return "\"" + l + "\\\n" + l + "\""
	case "STRING_Q":
		return `"` + l + `\"\\"`
	case "STRING_QU":
		return `"é\"\\"`
	case "STRING_MLU":
		return "\"é\\\nü\""
	case "STRING_TAB":
		return "\"" + l + "\t\""
	case "STRING_NP":
		return "\"" + l + " \""
	case "REGEX":
		return "/" + l + "/"
	case "REGEX_SL":
		return "/" + l + "//" + l + "/"
	case "INT":
		return d
	case "DECIMAL":
		return d + ".5"
	case "COMMENT":
		return "//" + l
	case "BLOCK_COMMENT":
		return "/*" + l + "*/"
	case "BLOCK_COMMENT_ML":
		return "/*" + l + "\n" + l + "*/"
	case "DESCRIPTION":
		return "| " + l
	case "DESCRIPTION_LONG":
		return "| " + longWords
	case "DESCRIPTION_EMPTY":
		return "|"
	case "EOL":
		return "\n"
	}
	return atom
}

// tokensToText writes the canonical text of spec/BclParser.tla's Layout: single spaces, EOL attached
func tokensToText(atoms []string) string {
	var sb strings.Builder
	lineStart := true
	for i, a := range atoms {
		if a == "EOL" {
			sb.WriteString("\n")
			lineStart = true
			continue
		}
		if !lineStart {
			sb.WriteString(" ")
		}
		sb.WriteString(tokLexeme(a, i))
		lineStart = false
	}
	return sb.String()
}

func atomType(a string) string {
	switch a {
	case "STRING_ML", "STRING_Q", "STRING_TAB", "STRING_NP", "STRING_U", "STRING_QU", "STRING_MLU":
		return "STRING"
	case "REGEX_SL":
		return "REGEX"
	case "BLOCK_COMMENT_ML":
		return "BLOCK_COMMENT"
	case "DESCRIPTION_LONG", "DESCRIPTION_EMPTY":
		return "DESCRIPTION"
	}
	return a
}

type mpos struct {
	SL int `json:"sl"`
	SC int `json:"sc"`
	EL int `json:"el"`
	EC int `json:"ec"`
}

type mfrag struct {
	K string `json:"k"`
	mpos
	Open bool `json:"open"`
	Cmt  bool `json:"cmt"`
}

type tokCase struct {
	Want   *string  `json:"want"`  // text cases: the formatted text a model predicts (drift only)
	Shift  bool     `json:"shift"` // the token sequence is placed after two other lines (positions that are not on the first lines)
	Toks   []string `json:"toks"`
	FF     bool     `json:"ff"`
	Result string   `json:"result"`
	Frags  []mfrag  `json:"frags"`
	Errs   []mpos   `json:"errs"`
	// BclFmt predictions
	Fmt *struct {
		Accepted  bool     `json:"accepted"`  // the formatter accepts the input (lex + walk succeed)
		Parses    bool     `json:"parses"`    // ParseFile accepts it (balanced)
		Unlexable []string `json:"unlexable"` // atoms whose rendering the lexer rejects
		Same      bool     `json:"same"`      // re-parse of the rendering is position-free equal
		Idem      bool     `json:"idem"`      // rendering the re-parse gives the same rendering
		Ranges    []struct {
			From int  `json:"from"`
			To   int  `json:"to"`
			Gap  bool `json:"gap"`
		} `json:"ranges"` // [from,to) of every edit FmtDiffs derives (before unchanged ones are dropped)
		EditViol string `json:"editviol"` // "" | "range" | "overlap" | "order"
		Cls      string `json:"cls"`      // structural class of the case
	} `json:"fmt"`
	Text *string `json:"text"` // harness-generated raw text (fixtures, mutations, random): no prediction
	Cls  string  `json:"cls"`
}

func init() { register("bcl-toks", bclToksDriver) }

type realStmt struct {
	K string
	mpos
	Open bool
	Cmt  bool
}

func flattenTree(body parser.Body, out *[]realStmt) {
	for _, st := range body.Statements {
		switch s := st.(type) {
		case *parser.Block:
			*out = append(*out, realStmt{K: "hdr", mpos: mpos{s.Start.Line, s.Start.Column, s.End.Line, s.End.Column}, Open: s.Open, Cmt: s.Comment != nil})
			flattenTree(s.Body, out)
		case *parser.Assignment:
			*out = append(*out, realStmt{K: "assign", mpos: mpos{s.Start.Line, s.Start.Column, s.End.Line, s.End.Column}, Cmt: s.Comment != nil})
		case *parser.Description:
			*out = append(*out, realStmt{K: "desc", mpos: mpos{s.Start.Line, s.Start.Column, s.End.Line, s.End.Column}})
		}
	}
}

func caseClass(atoms []string) string {
	special := map[string]bool{}
	for _, a := range atoms {
		if a != atomType(a) {
			special[a] = true
		}
	}
	var names []string
	for a := range special {
		names = append(names, a)
	}
	sortStrings(names)
	if len(names) == 0 {
		return "plain"
	}
	return strings.Join(names, "+")
}

func sortStrings(s []string) {
	for i := 1; i < len(s); i++ {
		for j := i; j > 0 && s[j] < s[j-1]; j-- {
			s[j], s[j-1] = s[j-1], s[j]
		}
	}
}

func bclToksDriver(raw json.RawMessage) *Out {
	var c tokCase
	if err := json.Unmarshal(raw, &c); err != nil {
		return &Out{Skip: "bad case: " + err.Error()}
	}
	out := &Out{}
	var input string
	if c.Text != nil {
		input = *c.Text
	} else {
		input = tokensToText(c.Toks)
		if c.Shift {
			input = "p = 1\n\n" + input
			c.Text = &input // the model's predictions are for the unshifted text: laws only
		}
	}
	out.Key = fmt.Sprintf("%v|%q", c.FF, input)
	cls := c.Cls
	if cls == "" {
		cls = caseClass(c.Toks)
	}
	if c.Fmt != nil && c.Fmt.Cls != "" {
		cls = c.Fmt.Cls
	}
	// the three laws, on the real code
	ff, ca := c11Law(input, out)
	cls09 := cls
	if c.Fmt != nil && len(c.Fmt.Unlexable) > 0 {
		cls09 = c.Fmt.Unlexable[0]
	}
	f1, fmtOK := c09Law(input, cls09, out)
	edits, edOK := c19Law(input, cls, out)
	out.Nontrivial = true
	if edOK && edits != nil {
		if fo, err := parser.Fmt(input); err == nil {
			f1 = fo
			evEdits := []map[string]any{}
			for _, e := range edits {
				nl := []string{}
				if e.NewText != "" {
					nl = strings.Split(strings.TrimSuffix(e.NewText, "\n"), "\n")
				}
				evEdits = append(evEdits, map[string]any{"from": e.FromLine, "to": e.ToLine, "new": nl})
			}
			fl := []string{}
			if t := strings.TrimRight(f1, "\n"); t != "" {
				fl = strings.Split(t, "\n")
			}
			// trailing white-space-only source lines are never touched by an edit: drop them so that the editor
			// machine's "up to trailing blank lines" is plain equality after trimming empty lines
			src := strings.Split(input, "\n")
			for len(src) > 0 && strings.TrimSpace(src[len(src)-1]) == "" {
				src = src[:len(src)-1]
			}
			maxTo := 0
			for _, e := range edits {
				if e.ToLine > maxTo {
					maxTo = e.ToLine
				}
			}
			if maxTo <= len(src) {
				out.Events = append(out.Events, map[string]any{"op": "edits", "lines": src, "edits": evEdits, "fmt": fl})
			}
		}
	}
	if c.Text != nil {
		if c.Want != nil && fmtOK && f1 != *c.Want {
			out.D("bcl|reflow-prediction", "Fmt(%q) = %q, the re-flow model predicts %q", input, f1, *c.Want)
		}
		return out
	}
	// ---- conformance of the model (drift only) ----
	// 1. the canonical text lexes to the model's tokens at the model's positions
	toks, ok, _ := parser.NewLexer(input).AllTokens(true)
	if !ok {
		out.D("bcl|concretiser-lex", "canonical text %q of %v does not lex", input, c.Toks)
		return out
	}
	if len(toks) != len(c.Toks) {
		out.D("bcl|concretiser-count", "canonical text %q lexes to %d tokens, model has %d", input, len(toks), len(c.Toks))
		return out
	}
	for i, t := range toks {
		if t.Type.String() != atomType(c.Toks[i]) {
			out.D("bcl|concretiser-type", "token %d of %q is %s, model %s", i, input, t.Type, c.Toks[i])
			return out
		}
	}
	real := ca
	if c.FF {
		real = ff
	}
	if c.Result != "" {
		// 2. verdict
		realRes := "tree"
		if real.tree == nil {
			realRes = "errors"
		}
		modelRes := c.Result
		if modelRes == "fold-errors" {
			modelRes = "errors"
		}
		if realRes != modelRes {
			out.D("C11|parser-verdict", "model %s, real %s for %q", c.Result, realRes, input)
		} else if real.tree != nil {
			// 3. statements and their positions
			var rs []realStmt
			flattenTree(real.tree.Body, &rs)
			var ms []mfrag
			for _, f := range c.Frags {
				if f.K == "hdr" || f.K == "assign" || f.K == "desc" {
					ms = append(ms, f)
				}
			}
			if len(rs) != len(ms) {
				out.D("C11|parser-statements", "model %d statements, real %d for %q", len(ms), len(rs), input)
			} else {
				for i := range rs {
					if rs[i].K != ms[i].K || rs[i].mpos != ms[i].mpos || rs[i].Open != ms[i].Open || rs[i].Cmt != ms[i].Cmt {
						out.D("C11|parser-node", "statement %d of %q: model %+v, real %+v", i, input, ms[i], rs[i])
						break
					}
				}
			}
		} else if c.Result == "errors" {
			// 4. diagnostics and their positions
			if len(real.diags) != len(c.Errs) {
				out.D("C11|parser-diagnostic-count", "model %d diagnostics, real %d for %q", len(c.Errs), len(real.diags), input)
			} else {
				for i, d := range real.diags {
					m := c.Errs[i]
					if d.Start.Line != m.SL || d.Start.Column != m.SC || d.End.Line != m.EL || d.End.Column != m.EC {
						out.D("C11|parser-diagnostic", "diagnostic %d of %q: model %+v, real %v-%v %q", i, input, m, d.Start, d.End, d.Msg)
						break
					}
				}
			}
		}
	}
	// 5. formatter predictions
	if c.Fmt != nil {
		viol := map[string]bool{}
		for _, v := range out.Viol {
			parts := strings.SplitN(v.Sig, "|", 3)
			if len(parts) >= 2 {
				viol[parts[0]+"|"+parts[1]] = true
			}
		}
		_, ferr := parser.Fmt(input)
		if (ferr == nil) != c.Fmt.Accepted {
			out.D("C09|fmt-accepts", "model accepted=%v, real Fmt err=%v for %q", c.Fmt.Accepted, ferr, input)
		} else if c.Fmt.Accepted && c.Fmt.Parses {
			if (len(c.Fmt.Unlexable) > 0) != viol["C09|output-not-parseable"] {
				out.D("C09|parseable-prediction", "model unlexable=%v, real unparseable=%v for %q", c.Fmt.Unlexable, viol["C09|output-not-parseable"], input)
			} else if len(c.Fmt.Unlexable) == 0 {
				if !c.Fmt.Same != viol["C09|meaning-changed"] {
					out.D("C09|meaning-prediction", "model same=%v, real changed=%v for %q", c.Fmt.Same, viol["C09|meaning-changed"], input)
				}
				if !c.Fmt.Idem != viol["C09|not-idempotent"] {
					out.D("C09|idempotence-prediction", "model idem=%v, real violated=%v for %q", c.Fmt.Idem, viol["C09|not-idempotent"], input)
				}
			}
		}
		if c.Fmt.Accepted {
			realEd := ""
			switch {
			case viol["C19|edits-fail"], viol["C19|edit-range"]:
				realEd = "range"
			case viol["C19|edits-overlap"]:
				realEd = "overlap"
			case viol["C19|edits-not-ascending"]:
				realEd = "order"
			}
			if realEd != c.Fmt.EditViol {
				out.D("C19|edits-prediction", "model %q, real %q for %q", c.Fmt.EditViol, realEd, input)
			}
		}
	}
	// events: the real parse outcome for trace validation
	ev := map[string]any{"op": "parse", "toks": c.Toks, "ff": c.FF, "tree": real.tree != nil, "ndiag": len(real.diags)}
	var rs []realStmt
	if real.tree != nil {
		flattenTree(real.tree.Body, &rs)
	}
	stm := []map[string]any{}
	for _, r := range rs {
		stm = append(stm, map[string]any{"k": r.K, "sl": r.SL, "sc": r.SC, "el": r.EL, "ec": r.EC, "open": r.Open, "cmt": r.Cmt})
	}
	ev["stmts"] = stm
	dg := []map[string]any{}
	for _, d := range real.diags {
		dg = append(dg, map[string]any{"sl": d.Start.Line, "sc": d.Start.Column, "el": d.End.Line, "ec": d.End.Column})
	}
	ev["diags"] = dg
	out.Events = append(out.Events, ev)
	return out
}
