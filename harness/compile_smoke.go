package main

import (
	"encoding/json"
)

func init() { register("compile-smoke", compileSmoke) }

// compile-smoke: {"files": {"a/v1/x.j5s": "..."}} -> printed proto per file (development aid)
func compileSmoke(raw json.RawMessage) *Out {
	var c struct {
		Files map[string]string `json:"files"`
	}
	if err := json.Unmarshal(raw, &c); err != nil {
		return &Out{Skip: err.Error()}
	}
	out := &Out{}
	res, _, err := compileBundle(newMemFiles(c.Files), nil)
	if err != nil {
		out.Note = "error: " + err.Error()
		return out
	}
	printed := map[string]string{}
	for _, files := range res {
		for _, f := range files {
			s, err := printFile(f)
			if err != nil {
				s = "PRINT ERROR: " + err.Error()
			}
			printed[f.Path()] = s
		}
	}
	out.Obs = printed
	return out
}
