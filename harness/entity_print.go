package main

// C17: printer entity-AST -> .j5s text.
//
// The abstract declaration comes from spec/J5Entity.tla (operator Source): every name is already
// spelled by the specification's casing functions, types are atoms. Only documented syntax is used;
// references: README.md "Entities", j5stest/proto/j5st/v1/foo.j5s, the BCL mapping
// internal/j5s/j5parse/schema.go (aliases key/data/status/event/primary/tenant/foreign) and
// proto/j5build/j5/sourcedef/v1/file.proto (Entity, EntityKey.shard_key, EntityQuery, Service,
// EntitySummary with their single_form names command / summary / method / field).

import (
	"fmt"
	"strings"
)

const (
	entPkg      = "foo.v1"
	entFileName = "foo/v1/ent.j5s"
)

type entSrcField struct {
	Name string `json:"name"`
	Type string `json:"type"`
	Req  bool   `json:"req"`
}

type entSrcKey struct {
	Name   string `json:"name"`
	Type   string `json:"type"`
	Marker string `json:"marker"` // none | primary | notprimary | foreign
	Tenant bool   `json:"tenant"`
	Shard  bool   `json:"shard"`
	Req    bool   `json:"req"`
}

type entSrcEvent struct {
	Name   string        `json:"name"`
	Fields []entSrcField `json:"fields"`
}

type entSrcMethod struct {
	Name     string `json:"name"`
	Verb     string `json:"verb"`
	Path     string `json:"path"` // plain | id
	Seg      string `json:"seg"`
	Response bool   `json:"response"`
}

type entSrcCommand struct {
	Name     string         `json:"name"`
	Suffixed bool           `json:"suffixed"`
	BasePath string         `json:"basePath"`
	Methods  []entSrcMethod `json:"methods"`
	Opts     bool           `json:"opts"` // the block sets service options of its own (audience)
}

type entSrcQuery struct {
	Present     bool     `json:"present"`
	EventsInGet bool     `json:"eventsInGet"`
	Filter      []string `json:"filter"`
}

type entSrc struct {
	Name      string          `json:"name"`
	Keys      []entSrcKey     `json:"keys"`
	Data      []entSrcField   `json:"data"`
	Status    []string        `json:"status"`
	Events    []entSrcEvent   `json:"events"`
	Commands  []entSrcCommand `json:"commands"`
	Summaries []entSrcEvent   `json:"summaries"`
	Query     entSrcQuery     `json:"query"`
	Layout    string          `json:"layout"`
}

type entPrinter struct {
	sb  strings.Builder
	ind int
}

func (p *entPrinter) line(format string, a ...any) {
	p.sb.WriteString(strings.Repeat("\t", p.ind))
	fmt.Fprintf(&p.sb, format, a...)
	p.sb.WriteByte('\n')
}

// entTypeSpec returns the type tag and the body lines an inline type contributes.
func entTypeSpec(t string) (string, []string) {
	switch t {
	case "object-inline":
		return "object", []string{"field inner string"}
	case "array-object-inline":
		return "array:object", []string{"field inner string"}
	case "enum-inline":
		return "enum", []string{"option ALPHA", "option BETA"}
	case "oneof-inline":
		return "oneof", []string{"option left string", "option right bool"}
	case "object-ref":
		return "object:Helper", nil
	}
	return t, nil
}

func entUsesHelper(s *entSrc) bool {
	for _, k := range s.Keys {
		if k.Type == "object-ref" {
			return true
		}
	}
	for _, d := range s.Data {
		if d.Type == "object-ref" {
			return true
		}
	}
	for _, l := range [][]entSrcEvent{s.Events, s.Summaries} {
		for _, e := range l {
			for _, f := range e.Fields {
				if f.Type == "object-ref" {
					return true
				}
			}
		}
	}
	return false
}

func (p *entPrinter) prop(kw, name string, req bool, typ string, attrs []string) {
	spec, body := entTypeSpec(typ)
	mark := ""
	if req {
		mark = "! "
	}
	lines := append(append([]string{}, body...), attrs...)
	if len(lines) == 0 {
		p.line("%s %s %s%s", kw, name, mark, spec)
		return
	}
	p.line("%s %s %s%s {", kw, name, mark, spec)
	p.ind++
	for _, l := range lines {
		p.line("%s", l)
	}
	p.ind--
	p.line("}")
}

func (p *entPrinter) key(k *entSrcKey) {
	var attrs []string
	switch k.Marker {
	case "primary":
		attrs = append(attrs, "primary = true")
	case "notprimary":
		attrs = append(attrs, "primary = false")
	case "foreign":
		attrs = append(attrs, `foreign = "bar.v1.Bar"`)
	}
	if k.Tenant {
		attrs = append(attrs, `tenant = "account"`)
	}
	if k.Shard {
		attrs = append(attrs, "shardKey = true")
	}
	p.prop("key", k.Name, k.Req, k.Type, attrs)
}

func (p *entPrinter) event(kw string, e *entSrcEvent) {
	if e.Name == "" {
		p.line("%s {", kw)
	} else {
		p.line("%s %s {", kw, e.Name)
	}
	p.ind++
	for i := range e.Fields {
		f := &e.Fields[i]
		p.prop("field", f.Name, f.Req, f.Type, nil)
	}
	p.ind--
	p.line("}")
}

func (p *entPrinter) command(c *entSrcCommand) {
	if c.Name == "" {
		p.line("command {")
	} else {
		p.line("command %s {", c.Name)
	}
	p.ind++
	if c.Opts {
		p.line("options.audience = [\"internal\"]")
	}
	if c.BasePath != "" {
		p.line("basePath = %q", c.BasePath)
	}
	for _, m := range c.Methods {
		p.line("method %s {", m.Name)
		p.ind++
		p.line("httpMethod = %q", m.Verb)
		if m.Path == "id" {
			p.line("httpPath = %q", "/:id/"+m.Seg)
		} else {
			p.line("httpPath = %q", "/"+m.Seg)
		}
		p.line("request {")
		p.ind++
		if m.Path == "id" {
			p.line("field id key:id62")
		}
		p.line("field note string")
		p.ind--
		p.line("}")
		if m.Response {
			p.line("response {")
			p.ind++
			p.line("field ok bool")
			p.ind--
			p.line("}")
		}
		p.ind--
		p.line("}")
	}
	p.ind--
	p.line("}")
}

func (p *entPrinter) query(q *entSrcQuery) {
	if !q.Present {
		return
	}
	p.line("query {")
	p.ind++
	if q.EventsInGet {
		p.line("eventsInGet = true")
	}
	if len(q.Filter) > 0 {
		quoted := make([]string, len(q.Filter))
		for i, f := range q.Filter {
			quoted[i] = fmt.Sprintf("%q", f)
		}
		p.line("defaultStatusFilter = [%s]", strings.Join(quoted, ", "))
	}
	p.ind--
	p.line("}")
}

// entPrint renders the file holding the entity.
func entPrint(s *entSrc) string {
	p := &entPrinter{}
	p.line("package %s", entPkg)
	p.line("")
	if entUsesHelper(s) {
		p.line("object Helper {")
		p.ind++
		p.line("field text string")
		p.ind--
		p.line("}")
		p.line("")
	}
	p.line("entity %s {", s.Name)
	p.ind++
	keys := func() {
		for i := range s.Keys {
			p.key(&s.Keys[i])
		}
	}
	data := func() {
		for i := range s.Data {
			d := &s.Data[i]
			p.prop("data", d.Name, d.Req, d.Type, nil)
		}
	}
	status := func() {
		for _, st := range s.Status {
			p.line("status %s", st)
		}
	}
	events := func() {
		for i := range s.Events {
			p.event("event", &s.Events[i])
		}
	}
	commands := func() {
		for i := range s.Commands {
			p.command(&s.Commands[i])
		}
	}
	summaries := func() {
		for i := range s.Summaries {
			p.event("summary", &s.Summaries[i])
		}
	}
	query := func() { p.query(&s.Query) }
	if s.Layout == "mixed" {
		// the clauses of an entity are collected by kind; their relative order in the source is free
		// (internal/j5s/j5parse TestEntity declares the event before the key)
		for _, f := range []func(){events, summaries, query, status, commands, data, keys} {
			f()
		}
	} else {
		for _, f := range []func(){keys, data, status, events, query, commands, summaries} {
			f()
		}
	}
	p.ind--
	p.line("}")
	return p.sb.String()
}
