package main

// C17: projection of the REAL compiled descriptors (and of the client API StateEntity) onto the
// vocabulary of EntityExpand in spec/J5Entity.tla. The same Go types decode the model's expected
// expansion and encode the real projection, so the two are compared field by field in Go and as
// values by TLC in spec/J5EntityTrace.tla.
//
// Parts are discovered by ROLE in the real output (psm entity_part, state_query / state_command
// service options, state_query method options, messaging role), never by the expected name, so that a
// wrongly named part is reported as wrongly named rather than as missing.

import (
	"context"
	"fmt"
	"os"
	"regexp"
	"sort"
	"strings"
	"testing/fstest"

	"github.com/bufbuild/protocompile"
	"github.com/bufbuild/protocompile/linker"
	"github.com/pentops/j5/gen/j5/client/v1/client_j5pb"
	"github.com/pentops/j5/gen/j5/source/v1/source_j5pb"
	"github.com/pentops/j5/internal/j5client"
	"github.com/pentops/j5/internal/protosrc"
	"github.com/pentops/j5/internal/structure"
	"google.golang.org/protobuf/proto"
	"google.golang.org/protobuf/reflect/protodesc"
	"google.golang.org/protobuf/reflect/protoreflect"
	"google.golang.org/protobuf/types/descriptorpb"
)

type entProp struct {
	Name   string `json:"name"`
	JSON   string `json:"json"`
	Number int    `json:"number"`
	Type   string `json:"type"`
}

type entKeyProp struct {
	Name     string `json:"name"`
	JSON     string `json:"json"`
	Number   int    `json:"number"`
	Type     string `json:"type"`
	Required bool   `json:"required"`
	Primary  bool   `json:"primary"`
}

type entDataProp struct {
	Name     string `json:"name"`
	JSON     string `json:"json"`
	Number   int    `json:"number"`
	Type     string `json:"type"`
	Required bool   `json:"required"`
}

type entPsm struct {
	Msg    string `json:"msg"`
	Entity string `json:"entity"`
	Part   string `json:"part"`
}

type entEnumValue struct {
	Name   string `json:"name"`
	Number int    `json:"number"`
}

type entWrapField struct {
	Name     string `json:"name"`
	Number   int    `json:"number"`
	Type     string `json:"type"`
	Flatten  bool   `json:"flatten"`
	Required bool   `json:"required"`
}

type entOption struct {
	Name   string `json:"name"`
	JSON   string `json:"json"`
	Number int    `json:"number"`
	Target string `json:"target"`
}

type entNested struct {
	Name   string    `json:"name"`
	Fields []entProp `json:"fields"`
}

type entEventType struct {
	Options []entOption `json:"options"`
	Nested  []entNested `json:"nested"`
}

type entQueryMethod struct {
	Name     string   `json:"name"`
	Role     string   `json:"role"`
	Verb     string   `json:"verb"`
	Path     string   `json:"path"`
	Params   []string `json:"params"`
	Request  string   `json:"request"`
	Response string   `json:"response"`
}

type entQuery struct {
	Name           string           `json:"name"`
	Entity         string           `json:"entity"`
	Methods        []entQueryMethod `json:"methods"`
	PrimaryParams  []string         `json:"primaryParams"`
	EventsInGet    bool             `json:"eventsInGet"`
	DefaultFilters []string         `json:"defaultFilters"`
}

type entCmdMethod struct {
	Name string `json:"name"`
	Verb string `json:"verb"`
	Path string `json:"path"`
}

type entCommand struct {
	Name    string         `json:"name"`
	Entity  string         `json:"entity"`
	Methods []entCmdMethod `json:"methods"`
}

type entTopic struct {
	Name      string `json:"name"`
	Role      string `json:"role"`
	Entity    string `json:"entity"`
	TopicName string `json:"topicName"`
	Method    string `json:"method"`
	Message   string `json:"message"`
}

type entUpsert struct {
	Name      string    `json:"name"`
	Role      string    `json:"role"`
	Entity    string    `json:"entity"`
	TopicName string    `json:"topicName"`
	Method    string    `json:"method"`
	Message   string    `json:"message"`
	Fields    []entProp `json:"fields"`
}

type entSchemas struct {
	Keys      string `json:"keys"`
	Data      string `json:"data"`
	Status    string `json:"status"`
	State     string `json:"state"`
	EventType string `json:"eventType"`
	Event     string `json:"event"`
}

type entClient struct {
	Name       string   `json:"name"`
	PrimaryKey []string `json:"primaryKey"`
	Events     []string `json:"events"`
	Query      []string `json:"query"`
	Commands   []string `json:"commands"`
}

type entExpansion struct {
	Entity      string         `json:"entity"`
	TopicEntity string         `json:"topicEntity"`
	Schemas     entSchemas     `json:"schemas"`
	Psm         []entPsm       `json:"psm"`
	Keys        []entKeyProp   `json:"keys"`
	Data        []entDataProp  `json:"data"`
	Status      []entEnumValue `json:"status"`
	State       []entWrapField `json:"state"`
	Event       []entWrapField `json:"event"`
	EventType   entEventType   `json:"eventType"`
	Query       entQuery       `json:"query"`
	Commands    []entCommand   `json:"commands"`
	Publish     entTopic       `json:"publish"`
	Upserts     []entUpsert    `json:"upserts"`
	Client      entClient      `json:"client"`
}

// ---------------------------------------------------------------------------------------------
// options, by reflection only (no dependency on generated extension packages)

func entOptMsg(opts protoreflect.ProtoMessage, ext string) protoreflect.Message {
	if opts == nil {
		return nil
	}
	m := opts.ProtoReflect()
	if !m.IsValid() {
		return nil
	}
	var found protoreflect.Message
	m.Range(func(fd protoreflect.FieldDescriptor, v protoreflect.Value) bool {
		if fd.IsExtension() && string(fd.FullName()) == ext && fd.Message() != nil && !fd.IsList() {
			found = v.Message()
			return false
		}
		return true
	})
	return found
}

// entGet walks populated fields by proto name; ok is false when any step is unset.
func entGet(m protoreflect.Message, path ...string) (protoreflect.Value, protoreflect.FieldDescriptor, bool) {
	var v protoreflect.Value
	var fd protoreflect.FieldDescriptor
	for i, name := range path {
		if m == nil || !m.IsValid() {
			return v, nil, false
		}
		fd = m.Descriptor().Fields().ByName(protoreflect.Name(name))
		if fd == nil || !m.Has(fd) {
			return v, nil, false
		}
		v = m.Get(fd)
		if i < len(path)-1 {
			if fd.Message() == nil || fd.IsList() || fd.IsMap() {
				return v, nil, false
			}
			m = v.Message()
		}
	}
	return v, fd, true
}

func entGetString(m protoreflect.Message, path ...string) string {
	v, fd, ok := entGet(m, path...)
	if !ok || fd.Kind() != protoreflect.StringKind || fd.IsList() {
		return ""
	}
	return v.String()
}

func entGetBool(m protoreflect.Message, path ...string) bool {
	v, fd, ok := entGet(m, path...)
	if !ok || fd.Kind() != protoreflect.BoolKind || fd.IsList() {
		return false
	}
	return v.Bool()
}

func entFieldRequired(f protoreflect.FieldDescriptor) bool {
	return entGetBool(entOptMsg(f.Options(), "buf.validate.field"), "required")
}

func entFieldFlatten(f protoreflect.FieldDescriptor) bool {
	return entGetBool(entOptMsg(f.Options(), "j5.ext.v1.field"), "object", "flatten")
}

func entFieldPrimary(f protoreflect.FieldDescriptor) bool {
	return entGetBool(entOptMsg(f.Options(), "j5.ext.v1.key"), "primary_key")
}

// entPsmOf returns (entity, part, present) of a message's (j5.ext.v1.psm) option.
func entPsmOf(m protoreflect.MessageDescriptor) (string, string, bool) {
	o := entOptMsg(m.Options(), "j5.ext.v1.psm")
	if o == nil {
		return "", "", false
	}
	part := ""
	if v, fd, ok := entGet(o, "entity_part"); ok && fd.Enum() != nil {
		if ev := fd.Enum().Values().ByNumber(v.Enum()); ev != nil {
			part = strings.TrimPrefix(string(ev.Name()), "ENTITY_PART_")
		} else {
			part = fmt.Sprint(v.Enum())
		}
	}
	return entGetString(o, "entity_name"), part, true
}

// ---------------------------------------------------------------------------------------------
// type atoms

// entAtomProto is the protobuf representation the README documents for each type atom
// (message:<full name> for well-known / j5 types; "nested" for inline declarations).
var entAtomProto = map[string]string{
	"string": "string", "bool": "bool", "integer:INT32": "int32", "integer:INT64": "int64", "integer:UINT32": "uint32",
	"float:FLOAT64": "double", "bytes": "bytes", "timestamp": "message:google.protobuf.Timestamp",
	"date": "message:j5.types.date.v1.Date", "decimal": "message:j5.types.decimal.v1.Decimal",
	"key": "string", "key:id62": "string", "key:uuid": "string", "array:string": "repeated string",
	"map:string": "map string", "any": "message:j5.types.any.v1.Any",
	"object-inline": "nested message", "enum-inline": "nested enum", "oneof-inline": "nested message",
	"array-object-inline": "repeated nested message", "object-ref": "message:foo.v1.Helper",
}

func entProtoType(f protoreflect.FieldDescriptor) string {
	if f.IsMap() {
		return "map " + entScalarType(f.MapValue(), f)
	}
	s := entScalarType(f, f)
	if f.IsList() {
		return "repeated " + s
	}
	return s
}

func entScalarType(f, outer protoreflect.FieldDescriptor) string {
	switch f.Kind() {
	case protoreflect.MessageKind:
		if f.Message().Parent() == outer.Parent() {
			return "nested message"
		}
		return "message:" + string(f.Message().FullName())
	case protoreflect.EnumKind:
		if f.Enum().Parent() == outer.Parent() {
			return "nested enum"
		}
		return "enum:" + string(f.Enum().FullName())
	}
	return f.Kind().String()
}

// entTypeAtom reports the declared atom when the real field has the representation documented for
// it, otherwise the real representation.
func entTypeAtom(f protoreflect.FieldDescriptor, declared string) string {
	real := entProtoType(f)
	if want, ok := entAtomProto[declared]; ok && want == real {
		return declared
	}
	return real
}

func entDeclared(types []string, i int) string {
	if i < len(types) {
		return types[i]
	}
	return ""
}

func entProps(m protoreflect.MessageDescriptor, declared []string, skip int) []entProp {
	out := []entProp{}
	fs := m.Fields()
	for i := skip; i < fs.Len(); i++ {
		f := fs.Get(i)
		out = append(out, entProp{Name: string(f.Name()), JSON: f.JSONName(), Number: int(f.Number()), Type: entTypeAtom(f, entDeclared(declared, i-skip))})
	}
	return out
}

func entWrapFields(m protoreflect.MessageDescriptor) []entWrapField {
	out := []entWrapField{}
	fs := m.Fields()
	for i := 0; i < fs.Len(); i++ {
		f := fs.Get(i)
		t := f.Kind().String()
		switch f.Kind() {
		case protoreflect.MessageKind:
			t = string(f.Message().FullName())
		case protoreflect.EnumKind:
			t = string(f.Enum().FullName())
		}
		if f.IsList() {
			t = "repeated " + t
		}
		out = append(out, entWrapField{Name: string(f.Name()), Number: int(f.Number()), Type: t, Flatten: entFieldFlatten(f), Required: entFieldRequired(f)})
	}
	return out
}

// ---------------------------------------------------------------------------------------------
// the projection

var entParamRe = regexp.MustCompile(`\{([^}=]+)(?:=[^}]*)?\}`)

func entHTTP(m protoreflect.MethodDescriptor) (verb, path string) {
	rule := entOptMsg(m.Options(), "google.api.http")
	if rule == nil {
		return "", ""
	}
	rule.Range(func(fd protoreflect.FieldDescriptor, v protoreflect.Value) bool {
		if fd.ContainingOneof() != nil && fd.ContainingOneof().Name() == "pattern" && fd.Kind() == protoreflect.StringKind {
			verb = strings.ToUpper(string(fd.Name()))
			path = v.String()
		}
		return true
	})
	return
}

func entPathParams(path string) []string {
	out := []string{}
	for _, m := range entParamRe.FindAllStringSubmatch(path, -1) {
		out = append(out, m[1])
	}
	return out
}

type entFiles struct {
	main, service, topic protoreflect.FileDescriptor
}

func entSplitFiles(files linker.Files) entFiles {
	var r entFiles
	for _, f := range files {
		switch string(f.Package()) {
		case entPkg:
			r.main = f
		case entPkg + ".service":
			r.service = f
		case entPkg + ".topic":
			r.topic = f
		}
	}
	return r
}

func entFindMessage(f protoreflect.FileDescriptor, name string) protoreflect.MessageDescriptor {
	if f == nil || name == "" {
		return nil
	}
	return f.Messages().ByName(protoreflect.Name(name))
}

// entProject builds the real expansion. `want` is consulted only (a) as a fall-back to locate a
// part whose role marker is absent and (b) for the declared type atoms.
func entProject(fs entFiles, src *entSrc, want *entExpansion) *entExpansion {
	x := &entExpansion{
		Psm: []entPsm{}, Keys: []entKeyProp{}, Data: []entDataProp{}, Status: []entEnumValue{}, State: []entWrapField{}, Event: []entWrapField{},
		EventType: entEventType{Options: []entOption{}, Nested: []entNested{}},
		Query:     entQuery{Methods: []entQueryMethod{}, PrimaryParams: []string{}, DefaultFilters: []string{}},
		Commands:  []entCommand{}, Upserts: []entUpsert{},
		Client: entClient{PrimaryKey: []string{}, Events: []string{}, Query: []string{}, Commands: []string{}},
	}
	byPart := map[string]protoreflect.MessageDescriptor{}
	if fs.main != nil {
		ms := fs.main.Messages()
		for i := 0; i < ms.Len(); i++ {
			m := ms.Get(i)
			if ent, part, ok := entPsmOf(m); ok {
				x.Psm = append(x.Psm, entPsm{Msg: string(m.Name()), Entity: ent, Part: part})
				if _, dup := byPart[part]; !dup {
					byPart[part] = m
				}
			}
		}
	}
	locate := func(part, fallback string) protoreflect.MessageDescriptor {
		if m, ok := byPart[part]; ok {
			return m
		}
		return entFindMessage(fs.main, fallback)
	}
	keysMsg := locate("KEYS", want.Schemas.Keys)
	dataMsg := locate("DATA", want.Schemas.Data)
	stateMsg := locate("STATE", want.Schemas.State)
	eventMsg := locate("EVENT", want.Schemas.Event)
	// the entity annotation: the value the Keys message carries (else the first one found)
	if len(x.Psm) > 0 {
		x.Entity = x.Psm[0].Entity
		for _, p := range x.Psm {
			if p.Part == "KEYS" {
				x.Entity = p.Entity
			}
		}
	}
	primaryFields := map[string]bool{}
	if keysMsg != nil {
		x.Schemas.Keys = string(keysMsg.Name())
		fl := keysMsg.Fields()
		for i := 0; i < fl.Len(); i++ {
			f := fl.Get(i)
			decl := ""
			if i < len(src.Keys) {
				decl = src.Keys[i].Type
			}
			kp := entKeyProp{Name: string(f.Name()), JSON: f.JSONName(), Number: int(f.Number()), Type: entTypeAtom(f, decl),
				Required: entFieldRequired(f), Primary: entFieldPrimary(f)}
			primaryFields[kp.Name] = kp.Primary
			x.Keys = append(x.Keys, kp)
		}
	}
	if dataMsg != nil {
		x.Schemas.Data = string(dataMsg.Name())
		fl := dataMsg.Fields()
		for i := 0; i < fl.Len(); i++ {
			f := fl.Get(i)
			decl := ""
			if i < len(src.Data) {
				decl = src.Data[i].Type
			}
			x.Data = append(x.Data, entDataProp{Name: string(f.Name()), JSON: f.JSONName(), Number: int(f.Number()), Type: entTypeAtom(f, decl), Required: entFieldRequired(f)})
		}
	}
	var statusEnum protoreflect.EnumDescriptor
	if stateMsg != nil {
		x.Schemas.State = string(stateMsg.Name())
		x.State = entWrapFields(stateMsg)
		if f := stateMsg.Fields().ByName("status"); f != nil && f.Enum() != nil {
			statusEnum = f.Enum()
			if lr := entOptMsg(f.Options(), "j5.list.v1.field"); lr != nil {
				if v, fd, ok := entGet(lr, "enum", "filtering", "default_filters"); ok && fd.IsList() {
					for i := 0; i < v.List().Len(); i++ {
						x.Query.DefaultFilters = append(x.Query.DefaultFilters, v.List().Get(i).String())
					}
				}
			}
		}
	}
	if statusEnum == nil && fs.main != nil {
		statusEnum = fs.main.Enums().ByName(protoreflect.Name(want.Schemas.Status))
	}
	if statusEnum != nil {
		x.Schemas.Status = string(statusEnum.Name())
		vs := statusEnum.Values()
		for i := 0; i < vs.Len(); i++ {
			x.Status = append(x.Status, entEnumValue{Name: string(vs.Get(i).Name()), Number: int(vs.Get(i).Number())})
		}
	}
	var oneofMsg protoreflect.MessageDescriptor
	if eventMsg != nil {
		x.Schemas.Event = string(eventMsg.Name())
		x.Event = entWrapFields(eventMsg)
		if f := eventMsg.Fields().ByName("event"); f != nil && f.Message() != nil {
			oneofMsg = f.Message()
		}
	}
	if oneofMsg == nil {
		oneofMsg = entFindMessage(fs.main, want.Schemas.EventType)
	}
	if oneofMsg != nil {
		x.Schemas.EventType = string(oneofMsg.Name())
		fl := oneofMsg.Fields()
		for i := 0; i < fl.Len(); i++ {
			f := fl.Get(i)
			target := f.Kind().String()
			if f.Message() != nil {
				target = string(f.Message().FullName())
			}
			x.EventType.Options = append(x.EventType.Options, entOption{Name: string(f.Name()), JSON: f.JSONName(), Number: int(f.Number()), Target: target})
		}
		ns := oneofMsg.Messages()
		for i := 0; i < ns.Len(); i++ {
			n := ns.Get(i)
			var declared []string
			for _, ev := range src.Events {
				if ev.Name == string(n.Name()) {
					for _, f := range ev.Fields {
						declared = append(declared, f.Type)
					}
				}
			}
			x.EventType.Nested = append(x.EventType.Nested, entNested{Name: string(n.Name()), Fields: entProps(n, declared, 0)})
		}
	}
	// services
	if fs.service != nil {
		ss := fs.service.Services()
		for i := 0; i < ss.Len(); i++ {
			s := ss.Get(i)
			so := entOptMsg(s.Options(), "j5.ext.v1.service")
			if _, _, ok := entGet(so, "state_query"); ok && x.Query.Name == "" {
				x.Query.Name = string(s.Name())
				x.Query.Entity = entGetString(so, "state_query", "entity")
				ms := s.Methods()
				for j := 0; j < ms.Len(); j++ {
					m := ms.Get(j)
					mo := entOptMsg(m.Options(), "j5.ext.v1.method")
					role := ""
					switch {
					case entGetBool(mo, "state_query", "get"):
						role = "get"
					case entGetBool(mo, "state_query", "list"):
						role = "list"
					case entGetBool(mo, "state_query", "list_events"):
						role = "events"
					}
					verb, path := entHTTP(m)
					x.Query.Methods = append(x.Query.Methods, entQueryMethod{Name: string(m.Name()), Role: role, Verb: verb, Path: path,
						Params: entPathParams(path), Request: string(m.Input().Name()), Response: string(m.Output().Name())})
					if role == "get" {
						for _, p := range entPathParams(path) {
							if primaryFields[p] {
								x.Query.PrimaryParams = append(x.Query.PrimaryParams, p)
							}
						}
						if m.Output().Fields().ByName("events") != nil {
							x.Query.EventsInGet = true
						}
					}
				}
				continue
			}
			if _, _, ok := entGet(so, "state_command"); ok {
				c := entCommand{Name: string(s.Name()), Entity: entGetString(so, "state_command", "entity"), Methods: []entCmdMethod{}}
				ms := s.Methods()
				for j := 0; j < ms.Len(); j++ {
					verb, path := entHTTP(ms.Get(j))
					c.Methods = append(c.Methods, entCmdMethod{Name: string(ms.Get(j).Name()), Verb: verb, Path: path})
				}
				x.Commands = append(x.Commands, c)
			}
		}
	}
	// topics
	if fs.topic != nil {
		ss := fs.topic.Services()
		for i := 0; i < ss.Len(); i++ {
			s := ss.Get(i)
			cfg := entOptMsg(s.Options(), "j5.messaging.v1.service")
			role := ""
			if cfg != nil {
				cfg.Range(func(fd protoreflect.FieldDescriptor, v protoreflect.Value) bool {
					if fd.ContainingOneof() != nil && fd.ContainingOneof().Name() == "role" {
						role = string(fd.Name())
					}
					return true
				})
			}
			method, message := "", ""
			var msgDesc protoreflect.MessageDescriptor
			if s.Methods().Len() > 0 {
				method = string(s.Methods().Get(0).Name())
				msgDesc = s.Methods().Get(0).Input()
				message = string(msgDesc.Name())
			}
			switch role {
			case "event":
				if x.Publish.Name == "" {
					x.Publish = entTopic{Name: string(s.Name()), Role: role, Entity: entGetString(cfg, "event", "entity_name"),
						TopicName: entGetString(cfg, "topic_name"), Method: method, Message: message}
				}
			case "upsert":
				u := entUpsert{Name: string(s.Name()), Role: role, Entity: entGetString(cfg, "upsert", "entity_name"),
					TopicName: entGetString(cfg, "topic_name"), Method: method, Message: message, Fields: []entProp{}}
				if msgDesc != nil {
					var declared []string
					if k := len(x.Upserts); k < len(src.Summaries) {
						for _, f := range src.Summaries[k].Fields {
							declared = append(declared, f.Type)
						}
					}
					u.Fields = entProps(msgDesc, declared, 1)
				}
				x.Upserts = append(x.Upserts, u)
			}
		}
	}
	x.TopicEntity = x.Publish.Entity
	return x
}

// ---------------------------------------------------------------------------------------------
// client API: printed .proto -> protosrc.ReadFSImage -> structure.APIFromImage -> j5client.APIFromSource,
// the route `j5` itself takes from generated proto files to the client API.

type entNoDeps struct{}

func (entNoDeps) FindFileByPath(path string) (protocompile.SearchResult, error) {
	return protocompile.SearchResult{}, os.ErrNotExist
}

// entClientAPI returns the client API and the route that produced it: "printed" is the route of the
// tool (generated .proto files are read back), "direct" (the compiled descriptors themselves, through the
// same serialise/parse step protosrc applies) is the fall-back when the printed files do not parse.
func entClientAPI(files linker.Files) (api *client_j5pb.API, route string, printedErr error, err error) {
	mfs := fstest.MapFS{}
	for _, f := range files {
		text, perr := printFile(f)
		if perr != nil {
			printedErr = fmt.Errorf("print %s: %w", f.Path(), perr)
			break
		}
		mfs[f.Path()] = &fstest.MapFile{Data: []byte(text)}
	}
	var img *source_j5pb.SourceImage
	if printedErr == nil {
		img, printedErr = protosrc.ReadFSImage(context.Background(), mfs, nil, entNoDeps{})
	}
	route = "printed"
	if printedErr != nil {
		route = "direct"
		img = &source_j5pb.SourceImage{}
		seen := map[string]bool{}
		var add func(fd protoreflect.FileDescriptor) error
		add = func(fd protoreflect.FileDescriptor) error {
			if seen[fd.Path()] {
				return nil
			}
			seen[fd.Path()] = true
			imps := fd.Imports()
			for i := 0; i < imps.Len(); i++ {
				if err := add(imps.Get(i).FileDescriptor); err != nil {
					return err
				}
			}
			b, err := proto.Marshal(protodesc.ToFileDescriptorProto(fd))
			if err != nil {
				return err
			}
			fdp := &descriptorpb.FileDescriptorProto{}
			if err := proto.Unmarshal(b, fdp); err != nil {
				return err
			}
			img.File = append(img.File, fdp)
			return nil
		}
		for _, f := range files {
			if err := add(f); err != nil {
				return nil, route, printedErr, fmt.Errorf("direct image: %w", err)
			}
			img.SourceFilenames = append(img.SourceFilenames, f.Path())
		}
	}
	img.Packages = []*source_j5pb.PackageInfo{{Name: entPkg, Label: "Foo"}}
	srcAPI, err := structure.APIFromImage(img)
	if err != nil {
		return nil, route, printedErr, fmt.Errorf("api from image: %w", err)
	}
	api, err = j5client.APIFromSource(srcAPI)
	if err != nil {
		return nil, route, printedErr, fmt.Errorf("api from source: %w", err)
	}
	return api, route, printedErr, nil
}

// entProjectClient fills x.Client from the StateEntity the client API groups under the entity's annotation.
func entProjectClient(api *client_j5pb.API, x *entExpansion, wantName string) (found bool, others []string) {
	for _, pkg := range api.Packages {
		if pkg.Name != entPkg {
			continue
		}
		for _, se := range pkg.StateEntities {
			if found || (se.Name != wantName && len(pkg.StateEntities) > 1) {
				others = append(others, se.Name)
				continue
			}
			found = true
			x.Client.Name = se.Name
			x.Client.PrimaryKey = append(x.Client.PrimaryKey, se.PrimaryKey...)
			for _, ev := range se.Events {
				x.Client.Events = append(x.Client.Events, ev.Name)
			}
			if se.QueryService != nil {
				for _, m := range se.QueryService.Methods {
					x.Client.Query = append(x.Client.Query, m.Name)
				}
			}
			for _, c := range se.CommandServices {
				x.Client.Commands = append(x.Client.Commands, c.Name)
			}
		}
	}
	sort.Strings(others)
	return
}
