package main

import (
	"context"
	"encoding/json"
	"fmt"

	"github.com/pentops/j5/internal/j5s/protobuild"
	"google.golang.org/protobuf/proto"
	"google.golang.org/protobuf/types/descriptorpb"
)

func init() { register("schema-deps", schemaDepsDriver) }

// versionedDeps is a DependencySet holding one published file, ext/v1/ext.proto, in one of two versions: version 2
// inserts the value KIND_C before KIND_B, so the number of B differs.
type versionedDeps struct{ version int }

func (d versionedDeps) ListDependencyFiles(root string) []string {
	if root == "ext/v1" || root == "ext/v1/" {
		return []string{"ext/v1/ext.proto"}
	}
	return nil
}

func (d versionedDeps) GetDependencyFile(filename string) (*descriptorpb.FileDescriptorProto, error) {
	if filename != "ext/v1/ext.proto" {
		return nil, fmt.Errorf("dependency file not found: %s", filename)
	}
	vals := []string{"KIND_UNSPECIFIED", "KIND_A", "KIND_B"}
	if d.version == 2 {
		vals = []string{"KIND_UNSPECIFIED", "KIND_A", "KIND_C", "KIND_B"}
	}
	en := &descriptorpb.EnumDescriptorProto{Name: proto.String("Kind")}
	for i, v := range vals {
		en.Value = append(en.Value, &descriptorpb.EnumValueDescriptorProto{Name: proto.String(v), Number: proto.Int32(int32(i))})
	}
	return &descriptorpb.FileDescriptorProto{
		Name: proto.String("ext/v1/ext.proto"), Package: proto.String("ext.v1"), Syntax: proto.String("proto3"),
		EnumType: []*descriptorpb.EnumDescriptorProto{en},
		MessageType: []*descriptorpb.DescriptorProto{{Name: proto.String("Marker"), Field: []*descriptorpb.FieldDescriptorProto{{
			Name: proto.String("kind"), JsonName: proto.String("kind"), Number: proto.Int32(1),
			Type: descriptorpb.FieldDescriptorProto_TYPE_ENUM.Enum(), TypeName: proto.String(".ext.v1.Kind"),
			Label: descriptorpb.FieldDescriptorProto_LABEL_OPTIONAL.Enum()}}}},
	}, nil
}

const depsBundleText = "package user.v1\n\nimport ext.v1\n\nobject Holder {\n\tfield holderId key:id62\n\tfield kind enum:ext.v1.Kind {\n\t\trules.in = [\"B\"]\n\t}\n\tfield marker object:ext.v1.Marker\n}\n"

// schema-deps {history: [1, 2, 1]}: the same local bundle is compiled against the published file in the listed versions,
// one fresh PackageSet each, in ONE process; the digest of every compile is reported per version. What the compiler
// makes of (sources, dependency version v) must not depend on which versions the process compiled before (C14: "what
// else was compiled earlier in the same process"); the orchestrator runs each history in a process of its own and
// compares the digests per version across histories.
func schemaDepsDriver(raw json.RawMessage) *Out {
	var c struct {
		History []int `json:"history"`
	}
	if err := json.Unmarshal(raw, &c); err != nil || len(c.History) == 0 {
		return &Out{Skip: "bad case"}
	}
	out := &Out{Nontrivial: true, Key: fmt.Sprintf("deps|%v", c.History)}
	digests := map[string][]string{}
	for _, v := range c.History {
		src := newMemFiles(map[string]string{"user/v1/holder.j5s": depsBundleText})
		var d string
		func() {
			defer func() {
				if r := recover(); r != nil {
					d = fmt.Sprintf("panic: %v", r)
				}
			}()
			ps, err := protobuild.NewPackageSet(versionedDeps{v}, src)
			if err != nil {
				d = "error: " + err.Error()
				return
			}
			files, err := ps.CompilePackage(context.Background(), "user.v1")
			if err != nil {
				d = "error: " + errClass(err.Error())
				return
			}
			ds, err := digestFiles(files)
			if err != nil {
				d = "error: " + err.Error()
				return
			}
			d = combined(ds)
		}()
		k := fmt.Sprintf("v%d", v)
		digests[k] = append(digests[k], d)
	}
	for k, ds := range digests {
		for _, d := range ds[1:] {
			if d != ds[0] {
				out.V("C14|dependency-version|in-process", "the bundle compiled against dependency %s gives %s and later %s in the same process (history %v)", k, ds[0], d, c.History)
			}
		}
	}
	out.Obs = map[string]any{"digests": digests}
	return out
}
