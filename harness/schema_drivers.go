package main

// Drivers for C02 / C13 / C14 (work package "schema"):
//
//   schema-contract  {id, focus, ast, contract}            C02: project(compile(ast)) == contract on the listed attributes
//   schema-append    {id, focus, ast, befores:[ast...]}    C13: restrict(project(compile(ast)), elems(project(compile(b)))) == project(compile(b))
//   schema-determ    {id, focus, ast, reps}                C14 over the J5Schema program space: fresh sets, permuted listings, repeated
//   schema-order     {bundle shape + history}              C14 over CompileOrder.tla histories
//   schema-print     {ast}                                 development aid: printed sources + compiled .proto text
//
// A program the real compiler rejects is NOT a C02/C13/C14 violation (C07 owns acceptance): the case is
// counted as rejected (Obs.rejected, Note) and listed by lib/p_schema.py.

import (
	"context"
	"crypto/sha256"
	"encoding/hex"
	"encoding/json"
	"fmt"
	"sort"
	"strings"

	"github.com/bufbuild/protocompile/linker"
	"github.com/pentops/j5/internal/j5s/protobuild"
	"google.golang.org/protobuf/proto"
	"google.golang.org/protobuf/reflect/protodesc"
)

func init() {
	register("schema-contract", schemaContractDriver)
	register("schema-append", schemaAppendDriver)
	register("schema-determ", schemaDetermDriver)
	register("schema-order", schemaOrderDriver)
	register("schema-print", schemaPrintDriver)
}

type schemaCase struct {
	ID       string            `json:"id"`
	Focus    string            `json:"focus"`
	AST      json.RawMessage   `json:"ast"`
	Contract *contract         `json:"contract"`
	Befores  []beforeCase      `json:"befores"`
	Reps     int               `json:"reps"`
	Files    map[string]string `json:"files"` // schema-determ: the sources as text (instead of an AST)
	Ev       bool              `json:"ev"`    // record events for direction T (only a sample of the cases is traced)
}

type beforeCase struct {
	AST    json.RawMessage `json:"ast"`
	Edits  []string        `json:"edits"`  // labels of the append edits between this program and the case's program
	Listed bool            `json:"listed"` // every edit in between is one the statement of C13 lists (field / enum option / top-level declaration)
}

// projections of earlier versions are shared by many cases: a small per-worker cache keyed by the AST text
type projEntry struct {
	c   *contract
	err error
}

var projCache = map[string]projEntry{}

func projectASTCached(raw json.RawMessage) (*contract, error) {
	h := sha256.Sum256(raw)
	k := string(h[:16])
	if e, ok := projCache[k]; ok {
		return e.c, e.err
	}
	var c *contract
	b, err := parseAST(raw)
	if err == nil {
		var files []linker.File
		files, _, err = compileAST(b)
		if err == nil {
			c = projectFiles(files)
		}
	}
	if len(projCache) > 6000 {
		projCache = map[string]projEntry{}
	}
	projCache[k] = projEntry{c, err}
	return c, err
}

type astWrap struct {
	Pkgs schemaBundle `json:"pkgs"`
}

func parseAST(raw json.RawMessage) (schemaBundle, error) {
	var w astWrap
	if err := json.Unmarshal(raw, &w); err != nil {
		return nil, err
	}
	return w.Pkgs, nil
}

// compileAST prints the bundle and compiles every package on one fresh PackageSet.
// A panic inside the compiler is reported as an error (C07's business, not C02's).
func compileAST(b schemaBundle) (files []linker.File, sources map[string]string, err error) {
	sources = astToJ5s(b)
	defer func() {
		if r := recover(); r != nil {
			err = fmt.Errorf("panic: %v", r)
		}
	}()
	res, _, cerr := compileBundle(newMemFiles(sources), bundlePackages(b))
	if cerr != nil {
		return nil, sources, cerr
	}
	pk := make([]string, 0, len(res))
	for p := range res {
		pk = append(pk, p)
	}
	sort.Strings(pk)
	for _, p := range pk {
		files = append(files, res[p]...)
	}
	return files, sources, nil
}

func whereOf(focus string) string {
	if focus == "" {
		return "minimal"
	}
	return focus
}

func rejected(out *Out, focus string, err error, sources map[string]string) *Out {
	msg := err.Error()
	if len(msg) > 400 {
		msg = msg[:400]
	}
	out.Note = "rejected: " + msg
	out.Obs = map[string]any{"rejected": true, "focus": focus, "error": msg, "sources": sources}
	return out
}

func schemaContractDriver(raw json.RawMessage) *Out {
	var c schemaCase
	if err := json.Unmarshal(raw, &c); err != nil {
		return &Out{Skip: "bad case: " + err.Error()}
	}
	b, err := parseAST(c.AST)
	if err != nil {
		return &Out{Skip: "bad ast: " + err.Error()}
	}
	out := &Out{Key: c.ID}
	files, sources, err := compileAST(b)
	if err != nil {
		out = rejected(out, c.Focus, err, sources)
		// acceptance in general is C07's; but when the construct under test IS a type reference (local, cross-file,
		// imported by package or alias, proto<->j5s) of a valid program, a rejection is a reference that did not
		// resolve - which C02 states directly
		label := c.Focus[strings.LastIndex(c.Focus, "+")+1:]
		if strings.HasPrefix(label, "ref-") || strings.HasPrefix(label, "option-ref-") {
			out.V("C02|reference-unresolved|"+label, "valid program whose focus is the type reference %s is rejected: %s", label, out.Note)
		}
		return out
	}
	real := projectFiles(files)
	out.Nontrivial = len(real.Fields)+len(real.Values)+len(real.Methods) > 0
	if c.Contract != nil {
		compareContract(out, whereOf(c.Focus), c.Contract, real)
	}
	if len(out.Viol) > 0 {
		out.Obs = map[string]any{"sources": sources}
	}
	if c.Ev {
		out.Events = append(out.Events, map[string]any{"op": "compile", "ast": json.RawMessage(c.AST), "real": real})
	}
	return out
}

func schemaAppendDriver(raw json.RawMessage) *Out {
	var c schemaCase
	if err := json.Unmarshal(raw, &c); err != nil {
		return &Out{Skip: "bad case: " + err.Error()}
	}
	b, err := parseAST(c.AST)
	if err != nil {
		return &Out{Skip: "bad ast: " + err.Error()}
	}
	out := &Out{Key: c.ID}
	files, sources, err := compileAST(b)
	if err != nil {
		return rejected(out, c.Focus, err, sources)
	}
	after := projectFiles(files)
	nb := 0
	out.Events = append(out.Events, map[string]any{"op": "reset"})
	for i := len(c.Befores) - 1; i >= 0; i-- { // oldest first
		be := c.Befores[i]
		before, err := projectASTCached(be.AST)
		if err != nil {
			continue // the earlier program is rejected: nothing to preserve
		}
		nb++
		where := whereOf(strings.Join(be.Edits, "+"))
		if be.Listed {
			compareAppend(out, where, before, after)
		} else {
			// an edit kind the statement does not list (new method, new topic message, nested declaration, import, file):
			// the same comparison, reported as drift only
			tmp := &Out{}
			compareAppend(tmp, where, before, after)
			for _, v := range tmp.Viol {
				out.D(strings.Replace(v.Sig, "C13|", "C13|unlisted-edit|", 1), "%s", v.Detail)
			}
		}
		out.Events = append(out.Events, map[string]any{"op": "version", "c": wireOnly(before)})
	}
	out.Events = append(out.Events, map[string]any{"op": "version", "c": wireOnly(after)})
	if !c.Ev {
		out.Events = nil
	}
	out.Nontrivial = nb > 0 && len(after.Fields)+len(after.Values)+len(after.Methods) > 0
	if len(out.Viol) > 0 {
		out.Obs = map[string]any{"sources": sources}
	}
	return out
}

// wireOnly keeps the components C13 talks about (for the trace specification).
func wireOnly(c *contract) map[string]any {
	nz := func(x []cElem) []cElem {
		if x == nil {
			return []cElem{}
		}
		return x
	}
	strip := func(es []cElem, keep ...string) []cElem {
		o := make([]cElem, 0, len(es))
		for _, e := range es {
			n := cElem{}
			for _, k := range keep {
				n[k] = e[k]
			}
			o = append(o, n)
		}
		return o
	}
	return map[string]any{
		"msgs":     strip(nz(c.Msgs), "full", "parent", "kind"),
		"fields":   strip(nz(c.Fields), "msg", "name", "json", "number", "type", "typeName", "label", "opt"),
		"values":   strip(nz(c.Values), "enum", "name", "number"),
		"services": strip(nz(c.Services), "full", "role"),
		"methods":  strip(nz(c.Methods), "service", "name", "input", "output", "verb", "path"),
	}
}

// ---------------------------------------------------------------------------------------------
// C14

type fileDigest struct {
	Path  string `json:"path"`
	Desc  string `json:"desc"`
	Print string `json:"print"`
	text  string // the printed .proto text itself
}

func digestFiles(files linker.Files) ([]fileDigest, error) {
	var out []fileDigest
	for _, f := range files {
		fdp := protodesc.ToFileDescriptorProto(f)
		bb, err := proto.MarshalOptions{Deterministic: true}.Marshal(fdp)
		if err != nil {
			return nil, fmt.Errorf("marshal %s: %w", f.Path(), err)
		}
		txt, err := printFile(f)
		if err != nil {
			return nil, fmt.Errorf("print %s: %w", f.Path(), err)
		}
		h1 := sha256.Sum256(bb)
		h2 := sha256.Sum256([]byte(txt))
		out = append(out, fileDigest{Path: f.Path(), Desc: hex.EncodeToString(h1[:8]), Print: hex.EncodeToString(h2[:8]), text: txt})
	}
	return out, nil
}

func combined(ds []fileDigest) string {
	var sb strings.Builder
	for _, d := range ds {
		sb.WriteString(d.Path + ":" + d.Desc + ":" + d.Print + ";")
	}
	h := sha256.Sum256([]byte(sb.String()))
	return hex.EncodeToString(h[:8])
}

// compareDigests evaluates C14's predicate between a reference output and another output of the same package.
func compareDigests(out *Out, where, pkg string, ref, got []fileDigest) {
	rm := map[string]fileDigest{}
	for _, d := range ref {
		rm[d.Path] = d
	}
	sameSet := len(ref) == len(got)
	for _, d := range got {
		r, ok := rm[d.Path]
		if !ok {
			sameSet = false
			out.V("C14|file-set|"+where, "compile of %s produced %s which the reference compile of the same sources did not", pkg, d.Path)
			continue
		}
		if r.Desc != d.Desc {
			out.V("C14|descriptor-bytes|"+where, "descriptor of %s differs between two compiles of the same sources (%s vs %s)", d.Path, r.Desc, d.Desc)
		}
		if r.Print != d.Print {
			out.V("C14|print-text|"+where, "printed .proto of %s differs between two compiles of the same sources (%s vs %s)", d.Path, r.Print, d.Print)
		}
	}
	if len(ref) != len(got) {
		out.V("C14|file-set|"+where, "compile of %s produced %d files, the reference compile %d", pkg, len(got), len(ref))
	} else if sameSet {
		for i := range ref {
			if ref[i].Path != got[i].Path {
				out.V("C14|result-order|"+where, "CompilePackage(%s) returned its files in a different order (%s at index %d, reference %s)", pkg, got[i].Path, i, ref[i].Path)
				break
			}
		}
	}
}

func permute(xs []string, how int) []string {
	o := append([]string(nil), xs...)
	sort.Strings(o)
	n := len(o)
	switch how % 3 {
	case 1:
		for i, j := 0, n-1; i < j; i, j = i+1, j-1 {
			o[i], o[j] = o[j], o[i]
		}
	case 2:
		if n > 1 {
			o = append(o[1:], o[0])
		}
	}
	return o
}

// schemaDetermDriver: the same program compiled on fresh sets under different listings and on one reused set.
func schemaDetermDriver(raw json.RawMessage) *Out {
	var c schemaCase
	if err := json.Unmarshal(raw, &c); err != nil {
		return &Out{Skip: "bad case: " + err.Error()}
	}
	var sources map[string]string
	var pkgs []string
	if len(c.Files) > 0 {
		sources = c.Files
		seen := map[string]bool{}
		for f := range sources {
			if p := pkgOfFile(f); !seen[p] {
				seen[p] = true
				pkgs = append(pkgs, p)
			}
		}
		sort.Strings(pkgs)
	} else {
		b, err := parseAST(c.AST)
		if err != nil {
			return &Out{Skip: "bad ast: " + err.Error()}
		}
		sources = astToJ5s(b)
		pkgs = bundlePackages(b)
	}
	out := &Out{Key: c.ID}
	where := whereOf(c.Focus)
	ref := map[string][]fileDigest{}
	var rerr error
	func() {
		defer func() {
			if r := recover(); r != nil {
				rerr = fmt.Errorf("panic: %v", r)
			}
		}()
		for _, p := range pkgs {
			res, _, err := compileBundle(newMemFiles(sources), []string{p})
			if err != nil {
				rerr = err
				return
			}
			ref[p], rerr = digestFiles(res[p])
			if rerr != nil {
				return
			}
		}
	}()
	if rerr != nil {
		return rejected(out, c.Focus, rerr, sources)
	}
	reps := c.Reps
	if reps <= 0 {
		reps = 3
	}
	filesOf := map[string][]string{}
	for f := range sources {
		filesOf[pkgOfFile(f)] = append(filesOf[pkgOfFile(f)], f)
	}
	// the checkout of a user who commits the generated files: every generated .j5s.proto of the reference run sits next
	// to its source, and the file source lists it (in any position) like everything else below the package directory
	committed := map[string]string{}
	for k, v := range sources {
		committed[k] = v
	}
	for _, ds := range ref {
		for _, d := range ds {
			if strings.HasSuffix(d.Path, ".j5s.proto") {
				committed[d.Path] = d.text
			}
		}
	}
	for r := 0; r < reps+2; r++ {
		src := newMemFiles(sources)
		src.pkgOrder = permute(pkgs, r)
		src.fileOrd = map[string][]string{}
		for p, fs := range filesOf {
			src.fileOrd[pkgDir(p)] = permute(fs, r+1)
		}
		where := where
		if r >= reps {
			src = newMemFiles(committed)
			src.pkgOrder = permute(pkgs, r)
			src.fileOrd = map[string][]string{}
			for _, p := range pkgs {
				var fs []string
				for f := range committed {
					if strings.HasPrefix(f, pkgDir(p)+"/") {
						fs = append(fs, f)
					}
				}
				src.fileOrd[pkgDir(p)] = permute(fs, r+1)
			}
			where += "|generated-files-committed"
		}
		order := permute(pkgs, r+2)
		ps, err := protobuild.NewPackageSet(noDeps{}, src)
		if err != nil {
			out.V("C14|error-differs|"+where, "NewPackageSet failed on repetition %d: %v", r, err)
			continue
		}
		for pass := 0; pass < 2; pass++ { // second pass: reused set, everything cached
			for _, p := range order {
				files, err := ps.CompilePackage(context.Background(), p)
				if err != nil {
					out.V("C14|error-differs|"+where, "CompilePackage(%s) fails under listing permutation %d although the same sources compiled before: %v", p, r, err)
					continue
				}
				got, err := digestFiles(files)
				if err != nil {
					out.V("C14|error-differs|"+where, "%v", err)
					continue
				}
				compareDigests(out, where, p, ref[p], got)
			}
		}
	}
	out.Nontrivial = len(sources) > 1
	refSum := map[string]string{}
	for p, d := range ref {
		refSum[p] = combined(d)
	}
	out.Obs = map[string]any{"ref": refSum}
	return out
}

// ---- CompileOrder histories ------------------------------------------------------------------

// orderCase is one history of spec/CompileOrder.tla.
//
//	shape: packages -> files -> {decls:[type names], refs:[[pkg,type]]}
//	calls: [{op:"new", pkgListing:[..], listing:{pkg:[file names]}} | {op:"compile", p:"x.v1"}]
type orderFile struct {
	Name  string     `json:"name"`
	Decls []string   `json:"decls"`
	Refs  [][]string `json:"refs"`
}
type orderPkg struct {
	Name  string      `json:"name"`
	Files []orderFile `json:"files"`
}
type orderCall struct {
	Op         string              `json:"op"`
	P          string              `json:"p"`
	PkgListing []string            `json:"pkgListing"`
	Listing    map[string][]string `json:"listing"`
}
type orderCase struct {
	Bundle string      `json:"bundle"`
	Shape  []orderPkg  `json:"shape"`
	Calls  []orderCall `json:"calls"`
	Reps   int         `json:"reps"`
	Valid  bool        `json:"valid"`
}

func shortOf(pkg string) string {
	parts := strings.Split(pkg, ".")
	if len(parts) >= 2 {
		return parts[len(parts)-2]
	}
	return pkg
}

// orderShapeToAST turns an abstract bundle shape into a program of the J5Schema AST: every declared type is an object
// with a key and an enum field; every ref becomes a field `object:<Type>` (with an import when cross-package); each file
// additionally declares a service and a topic when it is the first file of its package, so that sub-package outputs,
// options and imports take part in the comparison.
func orderShapeToAST(shape []orderPkg) schemaBundle {
	nm := func(src string, w ...string) schemaName { return schemaName{W: w, Sp: "x", Src: src} }
	var b schemaBundle
	for pi, p := range shape {
		sp := schemaPkg{Name: p.Name}
		for fi, f := range p.Files {
			sf := schemaFile{Name: f.Name}
			imported := map[string]bool{}
			var refFields []schemaField
			for i, r := range f.Refs {
				t := schemaType{K: "ref", Rk: "object", Pkg: r[0], Path: []string{r[1]}, Form: "qual"}
				if r[0] != p.Name {
					if !imported[r[0]] {
						imported[r[0]] = true
						sf.Imports = append(sf.Imports, schemaImport{Pkg: r[0], Form: "pkg"})
					}
					t.Qual = r[0]
					if len(r) > 2 && r[2] == "short" {
						t.Qual = shortOf(r[0]) // written through the package's short name
					}
				}
				refFields = append(refFields, schemaField{Name: nm(fmt.Sprintf("ref%c", 'A'+i)), Type: t, Pres: "none", PresForm: "mark"})
			}
			for di, d := range f.Decls {
				obj := schemaDecl{Kind: "object", Name: nm(d)}
				obj.Fields = append(obj.Fields,
					schemaField{Name: nm("objId"), Type: schemaType{K: "scalar", S: "key:id62"}, Pres: "req", PresForm: "mark"},
					schemaField{Name: nm("kind"), Type: schemaType{K: "inline", Ik: "enum", Options: []string{"A", "B"}, Info: [][]string{{"delta", "quote"}, {"alpha", "astral"}, {"gamma", "ctl"}, {"beta", "bmp"}, {"epsilon", "plain"}, {"Alpha", "upper"}}}, Pres: "none", PresForm: "mark"},
					schemaField{Name: nm("tags"), Type: schemaType{K: "map", Item: &schemaType{K: "scalar", S: "string"}}, Pres: "none", PresForm: "mark"},
					schemaField{Name: nm("when"), Type: schemaType{K: "scalar", S: "timestamp"}, Pres: "opt", PresForm: "mark"},
				)
				// a rules block without `required` in the even packages and with it in the odd ones: the compiled
				// constraints of a field must not depend on what the process converted before it (shared option messages)
				if pi%2 == 0 {
					obj.Fields = append(obj.Fields, schemaField{Name: nm("seenAt"), Type: schemaType{K: "scalar", S: "timestamp"}, Pres: "none", PresForm: "mark", Attrs: []string{"rules.exclusiveMinimum = true"}})
				} else {
					obj.Fields = append(obj.Fields, schemaField{Name: nm("madeAt"), Type: schemaType{K: "scalar", S: "timestamp"}, Pres: "req", PresForm: "mark", Attrs: []string{"rules.exclusiveMinimum = true"}})
				}
				if di == 0 {
					obj.Fields = append(obj.Fields, refFields...)
				}
				sf.Decls = append(sf.Decls, obj)
			}
			if fi == 0 && len(f.Decls) > 0 {
				first := f.Decls[0]
				sf.Decls = append(sf.Decls, schemaDecl{Kind: "service", Name: nm(first + "Api"), BasePath: "/" + shortOf(p.Name) + "/v1",
					Methods: []schemaMethod{{Name: nm("Get" + first), Verb: "GET", Path: []schemaSeg{{S: "item"}, {P: true, S: "objId"}},
						Request:     []schemaField{{Name: nm("objId"), Type: schemaType{K: "scalar", S: "key:id62"}, Pres: "req", PresForm: "mark"}},
						HasResponse: true,
						Response:    []schemaField{{Name: nm("item"), Type: schemaType{K: "ref", Rk: "object", Pkg: p.Name, Path: []string{first}, Form: "qual"}, Pres: "none", PresForm: "mark"}}}}})
				sf.Decls = append(sf.Decls, schemaDecl{Kind: "topic", Name: nm(first + "Feed"), Tkind: "publish",
					Messages: []schemaMessage{{Name: nm(first + "Changed"), Fields: []schemaField{{Name: nm("item"), Type: schemaType{K: "ref", Rk: "object", Pkg: p.Name, Path: []string{first}, Form: "qual"}, Pres: "none", PresForm: "mark"}}}}})
			}
			sp.Files = append(sp.Files, sf)
		}
		b = append(b, sp)
	}
	return b
}

func schemaOrderDriver(raw json.RawMessage) *Out {
	var c orderCase
	if err := json.Unmarshal(raw, &c); err != nil {
		return &Out{Skip: "bad case: " + err.Error()}
	}
	out := &Out{}
	kb, _ := json.Marshal(c.Calls)
	out.Key = c.Bundle + ":" + string(kb)
	b := orderShapeToAST(c.Shape)
	sources := astToJ5s(b)
	pkgs := bundlePackages(b)
	where := c.Bundle
	// reference: each package alone on a fresh set with the sorted listing
	ref := map[string][]fileDigest{}
	refErr := map[string]string{}
	for _, p := range pkgs {
		func() {
			defer func() {
				if r := recover(); r != nil {
					refErr[p] = fmt.Sprintf("panic: %v", r)
				}
			}()
			res, _, err := compileBundle(newMemFiles(sources), []string{p})
			if err != nil {
				refErr[p] = err.Error()
				return
			}
			d, err := digestFiles(res[p])
			if err != nil {
				refErr[p] = err.Error()
				return
			}
			ref[p] = d
		}()
	}
	if c.Valid && len(refErr) > 0 {
		// the sorted listing does not compile: is that a property of the sources, or of the listing?
		allPkgs := append([]string{}, pkgs...)
		sort.Sort(sort.Reverse(sort.StringSlice(allPkgs)))
		for p, e := range refErr {
			src := newMemFiles(sources)
			src.pkgOrder = allPkgs
			var err2 error
			func() {
				defer func() {
					if r := recover(); r != nil {
						err2 = fmt.Errorf("panic: %v", r)
					}
				}()
				var ps *protobuild.PackageSet
				if ps, err2 = protobuild.NewPackageSet(noDeps{}, src); err2 == nil {
					_, err2 = ps.CompilePackage(context.Background(), p)
				}
			}()
			if err2 == nil {
				out.Nontrivial = true
				out.V("C14|error-differs|"+where, "CompilePackage(%s) fails when the packages are listed in sorted order (%s) and succeeds when they are listed in reverse order", p, e)
				return out
			}
			return rejected(out, c.Bundle, fmt.Errorf("%s: %s", p, e), sources)
		}
	}
	reps := c.Reps
	if reps <= 0 {
		reps = 3
	}
	nCompile := 0
	leak := false
	for r := 0; r < reps; r++ {
		var ps *protobuild.PackageSet
		out.Events = append(out.Events, map[string]any{"op": "reset"})
		for _, call := range c.Calls {
			switch call.Op {
			case "new":
				src := newMemFiles(sources)
				src.pkgOrder = call.PkgListing
				src.fileOrd = map[string][]string{}
				for p, fs := range call.Listing {
					var names []string
					for _, f := range fs {
						names = append(names, j5sFileName(p, f))
					}
					src.fileOrd[pkgDir(p)] = names
				}
				var err error
				ps, err = protobuild.NewPackageSet(noDeps{}, src)
				if err != nil {
					out.V("C14|error-differs|"+where, "NewPackageSet: %v", err)
					return out
				}
				out.Events = append(out.Events, map[string]any{"op": "new", "pkgListing": call.PkgListing, "listing": call.Listing})
			case "compile":
				if ps == nil {
					continue
				}
				var files linker.Files
				var err error
				func() {
					defer func() {
						if rr := recover(); rr != nil {
							err = fmt.Errorf("panic: %v", rr)
						}
					}()
					files, err = ps.CompilePackage(context.Background(), call.P)
				}()
				nCompile++
				_, refFailed := refErr[call.P]
				if err != nil {
					if !refFailed {
						if c.Valid {
							out.V("C14|error-differs|"+where, "CompilePackage(%s) fails in this history (%v) although the same sources compile on a fresh set", call.P, err)
						} else {
							leak = true
						}
					}
					out.Events = append(out.Events, map[string]any{"op": "compile", "p": call.P, "digest": "error", "canon": canonOf(ref, refErr, call.P)})
					continue
				}
				if refFailed {
					if c.Valid {
						out.V("C14|error-differs|"+where, "CompilePackage(%s) succeeds in this history although the same sources fail on a fresh set (%s)", call.P, refErr[call.P])
					} else {
						leak = true
					}
					out.Events = append(out.Events, map[string]any{"op": "compile", "p": call.P, "digest": "ok", "canon": "error"})
					continue
				}
				got, err := digestFiles(files)
				if err != nil {
					out.V("C14|error-differs|"+where, "%v", err)
					continue
				}
				if c.Valid {
					compareDigests(out, where, call.P, ref[call.P], got)
				} else if combined(got) != combined(ref[call.P]) {
					leak = true
				}
				out.Events = append(out.Events, map[string]any{"op": "compile", "p": call.P, "digest": combined(got), "canon": combined(ref[call.P])})
			}
		}
	}
	out.Nontrivial = nCompile > 0
	refSum := map[string]string{}
	for p, d := range ref {
		refSum[p] = combined(d)
	}
	for p := range refErr {
		refSum[p] = "error"
	}
	out.Obs = map[string]any{"ref": refSum, "bundle": c.Bundle, "leak": leak, "valid": c.Valid}
	return out
}

func canonOf(ref map[string][]fileDigest, refErr map[string]string, p string) string {
	if _, bad := refErr[p]; bad {
		return "error"
	}
	return combined(ref[p])
}

func schemaPrintDriver(raw json.RawMessage) *Out {
	var c schemaCase
	if err := json.Unmarshal(raw, &c); err != nil {
		return &Out{Skip: err.Error()}
	}
	b, err := parseAST(c.AST)
	if err != nil {
		return &Out{Skip: err.Error()}
	}
	out := &Out{}
	files, sources, err := compileAST(b)
	obs := map[string]any{"sources": sources}
	if err != nil {
		out.Note = "error: " + err.Error()
	} else {
		printed := map[string]string{}
		for _, f := range files {
			s, _ := printFile(f)
			printed[f.Path()] = s
		}
		obs["printed"] = printed
		obs["contract"] = projectFiles(files)
	}
	out.Obs = obs
	return out
}
