package main

import (
	"encoding/json"
	"fmt"
	"regexp"

	"buf.build/gen/go/bufbuild/protovalidate/protocolbuffers/go/buf/validate"
	"github.com/pentops/j5/gen/j5/schema/v1/schema_j5pb"
	"github.com/pentops/j5/lib/id62"
	"google.golang.org/protobuf/proto"
	"google.golang.org/protobuf/reflect/protoreflect"
)

func init() { register("id62-pattern", id62PatternDriver) }

// id62-pattern (C20, third anchored mechanism: "PatternString is emitted as the validation pattern for key:id62 and
// recognised on read-back"): a key:id62 property in one position (single / array item / map value, with and without rules
// of the collection itself) is compiled; the pattern the compiler bakes into the validation rule of the identifier must
// be the published one, every rendering of the case's identifiers must match it, and reflection - from the descriptors
// and from the printed text - must read the property back as key:id62.
type id62PatternCase struct {
	Card  string   `json:"card"`  // single | array | map
	Rules string   `json:"rules"` // "" | collection rules of the j5s declaration
	Pres  string   `json:"pres"`  // "" | "!" | "?"
	IDs   []string `json:"ids"`   // renderings to match against the emitted pattern
}

func id62PatternDriver(raw json.RawMessage) *Out {
	var c id62PatternCase
	if err := json.Unmarshal(raw, &c); err != nil {
		return &Out{Skip: "bad case: " + err.Error()}
	}
	where := fmt.Sprintf("card=%s|rules=%s|pres=%s", c.Card, c.Rules, c.Pres)
	out := &Out{Key: "id62-pattern|" + where, Nontrivial: true}
	typ := map[string]string{"single": "key:id62", "array": "array:key:id62", "map": "map:key:id62"}[c.Card]
	body := ""
	if c.Rules != "" {
		body = " {\n    " + c.Rules + "\n  }"
	}
	text := "package idp.v1\n\nobject Holder {\n  field ident " + c.Pres + typ + body + "\n}\n"
	res, _, err := compileBundle(newMemFiles(map[string]string{"idp/v1/holder.j5s": text}), nil)
	if err != nil {
		out.Skip = "does not compile (C07's subject): " + err.Error()
		out.Note = text
		return out
	}
	var fd protoreflect.FileDescriptor
	var md protoreflect.MessageDescriptor
	for _, files := range res {
		for _, f := range files {
			if m := f.Messages().ByName("Holder"); m != nil {
				fd, md = f, m
			}
		}
	}
	if md == nil {
		return &Out{Skip: "no message Holder"}
	}
	field := md.Fields().ByName("ident")
	// --- emitted pattern
	patternOf := func(fc *validate.FieldConstraints) string {
		switch c.Card {
		case "array":
			return fc.GetRepeated().GetItems().GetString_().GetPattern()
		case "map":
			return fc.GetMap().GetValues().GetString_().GetPattern()
		}
		return fc.GetString_().GetPattern()
	}
	fc, _ := proto.GetExtension(field.Options(), validate.E_Field).(*validate.FieldConstraints)
	got := patternOf(fc)
	if got == "" && c.Card == "map" && field.MapValue() != nil {
		vfc, _ := proto.GetExtension(field.MapValue().Options(), validate.E_Field).(*validate.FieldConstraints)
		got = vfc.GetString_().GetPattern()
	}
	if got != id62.PatternString {
		out.V("C20|compiled-pattern|"+where, "the validation rule compiled for %s carries the pattern %q, the published ID62 pattern is %q\n%s", typ, got, id62.PatternString, text)
	} else if re, err := regexp.Compile(got); err == nil {
		for _, s := range c.IDs {
			if !re.MatchString(s) {
				out.V("C20|compiled-pattern-rejects-rendering|"+where, "rendering %q does not match the compiled pattern %q", s, got)
				break
			}
		}
	}
	// --- read-back
	check := func(src string, f protoreflect.FileDescriptor) {
		root, rerr, pan := rlReflectSet(f, "Holder")
		if rerr != nil {
			out.V("C20|read-back|reflect-error|"+src+"|"+where, "reflecting Holder fails (%s): %v %s\n%s", src, rerr, pan, text)
			return
		}
		var item *schema_j5pb.Field
		for _, p := range root.GetObject().GetProperties() {
			if p.Name == "ident" {
				item = p.Schema
			}
		}
		switch c.Card {
		case "array":
			item = item.GetArray().GetItems()
		case "map":
			item = item.GetMap().GetItemSchema()
		}
		if item.GetKey() == nil || item.GetKey().GetFormat().GetId62() == nil {
			out.V("C20|read-back|not-id62|"+src+"|"+where, "the %s of %s is read back (%s) as %v, not as key:id62\n%s", map[string]string{"single": "property", "array": "item", "map": "value"}[c.Card], typ, src, item, text)
		}
	}
	check("memory", fd)
	if printed, perr := printFile2(fd); perr == nil {
		if tfd, terr := rlParseText(fd.Path(), printed); terr == nil {
			check("text", tfd)
		}
	}
	return out
}
