package main

// Pipeline family: C05 (printed .proto re-parses to the descriptor it was printed from), C15 (schema sets survive
// export to the source-API form and re-import), C16 (everything the compiler emits is consumable by the rest of the
// tool-chain). One driver runs the stages of spec/Pipeline.tla on a program and evaluates the three properties on
// the real artefacts; violations carry the property id so that each check absorbs only its own.

import (
	"context"
	"encoding/json"
	"fmt"
	"io/fs"
	"os"
	"runtime/debug"
	"sort"
	"strings"
	"testing/fstest"

	"github.com/bufbuild/protocompile"
	"github.com/bufbuild/protocompile/linker"
	"github.com/pentops/j5/gen/j5/client/v1/client_j5pb"
	"github.com/pentops/j5/gen/j5/schema/v1/schema_j5pb"
	"github.com/pentops/j5/gen/j5/source/v1/source_j5pb"
	"github.com/pentops/j5/internal/codec"
	"github.com/pentops/j5/internal/export"
	"github.com/pentops/j5/internal/j5client"
	"github.com/pentops/j5/internal/protosrc"
	"github.com/pentops/j5/internal/structure"
	"github.com/pentops/j5/lib/j5schema"
	"google.golang.org/genproto/googleapis/api/annotations"
	"google.golang.org/protobuf/proto"
	"google.golang.org/protobuf/reflect/protodesc"
	"google.golang.org/protobuf/reflect/protoreflect"
	"google.golang.org/protobuf/types/descriptorpb"
)

type pipeCase struct {
	// one of: an AST case of spec/J5Schema.tla (the whole raw case), a bundle of source files, a directory of .proto files
	Files     map[string]string `json:"files"`
	ProtoRoot string            `json:"proto_root"`
	Lang      *langCase         `json:"lang"`  // a J5Lang construct (printed with langFiles)
	Rules     *rlReflectCase    `json:"rules"` // a J5Rules declaration: every rule / annotation of the catalogue (printed with rlFileText)
	Cls       string            `json:"cls"`
	Image     bool              `json:"image"` // proto_root: the tree is an API (app / dep packages); carry on to the image stages
	AST       json.RawMessage   `json:"ast"` // {"pkgs": [...]}: a bundle of spec/J5Schema.tla
}

func init() { register("pipeline", pipelineDriver) }

// stage runs f, converting a panic into an error tagged with the stage (so the signature names the stage)
func stage(name string, f func() error) (err error, panicked bool) {
	defer func() {
		if r := recover(); r != nil {
			site := ""
			for _, l := range strings.Split(string(debug.Stack()), "\n") {
				l = strings.TrimSpace(l)
				if strings.HasPrefix(l, "github.com/pentops/j5/") && !strings.Contains(l, "verifh") {
					site = " at " + strings.TrimPrefix(strings.SplitN(l, "(", 2)[0], "github.com/pentops/j5/")
					if i := strings.LastIndex(l, "("); i > 0 {
						site = " at " + strings.TrimPrefix(l[:i], "github.com/pentops/j5/")
					}
					break
				}
			}
			err = fmt.Errorf("panic in %s%s: %v", name, site, r)
			panicked = true
		}
	}()
	return f(), false
}

type noMoreDeps struct{}

func (noMoreDeps) FindFileByPath(path string) (protocompile.SearchResult, error) {
	return protocompile.SearchResult{}, os.ErrNotExist
}

// ---------- generic message diff: paths of fields that differ ----------

func diffPaths(a, b protoreflect.Message, prefix string, out map[string]bool, depth int) {
	if depth > 12 || len(out) > 12 {
		return
	}
	fields := a.Descriptor().Fields()
	for i := 0; i < fields.Len(); i++ {
		f := fields.Get(i)
		p := prefix + string(f.Name())
		ha, hb := a.Has(f), b.Has(f)
		if !ha && !hb {
			continue
		}
		if ha != hb {
			if ha {
				out[p+"(lost)"] = true
			} else {
				out[p+"(added)"] = true
			}
			continue
		}
		va, vb := a.Get(f), b.Get(f)
		switch {
		case f.IsList():
			la, lb := va.List(), vb.List()
			if la.Len() != lb.Len() {
				out[p+"[](count)"] = true
				continue
			}
			for j := 0; j < la.Len(); j++ {
				if f.Message() != nil {
					diffPaths(la.Get(j).Message(), lb.Get(j).Message(), p+"[].", out, depth+1)
				} else if !la.Get(j).Equal(lb.Get(j)) {
					out[p+"[]"] = true
				}
			}
		case f.IsMap():
			ma, mb := va.Map(), vb.Map()
			if ma.Len() != mb.Len() {
				out[p+"{}(count)"] = true
				continue
			}
			ma.Range(func(k protoreflect.MapKey, v protoreflect.Value) bool {
				if !mb.Has(k) {
					out[p+"{}(key)"] = true
					return true
				}
				if f.MapValue().Message() != nil {
					diffPaths(v.Message(), mb.Get(k).Message(), p+"{}.", out, depth+1)
				} else if !v.Equal(mb.Get(k)) {
					out[p+"{}"] = true
				}
				return true
			})
		case f.Message() != nil:
			diffPaths(va.Message(), vb.Message(), p+".", out, depth+1)
		default:
			if !va.Equal(vb) {
				out[p] = true
			}
		}
	}
	// unknown fields carry uninterpreted options
	if string(a.GetUnknown()) != string(b.GetUnknown()) {
		out[prefix+"(unknown-fields)"] = true
	}
}

func firstDiff(a, b proto.Message) string {
	out := map[string]bool{}
	diffPaths(a.ProtoReflect(), b.ProtoReflect(), "", out, 0)
	var ps []string
	for p := range out {
		ps = append(ps, p)
	}
	sort.Strings(ps)
	if len(ps) == 0 {
		return "(no structural difference found)"
	}
	if len(ps) > 3 {
		ps = ps[:3]
	}
	return strings.Join(ps, ",")
}

// ---------- C05 ----------

// comments: leading comment per source path
func leadingComments(fd *descriptorpb.FileDescriptorProto) map[string]string {
	out := map[string]string{}
	for _, loc := range fd.GetSourceCodeInfo().GetLocation() {
		if c := strings.TrimSpace(loc.GetLeadingComments()); c != "" {
			out[fmt.Sprint(loc.Path)] = c
		}
	}
	return out
}

// defaultJSONName is protoc's rule for a field without an explicit json_name
func defaultJSONName(name string) string {
	var b []byte
	up := false
	for i := 0; i < len(name); i++ {
		ch := name[i]
		if ch == '_' {
			up = true
			continue
		}
		if up && ch >= 'a' && ch <= 'z' {
			ch -= 'a' - 'A'
		}
		up = false
		b = append(b, ch)
	}
	return string(b)
}

func normaliseFields(fs []*descriptorpb.FieldDescriptorProto) {
	for _, f := range fs {
		if f.Options != nil && proto.Size(f.Options) == 0 {
			f.Options = nil // an empty options message says nothing
		}
		if f.JsonName == nil {
			f.JsonName = proto.String(defaultJSONName(f.GetName())) // the effective JSON name is what is compared
		}
	}
}

func sortExtensions(fs []*descriptorpb.FieldDescriptorProto) {
	// the order in which extensions are declared is not part of a descriptor's meaning
	sort.SliceStable(fs, func(i, j int) bool {
		if fs[i].GetExtendee() != fs[j].GetExtendee() {
			return fs[i].GetExtendee() < fs[j].GetExtendee()
		}
		return fs[i].GetNumber() < fs[j].GetNumber()
	})
}

func normaliseMessage(m *descriptorpb.DescriptorProto) {
	if m.Options != nil && proto.Size(m.Options) == 0 {
		m.Options = nil
	}
	normaliseFields(m.Field)
	normaliseFields(m.Extension)
	sortExtensions(m.Extension)
	for _, o := range m.OneofDecl {
		if o.Options != nil && proto.Size(o.Options) == 0 {
			o.Options = nil
		}
	}
	for _, e := range m.EnumType {
		normaliseEnum(e)
	}
	for _, n := range m.NestedType {
		normaliseMessage(n)
	}
}

func normaliseEnum(e *descriptorpb.EnumDescriptorProto) {
	if e.Options != nil && proto.Size(e.Options) == 0 {
		e.Options = nil
	}
	for _, v := range e.Value {
		if v.Options != nil && proto.Size(v.Options) == 0 {
			v.Options = nil
		}
	}
}

func normaliseFD(fd *descriptorpb.FileDescriptorProto) *descriptorpb.FileDescriptorProto {
	c := proto.Clone(fd).(*descriptorpb.FileDescriptorProto)
	c.SourceCodeInfo = nil
	sort.Strings(c.Dependency) // "same imports"; order of import lines is not part of the statement
	c.PublicDependency, c.WeakDependency = nil, nil
	if c.Options != nil && proto.Size(c.Options) == 0 {
		c.Options = nil
	}
	for _, m := range c.MessageType {
		normaliseMessage(m)
	}
	for _, e := range c.EnumType {
		normaliseEnum(e)
	}
	normaliseFields(c.Extension)
	sortExtensions(c.Extension)
	for _, s := range c.Service {
		if s.Options != nil && proto.Size(s.Options) == 0 {
			s.Options = nil
		}
		for _, m := range s.Method {
			if m.Options != nil && proto.Size(m.Options) == 0 {
				m.Options = nil
			}
		}
	}
	return c
}

// canonical re-marshal so that extension values set as Go messages and parsed ones compare equal
func remarshal(fd *descriptorpb.FileDescriptorProto) *descriptorpb.FileDescriptorProto {
	b, err := proto.MarshalOptions{Deterministic: true}.Marshal(fd)
	if err != nil {
		return fd
	}
	out := &descriptorpb.FileDescriptorProto{}
	if err := proto.Unmarshal(b, out); err != nil {
		return fd
	}
	return out
}

func c05Check(out *Out, cls string, originals []protoreflect.FileDescriptor) (reparsed linker.Files, ok bool) {
	mfs := fstest.MapFS{}
	texts := map[string]string{}
	for _, f := range originals {
		var text string
		err, pan := stage("print", func() error {
			var e error
			text, e = printFile2(f)
			return e
		})
		if err != nil {
			k := "error"
			if pan {
				k = "panic"
			}
			out.V("C05|print-"+k+"|"+cls, "PrintFile(%s) fails: %v", f.Path(), err)
			return nil, false
		}
		texts[f.Path()] = text
		mfs[f.Path()] = &fstest.MapFile{Data: []byte(text)}
	}
	var names []string
	for n := range texts {
		names = append(names, n)
	}
	sort.Strings(names)
	resolver := protocompile.CompositeResolver{protosrc.NewFSResolver(mfs), protosrc.BuiltinResolver, noMoreDeps{}}
	var linked linker.Files
	err, pan := stage("reparse", func() error {
		var e error
		linked, e = protosrc.NewCompiler(resolver).CompileToLinkers(context.Background(), names)
		return e
	})
	if err != nil {
		k := "error"
		if pan {
			k = "panic"
		}
		first := names[0]
		if strings.HasPrefix(cls, "shapes:") && strings.Contains(err.Error(), "conflicts with default JSON name") {
			// two fields with one JSON name: a descriptor set that no proto source text can express
			out.Skip = "not expressible as proto source: " + errClass(err.Error())
			return nil, false
		}
		out.V("C05|reparse-"+k+"|"+cls+"|"+errClass(err.Error()), "the printed text does not parse/link: %v\n--- %s ---\n%s", err, first, texts[first])
		return nil, false
	}
	byPath := map[string]linker.File{}
	for _, l := range linked {
		byPath[l.Path()] = l
	}
	allOK := true
	for _, f := range originals {
		l := byPath[f.Path()]
		if l == nil {
			out.V("C05|reparse-missing|"+cls, "no re-parsed file for %s", f.Path())
			allOK = false
			continue
		}
		a := remarshal(protodesc.ToFileDescriptorProto(f))
		b := remarshal(protodesc.ToFileDescriptorProto(l))
		na, nb := normaliseFD(a), normaliseFD(b)
		// options on the value field of a synthetic map entry cannot be written in proto text (map<k, v> has no place for
		// them): reported once under its own signature, then left out of the structural comparison
		if lost := stripMapValueOptions(na.MessageType); len(lost) > 0 {
			stripMapValueOptions(nb.MessageType)
			out.V("C05|map-value-options-lost|"+strings.Join(lost, "+"), "options on the value of map field(s) %v of %s are not printed (map<k,v> syntax cannot carry them) and are lost on re-parse", lost, f.Path())
			allOK = false
		}
		if !proto.Equal(na, nb) {
			out.V("C05|descriptor-differs|"+firstDiff(na, nb)+"|"+cls, "re-parsing the printed %s gives a different descriptor (%s)\n%s", f.Path(), firstDiff(na, nb), texts[f.Path()])
			allOK = false
		}
		// leading comments: every comment of the original must be on the same element
		ca, cb := leadingComments(a), leadingComments(b)
		for p, c := range ca {
			// compiled j5s: the comment text is generated and has to come back exactly (leadingComments trims the ends);
			// hand-written protos: up to white space at the ends of lines
			strict := !strings.HasPrefix(cls, "proto-tree")
			if (strict && cb[p] != c) || normComment(cb[p]) != normComment(c) {
				out.V("C05|comment-differs|"+cls, "leading comment of %s at path %s: original %q, re-parsed %q", f.Path(), p, c, cb[p])
				allOK = false
				break
			}
		}
		text2, err := printFile2(l)
		if err != nil {
			out.V("C05|reprint-error|"+cls, "printing the re-parsed %s fails: %v", f.Path(), err)
			allOK = false
		} else if text2 != texts[f.Path()] {
			where, commentsOnly := firstLineDiff(texts[f.Path()], text2)
			kind := "structure"
			if commentsOnly {
				kind = "non-leading-comments"
			}
			if strings.HasPrefix(cls, "shapes:") {
				// descriptor sets built without any source information are neither compiled j5s nor files of the proto/ tree:
				// how blank lines and nested declarations are laid out without positions is not what the statement fixes
				out.D("C05-undemanded|reprint-differs|"+kind+"|"+cls, "printing the re-parsed %s gives different text (%s) at %s", f.Path(), kind, where)
			} else {
				out.V("C05|reprint-differs|"+kind+"|"+cls, "printing the re-parsed %s gives different text (%s) at %s", f.Path(), kind, where)
				allOK = false
			}
		}
	}
	return linked, allOK
}

// stripMapValueOptions removes options from the value field of every map entry and says which extensions they held
func stripMapValueOptions(ms []*descriptorpb.DescriptorProto) []string {
	seen := map[string]bool{}
	var walk func(ms []*descriptorpb.DescriptorProto)
	walk = func(ms []*descriptorpb.DescriptorProto) {
		for _, m := range ms {
			if m.GetOptions().GetMapEntry() {
				for _, f := range m.Field {
					if f.GetName() == "value" && f.Options != nil {
						f.Options.ProtoReflect().Range(func(fd protoreflect.FieldDescriptor, _ protoreflect.Value) bool {
							seen[string(fd.FullName())] = true
							return true
						})
						if len(f.Options.ProtoReflect().GetUnknown()) > 0 {
							seen["unknown"] = true
						}
						f.Options = nil
					}
				}
			}
			walk(m.NestedType)
		}
	}
	walk(ms)
	return keysOf(seen)
}

// firstLineDiff shows where two texts part
func firstLineDiff(a, b string) (string, bool) {
	la, lb := strings.Split(a, "\n"), strings.Split(b, "\n")
	for i := 0; i < len(la) || i < len(lb); i++ {
		x, y := "<end>", "<end>"
		if i < len(la) {
			x = la[i]
		}
		if i < len(lb) {
			y = lb[i]
		}
		if x != y {
			return fmt.Sprintf("line %d: %q vs %q", i+1, x, y), stripComments(a) == stripComments(b)
		}
	}
	return "", false
}

func stripComments(t string) string {
	var out []string
	for _, l := range strings.Split(t, "\n") {
		if i := strings.Index(l, "//"); i >= 0 {
			l = l[:i]
		}
		l = strings.TrimRight(l, " \t")
		if l != "" {
			out = append(out, l)
		}
	}
	return strings.Join(out, "\n")
}

func normComment(c string) string {
	var ls []string
	for _, l := range strings.Split(c, "\n") {
		ls = append(ls, strings.TrimSpace(l))
	}
	return strings.TrimSpace(strings.Join(ls, "\n"))
}

func printFile2(f protoreflect.FileDescriptor) (string, error) {
	if lf, ok := f.(linker.File); ok {
		return printFile(lf)
	}
	return printFileDesc(f)
}

// ---------- C15 ----------

func c15Check(out *Out, cls string, api *source_j5pb.API) {
	var set *j5schema.SchemaSet
	err, pan := stage("import", func() error {
		var e error
		set, e = j5schema.PackageSetFromSourceAPI(api.Packages)
		return e
	})
	if err != nil {
		k := "import-error"
		if pan {
			k = "import-panic"
		}
		out.V("C15|"+k+"|"+errClass(err.Error())+"|"+cls, "PackageSetFromSourceAPI fails on the API exported from the same descriptors: %v", err)
		return
	}
	check := func(pkgName string, schemas map[string]*schema_j5pb.RootSchema) {
		var names []string
		for n := range schemas {
			names = append(names, n)
		}
		sort.Strings(names)
		for _, n := range names {
			orig := schemas[n]
			var again *schema_j5pb.RootSchema
			err, _ := stage("re-export", func() error {
				rs, e := set.SchemaByName(pkgName, n)
				if e != nil {
					return e
				}
				if rs == nil {
					return fmt.Errorf("schema %s.%s has no linked target", pkgName, n)
				}
				again = rs.ToJ5Root()
				return nil
			})
			if err != nil {
				out.V("C15|re-export-error|"+errClass(err.Error())+"|"+cls, "re-export of %s.%s: %v", pkgName, n, err)
				continue
			}
			if os.Getenv("VERIF_DEBUG_C15") != "" {
				fmt.Fprintf(os.Stderr, "C15DEBUG %s.%s\n  orig  %v\n  again %v\n", pkgName, n, orig, again)
			}
			if !proto.Equal(orig, again) {
				kind := "object"
				switch orig.Type.(type) {
				case *schema_j5pb.RootSchema_Enum:
					kind = "enum"
				case *schema_j5pb.RootSchema_Oneof:
					kind = "oneof"
				}
				d := firstDiff(orig, again)
				out.V("C15|roundtrip-differs|"+kind+"|"+d+"|"+cls, "schema %s.%s changes in the export -> import -> export round trip at %s", pkgName, n, d)
			}
		}
	}
	for _, p := range api.Packages {
		if os.Getenv("VERIF_DEBUG_C15") != "" {
			fmt.Fprintf(os.Stderr, "C15DEBUG package %s: %d schemas, %d subpackages\n", p.Name, len(p.Schemas), len(p.SubPackages))
		}
		check(p.Name, p.Schemas)
		for _, sp := range p.SubPackages {
			check(p.Name+"."+sp.Name, sp.Schemas)
		}
	}
}

// ---------- C16 ----------

type declaredMethod struct {
	grpc, verb string
	segs       []string // literal segments; "" for a parameter
	params     []string // proto field names of the parameters
	request    protoreflect.MessageDescriptor
}

func httpRule(m protoreflect.MethodDescriptor) (verb, path string) {
	opts, ok := m.Options().(*descriptorpb.MethodOptions)
	if !ok || opts == nil {
		return "", ""
	}
	rule, _ := proto.GetExtension(opts, annotations.E_Http).(*annotations.HttpRule)
	if rule == nil {
		return "", ""
	}
	switch p := rule.Pattern.(type) {
	case *annotations.HttpRule_Get:
		return "GET", p.Get
	case *annotations.HttpRule_Post:
		return "POST", p.Post
	case *annotations.HttpRule_Put:
		return "PUT", p.Put
	case *annotations.HttpRule_Delete:
		return "DELETE", p.Delete
	case *annotations.HttpRule_Patch:
		return "PATCH", p.Patch
	}
	return "", ""
}

func declaredMethods(files []protoreflect.FileDescriptor) []declaredMethod {
	var out []declaredMethod
	for _, f := range files {
		if !strings.HasSuffix(string(f.Package()), ".service") {
			continue
		}
		svcs := f.Services()
		for i := 0; i < svcs.Len(); i++ {
			s := svcs.Get(i)
			ms := s.Methods()
			for j := 0; j < ms.Len(); j++ {
				m := ms.Get(j)
				verb, path := httpRule(m)
				if verb == "" {
					continue
				}
				// identified by (root package, service, method); the client API's full_grpc_name is not part of the statement
				d := declaredMethod{grpc: strings.TrimSuffix(string(f.Package()), ".service") + "|" + string(s.Name()) + "|" + string(m.Name()), verb: verb, request: m.Input()}
				for _, seg := range strings.Split(strings.Trim(path, "/"), "/") {
					if strings.HasPrefix(seg, "{") && strings.HasSuffix(seg, "}") {
						d.segs = append(d.segs, "")
						d.params = append(d.params, strings.Trim(seg, "{}"))
					} else {
						d.segs = append(d.segs, seg)
					}
				}
				out = append(out, d)
			}
		}
	}
	return out
}

func c16Client(out *Out, cls string, files []protoreflect.FileDescriptor, api *client_j5pb.API) {
	declared := declaredMethods(files)
	got := map[string]*client_j5pb.Method{}
	schemas := map[string]bool{}
	for _, p := range api.Packages {
		for n := range p.Schemas {
			schemas[p.Name+"."+n] = true
		}
		for _, s := range p.Services {
			for _, m := range s.Methods {
				got[p.Name+"|"+s.Name+"|"+m.Name] = m
			}
		}
		for _, e := range p.StateEntities {
			if e.QueryService != nil {
				for _, m := range e.QueryService.Methods {
					got[p.Name+"|"+e.QueryService.Name+"|"+m.Name] = m
				}
			}
			for _, s := range e.CommandServices {
				for _, m := range s.Methods {
					got[p.Name+"|"+s.Name+"|"+m.Name] = m
				}
			}
		}
	}
	want := map[string]bool{}
	for _, d := range declared {
		want[d.grpc] = true
		m := got[d.grpc]
		if m == nil {
			out.V("C16|client|method-missing|"+cls, "declared method %s is not in the client API", d.grpc)
			continue
		}
		if verb := strings.TrimPrefix(m.HttpMethod.String(), "HTTP_METHOD_"); verb != d.verb {
			out.V("C16|client|verb|"+cls, "method %s: declared %s, client API %s", d.grpc, d.verb, verb)
		}
		csegs := strings.Split(strings.Trim(m.HttpPath, "/"), "/")
		pathOK := len(csegs) == len(d.segs)
		var cparams []string
		for i := 0; pathOK && i < len(csegs); i++ {
			if strings.HasPrefix(csegs[i], ":") {
				cparams = append(cparams, strings.TrimPrefix(csegs[i], ":"))
				if d.segs[i] != "" {
					pathOK = false
				}
			} else if csegs[i] != d.segs[i] {
				pathOK = false
			}
		}
		if !pathOK {
			out.V("C16|client|path|"+cls, "method %s: declared path segments %v, client API path %q", d.grpc, d.segs, m.HttpPath)
			continue
		}
		// each path parameter names a request property
		req := m.Request
		if req == nil {
			out.V("C16|client|request-missing|"+cls, "method %s has no request in the client API", d.grpc)
			continue
		}
		pathNames := map[string]bool{}
		for _, pp := range req.PathParameters {
			pathNames[pp.Name] = true
		}
		for _, cp := range cparams {
			if !pathNames[cp] {
				out.V("C16|client|path-parameter-unbound|"+cls, "method %s: path parameter :%s of %q names no request property (path parameters: %v)", d.grpc, cp, m.HttpPath, keysOf(pathNames))
			}
		}
		if len(pathNames) != len(cparams) {
			out.V("C16|client|path-parameter-extra|"+cls, "method %s: %d path-parameter properties for %d parameters in %q", d.grpc, len(pathNames), len(cparams), m.HttpPath)
		}
		// the request's properties are split into path / query / body as the verb dictates
		rest := map[string]bool{}
		where := "body"
		if d.verb == "GET" {
			where = "query"
			for _, qp := range req.QueryParameters {
				rest[qp.Name] = true
			}
			if req.Body != nil && len(req.Body.Properties) > 0 {
				out.V("C16|client|get-with-body|"+cls, "method %s is GET but the client API gives it body properties", d.grpc)
			}
		} else {
			if req.Body != nil {
				for _, bp := range req.Body.Properties {
					rest[bp.Name] = true
				}
			}
			if len(req.QueryParameters) > 0 {
				out.V("C16|client|body-verb-with-query|"+cls, "method %s is %s but the client API gives it query parameters", d.grpc, d.verb)
			}
		}
		fields := d.request.Fields()
		for i := 0; i < fields.Len(); i++ {
			jn := fields.Get(i).JSONName()
			inPath, inRest := pathNames[jn], rest[jn]
			if inPath == inRest {
				out.V("C16|client|request-split|"+cls, "method %s (%s): request property %s is in path=%v and %s=%v (path parameters %v, %s properties %v, path %q)", d.grpc, d.verb, jn, inPath, where, inRest, keysOf(pathNames), where, keysOf(rest), m.HttpPath)
			}
		}
		if len(pathNames)+len(rest) != fields.Len() {
			out.V("C16|client|request-split-count|"+cls, "method %s: %d request fields, %d path + %d %s properties", d.grpc, fields.Len(), len(pathNames), len(rest), where)
		}
		// every schema reachable from the method is present
		var missing []string
		walkRefs(req.Body, schemas, &missing)
		for _, p := range req.PathParameters {
			walkFieldRefs(p.Schema, schemas, &missing)
		}
		for _, p := range req.QueryParameters {
			walkFieldRefs(p.Schema, schemas, &missing)
		}
		walkRefs(m.ResponseBody, schemas, &missing)
		if len(missing) > 0 {
			out.V("C16|client|schema-missing|"+cls, "method %s refers to schemas absent from the client API: %v", d.grpc, missing)
		}
	}
	for g := range got {
		if !want[g] {
			out.V("C16|client|method-extra|"+cls, "client API lists %s which no service file declares", g)
		}
	}
	// closure of the schema maps themselves
	for _, p := range api.Packages {
		var missing []string
		for _, rs := range p.Schemas {
			switch t := rs.Type.(type) {
			case *schema_j5pb.RootSchema_Object:
				walkRefs(t.Object, schemas, &missing)
			case *schema_j5pb.RootSchema_Oneof:
				for _, pr := range t.Oneof.Properties {
					walkFieldRefs(pr.Schema, schemas, &missing)
				}
			}
		}
		if len(missing) > 0 {
			out.V("C16|client|schema-missing|"+cls, "schemas of package %s refer to schemas absent from the client API: %v", p.Name, missing)
			break
		}
	}
}

func keysOf(m map[string]bool) []string {
	var ks []string
	for k := range m {
		ks = append(ks, k)
	}
	sort.Strings(ks)
	return ks
}

func walkRefs(o *schema_j5pb.Object, have map[string]bool, missing *[]string) {
	if o == nil {
		return
	}
	for _, p := range o.Properties {
		walkFieldRefs(p.Schema, have, missing)
	}
}

func walkFieldRefs(f *schema_j5pb.Field, have map[string]bool, missing *[]string) {
	if f == nil || len(*missing) > 5 {
		return
	}
	ref := func(r *schema_j5pb.Ref) {
		if r != nil && !have[r.Package+"."+r.Schema] {
			*missing = append(*missing, r.Package+"."+r.Schema)
		}
	}
	switch t := f.Type.(type) {
	case *schema_j5pb.Field_Object:
		if r := t.Object.GetRef(); r != nil {
			ref(r)
		} else {
			walkRefs(t.Object.GetObject(), have, missing)
		}
	case *schema_j5pb.Field_Oneof:
		if r := t.Oneof.GetRef(); r != nil {
			ref(r)
		} else if o := t.Oneof.GetOneof(); o != nil {
			for _, p := range o.Properties {
				walkFieldRefs(p.Schema, have, missing)
			}
		}
	case *schema_j5pb.Field_Enum:
		ref(t.Enum.GetRef())
	case *schema_j5pb.Field_Array:
		walkFieldRefs(t.Array.Items, have, missing)
	case *schema_j5pb.Field_Map:
		walkFieldRefs(t.Map.ItemSchema, have, missing)
	}
}

// ---------- the driver ----------

func localPackages(files []protoreflect.FileDescriptor) []string {
	seen := map[string]bool{}
	var out []string
	for _, f := range files {
		p := string(f.Package())
		for _, suf := range []string{".service", ".topic", ".sandbox"} {
			p = strings.TrimSuffix(p, suf)
		}
		if !seen[p] {
			seen[p] = true
			out = append(out, p)
		}
	}
	sort.Strings(out)
	return out
}

func pipelineDriver(raw json.RawMessage) *Out {
	var c pipeCase
	_ = json.Unmarshal(raw, &c)
	out := &Out{}
	cls := c.Cls
	stages := map[string]string{}
	defer func() {
		out.Events = append(out.Events, map[string]any{"op": "pipeline", "stages": stages, "cls": cls})
	}()
	var originals []protoreflect.FileDescriptor
	switch {
	case c.ProtoRoot != "":
		if cls == "" {
			cls = "proto-tree"
		}
		img, err := protosrc.ReadFSImage(context.Background(), os.DirFS(c.ProtoRoot), nil, noMoreDeps{})
		if err != nil {
			out.Skip = "cannot read proto tree: " + err.Error()
			return out
		}
		// link again from the parsed descriptors to get protoreflect files with source info
		var names []string
		_ = fs.WalkDir(os.DirFS(c.ProtoRoot), ".", func(p string, d fs.DirEntry, err error) error {
			if err == nil && strings.HasSuffix(p, ".proto") {
				names = append(names, p)
			}
			return nil
		})
		_ = img
		resolver := protocompile.CompositeResolver{protosrc.NewFSResolver(os.DirFS(c.ProtoRoot)), protosrc.BuiltinResolver, noMoreDeps{}}
		linked, err := protosrc.NewCompiler(resolver).CompileToLinkers(context.Background(), names)
		if err != nil {
			out.Skip = "cannot link proto tree: " + err.Error()
			return out
		}
		for _, l := range linked {
			originals = append(originals, l)
		}
	default:
		files := c.Files
		if c.Lang != nil {
			files, _ = langFiles(*c.Lang)
			if cls == "" {
				cls = "lang:" + c.Lang.Container + ":" + kindFamily(c.Lang.Kind)
			}
		}
		if c.Rules != nil {
			files = map[string]string{rlFile: rlFileText([]rlUnit{{Msg: "Subject", Decl: &c.Rules.Decl}}, c.Rules.Opts)}
			if cls == "" {
				cls = "rules:" + c.Rules.Decl.Card + ":" + rlFamily(c.Rules.Decl.Kind)
			}
		}
		var compiled []linker.File
		var err error
		compile := func(f func() error) {
			// a compiler panic is property C07's business: the program is skipped here
			if e, _ := stage("compile", f); e != nil {
				err = e
			}
		}
		if files != nil {
			if cls == "" {
				cls = "bundle"
			}
			var res map[string]linker.Files
			compile(func() error {
				var e error
				res, _, e = compileBundle(newMemFiles(files), nil)
				return e
			})
			var pkgs []string
			for p := range res {
				pkgs = append(pkgs, p)
			}
			sort.Strings(pkgs)
			for _, p := range pkgs {
				compiled = append(compiled, res[p]...)
			}
		} else {
			if cls == "" {
				cls = "ast"
			}
			var b schemaBundle
			b, err = parseAST(c.AST)
			if err == nil && len(b) == 0 {
				out.Skip = "bad case: no bundle"
				return out
			}
			if err == nil {
				compile(func() error {
					var e error
					compiled, _, e = compileAST(b)
					return e
				})
			}
		}
		if err != nil {
			out.Skip = "does not compile (property C07 / C02's business): " + errClass(err.Error())
			stages["compile"] = "error"
			return out
		}
		seen := map[string]bool{}
		for _, f := range compiled {
			if !seen[f.Path()] {
				seen[f.Path()] = true
				originals = append(originals, f)
			}
		}
	}
	stages["compile"] = "ok"
	if len(originals) == 0 {
		// nothing was compiled: the stages would run on nothing and every check would hold vacuously
		out.Skip = "bad case: no file compiled"
		out.Note = "EMPTY-PROGRAM"
		return out
	}
	out.Nontrivial = true
	out.Obs = map[string]any{"files": len(originals)}
	out.Key = cls + fmt.Sprintf("|%d files|", len(originals)) + string(raw)[:min(len(raw), 4000)]

	// ---- Print, Reparse, Reprint (C05)
	reparsed, ok := c05Check(out, cls, originals)
	if ok {
		stages["print"], stages["reparse"], stages["reprint"] = "ok", "ok", "ok"
	} else {
		stages["print"] = "violated"
	}
	if c.ProtoRoot != "" && !c.Image {
		return out
	}
	// ---- Image: the route the tool takes is the printed files; fall back to the compiled descriptors
	img := &source_j5pb.SourceImage{}
	src := originals
	if reparsed != nil {
		src = nil
		for _, l := range reparsed {
			src = append(src, l)
		}
	}
	seen := map[string]bool{}
	var add func(fd protoreflect.FileDescriptor)
	add = func(fd protoreflect.FileDescriptor) {
		if seen[fd.Path()] {
			return
		}
		seen[fd.Path()] = true
		imps := fd.Imports()
		for i := 0; i < imps.Len(); i++ {
			add(imps.Get(i).FileDescriptor)
		}
		img.File = append(img.File, remarshal(protodesc.ToFileDescriptorProto(fd)))
	}
	for _, f := range src {
		add(f)
		img.SourceFilenames = append(img.SourceFilenames, f.Path())
	}
	for _, p := range localPackages(originals) {
		img.Packages = append(img.Packages, &source_j5pb.PackageInfo{Name: p, Label: p})
	}
	stages["image"] = "ok"
	fail := func(prop, st string, err error, pan bool) {
		k := "error"
		if pan {
			k = "panic"
		}
		stages[st] = k
		out.V(prop+"|stage-"+k+"|"+st+"|"+errClass(err.Error())+"|"+cls, "stage %s fails on compiler output: %v", st, err)
	}
	// ---- ExportAPI
	var api *source_j5pb.API
	if err, pan := stage("source-api", func() error {
		var e error
		api, e = structure.APIFromImage(img)
		return e
	}); err != nil {
		fail("C16", "source-api", err, pan)
		return out
	}
	stages["source-api"] = "ok"
	// ---- ImportAPI / ReExport (C15)
	nv15 := len(out.Viol)
	c15Check(out, cls, api)
	// ---- partial images (C15): the tool builds one bundle at a time, so an image names only the bundle's own packages and
	// every other package the files refer to is exported as an "indirect" package. Each local package in turn is the only
	// named one; the export of that image must re-import and re-export like the full one.
	if locals := localPackages(originals); len(locals) > 1 {
		partial := map[string]string{}
		closures := []any{}
		for _, p := range locals {
			pimg := proto.Clone(img).(*source_j5pb.SourceImage)
			pimg.Packages = []*source_j5pb.PackageInfo{{Name: p, Label: p}}
			var papi *source_j5pb.API
			if err, _ := stage("source-api", func() error {
				var e error
				papi, e = structure.APIFromImage(pimg)
				return e
			}); err != nil {
				// not C15's subject: the export itself failed
				partial[p] = "source-api: " + errClass(err.Error())
				continue
			}
			// the export as PackageExport.tla sees it: listed packages, the indirect ones, nodes that carry a schema
			listed, indirect, exported := []string{}, []string{}, []string{}
			for _, ap := range papi.Packages {
				listed = append(listed, ap.Name)
				if ap.Indirect {
					indirect = append(indirect, ap.Name)
				}
				if len(ap.Schemas) > 0 {
					exported = append(exported, ap.Name)
				}
				for _, sp := range ap.SubPackages {
					if len(sp.Schemas) > 0 {
						exported = append(exported, ap.Name+"."+sp.Name)
					}
				}
			}
			sort.Strings(listed)
			sort.Strings(indirect)
			sort.Strings(exported)
			closures = append(closures, map[string]any{"named": p, "listed": listed, "indirect": indirect, "exported": exported})
			nv := len(out.Viol)
			c15Check(out, cls+"|partial", papi)
			if len(out.Viol) == nv {
				partial[p] = "ok"
			} else {
				partial[p] = "violated"
			}
		}
		out.Events = append(out.Events, map[string]any{"op": "partial-images", "packages": partial, "closures": closures})
	}
	// the import / re-export stages stand for the full image and every partial one
	if len(out.Viol) == nv15 {
		stages["import-api"], stages["re-export"] = "ok", "ok"
	} else {
		stages["import-api"] = "violated"
	}
	// ---- ClientAPI, JSONRender, OpenAPI (C16)
	var client *client_j5pb.API
	if err, pan := stage("client-api", func() error {
		var e error
		client, e = j5client.APIFromSource(api)
		return e
	}); err != nil {
		fail("C16", "client-api", err, pan)
		return out
	}
	stages["client-api"] = "ok"
	if err, pan := stage("json-render", func() error {
		b, e := codec.NewCodec().ProtoToJSON(client.ProtoReflect())
		if e != nil {
			return e
		}
		var v any
		return json.Unmarshal(b, &v)
	}); err != nil {
		fail("C16", "json-render", err, pan)
	} else {
		stages["json-render"] = "ok"
	}
	if err, pan := stage("openapi", func() error {
		doc, e := export.BuildSwagger(client)
		if e != nil {
			return e
		}
		_, e = json.Marshal(doc)
		return e
	}); err != nil {
		fail("C16", "openapi", err, pan)
	} else {
		stages["openapi"] = "ok"
	}
	nv := len(out.Viol)
	c16Client(out, cls, originals, client)
	if len(out.Viol) == nv {
		stages["client-contract"] = "ok"
	} else {
		stages["client-contract"] = "violated"
	}
	return out
}
