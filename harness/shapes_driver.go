package main

// C18 driver "shapes-reflect": calls the three schema-building entry points of pentops/j5 on a linked proto3 file
// built from an abstract case, and evaluates the property on the REAL schema objects:
//
//   totality         SchemaSetFromFiles / SchemaCache.Schema / Reflector.NewRoot return a result or an error
//                    (no panic; unbounded recursion kills the worker and is attributed by `vh run`;
//                    a nil root with a nil error is neither and is a violation)
//   paths            every ObjectProperty.ProtoField resolves, by field numbers, in the message it describes to a
//                    field whose proto kind matches the property's J5 schema kind
//   names            JSON names unique per object / oneof (declared and client, i.e. flattened, property lists)
//   codec            ProtoToJSON and JSONToProto succeed on an empty message, on a message with each single field
//                    populated, and on a fully populated message, for every reflected message type
//
// Signatures are computed from the real observation (stage, panic site, schema kind vs proto kind) and, where the
// cause is not visible in the observation (a panic while building), from the delta-minimised case.

import (
	"crypto/sha1"
	"encoding/hex"
	"encoding/json"
	"fmt"
	"os"
	"os/exec"
	"runtime/debug"
	"sort"
	"strings"
	"time"

	"github.com/pentops/j5/gen/j5/schema/v1/schema_j5pb"
	"github.com/pentops/j5/internal/codec"
	"github.com/pentops/j5/lib/j5reflect"
	"github.com/pentops/j5/lib/j5schema"
	"google.golang.org/protobuf/reflect/protoreflect"
	"google.golang.org/protobuf/types/dynamicpb"
)

func init() {
	register("shapes-reflect", shapesDriver)
	register("shapes-proto", shapesProtoDriver)
}

type shFinding struct {
	Class   string // signature without the cause
	Cause   string // cause part of the signature ("" = to be computed by minimisation)
	Detail  string
	NeedMin bool
}

func (f shFinding) sig() string {
	if f.Cause == "" {
		return f.Class
	}
	return f.Class + "|" + f.Cause
}

type shObs struct {
	Set         string   `json:"set"`   // ok | error | panic
	Cache       []string `json:"cache"` // per message: ok | error | panic
	Root        []string `json:"root"`  // per message: ok | error | nilnil | panic
	NamesUnique bool     `json:"namesUnique"`
	PathsOK     bool     `json:"pathsOK"`
	Codec       string   `json:"codec"` // ok | fail | skipped
	SetErr      string   `json:"-"`
	CacheErr    []string `json:"-"`
}

type shEvalResult struct {
	Findings []shFinding
	Obs      shObs
	Schemas  int // object/oneof/enum schemas inspected
	Props    int // properties whose path was resolved
	Codecs   int // encode/decode round trips performed
}

func shPanicSite(stack string) string {
	lines := strings.Split(stack, "\n")
	seenPanic := false
	for _, l := range lines {
		l = strings.TrimSpace(l)
		if strings.HasPrefix(l, "panic(") {
			seenPanic = true
			continue
		}
		if !seenPanic {
			continue
		}
		if strings.HasPrefix(l, "github.com/pentops/j5/") && !strings.Contains(l, "verifh") {
			fn := l
			if i := strings.LastIndex(fn, "("); i > 0 {
				fn = fn[:i]
			}
			return strings.TrimPrefix(fn, "github.com/pentops/j5/")
		}
	}
	return "unknown-site"
}

// shGuard runs fn and reports a recovered panic as (site, message).
func shGuard(fn func()) (site, msg string) {
	defer func() {
		if r := recover(); r != nil {
			msg = fmt.Sprint(r)
			if len(msg) > 200 {
				msg = msg[:200]
			}
			site = shPanicSite(string(debug.Stack()))
		}
	}()
	fn()
	return "", ""
}

func shStage(s string) { fmt.Fprintf(os.Stderr, "SHAPES-STAGE %s\n", s) }

// ---- schema kind vs proto kind -------------------------------------------------------------------------

func shProtoAtom(fd protoreflect.FieldDescriptor, elem bool) string {
	base := func(f protoreflect.FieldDescriptor) string {
		switch f.Kind() {
		case protoreflect.MessageKind, protoreflect.GroupKind:
			n := string(f.Message().FullName())
			if strings.HasPrefix(n, "google.protobuf.") {
				return "wkt." + strings.TrimPrefix(n, "google.protobuf.")
			}
			if strings.HasPrefix(n, "j5.types.") {
				return "j5." + string(f.Message().Name())
			}
			return "message"
		case protoreflect.EnumKind:
			return "enum"
		}
		return f.Kind().String()
	}
	if !elem {
		if fd.IsMap() {
			return "map<" + fd.MapKey().Kind().String() + "," + base(fd.MapValue()) + ">"
		}
		if fd.IsList() {
			return "repeated " + base(fd)
		}
	}
	return base(fd)
}

// shCause names the element kind first, so that a known finding can be stated per element kind.
func shCause(fd protoreflect.FieldDescriptor, fs j5schema.FieldSchema) string {
	card := "single"
	switch {
	case fd.IsMap():
		card = "map<" + fd.MapKey().Kind().String() + ">"
		fd = fd.MapValue()
	case fd.IsList():
		card = "repeated"
	case fd.HasOptionalKeyword():
		card = "optional"
	case fd.ContainingOneof() != nil:
		card = "oneof"
	}
	return "elem=" + shProtoAtom(fd, true) + "|card=" + card + "|schema=" + shSchemaAtom(fs)
}

// shElemSchema strips array/map wrappers that match the field's own cardinality.
func shElemSchema(fs j5schema.FieldSchema, fd protoreflect.FieldDescriptor) j5schema.FieldSchema {
	switch st := fs.(type) {
	case *j5schema.ArrayField:
		if fd.IsList() {
			return st.Schema
		}
	case *j5schema.MapField:
		if fd.IsMap() {
			return st.Schema
		}
	}
	return fs
}

func shSchemaAtom(fs j5schema.FieldSchema) string {
	switch st := fs.(type) {
	case nil:
		return "nil"
	case *j5schema.ScalarSchema:
		if st.Proto == nil {
			return "scalar(nil)"
		}
		switch t := st.Proto.Type.(type) {
		case *schema_j5pb.Field_Integer:
			return "integer." + strings.TrimPrefix(t.Integer.GetFormat().String(), "FORMAT_")
		case *schema_j5pb.Field_Float:
			return "float." + strings.TrimPrefix(t.Float.GetFormat().String(), "FORMAT_")
		case *schema_j5pb.Field_String_:
			if t.String_.GetFormat() == "duration" {
				return "string.duration"
			}
			return "string"
		}
		return st.TypeName()
	case *j5schema.ArrayField:
		return "array(" + shSchemaAtom(st.Schema) + ")"
	case *j5schema.MapField:
		return "map(" + shSchemaAtom(st.Schema) + ")"
	case *j5schema.ObjectField:
		return "object"
	case *j5schema.OneofField:
		return "oneof"
	case *j5schema.EnumField:
		return "enum"
	case *j5schema.AnyField:
		return "any"
	}
	return fmt.Sprintf("%T", fs)
}

var shIntOK = map[string]map[protoreflect.Kind]bool{
	"INT32":  {protoreflect.Int32Kind: true, protoreflect.Sint32Kind: true, protoreflect.Sfixed32Kind: true},
	"INT64":  {protoreflect.Int64Kind: true, protoreflect.Sint64Kind: true, protoreflect.Sfixed64Kind: true},
	"UINT32": {protoreflect.Uint32Kind: true, protoreflect.Fixed32Kind: true},
	"UINT64": {protoreflect.Uint64Kind: true, protoreflect.Fixed64Kind: true},
}

func shMsgIs(fd protoreflect.FieldDescriptor, names ...string) bool {
	if fd.Kind() != protoreflect.MessageKind {
		return false
	}
	n := string(fd.Message().FullName())
	for _, x := range names {
		if n == x {
			return true
		}
	}
	return false
}

// shKindMatches decides whether the J5 schema of a property describes a value of the proto field's kind.
// The table is deliberately generous (sfixed64 would be an acceptable INT64, ...): only a schema kind whose values
// are not the field's values is a mismatch.
func shKindMatches(fs j5schema.FieldSchema, fd protoreflect.FieldDescriptor, elem bool, nameOf func(protoreflect.Descriptor) string) (bool, string) {
	if !elem {
		switch st := fs.(type) {
		case *j5schema.ArrayField:
			if !fd.IsList() {
				return false, "array schema for a non-repeated field"
			}
			return shKindMatches(st.Schema, fd, true, nameOf)
		case *j5schema.MapField:
			if !fd.IsMap() {
				return false, "map schema for a non-map field"
			}
			if fd.MapKey().Kind() != protoreflect.StringKind {
				return false, "map schema for a map with non-string keys"
			}
			return shKindMatches(st.Schema, fd.MapValue(), true, nameOf)
		}
		if fd.IsList() || fd.IsMap() {
			return false, "non-container schema for a repeated/map field"
		}
	}
	switch st := fs.(type) {
	case nil:
		return false, "nil schema"
	case *j5schema.ArrayField, *j5schema.MapField:
		return false, "nested container schema"
	case *j5schema.EnumField:
		if fd.Kind() != protoreflect.EnumKind {
			return false, "enum schema for kind " + fd.Kind().String()
		}
		if st.Ref == nil || st.Ref.To == nil {
			return false, "enum ref not linked"
		}
		if st.Ref.FullName() != nameOf(fd.Enum()) {
			return false, "enum ref names " + st.Ref.FullName() + ", field is " + nameOf(fd.Enum())
		}
		if _, ok := st.Ref.To.(*j5schema.EnumSchema); !ok {
			return false, fmt.Sprintf("enum ref links to %T", st.Ref.To)
		}
		return true, ""
	case *j5schema.ObjectField:
		if fd.Kind() != protoreflect.MessageKind || fd.IsMap() && !elem {
			return false, "object schema for kind " + fd.Kind().String()
		}
		if st.Ref == nil || st.Ref.To == nil {
			return false, "object ref not linked"
		}
		if st.Ref.FullName() != nameOf(fd.Message()) {
			return false, "object ref names " + st.Ref.FullName() + ", field is " + nameOf(fd.Message())
		}
		if _, ok := st.Ref.To.(*j5schema.ObjectSchema); !ok {
			return false, fmt.Sprintf("object ref links to %T", st.Ref.To)
		}
		return true, ""
	case *j5schema.OneofField:
		if fd.Kind() != protoreflect.MessageKind {
			return false, "oneof schema for kind " + fd.Kind().String()
		}
		if st.Ref == nil || st.Ref.To == nil {
			return false, "oneof ref not linked"
		}
		if st.Ref.FullName() != nameOf(fd.Message()) {
			// an exposed oneof of the message the path leads to (its own path is empty; a flattened parent prefixes its path)
			exposed := false
			oo := fd.Message().Oneofs()
			for k := 0; k < oo.Len(); k++ {
				if !oo.Get(k).IsSynthetic() && st.Ref.FullName() == nameOf(fd.Message())+"_"+string(oo.Get(k).Name()) {
					exposed = true
				}
			}
			if !exposed {
				return false, "oneof ref names " + st.Ref.FullName() + ", field is " + nameOf(fd.Message())
			}
		}
		if _, ok := st.Ref.To.(*j5schema.OneofSchema); !ok {
			return false, fmt.Sprintf("oneof ref links to %T", st.Ref.To)
		}
		return true, ""
	case *j5schema.AnyField:
		if !shMsgIs(fd, "google.protobuf.Any", "j5.types.any.v1.Any") {
			return false, "any schema for " + shProtoAtom(fd, true)
		}
		return true, ""
	case *j5schema.ScalarSchema:
		if st.Proto == nil {
			return false, "scalar schema without a type"
		}
		k := fd.Kind()
		ok := false
		switch t := st.Proto.Type.(type) {
		case *schema_j5pb.Field_Bool:
			ok = k == protoreflect.BoolKind
		case *schema_j5pb.Field_String_:
			ok = k == protoreflect.StringKind || (t.String_.GetFormat() == "duration" && shMsgIs(fd, "google.protobuf.Duration"))
		case *schema_j5pb.Field_Key:
			ok = k == protoreflect.StringKind
		case *schema_j5pb.Field_Bytes:
			ok = k == protoreflect.BytesKind
		case *schema_j5pb.Field_Integer:
			ok = shIntOK[strings.TrimPrefix(t.Integer.GetFormat().String(), "FORMAT_")][k]
		case *schema_j5pb.Field_Float:
			switch t.Float.GetFormat() {
			case schema_j5pb.FloatField_FORMAT_FLOAT32:
				ok = k == protoreflect.FloatKind
			case schema_j5pb.FloatField_FORMAT_FLOAT64:
				ok = k == protoreflect.DoubleKind
			}
		case *schema_j5pb.Field_Timestamp:
			ok = shMsgIs(fd, "google.protobuf.Timestamp")
		case *schema_j5pb.Field_Date:
			ok = shMsgIs(fd, "j5.types.date.v1.Date")
		case *schema_j5pb.Field_Decimal:
			ok = shMsgIs(fd, "j5.types.decimal.v1.Decimal")
		}
		if !ok {
			return false, shSchemaAtom(fs) + " schema for proto " + shProtoAtom(fd, true)
		}
		return true, ""
	}
	return false, fmt.Sprintf("unknown schema type %T", fs)
}

// shSchemaName is the (package.Name_Nested) name j5 gives a descriptor.
func shSchemaName(d protoreflect.Descriptor) string {
	var path []string
	cur := d
	for {
		path = append([]string{string(cur.Name())}, path...)
		p := cur.Parent()
		if f, ok := p.(protoreflect.FileDescriptor); ok {
			return string(f.Package()) + "." + strings.Join(path, "_")
		}
		if p == nil {
			return strings.Join(path, "_")
		}
		cur = p
	}
}

type shChecker struct {
	res      *shEvalResult
	byName   map[string]protoreflect.MessageDescriptor
	seen     map[string]bool
	stage    string
	tainted  bool // the schema came out of a cache in which an earlier build had failed
	clientOK map[string]bool
	dup      map[string]bool // schema name, and schema name + "/" + JSON name, of duplicated property names
}

func (ck *shChecker) add(class, cause, format string, a ...any) {
	if ck.tainted {
		class += "|after-failed-build"
	}
	ck.res.Findings = append(ck.res.Findings, shFinding{Class: class, Cause: cause, Detail: fmt.Sprintf(format, a...)})
}

func (ck *shChecker) checkProps(owner string, md protoreflect.MessageDescriptor, props []*j5schema.ObjectProperty, listKind string) {
	names := map[string]int{}
	for _, p := range props {
		if p == nil {
			ck.add("C18|schema|nil-property", listKind, "%s: nil property in %s", owner, listKind)
			continue
		}
		names[p.JSONName]++
		ck.res.Props++
		// path
		if len(p.ProtoField) == 0 {
			of, ok := p.Schema.(*j5schema.OneofField)
			if !ok {
				ck.res.Obs.PathsOK = false
				ck.add("C18|path|empty", "schema="+shSchemaAtom(p.Schema), "%s.%s: property has no proto field path and is not an exposed oneof", owner, p.JSONName)
			} else if listKind == "client" && of.Ref != nil {
				// a pathless oneof in the flattened view says its members live in THIS message: their paths must
				// resolve here to fields of the matching kind (the declared list is checked where the oneof is declared)
				if os, ok := of.Ref.To.(*j5schema.OneofSchema); ok {
					ck.checkProps(owner+"."+p.JSONName, md, os.Properties, "client-oneof-members")
				}
			}
			continue
		}
		walk := md
		var fd protoreflect.FieldDescriptor
		bad := ""
		for i, n := range p.ProtoField {
			if walk == nil {
				bad = "path continues below a non-message field"
				break
			}
			fd = walk.Fields().ByNumber(n)
			if fd == nil {
				bad = fmt.Sprintf("no field %d in %s", n, walk.FullName())
				break
			}
			if i < len(p.ProtoField)-1 {
				if fd.Kind() != protoreflect.MessageKind || fd.IsList() || fd.IsMap() {
					bad = fmt.Sprintf("path element %d (%s) is not a singular message", n, fd.FullName())
					break
				}
				walk = fd.Message()
			}
		}
		if bad != "" {
			ck.res.Obs.PathsOK = false
			ck.add("C18|path|unresolved", listKind+"|schema="+shSchemaAtom(p.Schema), "%s.%s: path %v does not resolve: %s", owner, p.JSONName, p.ProtoField, bad)
			continue
		}
		if ok, why := shKindMatches(p.Schema, fd, false, func(d protoreflect.Descriptor) string { return shSchemaName(d) }); !ok {
			ck.res.Obs.PathsOK = false
			efd := fd
			if fd.IsMap() {
				efd = fd.MapValue()
			}
			ck.add("C18|path|kind-mismatch", "elem="+shProtoAtom(efd, true)+"|schema="+shSchemaAtom(shElemSchema(p.Schema, fd)),
				"%s.%s: path %v resolves to %s (%s) but the property schema is %s: %s", owner, p.JSONName, p.ProtoField, fd.FullName(), shProtoAtom(fd, false), shSchemaAtom(p.Schema), why)
		}
	}
	for n, k := range names {
		if k > 1 {
			ck.res.Obs.NamesUnique = false
			how := "declared"
			if listKind == "client" {
				how = "flattened"
			}
			for _, p := range props {
				if p != nil && p.JSONName == n && len(p.ProtoField) == 0 {
					how = "exposed-oneof"
				}
			}
			if ck.dup != nil {
				ck.dup[owner] = true
				ck.dup[owner+"/"+n] = true
			}
			ck.add("C18|names|duplicate", how, "%s: JSON name %q appears %d times in the %s property list", owner, n, k, listKind)
		}
	}
}

// checkRoot checks one root schema and everything reachable from it.
func (ck *shChecker) checkRoot(rs j5schema.RootSchema, md protoreflect.MessageDescriptor, withClient bool) {
	if rs == nil {
		return
	}
	name := rs.FullName()
	if ck.seen[name] {
		return
	}
	ck.seen[name] = true
	ck.res.Schemas++
	var props []*j5schema.ObjectProperty
	switch st := rs.(type) {
	case *j5schema.ObjectSchema:
		props = st.Properties
		if md != nil {
			ck.checkProps(name, md, props, "declared")
			if withClient && ck.clientOK[name] {
				var cp []*j5schema.ObjectProperty
				if site, msg := shGuard(func() { cp = st.ClientProperties() }); msg != "" {
					ck.add("C18|panic|"+site, "client-properties", "%s: ClientProperties panics: %s", name, msg)
				} else {
					ck.checkProps(name, md, cp, "client")
				}
			}
		}
	case *j5schema.OneofSchema:
		props = st.Properties
		if md != nil {
			ck.checkProps(name, md, props, "declared")
		}
	case *j5schema.EnumSchema:
		seen := map[string]bool{}
		for _, o := range st.Options {
			if seen[o.Name()] {
				ck.res.Obs.NamesUnique = false
				ck.add("C18|names|duplicate", "enum-option", "%s: enum option %q appears twice", name, o.Name())
			}
			seen[o.Name()] = true
		}
		return
	}
	for _, p := range props {
		if p == nil {
			continue
		}
		ck.descend(p.Schema, md, p)
	}
}

func (ck *shChecker) descend(fs j5schema.FieldSchema, md protoreflect.MessageDescriptor, p *j5schema.ObjectProperty) {
	switch st := fs.(type) {
	case *j5schema.ArrayField:
		ck.descend(st.Schema, md, p)
	case *j5schema.MapField:
		ck.descend(st.Schema, md, p)
	case *j5schema.ObjectField:
		if st.Ref != nil && st.Ref.To != nil {
			ck.checkRoot(st.Ref.To, ck.byName[st.Ref.FullName()], true)
		}
	case *j5schema.OneofField:
		if st.Ref != nil && st.Ref.To != nil {
			tmd := ck.byName[st.Ref.FullName()]
			if len(p.ProtoField) == 0 {
				tmd = md // exposed oneof: its members live in the parent message
			}
			ck.checkRoot(st.Ref.To, tmd, true)
		}
	case *j5schema.EnumField:
		if st.Ref != nil && st.Ref.To != nil {
			ck.checkRoot(st.Ref.To, nil, false)
		}
	}
}

// ---- populating ------------------------------------------------------------------------------------------

func shScalarValue(fd protoreflect.FieldDescriptor) protoreflect.Value {
	switch fd.Kind() {
	case protoreflect.BoolKind:
		return protoreflect.ValueOfBool(true)
	case protoreflect.Int32Kind, protoreflect.Sint32Kind, protoreflect.Sfixed32Kind:
		return protoreflect.ValueOfInt32(7)
	case protoreflect.Int64Kind, protoreflect.Sint64Kind, protoreflect.Sfixed64Kind:
		return protoreflect.ValueOfInt64(7)
	case protoreflect.Uint32Kind, protoreflect.Fixed32Kind:
		return protoreflect.ValueOfUint32(7)
	case protoreflect.Uint64Kind, protoreflect.Fixed64Kind:
		return protoreflect.ValueOfUint64(7)
	case protoreflect.FloatKind:
		return protoreflect.ValueOfFloat32(1.5)
	case protoreflect.DoubleKind:
		return protoreflect.ValueOfFloat64(1.5)
	case protoreflect.StringKind:
		return protoreflect.ValueOfString("a")
	case protoreflect.BytesKind:
		return protoreflect.ValueOfBytes([]byte("xy"))
	case protoreflect.EnumKind:
		vals := fd.Enum().Values()
		if vals.Len() > 1 {
			return protoreflect.ValueOfEnum(vals.Get(1).Number())
		}
		return protoreflect.ValueOfEnum(vals.Get(0).Number())
	}
	panic("harness: not a scalar kind: " + fd.Kind().String())
}

func shSetByName(m protoreflect.Message, name string, v protoreflect.Value) {
	if f := m.Descriptor().Fields().ByName(protoreflect.Name(name)); f != nil {
		m.Set(f, v)
	}
}

// shMessageValue makes a simple valid value of a message type (depth bounds recursion through user messages).
func shMessageValue(md protoreflect.MessageDescriptor, depth int) protoreflect.Message {
	m := dynamicpb.NewMessage(md)
	switch md.FullName() {
	case "google.protobuf.Timestamp":
		shSetByName(m, "seconds", protoreflect.ValueOfInt64(1700000000))
		return m
	case "google.protobuf.Duration":
		shSetByName(m, "seconds", protoreflect.ValueOfInt64(90))
		return m
	case "google.protobuf.Any":
		shSetByName(m, "type_url", protoreflect.ValueOfString("type.googleapis.com/google.protobuf.Duration"))
		shSetByName(m, "value", protoreflect.ValueOfBytes([]byte{0x08, 0x5a})) // seconds: 90
		return m
	case "j5.types.any.v1.Any":
		shSetByName(m, "type_name", protoreflect.ValueOfString("google.protobuf.Duration"))
		shSetByName(m, "j5_json", protoreflect.ValueOfBytes([]byte(`{"seconds":"90"}`)))
		return m
	case "j5.types.date.v1.Date":
		shSetByName(m, "year", protoreflect.ValueOfInt32(2020))
		shSetByName(m, "month", protoreflect.ValueOfInt32(2))
		shSetByName(m, "day", protoreflect.ValueOfInt32(3))
		return m
	case "j5.types.decimal.v1.Decimal":
		shSetByName(m, "value", protoreflect.ValueOfString("1.5"))
		return m
	case "google.protobuf.Struct":
		f := md.Fields().ByName("fields")
		val := dynamicpb.NewMessage(f.MapValue().Message())
		shSetByName(val, "string_value", protoreflect.ValueOfString("v"))
		m.Mutable(f).Map().Set(protoreflect.ValueOfString("k").MapKey(), protoreflect.ValueOfMessage(val))
		return m
	case "google.protobuf.Value":
		shSetByName(m, "string_value", protoreflect.ValueOfString("v"))
		return m
	}
	if strings.HasPrefix(string(md.FullName()), "google.protobuf.") {
		if f := md.Fields().ByName("value"); f != nil && f.Kind() != protoreflect.MessageKind && !f.IsList() {
			m.Set(f, shScalarValue(f))
		}
		return m
	}
	if depth < 0 {
		return m // present but empty
	}
	if depth <= 0 {
		// innermost level: scalars only (of a message j5 reads as a oneof: one member only, as below)
		inner := j5schema.IsOneofWrapper(md)
		for i := 0; i < md.Fields().Len(); i++ {
			f := md.Fields().Get(i)
			if f.Kind() != protoreflect.MessageKind && !f.IsList() && !f.IsMap() && f.ContainingOneof() == nil {
				m.Set(f, shScalarValue(f))
				if inner {
					break
				}
			}
		}
		return m
	}
	seenOneof := map[string]bool{}
	wrapper := j5schema.IsOneofWrapper(md) // j5 reads the whole message as a oneof: one member only
	for i := 0; i < md.Fields().Len(); i++ {
		f := md.Fields().Get(i)
		if wrapper && i > 0 {
			break
		}
		if o := f.ContainingOneof(); o != nil && !o.IsSynthetic() {
			if seenOneof[string(o.Name())] {
				continue
			}
			seenOneof[string(o.Name())] = true
		}
		shPopulateField(m, f, depth-1)
	}
	return m
}

func shPopulateField(m protoreflect.Message, f protoreflect.FieldDescriptor, depth int) {
	one := func(fd protoreflect.FieldDescriptor) protoreflect.Value {
		if fd.Kind() == protoreflect.MessageKind {
			return protoreflect.ValueOfMessage(shMessageValue(fd.Message(), depth))
		}
		return shScalarValue(fd)
	}
	switch {
	case f.IsMap():
		var key protoreflect.MapKey
		switch f.MapKey().Kind() {
		case protoreflect.StringKind:
			key = protoreflect.ValueOfString("k").MapKey()
		case protoreflect.BoolKind:
			key = protoreflect.ValueOfBool(true).MapKey()
		default:
			key = shScalarValue(f.MapKey()).MapKey()
		}
		m.Mutable(f).Map().Set(key, one(f.MapValue()))
	case f.IsList():
		l := m.Mutable(f).List()
		l.Append(one(f))
		l.Append(one(f))
	default:
		m.Set(f, one(f))
	}
}

// ---- evaluation ------------------------------------------------------------------------------------------

func shIsFlattened(fs j5schema.FieldSchema) bool {
	of, ok := fs.(*j5schema.ObjectField)
	return ok && of.Flatten
}

// shPropNameFor is the JSON name under which a field of the message appears in the object (the exposed oneof's name for its members).
func shPropNameFor(rs j5schema.RootSchema, fd protoreflect.FieldDescriptor) string {
	var props []*j5schema.ObjectProperty
	switch st := rs.(type) {
	case *j5schema.ObjectSchema:
		props = st.Properties
	case *j5schema.OneofSchema:
		props = st.Properties
	}
	for _, p := range props {
		if p == nil {
			continue
		}
		if len(p.ProtoField) == 1 && p.ProtoField[0] == fd.Number() {
			return p.JSONName
		}
		if of, ok := p.Schema.(*j5schema.OneofField); ok && len(p.ProtoField) == 0 && of.Ref != nil && of.Ref.To != nil {
			if os, ok := of.Ref.To.(*j5schema.OneofSchema); ok {
				for _, q := range os.Properties {
					if q != nil && len(q.ProtoField) == 1 && q.ProtoField[0] == fd.Number() {
						return p.JSONName
					}
				}
			}
		}
	}
	return string(fd.JSONName())
}

func shPropFor(rs j5schema.RootSchema, fd protoreflect.FieldDescriptor) j5schema.FieldSchema {
	var props []*j5schema.ObjectProperty
	switch st := rs.(type) {
	case *j5schema.ObjectSchema:
		props = st.Properties
	case *j5schema.OneofSchema:
		props = st.Properties
	}
	for _, p := range props {
		if p == nil {
			continue
		}
		if len(p.ProtoField) == 1 && p.ProtoField[0] == fd.Number() {
			return p.Schema
		}
		if of, ok := p.Schema.(*j5schema.OneofField); ok && len(p.ProtoField) == 0 && of.Ref != nil && of.Ref.To != nil {
			if os, ok := of.Ref.To.(*j5schema.OneofSchema); ok {
				for _, q := range os.Properties {
					if q != nil && len(q.ProtoField) == 1 && q.ProtoField[0] == fd.Number() {
						return q.Schema
					}
				}
			}
		}
	}
	return nil
}

func shEval(c *shCase, b *shBuilt) *shEvalResult {
	res := &shEvalResult{}
	res.Obs.Cache = []string{}
	res.Obs.Root = []string{}
	res.Obs.NamesUnique = true
	res.Obs.PathsOK = true
	res.Obs.Codec = "skipped"
	only := c.Only
	if only == "" {
		only = "all"
	}
	byName := map[string]protoreflect.MessageDescriptor{}
	for _, md := range b.Msgs {
		byName[shSchemaName(md)] = md
	}
	add := func(class, cause string, needMin bool, format string, a ...any) {
		res.Findings = append(res.Findings, shFinding{Class: class, Cause: cause, NeedMin: needMin, Detail: fmt.Sprintf(format, a...)})
	}

	// --- A: SchemaSetFromFiles
	shStage("set")
	var set *j5schema.SchemaSet
	var setErr error
	site, msg := shGuard(func() {
		set, setErr = j5schema.SchemaSetFromFiles(b.Files, func(f protoreflect.FileDescriptor) bool { return f.Path() == b.File.Path() })
	})
	switch {
	case msg != "":
		res.Obs.Set = "panic"
		add("C18|panic|"+site, "", true, "SchemaSetFromFiles panics: %s", msg)
	case setErr != nil:
		res.Obs.Set = "error"
		res.Obs.SetErr = setErr.Error()
	case set == nil:
		res.Obs.Set = "nilnil"
		add("C18|nil-result|SchemaSetFromFiles", "", true, "SchemaSetFromFiles returned a nil set and a nil error")
	default:
		res.Obs.Set = "ok"
	}
	if only == "set" {
		return res
	}

	// --- B: fresh SchemaCache per message
	shStage("cache")
	roots := make([]j5schema.RootSchema, len(b.Msgs))
	res.Obs.Cache = make([]string, len(b.Msgs))
	res.Obs.CacheErr = make([]string, len(b.Msgs))
	for i, md := range b.Msgs {
		var rs j5schema.RootSchema
		var err error
		site, msg := shGuard(func() { rs, err = j5schema.NewSchemaCache().Schema(md) })
		switch {
		case msg != "":
			res.Obs.Cache[i] = "panic"
			add("C18|panic|"+site, "", true, "SchemaCache.Schema(%s) panics: %s", md.FullName(), msg)
		case err != nil:
			res.Obs.Cache[i] = "error"
			res.Obs.CacheErr[i] = err.Error()
		case rs == nil:
			res.Obs.Cache[i] = "nilnil"
			add("C18|nil-result|SchemaCache.Schema", "", true, "SchemaCache.Schema(%s) returned nil, nil", md.FullName())
		default:
			res.Obs.Cache[i] = "ok"
			roots[i] = rs
		}
	}
	if only == "cache" {
		return res
	}

	// --- C: NewRoot with a fresh reflector per message
	shStage("newroot")
	res.Obs.Root = make([]string, len(b.Msgs))
	clientOK := map[string]bool{}
	for i, md := range b.Msgs {
		var root j5reflect.Root
		var err error
		site, msg := shGuard(func() { root, err = j5reflect.New().NewRoot(dynamicpb.NewMessage(md)) })
		switch {
		case msg != "":
			res.Obs.Root[i] = "panic"
			add("C18|panic|"+site, "", true, "NewRoot(%s) panics: %s", md.FullName(), msg)
		case err != nil:
			res.Obs.Root[i] = "error"
		case root == nil:
			res.Obs.Root[i] = "nilnil"
			// the cause is in NewRoot itself, not in the descriptor: one signature
			add("C18|nil-result|NewRoot", "nil-root-nil-error", false,
				"NewRoot(%s) returned a nil root and a nil error (SchemaCache.Schema says: %s)", md.FullName(), res.Obs.CacheErr[i])
		default:
			res.Obs.Root[i] = "ok"
			clientOK[shSchemaName(md)] = true
		}
	}
	if only == "newroot" {
		return res
	}

	// --- D: self-consistency of the real schema objects
	shStage("consistency")
	dup := map[string]bool{}
	if set != nil && setErr == nil {
		ck := &shChecker{res: res, byName: byName, seen: map[string]bool{}, stage: "set", clientOK: clientOK, dup: dup}
		var pkgs []string
		for n := range set.Packages {
			pkgs = append(pkgs, n)
		}
		sort.Strings(pkgs)
		for _, pn := range pkgs {
			pkg := set.Packages[pn]
			var names []string
			for n := range pkg.Schemas {
				names = append(names, n)
			}
			sort.Strings(names)
			for _, n := range names {
				ref := pkg.Schemas[n]
				if ref == nil || ref.To == nil {
					if pn == shPkg {
						ck.add("C18|schema|unlinked-ref", "schema-set", "schema set contains %s.%s without a linked schema", pn, n)
					}
					continue
				}
				ck.checkRoot(ref.To, byName[ref.FullName()], true)
			}
		}
	}
	for i, rs := range roots {
		if rs == nil {
			continue
		}
		ck := &shChecker{res: res, byName: byName, seen: map[string]bool{}, stage: "cache", clientOK: clientOK, dup: dup}
		ck.checkRoot(rs, b.Msgs[i], true)
	}
	// duplicate findings from the two views collapse
	res.Findings = shDedup(res.Findings)

	// --- E: codec, one shared codec for the whole file (as codec.Global is used)
	shStage("codec")
	cc := codec.NewCodec()
	ccAny := codec.NewCodec(codec.WithProtoToAny())
	codecFail := false
	anyFailedBuild := false
	_ = anyFailedBuild
	passed := make([]bool, len(b.Msgs)) // empty + every single-field message went through the codec
	type rtFn func(which string, m protoreflect.Message, fd protoreflect.FieldDescriptor) bool
	rts := make([]rtFn, len(b.Msgs))
	for i, md := range b.Msgs {
		fresh := res.Obs.Cache[i] == "ok"
		if res.Obs.Cache[i] == "panic" || res.Obs.Root[i] == "panic" {
			continue // already reported; the codec would only repeat it
		}
		suffix := ""
		rt := func(which string, m protoreflect.Message, fd protoreflect.FieldDescriptor) bool {
			cause := ""
			needMin := true
			if fd != nil {
				cause = shCause(fd, shPropFor(roots[i], fd))
				needMin = false
			}
			res.Codecs++
			var js []byte
			var err error
			site, msg := shGuard(func() { js, err = cc.ProtoToJSON(m) })
			if suffix != "" {
				cause, needMin = "", false // the cause is the earlier failed build, whatever made it fail
			} else if fd != nil && (dup[shSchemaName(md)+"/"+shPropNameFor(roots[i], fd)] || shIsFlattened(shPropFor(roots[i], fd)) && dup[shSchemaName(md)]) {
				// two properties share a JSON name: whatever the codec does with the second one follows from that
				cause, needMin = "duplicate-names", false
			}
			if msg != "" {
				codecFail = true
				add("C18|panic|"+site+suffix, cause, needMin, "ProtoToJSON(%s %s) panics: %s", which, md.FullName(), msg)
				return false
			}
			if err != nil {
				if which == "empty" && !fresh {
					return false // no schema for this type: an error is a permitted outcome
				}
				codecFail = true
				add("C18|codec|encode-"+which+suffix, cause, needMin, "ProtoToJSON(%s %s) fails: %s", which, md.FullName(), shTrim(err.Error()))
				return false
			}
			if !json.Valid(js) {
				codecFail = true
				add("C18|codec|encode-"+which+"-invalid-json"+suffix, cause, needMin, "ProtoToJSON(%s %s) is not JSON: %s", which, md.FullName(), shTrim(string(js)))
				return false
			}
			back := dynamicpb.NewMessage(md)
			site, msg = shGuard(func() { err = cc.JSONToProto(js, back) })
			if msg != "" {
				codecFail = true
				add("C18|panic|"+site+suffix, cause, needMin, "JSONToProto(%s) into %s panics: %s", shTrim(string(js)), md.FullName(), msg)
				return false
			}
			if err != nil && strings.Contains(err.Error(), "proto is required for PB Any") {
				// a google.protobuf.Any can only be filled by a codec that is allowed to add the proto encoding
				back = dynamicpb.NewMessage(md)
				site, msg = shGuard(func() { err = ccAny.JSONToProto(js, back) })
				if msg != "" {
					codecFail = true
					add("C18|panic|"+site+suffix, cause, needMin, "JSONToProto(%s) into %s panics: %s", shTrim(string(js)), md.FullName(), msg)
					return false
				}
			}
			if err != nil {
				codecFail = true
				add("C18|codec|decode-"+which+suffix, cause, needMin, "JSONToProto(%s) into %s fails: %s", shTrim(string(js)), md.FullName(), shTrim(err.Error()))
				return false
			}
			return true
		}
		if !fresh {
			anyFailedBuild = true
			suffix = "|after-failed-build"
		}
		if !rt("empty", dynamicpb.NewMessage(md), nil) {
			if !fresh {
				// a codec is long-lived: the same request again must again be an error, not a panic
				rt("empty", dynamicpb.NewMessage(md), nil)
			}
			continue
		}
		if !fresh {
			// the shared codec produced a schema for a type whose schema cannot be built on its own
			add("C18|cache|schema-after-failed-build", "", false,
				"the shared codec encodes %s although SchemaCache.Schema fails for it (%s): an unlinked placeholder of an earlier failed build is being used", md.FullName(), res.Obs.CacheErr[i])
		}
		// one field at a time; nested user messages are present but empty, so that a failure belongs to this field
		allOK := true
		for j := 0; j < md.Fields().Len(); j++ {
			fd := md.Fields().Get(j)
			if !fresh {
				// the schema exists only because an earlier failed build left it behind: what matters here is following its
				// references to user messages (dead placeholders); the other fields are judged where their type builds
				vf := fd
				if fd.IsMap() {
					vf = fd.MapValue()
				}
				if vf.Kind() != protoreflect.MessageKind || vf.Message().ParentFile().Path() != b.File.Path() {
					continue
				}
			}
			m := dynamicpb.NewMessage(md)
			shPopulateField(m, fd, -1)
			if !rt("populated", m, fd) {
				allOK = false
			}
		}
		passed[i] = allOK && fresh && !dup[shSchemaName(md)]
		rts[i] = rt
	}
	// every field populated, recursively (depth 2), for the types whose parts all passed on their own
	for i, md := range b.Msgs {
		if !passed[i] || md.Fields().Len() == 0 {
			continue
		}
		if _, isOneof := roots[i].(*j5schema.OneofSchema); isOneof {
			continue
		}
		ok := true
		seen := map[protoreflect.FullName]bool{}
		var walk func(d protoreflect.MessageDescriptor)
		walk = func(d protoreflect.MessageDescriptor) {
			if seen[d.FullName()] {
				return
			}
			seen[d.FullName()] = true
			for k, x := range b.Msgs {
				if x.FullName() == d.FullName() && !passed[k] {
					ok = false
				}
			}
			for k := 0; k < d.Fields().Len(); k++ {
				f := d.Fields().Get(k)
				if f.IsMap() {
					f = f.MapValue()
				}
				if f.Kind() == protoreflect.MessageKind && f.Message().ParentFile().Path() == b.File.Path() {
					walk(f.Message())
				}
			}
		}
		walk(md)
		if ok {
			rts[i]("populated-all", shMessageValue(md, 2), nil)
		}
	}
	if res.Codecs > 0 {
		if codecFail {
			res.Obs.Codec = "fail"
		} else {
			res.Obs.Codec = "ok"
		}
	}
	res.Findings = shDedup(res.Findings)
	return res
}

func shTrim(s string) string {
	s = strings.ReplaceAll(s, "\n", " ")
	if len(s) > 240 {
		return s[:240] + "..."
	}
	return s
}

func shDedup(fs []shFinding) []shFinding {
	seen := map[string]bool{}
	var out []shFinding
	for _, f := range fs {
		k := f.Class + "\x00" + f.Cause
		if seen[k] {
			continue
		}
		seen[k] = true
		out = append(out, f)
	}
	return out
}

// ---- minimisation ----------------------------------------------------------------------------------------

func shClone(c *shCase) *shCase {
	b, _ := json.Marshal(c)
	var d shCase
	_ = json.Unmarshal(b, &d)
	return &d
}

func shReferenced(c *shCase, kind, name string) bool {
	for _, m := range c.Msgs {
		for _, f := range m.Fields {
			if f.Kind == kind && f.Ref == name {
				return true
			}
		}
	}
	return false
}

// shReductions lists every case that is one element smaller.
func shReductions(c *shCase) []*shCase {
	var out []*shCase
	for i := range c.Msgs {
		for j := range c.Msgs[i].Fields {
			for k := range c.Msgs[i].Fields[j].Anns {
				d := shClone(c)
				f := &d.Msgs[i].Fields[j]
				f.Anns = append(f.Anns[:k:k], f.Anns[k+1:]...)
				out = append(out, d)
			}
		}
	}
	for i := range c.Msgs {
		if c.Msgs[i].Opt != "" && c.Msgs[i].Opt != "none" {
			d := shClone(c)
			d.Msgs[i].Opt = "none"
			out = append(out, d)
		}
		for k := range c.Msgs[i].Oneofs {
			if o := c.Msgs[i].Oneofs[k].Opt; o != "" && o != "none" {
				d := shClone(c)
				d.Msgs[i].Oneofs[k].Opt = "none"
				out = append(out, d)
			}
		}
	}
	for i := range c.Enums {
		if o := c.Enums[i].Opt; o != "" && o != "none" {
			d := shClone(c)
			d.Enums[i].Opt = "none"
			out = append(out, d)
		}
	}
	// remove a field
	for i := range c.Msgs {
		for j := range c.Msgs[i].Fields {
			d := shClone(c)
			m := &d.Msgs[i]
			o := m.Fields[j].Oneof
			m.Fields = append(m.Fields[:j:j], m.Fields[j+1:]...)
			if o > 0 {
				left := 0
				for _, f := range m.Fields {
					if f.Oneof == o {
						left++
					}
				}
				if left == 0 {
					m.Oneofs = append(m.Oneofs[:o-1:o-1], m.Oneofs[o:]...)
					for x := range m.Fields {
						if m.Fields[x].Oneof > o {
							m.Fields[x].Oneof--
						}
					}
				}
			}
			out = append(out, d)
		}
	}
	// simplify a field: cardinality, oneof membership
	for i := range c.Msgs {
		for j := range c.Msgs[i].Fields {
			f := c.Msgs[i].Fields[j]
			if f.Card != "single" {
				d := shClone(c)
				d.Msgs[i].Fields[j].Card = "single"
				d.Msgs[i].Fields[j].Key = ""
				out = append(out, d)
			}
		}
	}
	for i := range c.Msgs {
		for j := range c.Msgs[i].Fields {
			o := c.Msgs[i].Fields[j].Oneof
			if o == 0 {
				continue
			}
			d := shClone(c)
			m := &d.Msgs[i]
			m.Fields[j].Oneof = 0
			left := 0
			for _, f := range m.Fields {
				if f.Oneof == o {
					left++
				}
			}
			if left == 0 {
				m.Oneofs = append(m.Oneofs[:o-1:o-1], m.Oneofs[o:]...)
				for x := range m.Fields {
					if m.Fields[x].Oneof > o {
						m.Fields[x].Oneof--
					}
				}
			}
			out = append(out, d)
		}
	}
	// remove an unreferenced message without children, an unreferenced enum
	for i := range c.Msgs {
		if len(c.Msgs) < 2 || shReferenced(c, "message", c.Msgs[i].Name) {
			continue
		}
		hasChild := false
		for j := range c.Msgs {
			if j != i && c.Msgs[j].Parent == i+1 {
				hasChild = true
			}
		}
		for j := range c.Enums {
			if c.Enums[j].Parent == i+1 {
				hasChild = true
			}
		}
		if hasChild {
			continue
		}
		d := shClone(c)
		d.Msgs = append(d.Msgs[:i:i], d.Msgs[i+1:]...)
		for j := range d.Msgs {
			if d.Msgs[j].Parent > i+1 {
				d.Msgs[j].Parent--
			}
		}
		for j := range d.Enums {
			if d.Enums[j].Parent > i+1 {
				d.Enums[j].Parent--
			}
		}
		if len(d.PredMsg) == len(c.Msgs) {
			d.PredMsg = append(d.PredMsg[:i:i], d.PredMsg[i+1:]...)
		}
		out = append(out, d)
	}
	for i := range c.Enums {
		if shReferenced(c, "enum", c.Enums[i].Name) {
			continue
		}
		d := shClone(c)
		d.Enums = append(d.Enums[:i:i], d.Enums[i+1:]...)
		out = append(out, d)
	}
	return out
}

func shMinimise(c *shCase, holds func(*shCase) bool) *shCase {
	cur := shClone(c)
	for round := 0; round < 40; round++ {
		progressed := false
		for _, d := range shReductions(cur) {
			if holds(d) {
				cur = d
				progressed = true
				break
			}
		}
		if !progressed {
			break
		}
	}
	return cur
}

// shDescribe summarises what is left in a (minimised) case: the cause part of a signature.
func shDescribe(c *shCase) string {
	var tags []string
	reach := func(from string) map[string]bool {
		seen := map[string]bool{}
		var walk func(n string)
		walk = func(n string) {
			for _, m := range c.Msgs {
				if m.Name != n {
					continue
				}
				for _, f := range m.Fields {
					if f.Kind == "message" && !seen[f.Ref] {
						seen[f.Ref] = true
						walk(f.Ref)
					}
				}
			}
		}
		walk(from)
		return seen
	}
	for _, m := range c.Msgs {
		if m.Opt != "" && m.Opt != "none" {
			tags = append(tags, "msg:"+m.Opt)
		}
		if m.Parent > 0 {
			tags = append(tags, "nested-message")
		}
		for _, o := range m.Oneofs {
			t := "oneof"
			if o.Name == "type" {
				t = "oneof(type)"
			}
			if o.Opt != "" && o.Opt != "none" {
				t += ":" + o.Opt
			}
			tags = append(tags, t)
		}
		for _, f := range m.Fields {
			k := f.Kind
			switch f.Kind {
			case "wkt":
				k = "wkt." + f.Ref
			case "message":
				switch {
				case f.Ref == m.Name:
					k = "message(self)"
				case reach(f.Ref)[m.Name]:
					k = "message(cycle)"
				}
			case "enum":
				for _, e := range c.Enums {
					if e.Name == f.Ref {
						if !e.Unspec {
							k += "(no-unspecified)"
						}
						if e.Opt != "" && e.Opt != "none" {
							k += "(" + e.Opt + ")"
						}
					}
				}
			}
			t := k + "/" + f.Card
			if f.Card == "map" && f.Key != "string" {
				t += "<" + f.Key + ">"
			}
			if f.Oneof > 0 {
				t += "/in-oneof"
			}
			if f.Name != "" && !strings.HasPrefix(f.Name, "f") || strings.Contains(f.Name, "_") {
				t += "/name=" + f.Name
			}
			for _, a := range f.Anns {
				t += "/" + a.Cls + "." + a.Arm + "." + a.Var
			}
			tags = append(tags, t)
		}
	}
	for _, e := range c.Enums {
		if !shReferenced(c, "enum", e.Name) {
			t := "enum-decl"
			if !e.Unspec {
				t += "(no-unspecified)"
			}
			if e.Opt != "" && e.Opt != "none" {
				t += "(" + e.Opt + ")"
			}
			tags = append(tags, t)
		}
	}
	sort.Strings(tags)
	if len(tags) > 6 {
		tags = append(tags[:6], "...")
	}
	if len(tags) == 0 {
		return "empty-message"
	}
	return strings.Join(tags, ";")
}

func shHasClass(r *shEvalResult, class string) bool {
	for _, f := range r.Findings {
		if f.Class == class {
			return true
		}
	}
	return false
}

// ---- the driver ------------------------------------------------------------------------------------------

// shNormalise replaces nil slices by empty ones so that events are uniform records for TLC.
func shNormalise(c *shCase) {
	shPkg = "shapes.v1"
	if c.NoPkg {
		shPkg = ""
		ren := map[string]string{}
		for i := range c.Msgs {
			n := string(rune('A'+i%26)) + "m"
			ren[c.Msgs[i].Name] = n
			c.Msgs[i].Name = n
		}
		for i := range c.Msgs {
			for j := range c.Msgs[i].Fields {
				if n, ok := ren[c.Msgs[i].Fields[j].Ref]; ok && c.Msgs[i].Fields[j].Kind == "message" {
					c.Msgs[i].Fields[j].Ref = n
				}
			}
		}
	}
	if c.Msgs == nil {
		c.Msgs = []shMsg{}
	}
	if c.Enums == nil {
		c.Enums = []shEnum{}
	}
	for i := range c.Msgs {
		if c.Msgs[i].Oneofs == nil {
			c.Msgs[i].Oneofs = []shOneof{}
		}
		if c.Msgs[i].Fields == nil {
			c.Msgs[i].Fields = []shField{}
		}
		for j := range c.Msgs[i].Fields {
			if c.Msgs[i].Fields[j].Anns == nil {
				c.Msgs[i].Fields[j].Anns = []shAnn{}
			}
		}
	}
}

func shKey(c *shCase) string {
	b, _ := json.Marshal(struct {
		M []shMsg
		E []shEnum
	}{c.Msgs, c.Enums})
	h := sha1.Sum(b)
	return hex.EncodeToString(h[:8])
}

func shapesDriver(raw json.RawMessage) *Out {
	debug.SetMaxStack(48 << 20) // unbounded recursion dies in a fraction of a second instead of eating 1 GB
	var c shCase
	if err := json.Unmarshal(raw, &c); err != nil {
		return &Out{Skip: "bad case: " + err.Error()}
	}
	shNormalise(&c)
	out := &Out{Key: shKey(&c)}
	if c.MinCrash {
		return shMinCrash(&c, out)
	}
	b, err := shBuild(&c)
	if err != nil {
		out.Skip = "unbuildable: " + err.Error()
		return out
	}
	res := shEval(&c, b)
	nontrivial := false
	for _, m := range c.Msgs {
		for _, f := range m.Fields {
			if len(f.Anns) > 0 || f.Kind == "message" || f.Kind == "wkt" || f.Card != "single" {
				nontrivial = true
			}
			if _, plain := map[string]bool{"string": true, "int32": true, "bool": true}[f.Kind]; !plain {
				nontrivial = true
			}
		}
		if m.Opt != "none" && m.Opt != "" || len(m.Oneofs) > 0 {
			nontrivial = true
		}
	}
	out.Nontrivial = nontrivial
	for _, f := range res.Findings {
		if f.NeedMin && !c.NoMin {
			class := f.Class
			min := shMinimise(&c, func(d *shCase) bool {
				bb, err := shBuild(d)
				if err != nil {
					return false
				}
				d.NoMin = true
				return shHasClass(shEval(d, bb), class)
			})
			f.Cause = shDescribe(min)
			if mb, err := shBuild(min); err == nil {
				f.Detail += "\nminimal file:\n" + mb.Text
			}
		} else if f.NeedMin {
			f.Cause = ""
		}
		out.V(f.sig(), "%s", f.Detail)
	}
	// model prediction (drift only)
	if c.PredSet != "" && res.Obs.Set != "panic" {
		real := map[string]string{"ok": "builds", "error": "errors"}[res.Obs.Set]
		if real != "" && real != c.PredSet {
			out.D("C18|predict|SchemaSetFromFiles|model="+c.PredSet, "model predicts %s, SchemaSetFromFiles: %s %s [%s]", c.PredSet, res.Obs.Set, shTrim(res.Obs.SetErr), shDescribe(&c))
		}
	}
	if len(c.PredMsg) == len(c.Msgs) {
		for i := range c.Msgs {
			real := map[string]string{"ok": "builds", "error": "errors"}[res.Obs.Cache[i]]
			if real != "" && c.PredMsg[i] != "" && real != c.PredMsg[i] {
				out.D("C18|predict|SchemaCache.Schema|model="+c.PredMsg[i], "model predicts %s for %s, SchemaCache.Schema: %s %s [%s]", c.PredMsg[i], c.Msgs[i].Name, res.Obs.Cache[i], shTrim(res.Obs.CacheErr[i]), shDescribe(&c))
			}
		}
	}
	out.Obs = map[string]any{"real": res.Obs, "schemas": res.Schemas, "props": res.Props, "codecs": res.Codecs}
	ev := map[string]any{"op": "reflect", "msgs": c.Msgs, "enums": c.Enums, "real": res.Obs, "key": out.Key}
	out.Events = append(out.Events, ev)
	return out
}

// shMinCrash handles a case whose evaluation killed the worker: every evaluation happens in a sub-process.
func shMinCrash(c *shCase, out *Out) *Out {
	exe, _ := os.Executable()
	run := func(d *shCase) (crashed bool, kind, site, head string) {
		e := shClone(d)
		e.MinCrash = false
		e.NoMin = true
		js, _ := json.Marshal(e)
		cmd := exec.Command(exe, "one", "shapes-reflect", string(js))
		var stderr strings.Builder
		cmd.Stderr = &stderr
		cmd.Stdout = nil
		done := make(chan error, 1)
		if err := cmd.Start(); err != nil {
			return false, "", "", ""
		}
		go func() { done <- cmd.Wait() }()
		select {
		case err := <-done:
			if err == nil {
				return false, "", "", ""
			}
			s := stderr.String()
			kind = "crash"
			if strings.Contains(s, "stack overflow") || strings.Contains(s, "goroutine stack exceeds") {
				kind = "stack-overflow"
			} else if strings.Contains(s, "fatal error:") {
				i := strings.Index(s, "fatal error:")
				kind = strings.TrimSpace(strings.SplitN(s[i+12:], "\n", 2)[0])
				kind = strings.ReplaceAll(kind, " ", "-")
			}
			// the function that recurses is the one that fills the dump (the top frame is wherever the stack ran out)
			site = "unknown-site"
			stage := "?"
			count := map[string]int{}
			for _, l := range strings.Split(s, "\n") {
				l = strings.TrimSpace(l)
				if strings.HasPrefix(l, "SHAPES-STAGE ") {
					stage = strings.TrimPrefix(l, "SHAPES-STAGE ")
				}
				if strings.HasPrefix(l, "github.com/pentops/j5/") && !strings.Contains(l, "verifh") {
					fn := l
					if i := strings.LastIndex(fn, "("); i > 0 {
						fn = fn[:i]
					}
					count[strings.TrimPrefix(fn, "github.com/pentops/j5/")]++
				}
			}
			best := 0
			for fn, n := range count {
				if n > best || n == best && fn < site {
					site, best = fn, n
				}
			}
			if len(s) > 1500 {
				s = s[len(s)-1500:]
			}
			return true, kind, site + "|" + stage, s
		case <-time.After(20 * time.Second):
			_ = cmd.Process.Kill()
			<-done
			stage := "?"
			for _, l := range strings.Split(stderr.String(), "\n") {
				if strings.HasPrefix(l, "SHAPES-STAGE ") {
					stage = strings.TrimPrefix(l, "SHAPES-STAGE ")
				}
			}
			return true, "timeout", "no-return|" + stage, ""
		}
	}
	crashed, kind, site, head := run(c)
	if !crashed {
		out.Note = "crash not reproduced in a sub-process"
		out.Obs = map[string]any{"reproduced": false}
		return out
	}
	min := shMinimise(c, func(d *shCase) bool {
		if _, err := shBuild(d); err != nil {
			return false
		}
		cr, k, s, _ := run(d)
		return cr && k == kind && s == site
	})
	text := ""
	if mb, err := shBuild(min); err == nil {
		text = mb.Text
	}
	class := "C18|crash|" + kind + "|" + site
	if kind == "timeout" {
		class = "C18|timeout|" + site
	}
	out.Nontrivial = true
	out.V(class+"|"+shDescribe(min), "the worker dies (%s) in stage/site %s; minimal file:\n%s\n%s", kind, site, text, shTrim(head))
	real := shObs{Set: "crash", Cache: []string{}, Root: []string{}, NamesUnique: true, PathsOK: true, Codec: "skipped"}
	out.Obs = map[string]any{"real": real, "reproduced": true}
	out.Events = append(out.Events, map[string]any{"op": "reflect", "msgs": c.Msgs, "enums": c.Enums, "real": real, "key": out.Key})
	return out
}

// shapesProtoDriver renders a case as .proto text (for reports).
func shapesProtoDriver(raw json.RawMessage) *Out {
	var c shCase
	if err := json.Unmarshal(raw, &c); err != nil {
		return &Out{Skip: "bad case: " + err.Error()}
	}
	b, err := shBuild(&c)
	if err != nil {
		return &Out{Skip: "unbuildable: " + err.Error()}
	}
	return &Out{Key: shKey(&c), Note: b.Text}
}
