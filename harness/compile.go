package main

// Shared helper: compile an in-memory bundle of .j5s / .proto files with the real
// protobuild.PackageSet, exactly as `j5 j5s genproto` does, without touching the disk.

import (
	"context"
	"fmt"
	"io"
	"sort"
	"strings"

	"github.com/bufbuild/protocompile/linker"
	"github.com/pentops/j5/internal/j5s/protobuild"
	"github.com/pentops/j5/internal/j5s/protoprint"
	"github.com/pentops/log.go/log"
	"google.golang.org/protobuf/reflect/protoreflect"
	"google.golang.org/protobuf/types/descriptorpb"
)

func init() {
	// the library logs through log.DefaultLogger; keep worker stderr small
	log.DefaultLogger = log.NewCallbackLogger(func(level string, msg string, fields map[string]any) {})
	_ = io.Discard
}

// memFiles is a protobuild.LocalFileSource over a map. Order lets a case dictate the
// order in which packages and files are listed (C14); nil means sorted.
type memFiles struct {
	files    map[string]string
	pkgOrder []string
	fileOrd  map[string][]string // package dir prefix -> file order
}

func newMemFiles(files map[string]string) *memFiles {
	return &memFiles{files: files}
}

func pkgOfFile(filename string) string {
	i := strings.LastIndex(filename, "/")
	if i < 0 {
		return ""
	}
	return strings.ReplaceAll(filename[:i], "/", ".")
}

func (m *memFiles) ListPackages() []string {
	if m.pkgOrder != nil {
		return append([]string(nil), m.pkgOrder...)
	}
	seen := map[string]bool{}
	var out []string
	for f := range m.files {
		p := pkgOfFile(f)
		if !seen[p] {
			seen[p] = true
			out = append(out, p)
		}
	}
	sort.Strings(out)
	return out
}

func (m *memFiles) ListSourceFiles(ctx context.Context, prefix string) ([]string, error) {
	if m.fileOrd != nil {
		if o, ok := m.fileOrd[prefix]; ok {
			return append([]string(nil), o...), nil
		}
	}
	var out []string
	for f := range m.files {
		if strings.HasPrefix(f, prefix) {
			out = append(out, f)
		}
	}
	sort.Strings(out)
	return out, nil
}

func (m *memFiles) GetLocalFile(ctx context.Context, filename string) ([]byte, error) {
	if s, ok := m.files[filename]; ok {
		return []byte(s), nil
	}
	return nil, fmt.Errorf("file not found: %s", filename)
}

// noDeps is an empty protobuild.DependencySet: builtins (google/*, j5/*, buf/validate) resolve
// from protoregistry.GlobalFiles inside protobuild.
type noDeps struct{}

func (noDeps) ListDependencyFiles(root string) []string { return nil }
func (noDeps) GetDependencyFile(filename string) (*descriptorpb.FileDescriptorProto, error) {
	return nil, fmt.Errorf("dependency file not found: %s", filename)
}

// compileBundle compiles every listed package (or all when pkgs is nil) on one PackageSet.
func compileBundle(src *memFiles, pkgs []string) (map[string]linker.Files, *protobuild.PackageSet, error) {
	ps, err := protobuild.NewPackageSet(noDeps{}, src)
	if err != nil {
		return nil, nil, fmt.Errorf("NewPackageSet: %w", err)
	}
	if pkgs == nil {
		pkgs = src.ListPackages()
	}
	out := map[string]linker.Files{}
	for _, p := range pkgs {
		files, err := ps.CompilePackage(context.Background(), p)
		if err != nil {
			return out, ps, fmt.Errorf("CompilePackage %s: %w", p, err)
		}
		out[p] = files
	}
	return out, ps, nil
}

// printFile renders a compiled file as .proto text the way the CLI does.
func printFile(f linker.File) (string, error) {
	return protoprint.PrintFile(context.Background(), f, "")
}

// printFileDesc prints any linked file descriptor (not necessarily a protocompile linker.File).
func printFileDesc(f protoreflect.FileDescriptor) (string, error) {
	return protoprint.PrintFile(context.Background(), f, "")
}
