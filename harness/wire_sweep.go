package main

// C06 kind sweep: every scalar field kind in singular, array and map position, fed with every wrong-shaped JSON value
// (null, bool, number, string, empty string, array, object, null inside array / object, nested arrays). The decoder must
// return success or an error, never panic or hang. Complements the token model, whose universal type only has
// string / enum / object / oneof collections.

import (
	"encoding/json"
	"fmt"
	"net/url"
	"strings"
	"sync"
	"time"

	"github.com/pentops/j5/internal/codec"
	"google.golang.org/protobuf/reflect/protoreflect"
	"google.golang.org/protobuf/types/dynamicpb"
)

var sweepKinds = []string{"string", "bool", "integer:INT32", "integer:INT64", "integer:UINT32", "integer:UINT64", "float:FLOAT32", "float:FLOAT64",
	"bytes", "timestamp", "date", "decimal", "key", "key:id62", "key:uuid", "any", "enum:Color", "object:Inner", "oneof:Choice"}

func sweepFieldName(i int, card string) string { return fmt.Sprintf("f%d%s", i, card) }

var sweepOnce sync.Once
var sweepMsg protoreflect.MessageDescriptor
var sweepErr error

func sweepType() (protoreflect.MessageDescriptor, error) {
	sweepOnce.Do(func() {
		var sb strings.Builder
		sb.WriteString("package sw.v1\n\nobject Sweep {\n")
		for i, k := range sweepKinds {
			sb.WriteString(fmt.Sprintf("\tfield %s %s\n", sweepFieldName(i, "s"), k))
			sb.WriteString(fmt.Sprintf("\tfield %s array:%s\n", sweepFieldName(i, "a"), k))
			sb.WriteString(fmt.Sprintf("\tfield %s map:%s\n", sweepFieldName(i, "m"), k))
			sb.WriteString(fmt.Sprintf("\tfield %s ? %s\n", sweepFieldName(i, "o"), k))
		}
		sb.WriteString("}\n\nobject Inner {\n\tfield x string\n\tfield self object:Sweep\n}\n\noneof Choice {\n\toption a object:Inner\n\toption b object {\n\t\tfield y float:FLOAT64\n\t}\n}\n\nenum Color {\n\toption RED\n\toption GREEN\n}\n")
		res, _, err := compileBundle(newMemFiles(map[string]string{"sw/v1/sweep.j5s": sb.String()}), nil)
		if err != nil {
			sweepErr = err
			return
		}
		for _, files := range res {
			for _, f := range files {
				if md := f.Messages().ByName("Sweep"); md != nil {
					sweepMsg = md
				}
			}
		}
		if sweepMsg == nil {
			sweepErr = fmt.Errorf("Sweep not compiled")
		}
	})
	return sweepMsg, sweepErr
}

func init() { register("wire-sweep", wireSweepDriver) }

type sweepCase struct {
	Kind  int    `json:"kind"`  // index into sweepKinds
	Card  string `json:"card"`  // s | a | m | o
	Value string `json:"value"` // raw JSON text for the member
	Query bool   `json:"query"` // supply Value (unquoted text) as a URL query parameter instead
}

func wireSweepDriver(raw json.RawMessage) *Out {
	var c sweepCase
	if err := json.Unmarshal(raw, &c); err != nil {
		return &Out{Skip: "bad case"}
	}
	md, err := sweepType()
	if err != nil {
		return &Out{Skip: "sweep type does not compile: " + err.Error()}
	}
	name := sweepFieldName(c.Kind, c.Card)
	out := &Out{Nontrivial: true, Key: fmt.Sprintf("%s|%s|%v|%s", sweepKinds[c.Kind], c.Card, c.Query, c.Value)}
	msg := dynamicpb.NewMessage(md)
	// a panic is caught by the worker and reported with the case; a hang by the per-case budget
	t0 := time.Now()
	defer func() {
		// "in time bounded by the input size": these inputs are a few hundred bytes at most
		if d := time.Since(t0); d > 2*time.Second && len(c.Value) < 2000 {
			out.V("C06|slow|"+sweepKinds[c.Kind]+"|"+c.Card, "decoding the %d-byte member value %.60q into a %s field took %v", len(c.Value), c.Value, sweepKinds[c.Kind], d.Round(time.Millisecond))
		}
	}()
	if c.Query {
		err = codec.NewCodec().QueryToProto(url.Values{name: []string{c.Value}}, msg)
	} else {
		err = codec.NewCodec().JSONToProto([]byte(`{"`+name+`":`+c.Value+`}`), msg)
	}
	out.Events = append(out.Events, map[string]any{"op": "decode", "ok": err == nil})
	return out
}
