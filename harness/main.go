// Command vh is the Go side of /verif: it concretises cases emitted by the TLA+
// specifications, runs them against the real pentops/j5 code in isolated worker
// subprocesses, evaluates the property predicates on the real observations and
// records events for trace validation.
//
//	vh drivers                               list drivers
//	vh one <driver> '<json case>'            run one case in-process, print result
//	vh worker <driver>                       stdin ndjson cases -> stdout ndjson results
//	vh run <driver> -in F -out F [-workers N] [-timeout D]
//
// Every real-code call happens in a worker. A Go panic is recovered inside the
// worker and reported as {"panic": ...}; a fatal error, stack overflow or hang
// kills the worker and the parent attributes it to the in-flight case
// ({"crash": ...} / {"timeout": true}).
package main

import (
	"bufio"
	"encoding/json"
	"flag"
	"fmt"
	"io"
	"os"
	"os/exec"
	"runtime/debug"
	"sort"
	"strings"
	"sync"
	"syscall"
	"time"
)

// Finding is one property violation or one model/implementation disagreement.
type Finding struct {
	Sig    string `json:"sig"`    // stable signature, matched against known_findings.jsonl
	Detail string `json:"detail"` // human readable
}

// Out is what a driver returns for one case.
type Out struct {
	Key        string    `json:"key,omitempty"`        // identity of the abstract case (for distinct counts)
	Nontrivial bool      `json:"nontrivial,omitempty"` // exercised a non-default branch of the predicate
	Viol       []Finding `json:"viol,omitempty"`       // property violations observed on the real code
	Drift      []Finding `json:"drift,omitempty"`      // model prediction != real (not a violation)
	Obs        any       `json:"obs,omitempty"`        // real observation projected on the model vocabulary
	Events     []any     `json:"events,omitempty"`     // trace events for direction T
	Note       string    `json:"note,omitempty"`
	Skip       string    `json:"skip,omitempty"` // case not applicable (reason)
}

func (o *Out) V(sig, format string, a ...any) {
	o.Viol = append(o.Viol, Finding{Sig: sig, Detail: fmt.Sprintf(format, a...)})
}
func (o *Out) D(sig, format string, a ...any) {
	o.Drift = append(o.Drift, Finding{Sig: sig, Detail: fmt.Sprintf(format, a...)})
}

type Driver func(raw json.RawMessage) *Out

var drivers = map[string]Driver{}

func register(name string, d Driver) { drivers[name] = d }

// envelope is one line of the result file.
type envelope struct {
	I       int     `json:"i"`
	Out     *Out    `json:"out,omitempty"`
	Panic   string  `json:"panic,omitempty"`
	Crash   string  `json:"crash,omitempty"`
	Timeout bool    `json:"timeout,omitempty"`
	WallMs  float64 `json:"ms"`
}

func runRecovered(d Driver, raw json.RawMessage) (out *Out, pan string) {
	defer func() {
		if r := recover(); r != nil {
			pan = fmt.Sprintf("%v\n%s", r, trimStack(string(debug.Stack())))
		}
	}()
	return d(raw), ""
}

func trimStack(s string) string {
	lines := strings.Split(s, "\n")
	var keep []string
	for _, l := range lines {
		if strings.Contains(l, "runtime/debug") || strings.Contains(l, "runRecovered") {
			continue
		}
		keep = append(keep, l)
		if len(keep) > 40 {
			break
		}
	}
	return strings.Join(keep, "\n")
}

func main() {
	if len(os.Args) < 2 {
		fmt.Fprintln(os.Stderr, "usage: vh drivers|one|worker|run ...")
		os.Exit(2)
	}
	switch os.Args[1] {
	case "drivers":
		var names []string
		for n := range drivers {
			names = append(names, n)
		}
		sort.Strings(names)
		for _, n := range names {
			fmt.Println(n)
		}
	case "one":
		d := mustDriver(os.Args[2])
		var raw []byte
		if len(os.Args) > 3 {
			raw = []byte(os.Args[3])
		} else {
			raw, _ = io.ReadAll(os.Stdin)
		}
		out, pan := runRecovered(d, raw)
		enc := json.NewEncoder(os.Stdout)
		enc.SetIndent("", " ")
		_ = enc.Encode(envelope{Out: out, Panic: pan})
	case "worker":
		worker(mustDriver(os.Args[2]))
	case "run":
		runCmd(os.Args[2:])
	default:
		if c, ok := commands[os.Args[1]]; ok {
			c(os.Args[2:])
			return
		}
		fmt.Fprintln(os.Stderr, "unknown command", os.Args[1])
		os.Exit(2)
	}
}

// commands are extra top-level subcommands registered by other files.
var commands = map[string]func(args []string){}

func mustDriver(name string) Driver {
	d, ok := drivers[name]
	if !ok {
		fmt.Fprintln(os.Stderr, "unknown driver", name)
		os.Exit(2)
	}
	return d
}

func worker(d Driver) {
	in := bufio.NewReaderSize(os.Stdin, 1<<20)
	// the library under test prints to stdout on some error paths: keep the protocol on a private
	// descriptor and point fd 1 at stderr
	protoFd, err := syscall.Dup(1)
	if err != nil {
		fmt.Fprintln(os.Stderr, "harness: dup:", err)
		os.Exit(2)
	}
	_ = syscall.Dup2(2, 1)
	w := bufio.NewWriter(os.NewFile(uintptr(protoFd), "proto"))
	for {
		line, err := in.ReadBytes('\n')
		if len(line) > 1 {
			t0 := time.Now()
			out, pan := runRecovered(d, json.RawMessage(line))
			b, jerr := json.Marshal(envelope{Out: out, Panic: pan, WallMs: float64(time.Since(t0).Microseconds()) / 1000})
			if jerr != nil {
				b, _ = json.Marshal(envelope{Panic: "harness: cannot marshal result: " + jerr.Error()})
			}
			w.Write(b)
			w.WriteByte('\n')
			w.Flush()
		}
		if err != nil {
			return
		}
	}
}

type child struct {
	cmd    *exec.Cmd
	stdin  io.WriteCloser
	stdout *bufio.Reader
	stderr *tailBuf
}

// tailBuf keeps the most recent 256 KiB of a worker's stderr (a race report or a fatal error
// with its goroutine dump is the last thing a dying worker writes).
type tailBuf struct {
	mu  sync.Mutex
	buf []byte
}

func (t *tailBuf) Write(p []byte) (int, error) {
	t.mu.Lock()
	defer t.mu.Unlock()
	t.buf = append(t.buf, p...)
	if len(t.buf) > 1<<19 {
		t.buf = append([]byte(nil), t.buf[len(t.buf)-(1<<18):]...)
	}
	return len(p), nil
}
func (t *tailBuf) String() string {
	t.mu.Lock()
	defer t.mu.Unlock()
	return string(t.buf)
}

func startChild(driver string, env []string) (*child, error) {
	exe, _ := os.Executable()
	cmd := exec.Command(exe, "worker", driver)
	cmd.Env = append(os.Environ(), env...)
	stdin, err := cmd.StdinPipe()
	if err != nil {
		return nil, err
	}
	stdout, err := cmd.StdoutPipe()
	if err != nil {
		return nil, err
	}
	tb := &tailBuf{}
	cmd.Stderr = tb
	if err := cmd.Start(); err != nil {
		return nil, err
	}
	return &child{cmd: cmd, stdin: stdin, stdout: bufio.NewReaderSize(stdout, 1<<20), stderr: tb}, nil
}

func (c *child) kill() {
	if c == nil {
		return
	}
	c.stdin.Close()
	_ = c.cmd.Process.Kill()
	_ = c.cmd.Wait()
}

// crashHead extracts the first informative lines of a dead worker's stderr.
func crashHead(s string) string {
	lines := strings.Split(s, "\n")
	start := 0
	// the last marker wins: earlier output is library chatter
	for i, l := range lines {
		if strings.HasPrefix(l, "fatal error:") || strings.HasPrefix(l, "panic:") || strings.HasPrefix(l, "runtime: goroutine stack exceeds") || strings.Contains(l, "WARNING: DATA RACE") {
			start = i
		}
	}
	end := start + 60
	if end > len(lines) {
		end = len(lines)
	}
	return strings.Join(lines[start:end], "\n")
}

func runCmd(args []string) {
	fs := flag.NewFlagSet("run", flag.ExitOnError)
	inF := fs.String("in", "", "cases ndjson")
	outF := fs.String("out", "", "results ndjson")
	nw := fs.Int("workers", 8, "worker subprocesses")
	to := fs.Duration("timeout", 10*time.Second, "per-case budget")
	driver := args[0]
	_ = fs.Parse(args[1:])
	mustDriver(driver)

	inFile, err := os.Open(*inF)
	if err != nil {
		fmt.Fprintln(os.Stderr, err)
		os.Exit(2)
	}
	defer inFile.Close()
	var cases [][]byte
	sc := bufio.NewReaderSize(inFile, 1<<20)
	for {
		line, err := sc.ReadBytes('\n')
		if len(strings.TrimSpace(string(line))) > 0 {
			cases = append(cases, append([]byte(nil), line...))
		}
		if err != nil {
			break
		}
	}
	results := make([]envelope, len(cases))
	var next int
	var mu sync.Mutex
	var wg sync.WaitGroup
	for w := 0; w < *nw; w++ {
		wg.Add(1)
		go func() {
			defer wg.Done()
			var c *child
			defer func() { c.kill() }()
			for {
				mu.Lock()
				i := next
				next++
				mu.Unlock()
				if i >= len(cases) {
					return
				}
				if c == nil {
					var err error
					c, err = startChild(driver, nil)
					if err != nil {
						results[i] = envelope{I: i, Crash: "harness: cannot start worker: " + err.Error()}
						continue
					}
				}
				line := cases[i]
				if line[len(line)-1] != '\n' {
					line = append(line, '\n')
				}
				type rd struct {
					b   []byte
					err error
				}
				ch := make(chan rd, 1)
				cc := c
				go func() {
					_, werr := cc.stdin.Write(line)
					if werr != nil {
						ch <- rd{nil, werr}
						return
					}
					b, err := cc.stdout.ReadBytes('\n')
					ch <- rd{b, err}
				}()
				t0 := time.Now()
				select {
				case r := <-ch:
					if r.err != nil || len(r.b) == 0 {
						_ = c.cmd.Wait()
						results[i] = envelope{I: i, Crash: crashHead(c.stderr.String()), WallMs: float64(time.Since(t0).Milliseconds())}
						c.kill()
						c = nil
						continue
					}
					var e envelope
					if err := json.Unmarshal(r.b, &e); err != nil {
						e = envelope{Crash: "harness: bad worker output: " + err.Error()}
					}
					e.I = i
					results[i] = e
				case <-time.After(*to):
					results[i] = envelope{I: i, Timeout: true, WallMs: float64(time.Since(t0).Milliseconds()), Crash: crashHead(c.stderr.String())}
					c.kill()
					c = nil
				}
			}
		}()
	}
	wg.Wait()
	of, err := os.Create(*outF)
	if err != nil {
		fmt.Fprintln(os.Stderr, err)
		os.Exit(2)
	}
	bw := bufio.NewWriterSize(of, 1<<20)
	enc := json.NewEncoder(bw)
	for _, r := range results {
		_ = enc.Encode(r)
	}
	bw.Flush()
	of.Close()
}
