package main

// Drivers for C01 (round trip), C08 (encoder contract), C03 (decoding exact or rejected).
// Cases come from spec/J5Wire.tla; see wire_types.go for the vocabulary.

import (
	"encoding/base64"
	"encoding/json"
	"fmt"
	"math"
	"net/url"
	"regexp"
	"sort"
	"strconv"
	"strings"
	"time"

	"github.com/shopspring/decimal"
	"google.golang.org/protobuf/encoding/prototext"
	"google.golang.org/protobuf/proto"
	"google.golang.org/protobuf/reflect/protoreflect"
	"google.golang.org/protobuf/types/dynamicpb"
)

type wireQ struct {
	Path string `json:"path"`
	Kind string `json:"kind"`
	A    string `json:"a"`
	F    string `json:"f"`
}

type wireCase struct {
	Mode   string  `json:"mode"` // val | spell | fault | query
	Kind   string  `json:"kind"`
	Card   string  `json:"card"`
	Pos    string  `json:"pos"`
	Vl     string  `json:"vl"` // label of the focus value (atoms)
	Sch    wSch    `json:"sch"`
	Val    wVal    `json:"val"`
	Enc    *wJ     `json:"enc"`
	Doc    *wJ     `json:"doc"`
	Canon  *wJ     `json:"canon"` // spell: the canonical document of the same value
	Ws     string  `json:"ws"`
	Sp     string  `json:"sp"`
	Form   string  `json:"form"` // spelling: the leaf form used for the focus kind
	Fault  string  `json:"fault"`
	Expect string  `json:"expect"`
	Demand bool    `json:"demand"`
	Dec    *wVal   `json:"dec"`
	Src    string  `json:"src"`
	Q      []wireQ `json:"q"`
	AnyC   bool    `json:"anyc"` // codec built WithProtoToAny
	WfOnly bool    `json:"wfonly"`
	Stub   string  `json:"stub"` // self-test: "break" replaces the real observation by a property-breaking one
}

func init() {
	register("wire-c01", func(raw json.RawMessage) *Out { return wireDriver(raw, "C01") })
	register("wire-c08", func(raw json.RawMessage) *Out { return wireDriver(raw, "C08") })
	register("wire-c03", func(raw json.RawMessage) *Out { return wireDriver(raw, "C03") })
	register("wire-all", func(raw json.RawMessage) *Out { return wireDriver(raw, "") })
}

func wxHasExpOrPbAny(n *wSch) bool {
	if n.T == "any" && n.Fl == "pb" {
		return true
	}
	for i := range n.Props {
		if n.Props[i].Exp || wxHasExpOrPbAny(&n.Props[i].Sch) {
			return true
		}
	}
	return false
}

func (c *wireCase) slot() string {
	return fmt.Sprintf("slot=%s/%s/%s", c.Kind, c.Card, c.Pos)
}

// atoms: the distinct atoms of the focus value, sorted (so that a known finding about one atom can be matched by prefix)
func (c *wireCase) atoms() string {
	parts := strings.Split(c.Vl, "+")
	sort.Strings(parts)
	var out []string
	for i, p := range parts {
		if i == 0 || p != parts[i-1] {
			out = append(out, p)
		}
	}
	return strings.Join(out, "+")
}

func wireDriver(raw json.RawMessage, prop string) *Out {
	var c wireCase
	if err := json.Unmarshal(raw, &c); err != nil {
		return &Out{Skip: "bad case: " + err.Error()}
	}
	out := &Out{}
	wireAnyCur = wireAnyJSON
	if !c.AnyC {
		wireAnyCur = wireAnyJSONText
	}
	srcs := []string{"j5s", "raw"}
	if c.Src != "" {
		srcs = []string{c.Src}
	} else if wxHasExpOrPbAny(&c.Sch) {
		srcs = []string{"raw"} // not expressible in j5s
	}
	vb, _ := json.Marshal(c.Val)
	out.Key = fmt.Sprintf("%s|%s|%s|%s|%s|%s|%v", c.Mode, c.slot(), c.Sp, c.Fault, c.Ws, vb, c.Q)
	for _, src := range srcs {
		ws, err := wxRealiseSchema(&c.Sch, src, c.AnyC)
		if err != nil {
			// the slot is one J5 admits (by construction of the model): failing to build it is a harness/model problem
			out.D("wire|schema-not-realised|"+src+"|"+c.slot(), "%v", err)
			continue
		}
		sub := &Out{}
		switch c.Mode {
		case "val":
			wireRunVal(sub, &c, ws)
		case "spell", "fault":
			wireRunDoc(sub, &c, ws)
		case "query":
			wireRunQuery(sub, &c, ws)
		default:
			return &Out{Skip: "unknown mode " + c.Mode}
		}
		for _, v := range sub.Viol {
			if prop == "" || strings.HasPrefix(v.Sig, prop+"|") {
				v.Sig += "|src=" + src
				out.Viol = append(out.Viol, v)
			}
		}
		for _, d := range sub.Drift {
			d.Sig += "|src=" + src
			out.Drift = append(out.Drift, d)
		}
		if len(sub.Viol) == 0 {
			// the trace carries the calls on which the per-case predicate held; the law invariants of J5WireTrace must then hold too
			out.Events = append(out.Events, sub.Events...)
		}
		out.Nontrivial = out.Nontrivial || sub.Nontrivial
		if out.Obs == nil {
			out.Obs = sub.Obs
		}
	}
	// a finding present under both schema sources is one finding: drop the src suffix when both agree
	out.Viol = wxMergeSrc(out.Viol, len(srcs))
	out.Drift = wxMergeSrc(out.Drift, len(srcs))
	return out
}

func wxMergeSrc(fs []Finding, nsrc int) []Finding {
	if nsrc < 2 {
		for i := range fs {
			fs[i].Sig = strings.TrimSuffix(strings.TrimSuffix(fs[i].Sig, "|src=raw"), "|src=j5s")
		}
		return fs
	}
	count := map[string]int{}
	for _, f := range fs {
		base := strings.TrimSuffix(strings.TrimSuffix(f.Sig, "|src=raw"), "|src=j5s")
		count[base]++
	}
	var out []Finding
	seen := map[string]bool{}
	for _, f := range fs {
		base := strings.TrimSuffix(strings.TrimSuffix(f.Sig, "|src=raw"), "|src=j5s")
		if count[base] >= 2 {
			if !seen[base] {
				seen[base] = true
				out = append(out, Finding{Sig: base, Detail: f.Detail})
			}
			continue
		}
		out = append(out, f)
	}
	return out
}

// ---------------- C01 + C08: encode, inspect, decode back ----------------

func wireRunVal(out *Out, c *wireCase, ws *wireSchema) {
	slot := c.Kind + "|atoms=" + c.atoms() + "|" + c.slot()
	msg, err := wxBuildMsg(&c.Sch, ws.root, &c.Val)
	if err == wxErrNoPresence {
		out.D("wire|optional-field-without-presence|"+c.Kind, "schema source %s: the `optional` field has no presence in the compiled descriptor, a zero value cannot be set", ws.src)
		return
	}
	if err != nil {
		out.D("wire|harness-build|"+c.slot(), "%v", err)
		return
	}
	orig := wxProjMsg(&c.Sch, msg)
	b, encErr := ws.codec.ProtoToJSON(msg)
	if c.Stub == "break" && encErr == nil {
		// V4 self-test stub: an "implementation" that writes 64-bit integers bare, drops the last member and emits NaN
		b = []byte(strings.Replace(string(b), `"hello"`, `NaN`, 1))
	}
	ev := map[string]any{"op": "rt", "sch": c.Sch, "val": orig, "encok": encErr == nil, "decok": false, "wf": false,
		"doc": wJ{J: "null"}, "back": wVal{T: "unset"}, "wfonly": c.WfOnly, "slot": c.slot(), "anyc": c.AnyC}
	defer func() { out.Events = append(out.Events, ev) }()
	if encErr != nil {
		if !c.WfOnly {
			out.V("C01|encode-error|"+slot, "ProtoToJSON failed for a representable message %s: %v", wxValString(&orig), encErr)
		}
		// C08: a failed encoding is allowed for the well-formedness-only inputs and says nothing for the others
		return
	}
	out.Obs = string(b)
	out.Nontrivial = len(orig.M) > 0
	// the returned document belongs to the caller: a later call on the same codec (here: another message of the same
	// type) must leave it alone
	if !c.WfOnly {
		first := string(b)
		other := dynamicpb.NewMessage(ws.root)
		if fd := ws.root.Fields().ByName("sib"); fd != nil && fd.Kind() == protoreflect.StringKind && !fd.IsList() {
			other.Set(fd, protoreflect.ValueOfString("another message, long enough to overwrite the first document if its bytes are shared with it"))
		}
		_, _ = ws.codec.ProtoToJSON(other)
		if string(b) != first {
			out.V("C01|document-changed-by-later-call|"+slot, "the document returned for %s was %s; after encoding another message on the same codec the same byte slice reads %s", wxValString(&orig), wxClip(first), wxClip(string(b)))
			return
		}
	}
	real, dups, perr := wxStrictParse(b)
	if perr != nil {
		out.V("C08|malformed|"+slot, "encoder output is not well-formed JSON (%v): %s", perr, wxClip(string(b)))
	} else {
		ev["wf"] = true
		if len(dups) > 0 {
			out.V("C08|duplicate-key|"+slot, "encoder output has duplicate member(s) %v: %s", dups, wxClip(string(b)))
		}
		if real.T != "obj" {
			out.V("C08|root-not-object|"+slot, "encoder output root is %s", real.T)
		}
		ev["doc"] = wxAbsJ(&c.Sch, real)
		if !c.WfOnly && c.Enc != nil {
			wireCmpEnc(out, c, &c.Sch, c.Enc, real, "$", slot, &c.Val)
		}
	}
	if c.WfOnly {
		return
	}
	// C01: decode the real output into a fresh message
	back := dynamicpb.NewMessage(ws.root)
	decErr := ws.codec.JSONToProto(b, back)
	if decErr != nil {
		out.V("C01|decode-own-output|"+slot, "JSONToProto rejects the encoder's own output %s: %v", wxClip(string(b)), decErr)
		return
	}
	ev["decok"] = true
	bv := wxProjMsg(&c.Sch, back)
	ev["back"] = bv
	if !wxValEqual(&orig, &bv) {
		out.V("C01|roundtrip-differs|"+slot, "message %s encodes to %s which decodes to %s", wxValString(&orig), wxClip(string(b)), wxValString(&bv))
	}
}

func wxClip(s string) string {
	if len(s) > 300 {
		return s[:300] + "..."
	}
	return s
}

// wxClientProps: JSON member name -> property, with flattened objects spliced in.
func wxClientProps(n *wSch, into map[string]*wProp) map[string]*wProp {
	if into == nil {
		into = map[string]*wProp{}
	}
	for i := range n.Props {
		p := &n.Props[i]
		if p.Flat && n.T == "obj" {
			wxClientProps(&p.Sch, into)
			continue
		}
		into[p.Name] = p
	}
	return into
}

var wxReDate = regexp.MustCompile(`^\d{4}-\d{2}-\d{2}$`)

// wxLeafDenotes: does the real leaf have the documented format for the kind and denote the atom's value?
// (the demand of C08 on lexemes; the exact text predicted by the model is drift-only)
func wxLeafDenotes(kind string, a *wAtom, real *cJ) (bool, string) {
	switch kind {
	case "int32", "int64":
		v, err := strconv.ParseInt(real.Text, 10, 64)
		return err == nil && v == a.i64 && real.Text == strconv.FormatInt(v, 10), "decimal integer " + a.canon
	case "uint32", "uint64":
		v, err := strconv.ParseUint(real.Text, 10, 64)
		return err == nil && v == a.u64 && real.Text == strconv.FormatUint(v, 10), "decimal integer " + a.canon
	case "float32":
		v, err := strconv.ParseFloat(real.Text, 64)
		return err == nil && math.Float32bits(float32(v)) == math.Float32bits(float32(a.f64)), "a literal denoting " + a.canon
	case "float64":
		v, err := strconv.ParseFloat(real.Text, 64)
		return err == nil && math.Float64bits(v) == math.Float64bits(a.f64), "a literal denoting " + a.canon
	case "bool":
		return real.Text == a.canon, a.canon
	case "string", "key":
		return real.Text == a.str, "the string value"
	case "bytes":
		return real.Text == base64.StdEncoding.EncodeToString(a.by), "padded standard base64 " + base64.StdEncoding.EncodeToString(a.by)
	case "timestamp":
		t, err := time.Parse(time.RFC3339Nano, real.Text)
		if err != nil {
			return false, "an RFC3339 timestamp"
		}
		_, off := t.Zone()
		utc := off == 0 && (strings.HasSuffix(real.Text, "Z") || strings.HasSuffix(real.Text, "+00:00"))
		return utc && t.Unix() == a.sec && int32(t.Nanosecond()) == a.nanos, "RFC3339 in UTC denoting " + a.canon
	case "date":
		want := fmt.Sprintf("%04d-%02d-%02d", a.y, a.m, a.d)
		return wxReDate.MatchString(real.Text) && real.Text == want, "zero-padded YYYY-MM-DD " + want
	case "decimal":
		d1, e1 := decimal.NewFromString(real.Text)
		d2, e2 := decimal.NewFromString(a.str)
		return e1 == nil && e2 == nil && d1.Equal(d2), "a decimal string denoting " + a.str
	case "enum":
		return real.Text == a.canon, "the short option name " + a.canon
	}
	return false, "?"
}

// wireCmpEnc compares the strict-tokenised real output with the model's Enc tree on the attributes C08 lists.
func wireCmpEnc(out *Out, c *wireCase, n *wSch, model *wJ, real *cJ, path, slot string, _ *wVal) {
	switch model.J {
	case "obj":
		if real.T != "obj" {
			out.V("C08|repr|object|want=object|got="+real.T+"|"+slot, "at %s: expected a JSON object, got %s", path, real.T)
			return
		}
		want := map[string]*wJ{}
		for i := range model.M {
			want[model.M[i].K] = &model.M[i].V
		}
		got := map[string]*cJ{}
		for i := range real.M {
			got[real.M[i].K] = real.M[i].V
		}
		var missing, extra []string
		for k := range want {
			if got[k] == nil {
				missing = append(missing, k)
			}
		}
		for k := range got {
			if want[k] == nil {
				extra = append(extra, k)
			}
		}
		sort.Strings(missing)
		sort.Strings(extra)
		if len(missing)+len(extra) > 0 {
			out.V("C08|members|missing="+strings.Join(missing, ",")+"|extra="+strings.Join(extra, ",")+"|"+slot,
				"at %s: documented members %v, real members %v (framing / flatten inlining / omission of unset members / JSON names)", path, wxKeysOfJ(model), wxKeysOfC(real))
		}
		// member order is not part of the statement: drift only
		if len(missing)+len(extra) == 0 && strings.Join(wxKeysOfJ(model), ",") != strings.Join(wxKeysOfC(real), ",") {
			out.D("C08|member-order", "at %s: model order %v, real order %v", path, wxKeysOfJ(model), wxKeysOfC(real))
		}
		props := map[string]*wProp{}
		if n != nil && (n.T == "obj" || n.T == "oneof") {
			props = wxClientProps(n, nil)
		}
		for k, wv := range want {
			rv := got[k]
			if rv == nil {
				continue
			}
			var child *wSch
			if p := props[k]; p != nil {
				child = &p.Sch
			}
			wireCmpEnc(out, c, child, wv, rv, path+"."+k, slot, nil)
		}
	case "arr":
		if real.T != "arr" {
			out.V("C08|repr|array|want=array|got="+real.T+"|"+slot, "at %s: expected a JSON array, got %s", path, real.T)
			return
		}
		if len(real.S) != len(model.S) {
			out.V("C08|array-length|"+slot, "at %s: %d elements, expected %d", path, len(real.S), len(model.S))
			return
		}
		for i := range model.S {
			wireCmpEnc(out, c, n, &model.S[i], real.S[i], fmt.Sprintf("%s[%d]", path, i), slot, nil)
		}
	case "str", "num", "bool":
		if real.T != model.J {
			out.V("C08|repr|"+model.Kind+"|want="+model.J+"|got="+real.T+"|"+slot, "at %s: %s value must be a JSON %s, encoder wrote a %s (%s)", path, model.Kind, model.J, real.T, wxClip(real.Text))
			return
		}
		if model.Kind == "lit" {
			if real.Text != model.A {
				out.V("C08|framing|"+slot, "at %s: expected %q, got %q", path, model.A, real.Text)
			}
			return
		}
		if model.Kind == "anyjson" {
			return
		}
		a := wireAtoms[model.Kind][model.A]
		if a == nil {
			out.D("wire|harness-atom|"+model.Kind+"/"+model.A, "unknown atom")
			return
		}
		ok, want := wxLeafDenotes(model.Kind, a, real)
		if !ok {
			out.V("C08|format|"+model.Kind+"|atom="+model.A+"|"+slot, "at %s: %s value %s must be written as %s, encoder wrote %q", path, model.Kind, model.A, want, real.Text)
			return
		}
		_, text, err := wireLexeme(model.Kind, model.A, model.F)
		if err == nil && text != real.Text {
			out.D("C08|lexeme-text|"+model.Kind, "model lexeme %q, real %q (same value, same class)", text, real.Text)
		}
	case "raw", "rawempty":
		// Any payload: only well-formedness (already established by the strict parser)
	default:
		out.D("wire|harness-cmp", "model node %q at %s", model.J, path)
	}
}

func wxKeysOfJ(j *wJ) []string {
	var out []string
	for _, m := range j.M {
		out = append(out, m.K)
	}
	return out
}
func wxKeysOfC(j *cJ) []string {
	var out []string
	for _, m := range j.M {
		out = append(out, m.K)
	}
	return out
}

// wxAbsJ abstracts a real JSON document onto the model's tree (schema directed), for trace validation.
func wxAbsJ(n *wSch, real *cJ) wJ {
	switch real.T {
	case "null":
		return wJ{J: "null"}
	case "obj":
		out := wJ{J: "obj", M: []wJKV{}}
		props := map[string]*wProp{}
		if n != nil && (n.T == "obj" || n.T == "oneof") {
			props = wxClientProps(n, nil)
		}
		for _, kv := range real.M {
			var child *wSch
			isMapOrArr := false
			if p := props[kv.K]; p != nil {
				child = &p.Sch
				isMapOrArr = p.Card == "map" || p.Card == "arr"
			}
			if n != nil && n.T == "mapof" {
				child = &n.Props[0].Sch
			}
			if n != nil && n.T == "any" && kv.K == "value" {
				if kv.V.T == "obj" && len(kv.V.M) == 0 {
					out.M = append(out.M, wJKV{kv.K, wJ{J: "rawempty"}})
				} else {
					out.M = append(out.M, wJKV{kv.K, wJ{J: "raw"}})
				}
				continue
			}
			if kv.K == "!type" && kv.V.T == "str" {
				out.M = append(out.M, wJKV{kv.K, wJ{J: "str", Kind: "lit", A: kv.V.Text, F: "canon"}})
				continue
			}
			if isMapOrArr && child != nil {
				p := props[kv.K]
				if p.Card == "map" && kv.V.T == "obj" {
					wrapped := &wSch{T: "mapof", Props: []wProp{{Sch: *child}}}
					out.M = append(out.M, wJKV{kv.K, wxAbsJ(wrapped, kv.V)})
					continue
				}
			}
			out.M = append(out.M, wJKV{kv.K, wxAbsJ(child, kv.V)})
		}
		return out
	case "arr":
		out := wJ{J: "arr", S: []wJ{}}
		for _, e := range real.S {
			out.S = append(out.S, wxAbsJ(n, e))
		}
		return out
	}
	// leaf
	if n == nil || n.T != "leaf" {
		return wJ{J: real.T, Kind: "?", A: "?" + real.Text, F: "?"}
	}
	tab := wireAtoms[n.Kind]
	names := make([]string, 0, len(tab))
	for k := range tab {
		names = append(names, k)
	}
	sort.Strings(names)
	forms := map[string][]string{
		"int32": {"bare", "quoted"}, "int64": {"bare", "quoted"}, "uint32": {"bare", "quoted"}, "uint64": {"bare", "quoted"},
		"float32": {"bare", "quoted"}, "float64": {"bare", "quoted"}, "decimal": {"bare", "quoted"},
		"bytes": {"stdpad", "stdnopad", "urlpad", "urlnopad"}, "enum": {"short", "prefixed"}, "timestamp": {"utc", "plus", "minus"},
	}[n.Kind]
	if forms == nil {
		forms = []string{"canon"}
	}
	for _, an := range names {
		if !tab[an].val {
			continue
		}
		for _, f := range forms {
			jt, text, err := wireLexeme(n.Kind, an, f)
			if err != nil {
				continue
			}
			if f == "bare" {
				jt = "num"
			}
			if jt == real.T && text == real.Text {
				return wJ{J: real.T, Kind: n.Kind, A: an, F: f}
			}
		}
	}
	// same value, other text (e.g. decimal re-rendering, float formatting): find by denotation
	for _, an := range names {
		if a := tab[an]; a.val {
			if ok, _ := wxLeafDenotes(n.Kind, a, real); ok {
				f := forms[0]
				if real.T == "str" && len(forms) > 1 && forms[1] == "quoted" {
					f = "quoted"
				}
				return wJ{J: real.T, Kind: n.Kind, A: an, F: f}
			}
		}
	}
	return wJ{J: real.T, Kind: n.Kind, A: "?" + real.Text, F: "?"}
}

// ---------------- C03: decode a model document ----------------

func wireRunDoc(out *Out, c *wireCase, ws *wireSchema) {
	label := c.Sp
	if c.Mode == "fault" {
		label = c.Fault
	}
	slot := "atoms=" + c.atoms() + "|" + c.slot()
	text, err := wxSerialise(c.Doc, c.Ws)
	if err != nil {
		out.D("wire|harness-serialise|"+c.slot(), "%v", err)
		return
	}
	out.Obs = text
	msg := dynamicpb.NewMessage(ws.root)
	decErr := ws.codec.JSONToProto([]byte(text), msg)
	accepted := decErr == nil
	got := wxProjMsg(&c.Sch, msg)
	ev := map[string]any{"op": "dec", "sch": c.Sch, "doc": c.Doc, "ok": accepted, "got": got, "demand": c.Demand, "mode": c.Mode, "slot": c.slot(), "anyc": c.AnyC}
	if !accepted {
		ev["got"] = wVal{T: "reject"}
	}
	out.Events = append(out.Events, ev)
	out.Nontrivial = true
	report := func(sig, format string, a ...any) {
		if c.Demand {
			out.V("C03|"+sig, format, a...)
		} else {
			out.D("C03-undemanded|"+strings.Join(strings.SplitN(sig, "|", 4)[:min(3, len(strings.SplitN(sig, "|", 4)))], "|"), format, a...)
		}
	}
	if c.Dec != nil && c.Dec.T != "reject" {
		if _, err := wxBuildMsg(&c.Sch, ws.root, c.Dec); err == wxErrNoPresence {
			// this schema source cannot hold the value the model denotes: not a case of the slot
			out.Events = nil
			out.D("wire|optional-field-without-presence|"+c.Kind, "schema source %s", ws.src)
			return
		}
	}
	switch c.Expect {
	case "accept":
		if !accepted {
			report("spelling-rejected|"+c.Kind+"|form="+c.Form+"|"+slot+"|sp="+label, "documented spelling %s rejected: %s -> %v", label, wxClip(text), decErr)
			return
		}
		if c.Dec == nil {
			return
		}
		wantMsg, err := wxBuildMsg(&c.Sch, ws.root, c.Dec)
		if err == wxErrNoPresence {
			out.D("wire|optional-field-without-presence|"+c.Kind, "schema source %s", ws.src)
			return
		}
		if err != nil {
			out.D("wire|harness-build-dec|"+c.slot(), "%v", err)
			return
		}
		want := wxProjMsg(&c.Sch, wantMsg)
		if !wxValEqual(&want, &got) {
			report("spelling-value|"+c.Kind+"|form="+c.Form+"|"+slot+"|sp="+label, "document %s (spelling %s) denotes %s but the decoder stored %s", wxClip(text), label, wxValString(&want), wxValString(&got))
			return
		}
		// "produce the same message as the canonical spelling": the message itself, field presence included
		if c.Mode == "spell" && c.Canon != nil {
			ctext, err := wxSerialise(c.Canon, "none")
			if err != nil {
				out.D("wire|harness-serialise|"+c.slot(), "%v", err)
				return
			}
			cmsg := dynamicpb.NewMessage(ws.root)
			if err := ws.codec.JSONToProto([]byte(ctext), cmsg); err != nil {
				return // the canonical document is C01's business
			}
			if !proto.Equal(cmsg, msg) {
				report("spelling-message|"+c.Kind+"|form="+c.Form+"|"+slot+"|sp="+label, "document %s (spelling %s) gives the message {%s}, the canonical spelling %s gives {%s}", wxClip(text), label, prototext.MarshalOptions{}.Format(msg), wxClip(ctext), prototext.MarshalOptions{}.Format(cmsg))
			}
		}
	case "reject":
		if accepted {
			report("fault-accepted|"+c.Kind+"|fault="+label+"|"+slot, "document with fault %s accepted: %s -> stored %s", label, wxClip(text), wxValString(&got))
		}
	}
}

// ---------------- C03: scalar values supplied as URL query parameters ----------------

func wireRunQuery(out *Out, c *wireCase, ws *wireSchema) {
	slot := "atoms=" + c.atoms() + "|" + c.slot()
	vals := url.Values{}
	for _, q := range c.Q {
		_, text, err := wireLexeme(q.Kind, q.A, q.F)
		if err != nil {
			out.D("wire|harness-lexeme|"+c.slot(), "%v", err)
			return
		}
		vals.Add(q.Path, text)
	}
	out.Obs = vals.Encode()
	msg := dynamicpb.NewMessage(ws.root)
	err := ws.codec.QueryToProto(vals, msg)
	got := wxProjMsg(&c.Sch, msg)
	out.Nontrivial = true
	report := func(sig, format string, a ...any) {
		if c.Demand {
			out.V("C03|"+sig, format, a...)
		} else {
			out.D("C03-undemanded|"+strings.Join(strings.SplitN(sig, "|", 4)[:min(3, len(strings.SplitN(sig, "|", 4)))], "|"), format, a...)
		}
	}
	if c.Expect == "reject" {
		if err == nil {
			report("query-fault-accepted|"+c.Kind+"|fault="+c.Fault+"|"+slot, "query %s accepted, stored %s", vals.Encode(), wxValString(&got))
		}
		return
	}
	if err != nil {
		report("query-rejected|"+c.Kind+"|"+slot, "scalar supplied as URL query parameter rejected: %s -> %v", vals.Encode(), err)
		return
	}
	if c.Dec == nil {
		return
	}
	wantMsg, berr := wxBuildMsg(&c.Sch, ws.root, c.Dec)
	if berr == wxErrNoPresence {
		out.D("wire|optional-field-without-presence|"+c.Kind, "schema source %s", ws.src)
		return
	}
	if berr != nil {
		out.D("wire|harness-build-dec|"+c.slot(), "%v", berr)
		return
	}
	want := wxProjMsg(&c.Sch, wantMsg)
	if !wxValEqual(&want, &got) {
		report("query-value|"+c.Kind+"|"+slot, "query %s denotes %s but the decoder stored %s", vals.Encode(), wxValString(&want), wxValString(&got))
	}
}

var _ protoreflect.Message
