package main

import (
	"encoding/hex"
	"encoding/json"
	"fmt"
	"strings"

	"github.com/pentops/j5/lib/id62"
)

// C20: id62 identifiers. Cases come from spec/Id62.tla.

type id62Case struct {
	Kind    string `json:"kind"` // "id" | "str" | "raw" (raw: concrete string supplied by the harness's random driver)
	ID      []int  `json:"id"`
	Digits  []int  `json:"digits"`
	Inp     []int  `json:"inp"`
	Verdict string `json:"verdict"`
	Back    []int  `json:"back"`
	Raw     string `json:"raw"`
	// kind "hash" (spec/Id62Hash.tla): a sequence of NewHash calls (namespace, inputs...) and which results must agree
	Calls [][]string `json:"calls"`
	Same  [][]bool   `json:"same"`
}

// the alphabet the model's digit values are mapped with (big.Int.Text order); drift-only
const id62Alphabet = "0123456789abcdefghijklmnopqrstuvwxyzABCDEFGHIJKLMNOPQRSTUVWXYZ"

func id62Atom(a int) string {
	switch {
	case a >= 0 && a < 62:
		return string(id62Alphabet[a])
	case a == 100:
		return "-"
	case a == 101:
		return "+"
	case a == 102:
		return "_"
	case a == 103:
		return " "
	case a == 104:
		return "é"
	case a == 105:
		return "."
	case a == 106:
		return "\x00"
	}
	return "?"
}

func digitValues(s string) []int {
	out := make([]int, 0, len(s))
	for _, r := range s {
		out = append(out, strings.IndexRune(id62Alphabet, r))
	}
	return out
}

func bytesToInts(b []byte) []int {
	out := make([]int, len(b))
	for i, x := range b {
		out[i] = int(x)
	}
	return out
}

func eqInts(a, b []int) bool {
	if len(a) != len(b) {
		return false
	}
	for i := range a {
		if a[i] != b[i] {
			return false
		}
	}
	return true
}

func init() { register("id62", id62Driver) }

func id62Driver(raw json.RawMessage) *Out {
	var c id62Case
	if err := json.Unmarshal(raw, &c); err != nil {
		return &Out{Skip: "bad case: " + err.Error()}
	}
	out := &Out{}
	switch c.Kind {
	case "id":
		var x id62.UUID
		for i := 0; i < 16 && i < len(c.ID); i++ {
			x[i] = byte(c.ID[i])
		}
		out.Key = "id:" + hex.EncodeToString(x[:])
		out.Nontrivial = true
		s := x.String()
		match := id62.Pattern.MatchString(s)
		if len(s) != 22 {
			out.V("C20|render-length", "String() of %x has %d characters: %q", x[:], len(s), s)
		}
		if !match {
			out.V("C20|render-pattern", "String() of %x = %q does not match %s", x[:], s, id62.PatternString)
		}
		back, err := id62.Parse(s)
		if err != nil {
			out.V("C20|roundtrip-rejected", "Parse(String(%x)) = Parse(%q) fails: %v", x[:], s, err)
		} else if back != x {
			out.V("C20|roundtrip-differs", "Parse(String(%x)) = %x", x[:], back[:])
		}
		// purity of hash-derived identifiers: same inputs, interleaved with other calls
		ns, in1, in2 := "ns-"+s[:4], s[4:12], hex.EncodeToString(x[:5])
		h1 := id62.NewHash(ns, in1, in2)
		_ = id62.NewHash(in1, ns)
		_ = id62.New()
		h2 := id62.NewHash(ns, in1, in2)
		if h1 != h2 {
			out.V("C20|hash-impure", "NewHash(%q,%q,%q) returned %x then %x", ns, in1, in2, h1[:], h2[:])
		}
		hs := h1.String()
		if len(hs) != 22 || !id62.Pattern.MatchString(hs) {
			out.V("C20|hash-render", "NewHash(...).String() = %q", hs)
		}
		// drift: exact digits predicted by the model
		dv := digitValues(s)
		if len(c.Digits) > 0 && !eqInts(dv, c.Digits) {
			out.D("C20|digits", "model digits %v, real %q", c.Digits, s)
		}
		out.Events = append(out.Events, map[string]any{
			"op": "rt", "id": bytesToInts(x[:]), "out": dv, "len": len(s), "match": match,
			"pok": err == nil, "pval": bytesToInts(back[:]),
		})
	case "hash":
		out.Key = fmt.Sprintf("hash:%q", c.Calls)
		out.Nontrivial = true
		ids := make([]id62.UUID, len(c.Calls))
		for i, a := range c.Calls {
			if len(a) == 0 {
				return &Out{Skip: "bad case: call without namespace"}
			}
			ids[i] = id62.NewHash(a[0], a[1:]...)
		}
		for i := range ids {
			for j := range ids {
				if i < len(c.Same) && j < len(c.Same[i]) && (ids[i] == ids[j]) != c.Same[i][j] {
					out.V("C20|hash-not-a-function-of-its-inputs", "after the calls %q: NewHash%q = %x and NewHash%q = %x; the concatenated arguments are %s",
						c.Calls[:max(i, j)+1], c.Calls[i], ids[i][:], c.Calls[j], ids[j][:], map[bool]string{true: "equal", false: "different"}[c.Same[i][j]])
				}
			}
		}
		// and again in reverse order: a repeated call repeats its identifier
		for i := len(c.Calls) - 1; i >= 0; i-- {
			if again := id62.NewHash(c.Calls[i][0], c.Calls[i][1:]...); again != ids[i] {
				out.V("C20|hash-impure", "NewHash%q returned %x, later %x", c.Calls[i], ids[i][:], again[:])
			}
		}
		return out
	case "str", "raw":
		var s string
		if c.Kind == "raw" {
			s = c.Raw
		} else {
			var sb strings.Builder
			for _, a := range c.Inp {
				sb.WriteString(id62Atom(a))
			}
			s = sb.String()
		}
		out.Key = "str:" + s
		val, err := id62.Parse(s) // a panic here is caught by the worker and is a violation
		ok := err == nil
		ev := map[string]any{"op": "parse", "inp": c.Inp, "ok": ok, "val": []int{}, "reok": false, "reval": []int{}}
		if ok {
			out.Nontrivial = true
			ev["val"] = bytesToInts(val[:])
			// Alphabet-independent law: an accepted unsigned alphanumeric string, with redundant leading
			// zero digits removed and padded back to 22, must be the rendering of the value it parsed to;
			// in particular a string denoting a value >= 2^128 cannot have been accepted.
			rs := val.String()
			re, rerr := id62.Parse(rs)
			ev["reok"] = rerr == nil
			ev["reval"] = bytesToInts(re[:])
			if rerr != nil || re != val {
				out.V("C20|parse-render-parse", "Parse(%q)=%x but Parse(String())=%x err=%v", s, val[:], re[:], rerr)
			}
			zero := id62.UUID{}.String()
			if isAlnum(s) && len(zero) > 0 {
				z := zero[0]
				t := s
				for len(t) > 0 && t[0] == z {
					t = t[1:]
				}
				if len(t) > 22 {
					out.V("C20|accepts-too-large", "Parse(%q) accepted a %d-digit value (>= 62^22 > 2^128) as %x", s, len(t), val[:])
				} else {
					canon := strings.Repeat(string(z), 22-len(t)) + t
					if canon != rs {
						out.V("C20|accepts-too-large", "Parse(%q) = %x whose rendering is %q, not %q: the value did not fit or was altered", s, val[:], rs, canon)
					}
				}
			}
		} else {
			out.Nontrivial = len(s) >= 22
		}
		if c.Kind == "str" && c.Verdict != "" {
			if (c.Verdict == "ok") != ok {
				out.D("C20|parse-verdict", "model %s, real ok=%v for %q", c.Verdict, ok, s)
			} else if ok && !eqInts(c.Back, bytesToInts(val[:])) {
				out.D("C20|parse-value", "model %v, real %x for %q", c.Back, val[:], s)
			}
		}
		if c.Kind == "str" {
			out.Events = append(out.Events, ev)
		}
	default:
		out.Skip = "unknown kind"
	}
	return out
}

func isAlnum(s string) bool {
	if s == "" {
		return false
	}
	for i := 0; i < len(s); i++ {
		c := s[i]
		if !(c >= '0' && c <= '9' || c >= 'a' && c <= 'z' || c >= 'A' && c <= 'Z') {
			return false
		}
	}
	return true
}
