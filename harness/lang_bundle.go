package main

import (
	"encoding/json"
	"fmt"
	"runtime/debug"
	"strings"
)

func init() { register("lang-bundle", langBundleDriver) }

// lang-bundle: a valid multi-file / multi-package bundle of spec/J5Schema.tla (imports by package, alias and file path,
// cross-file and cross-package references in every cardinality, services, topics) is printed and compiled by the real
// PackageSet: the compiler has to accept it (C07: "accepts the whole documented language") and must not panic.
func langBundleDriver(raw json.RawMessage) *Out {
	var c struct {
		Focus string          `json:"focus"`
		AST   json.RawMessage `json:"ast"`
	}
	if err := json.Unmarshal(raw, &c); err != nil {
		return &Out{Skip: "bad case: " + err.Error()}
	}
	b, err := parseAST(c.AST)
	if err != nil || len(b) == 0 {
		return &Out{Skip: "bad case: no bundle"}
	}
	out := &Out{Nontrivial: true}
	sources := astToJ5s(b)
	out.Key = "bundle|" + c.Focus + "|" + fmt.Sprint(sources)
	var files int
	var cerr error
	func() {
		defer func() {
			if r := recover(); r != nil {
				site := shPanicSite(string(debug.Stack()))
				out.V("C07|panic|"+site, "compiling a valid bundle panics: %v\n%s", r, bundleText(sources))
				cerr = nil
			}
		}()
		res, _, e := compileBundle(newMemFiles(sources), bundlePackages(b))
		cerr = e
		for _, fs := range res {
			files += len(fs)
		}
	}()
	if cerr != nil {
		out.V("C07|valid-rejected|bundle|"+errClass(cerr.Error())+"|"+focusClass(c.Focus), "a valid bundle is rejected: %v\n%s", cerr, bundleText(sources))
	}
	out.Obs = map[string]any{"files": files}
	return out
}

// focusClass keeps the construct names of a focus label without the positional parts
func focusClass(f string) string {
	parts := strings.Split(f, "+")
	if len(parts) > 2 {
		parts = parts[len(parts)-2:]
	}
	return strings.Join(parts, "+")
}

func bundleText(sources map[string]string) string {
	var sb strings.Builder
	for n, t := range sources {
		sb.WriteString("--- " + n + "\n" + t + "\n")
	}
	return sb.String()
}
