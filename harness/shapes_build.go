package main

// C18: schema reflection over arbitrary proto3 descriptor sets.
//
// shapes_build.go turns an abstract case emitted by spec/ProtoShapes.tla into a linked proto3 file: one
// FileDescriptorProto (package shapes.v1) whose option messages are set with proto.SetExtension using the
// generated Go types of j5.ext.v1, j5.list.v1 and buf.validate, linked with protodesc against the global
// registry (google/protobuf/*, j5/types/*, the annotation files).  It also prints the file as .proto text
// for reports.

import (
	"fmt"
	"sort"
	"strings"

	"buf.build/gen/go/bufbuild/protovalidate/protocolbuffers/go/buf/validate"
	"github.com/pentops/j5/gen/j5/ext/v1/ext_j5pb"
	"github.com/pentops/j5/gen/j5/list/v1/list_j5pb"
	_ "github.com/pentops/j5/j5types/any_j5t"
	_ "github.com/pentops/j5/j5types/date_j5t"
	_ "github.com/pentops/j5/j5types/decimal_j5t"
	"google.golang.org/protobuf/encoding/prototext"
	"google.golang.org/protobuf/proto"
	"google.golang.org/protobuf/reflect/protodesc"
	"google.golang.org/protobuf/reflect/protoreflect"
	"google.golang.org/protobuf/reflect/protoregistry"
	"google.golang.org/protobuf/types/descriptorpb"
	_ "google.golang.org/protobuf/types/known/anypb"
	_ "google.golang.org/protobuf/types/known/durationpb"
	_ "google.golang.org/protobuf/types/known/emptypb"
	_ "google.golang.org/protobuf/types/known/fieldmaskpb"
	_ "google.golang.org/protobuf/types/known/structpb"
	_ "google.golang.org/protobuf/types/known/timestamppb"
	_ "google.golang.org/protobuf/types/known/wrapperspb"
)

// shPkg is the package of the file of the case being built: "shapes.v1", or "" for a file without a package statement
var shPkg = "shapes.v1"

func shQualify(name string) string {
	if shPkg == "" {
		return name
	}
	return shPkg + "." + name
}

// shAnn is one annotation: class validate | j5 | list | psmkey, the oneof arm of the option message and a variant.
type shAnn struct {
	Cls        string `json:"cls"`
	Arm        string `json:"arm"`
	Var        string `json:"var"`
	Consistent bool   `json:"consistent"`
}

type shField struct {
	Name  string  `json:"name"`
	Kind  string  `json:"kind"` // one of the 15 scalar kinds | "message" | "enum" | "wkt"
	Ref   string  `json:"ref"`  // message / enum name inside the case, or the WKT atom
	Card  string  `json:"card"` // single | optional | repeated | map
	Key   string  `json:"key"`  // map key kind
	Oneof int     `json:"oneof"`
	Anns  []shAnn `json:"anns"`
}

type shOneof struct {
	Name string `json:"name"`
	Opt  string `json:"opt"` // none | expose | expose_false | list
}

type shMsg struct {
	Name   string    `json:"name"`
	Parent int       `json:"parent"` // 0: file level, else 1-based index of the enclosing message
	Opt    string    `json:"opt"`
	Oneofs []shOneof `json:"oneofs"`
	Fields []shField `json:"fields"`
}

type shEnum struct {
	Name   string `json:"name"`
	Parent int    `json:"parent"`
	Unspec bool   `json:"unspec"`
	Opt    string `json:"opt"` // none | no_default | info_fields | value_info | value_prefixed | negative_value
}

type shCase struct {
	Mode  string   `json:"mode"`
	Msgs  []shMsg  `json:"msgs"`
	Enums []shEnum `json:"enums"`
	// model predictions (drift only)
	PredSet string   `json:"predSet"` // builds | errors
	PredMsg []string `json:"predMsg"` // per message, for a fresh SchemaCache
	Tags    []string `json:"tags"`
	Rec     string   `json:"rec"`
	// harness controls
	Only     string `json:"only,omitempty"`     // run stages up to: set | cache | newroot | all
	MinCrash bool   `json:"mincrash,omitempty"` // minimise a case whose evaluation kills the worker (sub-process evaluation)
	NoMin    bool   `json:"nomin,omitempty"`
	// NoPkg: the file has no package statement, and its messages are called Am, Bm, Cm, ... (names that differ in their
	// first letter only)
	NoPkg bool `json:"nopkg,omitempty"`
}

func shPkgField() *string {
	if shPkg == "" {
		return nil
	}
	return proto.String(shPkg)
}

var shScalarType = map[string]descriptorpb.FieldDescriptorProto_Type{
	"double": descriptorpb.FieldDescriptorProto_TYPE_DOUBLE, "float": descriptorpb.FieldDescriptorProto_TYPE_FLOAT,
	"int32": descriptorpb.FieldDescriptorProto_TYPE_INT32, "int64": descriptorpb.FieldDescriptorProto_TYPE_INT64,
	"uint32": descriptorpb.FieldDescriptorProto_TYPE_UINT32, "uint64": descriptorpb.FieldDescriptorProto_TYPE_UINT64,
	"sint32": descriptorpb.FieldDescriptorProto_TYPE_SINT32, "sint64": descriptorpb.FieldDescriptorProto_TYPE_SINT64,
	"fixed32": descriptorpb.FieldDescriptorProto_TYPE_FIXED32, "fixed64": descriptorpb.FieldDescriptorProto_TYPE_FIXED64,
	"sfixed32": descriptorpb.FieldDescriptorProto_TYPE_SFIXED32, "sfixed64": descriptorpb.FieldDescriptorProto_TYPE_SFIXED64,
	"bool": descriptorpb.FieldDescriptorProto_TYPE_BOOL, "string": descriptorpb.FieldDescriptorProto_TYPE_STRING,
	"bytes": descriptorpb.FieldDescriptorProto_TYPE_BYTES,
}

// well-known / j5 message types a field may refer to
var shWkt = map[string]string{
	"Timestamp": "google.protobuf.Timestamp", "Duration": "google.protobuf.Duration", "Struct": "google.protobuf.Struct",
	"Value": "google.protobuf.Value", "ListValue": "google.protobuf.ListValue",
	"Any": "google.protobuf.Any", "Empty": "google.protobuf.Empty", "FieldMask": "google.protobuf.FieldMask",
	"StringValue": "google.protobuf.StringValue", "Int64Value": "google.protobuf.Int64Value", "BoolValue": "google.protobuf.BoolValue",
	"DoubleValue": "google.protobuf.DoubleValue", "BytesValue": "google.protobuf.BytesValue", "UInt32Value": "google.protobuf.UInt32Value",
	"J5Date": "j5.types.date.v1.Date", "J5Decimal": "j5.types.decimal.v1.Decimal", "J5Any": "j5.types.any.v1.Any",
}

// ---- annotation tables (prototext of the option message) -------------------------------------------------

func shNumRule(arm, v string) string {
	one := "1"
	if arm == "float" || arm == "double" {
		one = "1.5"
	}
	// floating-point option values that need every digit a float64 / float32 can hold (and the largest finite ones)
	precise, largest := one, one
	if arm == "double" {
		precise, largest = "0.30000000000000004", "1.7976931348623157e+308"
	}
	if arm == "float" {
		precise, largest = "16777216", "3.4028235e+38"
	}
	switch v {
	case "gt":
		return arm + ":{gt:" + one + "}"
	case "lte":
		return arm + ":{lte:" + precise + "}"
	case "range":
		return arm + ":{gte:" + one + " lt:100}"
	case "const":
		return arm + ":{const:" + largest + "}"
	case "in":
		return arm + ":{in:" + one + "}"
	case "not_in":
		return arm + ":{not_in:" + one + "}"
	case "empty":
		return arm + ":{}"
	}
	return ""
}

var shNumArms = map[string]bool{"float": true, "double": true, "int32": true, "int64": true, "uint32": true, "uint64": true,
	"sint32": true, "sint64": true, "fixed32": true, "fixed64": true, "sfixed32": true, "sfixed64": true}

// shValidateText returns the prototext of a buf.validate.FieldConstraints for (arm, variant); elem is the kind atom of the
// annotated field's element (used by the *_match variants, which put a rule of the element's own kind inside repeated/map).
func shValidateText(arm, v, elem string) (string, error) {
	if shNumArms[arm] {
		if t := shNumRule(arm, v); t != "" {
			return t, nil
		}
		return "", fmt.Errorf("unknown validate variant %s.%s", arm, v)
	}
	matching := func() string {
		switch {
		case shNumArms[elem]:
			return shNumRule(elem, "gt")
		case elem == "string":
			return "string:{min_len:1}"
		case elem == "bool":
			return "bool:{const:true}"
		case elem == "bytes":
			return "bytes:{min_len:1}"
		case elem == "enum":
			return "enum:{defined_only:true}"
		case elem == "wkt:Timestamp":
			return "timestamp:{gt_now:true}"
		case elem == "wkt:Duration":
			return "duration:{gt:{seconds:1}}"
		case elem == "wkt:Any":
			return "any:{in:\"type.googleapis.com/google.protobuf.Duration\"}"
		}
		return "required:true"
	}
	key := arm + "." + v
	tbl := map[string]string{
		"bool.const": "bool:{const:true}", "bool.const_false": "bool:{const:false}", "bool.empty": "bool:{}",
		"string.min_len": "string:{min_len:1}", "string.max_len": "string:{max_len:10}", "string.const": "string:{const:\"a\"}",
		"string.pattern": "string:{pattern:\"^a+$\"}", "string.pattern_date": "string:{pattern:\"^\\\\d{4}-\\\\d{2}-\\\\d{2}$\"}",
		"string.pattern_id62": "string:{pattern:\"^[0-9A-Za-z]{22}$\"}",
		"string.uuid":         "string:{uuid:true}", "string.email": "string:{email:true}", "string.ip": "string:{ip:true}",
		"string.uri": "string:{uri:true}", "string.hostname": "string:{hostname:true}", "string.in": "string:{in:\"a\"}",
		"string.empty":  "string:{}",
		"bytes.min_len": "bytes:{min_len:1}", "bytes.const": "bytes:{const:\"x\"}", "bytes.empty": "bytes:{}",
		"enum.defined_only": "enum:{defined_only:true}", "enum.in_ok": "enum:{in:1}", "enum.in_missing": "enum:{in:77}",
		"enum.not_in_zero": "enum:{not_in:0}", "enum.not_in_missing": "enum:{not_in:77}", "enum.const": "enum:{const:1}",
		"enum.empty":         "enum:{}",
		"repeated.min_items": "repeated:{min_items:1}", "repeated.unique": "repeated:{unique:true max_items:3}",
		"repeated.items_string": "repeated:{items:{string:{min_len:1}}}", "repeated.items_int32": "repeated:{items:{int32:{gt:1}}}",
		"repeated.items_bool": "repeated:{items:{bool:{const:true}}}", "repeated.items_match": "repeated:{items:{" + matching() + "}}",
		"repeated.items_required": "repeated:{items:{required:true}}",
		"repeated.ignore_items":   "ignore:IGNORE_IF_UNPOPULATED repeated:{min_items:1 items:{" + matching() + "}}",
		"repeated.ignore_noitems": "ignore:IGNORE_IF_UNPOPULATED repeated:{min_items:1}",
		"repeated.empty":          "repeated:{}",
		"map.min_pairs":           "map:{min_pairs:1 max_pairs:5}", "map.values_string": "map:{values:{string:{min_len:1}}}",
		"map.values_int32": "map:{values:{int32:{gt:1}}}", "map.values_bool": "map:{values:{bool:{const:true}}}",
		"map.values_match": "map:{values:{" + matching() + "}}", "map.keys": "map:{keys:{string:{min_len:1}}}", "map.empty": "map:{}",
		"any.in": "any:{in:\"type.googleapis.com/google.protobuf.Duration\"}", "any.empty": "any:{}",
		"duration.gt": "duration:{gt:{seconds:1}}", "duration.const": "duration:{const:{seconds:1}}",
		"timestamp.lt": "timestamp:{lt:{seconds:100}}", "timestamp.gte": "timestamp:{gte:{seconds:1}}",
		"timestamp.range": "timestamp:{gt:{seconds:1} lte:{seconds:100}}", "timestamp.const": "timestamp:{const:{seconds:1}}",
		"timestamp.within": "timestamp:{within:{seconds:60}}", "timestamp.lt_now": "timestamp:{lt_now:true}",
		"timestamp.empty": "timestamp:{}",
		"required.true":   "required:true", "required.false": "required:false",
		"ignore.always": "ignore:IGNORE_ALWAYS", "ignore.default": "ignore:IGNORE_IF_DEFAULT_VALUE",
		"cel.expr": "cel:{id:\"x\" message:\"m\" expression:\"true\"}",
	}
	if t, ok := tbl[key]; ok {
		return t, nil
	}
	return "", fmt.Errorf("unknown validate annotation %s", key)
}

var shJ5Text = map[string]string{
	"message.flatten": "message:{flatten:true}", "message.plain": "message:{}",
	"object.flatten": "object:{flatten:true}", "object.plain": "object:{}",
	"any.types": "any:{types:\"google.protobuf.Duration\"}", "any.only_defined": "any:{only_defined:true types:\"google.protobuf.Duration\"}",
	// the permitted types are a list: declaration order and repeats are part of the schema
	"any.types_unsorted": "any:{only_defined:true types:\"google.protobuf.Timestamp\" types:\"google.protobuf.Duration\" types:\"google.protobuf.Empty\"}",
	"any.types_dup":      "any:{types:\"google.protobuf.Timestamp\" types:\"google.protobuf.Duration\" types:\"google.protobuf.Timestamp\"}",
	"enum.plain":         "enum:{}", "oneof.plain": "oneof:{}",
	"map.single_form": "map:{single_form:\"item\"}", "array.single_form": "array:{single_form:\"item\"}",
	"string.plain": "string:{}", "integer.rules": "integer:{rules:{minimum:1 exclusive_minimum:true}}", "integer.plain": "integer:{}",
	"float.plain": "float:{}", "bool.plain": "bool:{}", "bytes.plain": "bytes:{}",
	"decimal.rules": "decimal:{rules:{minimum:\"1.0\"}}", "date.rules": "date:{rules:{minimum:\"2020-01-01\" exclusive_minimum:true}}",
	"timestamp.plain": "timestamp:{}",
	"key.uuid":        "key:{format:FORMAT_UUID}", "key.id62": "key:{format:FORMAT_ID62}", "key.unspecified": "key:{format:FORMAT_UNSPECIFIED}",
	"key.pattern": "key:{pattern:\"^a+$\"}", "key.empty": "key:{}",
	"description.only": "description:\"text\"",
}

func shListText(arm, v string) (string, error) {
	switch arm {
	case "double", "float":
		return arm + ":{filtering:{filterable:true} sorting:{sortable:true}}", nil
	case "fixed32", "fixed64", "int32", "int64", "sfixed32", "sfixed64", "sint32", "sint64", "uint32", "uint64":
		return arm + ":{filtering:{filterable:true} sorting:{sortable:true default_sort:true}}", nil
	case "bool":
		return "bool:{filtering:{filterable:true}}", nil
	case "enum":
		return "enum:{filtering:{filterable:true default_filters:\"A\"}}", nil
	case "oneof":
		return "oneof:{filtering:{filterable:true}}", nil
	case "timestamp":
		return "timestamp:{filtering:{filterable:true} sorting:{sortable:true}}", nil
	case "date":
		return "date:{filtering:{filterable:true}}", nil
	case "decimal":
		return "decimal:{filtering:{filterable:true} sorting:{sortable:true}}", nil
	case "any":
		return "any:{filtering:{filterable:true}}", nil
	case "string":
		switch v {
		case "open_text":
			return "string:{open_text:{searching:{searchable:true}}}", nil
		case "date":
			return "string:{date:{filtering:{filterable:true}}}", nil
		case "fk_unique":
			return "string:{foreign_key:{unique_string:{filtering:{filterable:true}}}}", nil
		case "fk_uuid":
			return "string:{foreign_key:{uuid:{filtering:{filterable:true}}}}", nil
		case "fk_id62":
			return "string:{foreign_key:{id62:{filtering:{filterable:true}}}}", nil
		case "fk_empty":
			return "string:{foreign_key:{}}", nil
		case "empty":
			return "string:{}", nil
		}
	}
	return "", fmt.Errorf("unknown list annotation %s.%s", arm, v)
}

var shPsmKeyText = map[string]string{
	"key.primary": "primary_key:true", "key.foreign": "foreign_key:{package:\"shapes.v1\" entity:\"thing\"}",
	"key.tenant": "tenant_type:\"org\"", "key.empty": "",
}

// element kind atom of a field, for matching rules
func shElemAtom(f *shField) string {
	switch f.Kind {
	case "wkt":
		return "wkt:" + f.Ref
	case "message", "enum":
		return f.Kind
	}
	return f.Kind
}

type shOptText struct {
	ext  string // extension name as written in .proto
	text string
}

// shFieldOptions builds the FieldOptions of a field and records the text form of every option.
func shFieldOptions(f *shField) (*descriptorpb.FieldOptions, []shOptText, error) {
	if len(f.Anns) == 0 {
		return nil, nil, nil
	}
	opts := &descriptorpb.FieldOptions{}
	var texts []shOptText
	for _, a := range f.Anns {
		switch a.Cls {
		case "validate":
			t, err := shValidateText(a.Arm, a.Var, shElemAtom(f))
			if err != nil {
				return nil, nil, err
			}
			m := &validate.FieldConstraints{}
			if err := prototext.Unmarshal([]byte(t), m); err != nil {
				return nil, nil, fmt.Errorf("validate %s.%s: %w", a.Arm, a.Var, err)
			}
			proto.SetExtension(opts, validate.E_Field, m)
			texts = append(texts, shOptText{"(buf.validate.field)", t})
		case "j5":
			t, ok := shJ5Text[a.Arm+"."+a.Var]
			if !ok {
				return nil, nil, fmt.Errorf("unknown j5 annotation %s.%s", a.Arm, a.Var)
			}
			m := &ext_j5pb.FieldOptions{}
			if err := prototext.Unmarshal([]byte(t), m); err != nil {
				return nil, nil, fmt.Errorf("j5 %s.%s: %w", a.Arm, a.Var, err)
			}
			proto.SetExtension(opts, ext_j5pb.E_Field, m)
			texts = append(texts, shOptText{"(j5.ext.v1.field)", t})
		case "list":
			t, err := shListText(a.Arm, a.Var)
			if err != nil {
				return nil, nil, err
			}
			m := &list_j5pb.FieldConstraint{}
			if err := prototext.Unmarshal([]byte(t), m); err != nil {
				return nil, nil, fmt.Errorf("list %s.%s: %w", a.Arm, a.Var, err)
			}
			proto.SetExtension(opts, list_j5pb.E_Field, m)
			texts = append(texts, shOptText{"(j5.list.v1.field)", t})
		case "psmkey":
			t, ok := shPsmKeyText[a.Arm+"."+a.Var]
			if !ok {
				return nil, nil, fmt.Errorf("unknown psm key annotation %s.%s", a.Arm, a.Var)
			}
			m := &ext_j5pb.PSMKeyFieldOptions{}
			if err := prototext.Unmarshal([]byte(t), m); err != nil {
				return nil, nil, err
			}
			proto.SetExtension(opts, ext_j5pb.E_Key, m)
			texts = append(texts, shOptText{"(j5.ext.v1.key)", t})
		default:
			return nil, nil, fmt.Errorf("unknown annotation class %q", a.Cls)
		}
	}
	return opts, texts, nil
}

var shMsgOptText = map[string][2]string{
	"wrapper_deprecated": {"(j5.ext.v1.message)", "is_oneof_wrapper:true"},
	"type_object":        {"(j5.ext.v1.message)", "object:{}"},
	"type_object_any":    {"(j5.ext.v1.message)", "object:{any_member:\"thing\"}"},
	"type_oneof":         {"(j5.ext.v1.message)", "oneof:{}"},
	"description":        {"(j5.ext.v1.message)", "description:\"text\""},
	"psm":                {"(j5.ext.v1.psm)", "entity_name:\"thing\""},
	"psm_part":           {"(j5.ext.v1.psm)", "entity_name:\"thing\" entity_part:ENTITY_PART_KEYS"},
	"psm_part_state":     {"(j5.ext.v1.psm)", "entity_name:\"thing\" entity_part:ENTITY_PART_STATE"},
	"psm_part_event":     {"(j5.ext.v1.psm)", "entity_name:\"thing\" entity_part:ENTITY_PART_EVENT"},
	"psm_part_data":      {"(j5.ext.v1.psm)", "entity_name:\"thing\" entity_part:ENTITY_PART_DATA"},
	"psm_part_refs":      {"(j5.ext.v1.psm)", "entity_name:\"thing\" entity_part:ENTITY_PART_REFERENCES"},
	"psm_part_derived":   {"(j5.ext.v1.psm)", "entity_name:\"thing\" entity_part:ENTITY_PART_DERIVED"},
	"list_request":       {"(j5.list.v1.list_request)", "default_sort:\"f1\""},
}

func shMessageOptions(opt string) (*descriptorpb.MessageOptions, []shOptText, error) {
	if opt == "" || opt == "none" {
		return nil, nil, nil
	}
	e, ok := shMsgOptText[opt]
	if !ok {
		return nil, nil, fmt.Errorf("unknown message option %q", opt)
	}
	opts := &descriptorpb.MessageOptions{}
	switch e[0] {
	case "(j5.ext.v1.message)":
		m := &ext_j5pb.MessageOptions{}
		if err := prototext.Unmarshal([]byte(e[1]), m); err != nil {
			return nil, nil, err
		}
		proto.SetExtension(opts, ext_j5pb.E_Message, m)
	case "(j5.ext.v1.psm)":
		m := &ext_j5pb.PSMOptions{}
		if err := prototext.Unmarshal([]byte(e[1]), m); err != nil {
			return nil, nil, err
		}
		proto.SetExtension(opts, ext_j5pb.E_Psm, m)
	case "(j5.list.v1.list_request)":
		m := &list_j5pb.ListRequestMessage{}
		if err := prototext.Unmarshal([]byte(e[1]), m); err != nil {
			return nil, nil, err
		}
		proto.SetExtension(opts, list_j5pb.E_ListRequest, m)
	}
	return opts, []shOptText{{e[0], e[1]}}, nil
}

func shOneofOptions(opt string) (*descriptorpb.OneofOptions, []shOptText, error) {
	switch opt {
	case "", "none":
		return nil, nil, nil
	case "expose", "expose_false", "filtering":
		t := map[string]string{"expose": "expose:true", "expose_false": "expose:false", "filtering": "expose:true filtering:{filterable:true}"}[opt]
		m := &ext_j5pb.OneofOptions{}
		if err := prototext.Unmarshal([]byte(t), m); err != nil {
			return nil, nil, err
		}
		opts := &descriptorpb.OneofOptions{}
		proto.SetExtension(opts, ext_j5pb.E_Oneof, m)
		return opts, []shOptText{{"(j5.ext.v1.oneof)", t}}, nil
	case "list":
		t := "filtering:{filterable:true}"
		m := &list_j5pb.OneofRules{}
		if err := prototext.Unmarshal([]byte(t), m); err != nil {
			return nil, nil, err
		}
		opts := &descriptorpb.OneofOptions{}
		proto.SetExtension(opts, list_j5pb.E_Oneof, m)
		return opts, []shOptText{{"(j5.list.v1.oneof)", t}}, nil
	}
	return nil, nil, fmt.Errorf("unknown oneof option %q", opt)
}

// ---- building ------------------------------------------------------------------------------------------

type shBuilt struct {
	FDP   *descriptorpb.FileDescriptorProto
	File  protoreflect.FileDescriptor
	Files *protoregistry.Files
	Msgs  []protoreflect.MessageDescriptor // by case index
	Text  string                           // .proto rendering
}

func shUpperSnake(s string) string {
	var b strings.Builder
	for i, r := range s {
		if r >= 'A' && r <= 'Z' && i > 0 {
			b.WriteByte('_')
		}
		b.WriteRune(r)
	}
	return strings.ToUpper(b.String())
}

func shFullName(c *shCase, msgIdx int) string { // 0-based
	m := c.Msgs[msgIdx]
	if m.Parent > 0 && m.Parent-1 != msgIdx && m.Parent <= len(c.Msgs) {
		return shFullName(c, m.Parent-1) + "." + m.Name
	}
	return shQualify(m.Name)
}

func shEnumFullName(c *shCase, e *shEnum) string {
	if e.Parent > 0 && e.Parent <= len(c.Msgs) {
		return shFullName(c, e.Parent-1) + "." + e.Name
	}
	return shQualify(e.Name)
}

func shMapEntryName(field string) string {
	// protoc's rule: CamelCase(field) + "Entry"
	var b strings.Builder
	up := true
	for _, r := range field {
		if r == '_' {
			up = true
			continue
		}
		if up && r >= 'a' && r <= 'z' {
			r = r - 'a' + 'A'
		}
		up = false
		b.WriteRune(r)
	}
	return b.String() + "Entry"
}

func shJSONName(s string) string {
	var b strings.Builder
	up := false
	for _, r := range s {
		if r == '_' {
			up = true
			continue
		}
		if up && r >= 'a' && r <= 'z' {
			r = r - 'a' + 'A'
		}
		up = false
		b.WriteRune(r)
	}
	return b.String()
}

// shBuild concretises a case. An error means the case cannot be expressed as a linked proto3 file (harness or model fault).
func shBuild(c *shCase) (*shBuilt, error) {
	fd := &descriptorpb.FileDescriptorProto{
		Name:    proto.String("shapes/v1/shapes.proto"),
		Package: shPkgField(),
		Syntax:  proto.String("proto3"),
	}
	deps := map[string]bool{}
	msgIndex := map[string]int{}
	for i, m := range c.Msgs {
		msgIndex[m.Name] = i
	}
	enumIndex := map[string]int{}
	for i, e := range c.Enums {
		enumIndex[e.Name] = i
	}
	protos := make([]*descriptorpb.DescriptorProto, len(c.Msgs))
	texts := make([][]string, len(c.Msgs)) // body lines per message
	for i := range c.Msgs {
		m := &c.Msgs[i]
		dp := &descriptorpb.DescriptorProto{Name: proto.String(m.Name)}
		mo, mot, err := shMessageOptions(m.Opt)
		if err != nil {
			return nil, err
		}
		if mo != nil {
			dp.Options = mo
			for _, t := range mot {
				texts[i] = append(texts[i], fmt.Sprintf("option %s = {%s};", t.ext, t.text))
				deps[shExtFile(t.ext)] = true
			}
		}
		for _, o := range m.Oneofs {
			od := &descriptorpb.OneofDescriptorProto{Name: proto.String(o.Name)}
			oo, _, err := shOneofOptions(o.Opt)
			if err != nil {
				return nil, err
			}
			if oo != nil {
				od.Options = oo
			}
			dp.OneofDecl = append(dp.OneofDecl, od)
		}
		oneofLines := make([][]string, len(m.Oneofs))
		var synthetic []*descriptorpb.OneofDescriptorProto
		for j := range m.Fields {
			f := &m.Fields[j]
			num := int32(j + 1)
			fp := &descriptorpb.FieldDescriptorProto{
				Name: proto.String(f.Name), JsonName: proto.String(shJSONName(f.Name)), Number: proto.Int32(num),
				Label: descriptorpb.FieldDescriptorProto_LABEL_OPTIONAL.Enum(),
			}
			typeText := f.Kind
			setType := func(fp *descriptorpb.FieldDescriptorProto) error {
				switch f.Kind {
				case "message":
					ti, ok := msgIndex[f.Ref]
					if !ok {
						return fmt.Errorf("field %s.%s refers to unknown message %q", m.Name, f.Name, f.Ref)
					}
					fp.Type = descriptorpb.FieldDescriptorProto_TYPE_MESSAGE.Enum()
					fp.TypeName = proto.String("." + shFullName(c, ti))
					typeText = strings.TrimPrefix(shFullName(c, ti), shPkg+".")
				case "enum":
					ei, ok := enumIndex[f.Ref]
					if !ok {
						return fmt.Errorf("field %s.%s refers to unknown enum %q", m.Name, f.Name, f.Ref)
					}
					fp.Type = descriptorpb.FieldDescriptorProto_TYPE_ENUM.Enum()
					fp.TypeName = proto.String("." + shEnumFullName(c, &c.Enums[ei]))
					typeText = strings.TrimPrefix(shEnumFullName(c, &c.Enums[ei]), shPkg+".")
				case "wkt":
					full, ok := shWkt[f.Ref]
					if !ok {
						return fmt.Errorf("unknown well-known type atom %q", f.Ref)
					}
					fp.Type = descriptorpb.FieldDescriptorProto_TYPE_MESSAGE.Enum()
					fp.TypeName = proto.String("." + full)
					typeText = full
					d, err := protoregistry.GlobalFiles.FindDescriptorByName(protoreflect.FullName(full))
					if err != nil {
						return fmt.Errorf("well-known type %s not in the global registry: %w", full, err)
					}
					deps[d.ParentFile().Path()] = true
				default:
					t, ok := shScalarType[f.Kind]
					if !ok {
						return fmt.Errorf("unknown kind %q", f.Kind)
					}
					fp.Type = t.Enum()
				}
				return nil
			}
			fo, fot, err := shFieldOptions(f)
			if err != nil {
				return nil, err
			}
			optText := ""
			if len(fot) > 0 {
				var parts []string
				for _, t := range fot {
					if t.text == "" {
						parts = append(parts, fmt.Sprintf("%s = {}", t.ext))
					} else {
						parts = append(parts, fmt.Sprintf("%s = {%s}", t.ext, t.text))
					}
					deps[shExtFile(t.ext)] = true
				}
				optText = " [" + strings.Join(parts, ", ") + "]"
			}
			line := ""
			switch f.Card {
			case "map":
				kt, ok := shScalarType[f.Key]
				if !ok {
					return nil, fmt.Errorf("unknown map key kind %q", f.Key)
				}
				entry := &descriptorpb.DescriptorProto{
					Name:    proto.String(shMapEntryName(f.Name)),
					Options: &descriptorpb.MessageOptions{MapEntry: proto.Bool(true)},
				}
				kf := &descriptorpb.FieldDescriptorProto{Name: proto.String("key"), JsonName: proto.String("key"), Number: proto.Int32(1),
					Label: descriptorpb.FieldDescriptorProto_LABEL_OPTIONAL.Enum(), Type: kt.Enum()}
				vf := &descriptorpb.FieldDescriptorProto{Name: proto.String("value"), JsonName: proto.String("value"), Number: proto.Int32(2),
					Label: descriptorpb.FieldDescriptorProto_LABEL_OPTIONAL.Enum()}
				if err := setType(vf); err != nil {
					return nil, err
				}
				entry.Field = []*descriptorpb.FieldDescriptorProto{kf, vf}
				dp.NestedType = append(dp.NestedType, entry)
				fp.Label = descriptorpb.FieldDescriptorProto_LABEL_REPEATED.Enum()
				fp.Type = descriptorpb.FieldDescriptorProto_TYPE_MESSAGE.Enum()
				fp.TypeName = proto.String("." + shFullName(c, i) + "." + entry.GetName())
				line = fmt.Sprintf("map<%s, %s> %s = %d%s;", f.Key, typeText, f.Name, num, optText)
			case "repeated":
				if err := setType(fp); err != nil {
					return nil, err
				}
				fp.Label = descriptorpb.FieldDescriptorProto_LABEL_REPEATED.Enum()
				line = fmt.Sprintf("repeated %s %s = %d%s;", typeText, f.Name, num, optText)
			case "optional":
				if err := setType(fp); err != nil {
					return nil, err
				}
				fp.Proto3Optional = proto.Bool(true)
				synthetic = append(synthetic, &descriptorpb.OneofDescriptorProto{Name: proto.String("_" + f.Name)})
				fp.OneofIndex = proto.Int32(int32(-len(synthetic))) // fixed up below
				line = fmt.Sprintf("optional %s %s = %d%s;", typeText, f.Name, num, optText)
			default:
				if err := setType(fp); err != nil {
					return nil, err
				}
				line = fmt.Sprintf("%s %s = %d%s;", typeText, f.Name, num, optText)
			}
			if fo != nil {
				fp.Options = fo
			}
			if f.Oneof > 0 && f.Card == "single" {
				if f.Oneof > len(m.Oneofs) {
					return nil, fmt.Errorf("field %s.%s: oneof index %d out of range", m.Name, f.Name, f.Oneof)
				}
				fp.OneofIndex = proto.Int32(int32(f.Oneof - 1))
				oneofLines[f.Oneof-1] = append(oneofLines[f.Oneof-1], line)
			} else {
				texts[i] = append(texts[i], line)
			}
			dp.Field = append(dp.Field, fp)
		}
		// synthetic oneofs come after the real ones
		for _, fp := range dp.Field {
			if fp.OneofIndex != nil && *fp.OneofIndex < 0 {
				fp.OneofIndex = proto.Int32(int32(len(m.Oneofs)) + (-*fp.OneofIndex - 1))
			}
		}
		dp.OneofDecl = append(dp.OneofDecl, synthetic...)
		for k, o := range m.Oneofs {
			if len(oneofLines[k]) == 0 {
				return nil, fmt.Errorf("oneof %s.%s has no fields", m.Name, o.Name)
			}
			texts[i] = append(texts[i], "oneof "+o.Name+" {")
			_, oot, _ := shOneofOptions(o.Opt)
			for _, t := range oot {
				texts[i] = append(texts[i], fmt.Sprintf("  option %s = {%s};", t.ext, t.text))
				deps[shExtFile(t.ext)] = true
			}
			for _, l := range oneofLines[k] {
				texts[i] = append(texts[i], "  "+l)
			}
			texts[i] = append(texts[i], "}")
		}
		protos[i] = dp
	}
	// enums
	enumProtos := make([]*descriptorpb.EnumDescriptorProto, len(c.Enums))
	enumTexts := make([][]string, len(c.Enums))
	for i := range c.Enums {
		e := &c.Enums[i]
		prefix := shUpperSnake(e.Name) + "_"
		ep := &descriptorpb.EnumDescriptorProto{Name: proto.String(e.Name)}
		first := prefix + "UNSPECIFIED"
		if !e.Unspec {
			first = prefix + "NONE"
		}
		vals := []string{first, prefix + "A", prefix + "B"}
		if e.Opt == "value_prefixed" {
			// a value whose short name starts with the enum's prefix again (E0_E0_X)
			vals = append(vals, prefix+prefix+"X")
		}
		for n, v := range vals {
			num := n
			if e.Opt == "negative_value" && n == 1 {
				num = -1
			}
			vp := &descriptorpb.EnumValueDescriptorProto{Name: proto.String(v), Number: proto.Int32(int32(num))}
			line := fmt.Sprintf("%s = %d;", v, num)
			if e.Opt == "value_info" && n == 1 {
				vo := &descriptorpb.EnumValueOptions{}
				m := &ext_j5pb.EnumValueOptions{}
				_ = prototext.Unmarshal([]byte("description:\"d\" info:{key:\"k\" value:\"v\"}"), m)
				proto.SetExtension(vo, ext_j5pb.E_EnumValue, m)
				vp.Options = vo
				line = fmt.Sprintf("%s = %d [(j5.ext.v1.enum_value) = {description:\"d\" info:{key:\"k\" value:\"v\"}}];", v, n)
				deps["j5/ext/v1/annotations.proto"] = true
			}
			ep.Value = append(ep.Value, vp)
			enumTexts[i] = append(enumTexts[i], line)
		}
		if e.Opt == "no_default" || e.Opt == "info_fields" {
			t := map[string]string{"no_default": "no_default:true", "info_fields": "info_fields:{name:\"k\" label:\"K\"}"}[e.Opt]
			m := &ext_j5pb.EnumOptions{}
			if err := prototext.Unmarshal([]byte(t), m); err != nil {
				return nil, err
			}
			eo := &descriptorpb.EnumOptions{}
			proto.SetExtension(eo, ext_j5pb.E_Enum, m)
			ep.Options = eo
			enumTexts[i] = append([]string{fmt.Sprintf("option (j5.ext.v1.enum) = {%s};", t)}, enumTexts[i]...)
			deps["j5/ext/v1/annotations.proto"] = true
		}
		enumProtos[i] = ep
	}
	// nesting
	for i := range c.Msgs {
		p := c.Msgs[i].Parent
		if p > 0 && p-1 != i && p <= len(c.Msgs) {
			protos[p-1].NestedType = append(protos[p-1].NestedType, protos[i])
		} else {
			fd.MessageType = append(fd.MessageType, protos[i])
		}
	}
	for i := range c.Enums {
		p := c.Enums[i].Parent
		if p > 0 && p <= len(c.Msgs) {
			protos[p-1].EnumType = append(protos[p-1].EnumType, enumProtos[i])
		} else {
			fd.EnumType = append(fd.EnumType, enumProtos[i])
		}
	}
	for d := range deps {
		if d != "" {
			fd.Dependency = append(fd.Dependency, d)
		}
	}
	sort.Strings(fd.Dependency)
	file, err := protodesc.NewFile(fd, protoregistry.GlobalFiles)
	if err != nil {
		return nil, fmt.Errorf("link: %w", err)
	}
	files := &protoregistry.Files{}
	if err := files.RegisterFile(file); err != nil {
		return nil, fmt.Errorf("register: %w", err)
	}
	b := &shBuilt{FDP: fd, File: file, Files: files}
	for i := range c.Msgs {
		d, err := files.FindDescriptorByName(protoreflect.FullName(shFullName(c, i)))
		if err != nil {
			return nil, fmt.Errorf("built file lacks %s: %w", shFullName(c, i), err)
		}
		b.Msgs = append(b.Msgs, d.(protoreflect.MessageDescriptor))
	}
	// .proto text
	var sb strings.Builder
	sb.WriteString("syntax = \"proto3\";\n")
	if shPkg != "" {
		sb.WriteString("package " + shPkg + ";\n")
	}
	for _, d := range fd.Dependency {
		sb.WriteString("import \"" + d + "\";\n")
	}
	var writeMsg func(i int, ind string)
	writeMsg = func(i int, ind string) {
		sb.WriteString(ind + "message " + c.Msgs[i].Name + " {\n")
		for _, l := range texts[i] {
			sb.WriteString(ind + "  " + l + "\n")
		}
		for j := range c.Msgs {
			if c.Msgs[j].Parent == i+1 && j != i {
				writeMsg(j, ind+"  ")
			}
		}
		for j := range c.Enums {
			if c.Enums[j].Parent == i+1 {
				sb.WriteString(ind + "  enum " + c.Enums[j].Name + " {\n")
				for _, l := range enumTexts[j] {
					sb.WriteString(ind + "    " + l + "\n")
				}
				sb.WriteString(ind + "  }\n")
			}
		}
		sb.WriteString(ind + "}\n")
	}
	for i := range c.Msgs {
		if p := c.Msgs[i].Parent; !(p > 0 && p-1 != i && p <= len(c.Msgs)) {
			writeMsg(i, "")
		}
	}
	for j := range c.Enums {
		if p := c.Enums[j].Parent; !(p > 0 && p <= len(c.Msgs)) {
			sb.WriteString("enum " + c.Enums[j].Name + " {\n")
			for _, l := range enumTexts[j] {
				sb.WriteString("  " + l + "\n")
			}
			sb.WriteString("}\n")
		}
	}
	b.Text = sb.String()
	return b, nil
}

func shExtFile(ext string) string {
	switch {
	case strings.HasPrefix(ext, "(buf.validate"):
		return "buf/validate/validate.proto"
	case strings.HasPrefix(ext, "(j5.ext.v1"):
		return "j5/ext/v1/annotations.proto"
	case strings.HasPrefix(ext, "(j5.list.v1"):
		return "j5/list/v1/annotations.proto"
	}
	return ""
}
