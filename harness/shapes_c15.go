package main

import (
	"encoding/json"
	"runtime/debug"
	"sort"

	"github.com/pentops/j5/gen/j5/schema/v1/schema_j5pb"
	"github.com/pentops/j5/gen/j5/source/v1/source_j5pb"
	"github.com/pentops/j5/lib/j5schema"
	"google.golang.org/protobuf/reflect/protoreflect"
)

func init() { register("shapes-c15", shapesC15Driver) }

// shapes-c15: a descriptor set of the ProtoShapes model ("generated raw proto files using the J5-supported subset", C15):
// reflect it, export every schema to the source-API form, rebuild a schema set from that form and export again.
// Sets the reader rejects or panics on are C18's subject and skipped here.
func shapesC15Driver(raw json.RawMessage) *Out {
	debug.SetMaxStack(48 << 20)
	var c shCase
	if err := json.Unmarshal(raw, &c); err != nil {
		return &Out{Skip: "bad case: " + err.Error()}
	}
	shNormalise(&c)
	out := &Out{Key: "c15|" + shKey(&c)}
	b, err := shBuild(&c)
	if err != nil {
		out.Skip = "unbuildable: " + err.Error()
		return out
	}
	var set *j5schema.SchemaSet
	var setErr error
	_, msg := shGuard(func() {
		set, setErr = j5schema.SchemaSetFromFiles(b.Files, func(f protoreflect.FileDescriptor) bool { return f.Path() == b.File.Path() })
	})
	if msg != "" || setErr != nil || set == nil {
		out.Skip = "not reflected (C18's subject)"
		return out
	}
	api := &source_j5pb.API{}
	var pkgs []string
	for n := range set.Packages {
		pkgs = append(pkgs, n)
	}
	sort.Strings(pkgs)
	exported := 0
	for _, pn := range pkgs {
		p := &source_j5pb.Package{Name: pn, Schemas: map[string]*schema_j5pb.RootSchema{}}
		for n, ref := range set.Packages[pn].Schemas {
			if ref == nil || ref.To == nil {
				continue
			}
			var rs *schema_j5pb.RootSchema
			_, msg := shGuard(func() { rs = ref.To.ToJ5Root() })
			if msg != "" || rs == nil {
				out.Skip = "export panics (C18's subject): " + msg
				return out
			}
			p.Schemas[n] = rs
			exported++
		}
		api.Packages = append(api.Packages, p)
	}
	out.Nontrivial = exported > 0
	out.Obs = map[string]any{"schemas": exported}
	c15Check(out, "shapes:"+c.Mode, api)
	return out
}
