package main

// Projection of real compiled descriptors onto the Contract vocabulary of spec/J5Compile.tla, and the
// comparison predicates of C02 (contract equality on the attributes the statement lists) and
// C13 (restriction of the later compile to the elements of the earlier one).
//
// contract JSON (every component is a set, serialised as an array in arbitrary order):
//   files    [{name, pkg}]
//   imports  [{file, dep}]
//   msgs     [{full, file, parent, kind}]               kind: object | oneof | mapentry
//   fields   [{msg, name, json, number, type, typeName, label, opt, inOneof}]
//   enums    [{full, file, parent, scope}]                scope = enclosing message or package (enum values live there)
//   values   [{enum, name, number}]
//   services [{full, file, role, topic}]                role: "" | publish | request | reply | upsert | event
//   methods  [{service, name, input, output, verb, path}]

import (
	"fmt"
	"sort"
	"strings"

	"github.com/bufbuild/protocompile/linker"
	"google.golang.org/protobuf/reflect/protoreflect"
)

type cElem map[string]any

type contract struct {
	Files    []cElem `json:"files"`
	Imports  []cElem `json:"imports"`
	Msgs     []cElem `json:"msgs"`
	Fields   []cElem `json:"fields"`
	Enums    []cElem `json:"enums"`
	Values   []cElem `json:"values"`
	Services []cElem `json:"services"`
	Methods  []cElem `json:"methods"`
}

var kindNames = map[protoreflect.Kind]string{
	protoreflect.StringKind: "string", protoreflect.BoolKind: "bool",
	protoreflect.Int32Kind: "int32", protoreflect.Int64Kind: "int64",
	protoreflect.Uint32Kind: "uint32", protoreflect.Uint64Kind: "uint64",
	protoreflect.FloatKind: "float", protoreflect.DoubleKind: "double",
	protoreflect.BytesKind: "bytes", protoreflect.MessageKind: "message", protoreflect.EnumKind: "enum",
	protoreflect.Sint32Kind: "sint32", protoreflect.Sint64Kind: "sint64",
	protoreflect.Fixed32Kind: "fixed32", protoreflect.Fixed64Kind: "fixed64",
	protoreflect.Sfixed32Kind: "sfixed32", protoreflect.Sfixed64Kind: "sfixed64",
	protoreflect.GroupKind: "group",
}

func projectFiles(files []linker.File) *contract {
	c := &contract{Files: []cElem{}, Imports: []cElem{}, Msgs: []cElem{}, Fields: []cElem{}, Enums: []cElem{}, Values: []cElem{},
		Services: []cElem{}, Methods: []cElem{}} // never nil: TLC's JSON reader rejects null
	seen := map[string]bool{}
	for _, f := range files {
		if seen[f.Path()] {
			continue
		}
		seen[f.Path()] = true
		projectFile(c, f)
	}
	return c
}

func projectFile(c *contract, f protoreflect.FileDescriptor) {
	c.Files = append(c.Files, cElem{"name": f.Path(), "pkg": string(f.Package())})
	imps := f.Imports()
	for i := 0; i < imps.Len(); i++ {
		c.Imports = append(c.Imports, cElem{"file": f.Path(), "dep": imps.Get(i).Path()})
	}
	msgs := f.Messages()
	for i := 0; i < msgs.Len(); i++ {
		projectMessage(c, f.Path(), "", msgs.Get(i))
	}
	enums := f.Enums()
	for i := 0; i < enums.Len(); i++ {
		projectEnum(c, f.Path(), "", enums.Get(i))
	}
	svcs := f.Services()
	for i := 0; i < svcs.Len(); i++ {
		projectService(c, f.Path(), svcs.Get(i))
	}
}

func projectMessage(c *contract, file, parent string, m protoreflect.MessageDescriptor) {
	kind := "object"
	if m.IsMapEntry() {
		kind = "mapentry"
	} else {
		oo := m.Oneofs()
		for i := 0; i < oo.Len(); i++ {
			if !oo.Get(i).IsSynthetic() {
				kind = "oneof"
			}
		}
		// a oneof schema without options has no protobuf oneof (protobuf has no empty oneof); the documented message
		// annotation (README: `option (j5.ext.v1.message).oneof = {}`) still says what it is
		if ext := optionMessage(m.Options(), "j5.ext.v1.message"); ext != nil {
			ext.Range(func(fd protoreflect.FieldDescriptor, v protoreflect.Value) bool {
				if fd.Name() == "oneof" {
					kind = "oneof"
				}
				return true
			})
		}
	}
	full := string(m.FullName())
	c.Msgs = append(c.Msgs, cElem{"full": full, "file": file, "parent": parent, "kind": kind})
	fs := m.Fields()
	for i := 0; i < fs.Len(); i++ {
		fd := fs.Get(i)
		tn := ""
		switch fd.Kind() {
		case protoreflect.MessageKind, protoreflect.GroupKind:
			tn = string(fd.Message().FullName())
		case protoreflect.EnumKind:
			tn = string(fd.Enum().FullName())
		}
		label := "optional"
		if fd.Cardinality() == protoreflect.Repeated {
			label = "repeated"
		} else if fd.Cardinality() == protoreflect.Required {
			label = "required"
		}
		inOneof := false
		if oo := fd.ContainingOneof(); oo != nil && !oo.IsSynthetic() {
			inOneof = true
		}
		jsonName := fd.JSONName()
		if m.IsMapEntry() {
			jsonName = "" // key / value of a map entry are not declared in the source
		}
		c.Fields = append(c.Fields, cElem{
			"msg": full, "name": string(fd.Name()), "json": jsonName, "number": int(fd.Number()),
			"type": kindNames[fd.Kind()], "typeName": tn, "label": label, "opt": fd.HasOptionalKeyword(), "inOneof": inOneof,
		})
	}
	nm := m.Messages()
	for i := 0; i < nm.Len(); i++ {
		projectMessage(c, file, full, nm.Get(i))
	}
	ne := m.Enums()
	for i := 0; i < ne.Len(); i++ {
		projectEnum(c, file, full, ne.Get(i))
	}
}

func projectEnum(c *contract, file, parent string, e protoreflect.EnumDescriptor) {
	full := string(e.FullName())
	c.Enums = append(c.Enums, cElem{"full": full, "file": file, "parent": parent, "scope": string(e.Parent().FullName())})
	vs := e.Values()
	for i := 0; i < vs.Len(); i++ {
		v := vs.Get(i)
		c.Values = append(c.Values, cElem{"enum": full, "name": string(v.Name()), "number": int(v.Number())})
	}
}

// optionMessage finds an extension by full name inside an options message, through reflection only.
func optionMessage(opts protoreflect.ProtoMessage, ext string) protoreflect.Message {
	if opts == nil {
		return nil
	}
	var found protoreflect.Message
	opts.ProtoReflect().Range(func(fd protoreflect.FieldDescriptor, v protoreflect.Value) bool {
		if fd.IsExtension() && string(fd.FullName()) == ext && fd.Message() != nil && !fd.IsList() {
			found = v.Message()
			return false
		}
		return true
	})
	return found
}

func projectService(c *contract, file string, s protoreflect.ServiceDescriptor) {
	full := string(s.FullName())
	role, topic := "", ""
	if cfg := optionMessage(s.Options(), "j5.messaging.v1.service"); cfg != nil {
		cfg.Range(func(fd protoreflect.FieldDescriptor, v protoreflect.Value) bool {
			if fd.Name() == "topic_name" {
				topic = v.String()
			} else if fd.ContainingOneof() != nil && fd.ContainingOneof().Name() == "role" {
				role = string(fd.Name())
			}
			return true
		})
	}
	c.Services = append(c.Services, cElem{"full": full, "file": file, "role": role, "topic": topic})
	ms := s.Methods()
	for i := 0; i < ms.Len(); i++ {
		m := ms.Get(i)
		verb, path := "", ""
		if rule := optionMessage(m.Options(), "google.api.http"); rule != nil {
			rule.Range(func(fd protoreflect.FieldDescriptor, v protoreflect.Value) bool {
				if fd.ContainingOneof() != nil && fd.ContainingOneof().Name() == "pattern" && fd.Kind() == protoreflect.StringKind {
					verb = strings.ToUpper(string(fd.Name()))
					path = v.String()
				}
				return true
			})
		}
		c.Methods = append(c.Methods, cElem{
			"service": full, "name": string(m.Name()), "input": string(m.Input().FullName()), "output": string(m.Output().FullName()),
			"verb": verb, "path": path,
		})
	}
}

// ---------------------------------------------------------------------------------------------
// comparison

func str(e cElem, k string) string {
	v, ok := e[k]
	if !ok || v == nil {
		return ""
	}
	switch x := v.(type) {
	case string:
		return x
	case float64:
		return fmt.Sprintf("%d", int(x))
	case int:
		return fmt.Sprintf("%d", x)
	case bool:
		if x {
			return "true"
		}
		return "false"
	}
	return fmt.Sprint(v)
}

func indexBy(es []cElem, keys ...string) map[string]cElem {
	m := map[string]cElem{}
	for _, e := range es {
		var parts []string
		for _, k := range keys {
			parts = append(parts, str(e, k))
		}
		m[strings.Join(parts, "|")] = e
	}
	return m
}

func sortedKeys(m map[string]cElem) []string {
	out := make([]string, 0, len(m))
	for k := range m {
		out = append(out, k)
	}
	sort.Strings(out)
	return out
}

type attrSpec struct {
	name  string
	drift bool // not demanded by the statement of C02: disagreement is drift only
}

// compareKind matches predicted and real elements of one kind by identity key and compares attributes.
// Missing / extra elements and demanded attributes are violations `C02|<kind>-<what>|<where>`.
func compareKind(out *Out, where, kind string, pred, real []cElem, key []string, attrs []attrSpec, extraIsDrift bool) {
	pm, rm := indexBy(pred, key...), indexBy(real, key...)
	for _, k := range sortedKeys(pm) {
		p := pm[k]
		r, ok := rm[k]
		if !ok {
			out.V(fmt.Sprintf("C02|%s-missing|%s", kind, where), "declared %s %s is not in the compiled output (predicted %v)", kind, k, p)
			continue
		}
		for _, a := range attrs {
			if str(p, a.name) != str(r, a.name) {
				if a.drift {
					out.D(fmt.Sprintf("C02|%s-%s|%s", kind, a.name, where), "%s %s: %s predicted %q, compiled %q", kind, k, a.name, str(p, a.name), str(r, a.name))
				} else {
					out.V(fmt.Sprintf("C02|%s-%s|%s", kind, a.name, where), "%s %s: %s must be %q, compiled output has %q", kind, k, a.name, str(p, a.name), str(r, a.name))
				}
			}
		}
	}
	for _, k := range sortedKeys(rm) {
		if _, ok := pm[k]; !ok {
			if extraIsDrift {
				out.D(fmt.Sprintf("C02|%s-extra|%s", kind, where), "compiled output has %s %s which the model does not predict", kind, k)
			} else {
				out.V(fmt.Sprintf("C02|%s-extra|%s", kind, where), "compiled output has %s %s which the source does not declare (%v)", kind, k, rm[k])
			}
		}
	}
}

// compareFields: fields are matched by (message, proto name); a predicted field whose name is absent but whose
// number is present is reported as a name mismatch (so a casing fault is not reported as missing+extra).
func compareFields(out *Out, where string, pred, real []cElem) {
	byName := indexBy(real, "msg", "name")
	byNum := indexBy(real, "msg", "number")
	used := map[string]bool{}
	attrs := []string{"name", "json", "number", "type", "typeName", "label", "opt", "inOneof"}
	for _, p := range pred {
		k := str(p, "msg") + "|" + str(p, "name")
		r, ok := byName[k]
		if !ok {
			r, ok = byNum[str(p, "msg")+"|"+str(p, "number")]
			if !ok {
				out.V("C02|field-missing|"+where, "declared field %s.%s (number %s) is not in the compiled output", str(p, "msg"), str(p, "name"), str(p, "number"))
				continue
			}
		}
		used[str(r, "msg")+"|"+str(r, "name")] = true
		for _, a := range attrs {
			if str(p, a) != str(r, a) {
				out.V(fmt.Sprintf("C02|field-%s|%s", a, where), "field %s.%s: %s must be %q, compiled output has %q", str(p, "msg"), str(p, "name"), a, str(p, a), str(r, a))
			}
		}
	}
	for _, k := range sortedKeys(byName) {
		if !used[k] {
			out.V("C02|field-extra|"+where, "compiled output has field %s which the source does not declare (%v)", k, byName[k])
		}
	}
}

// compareValues: enum values are matched by (enum, name), falling back to (enum, number), so that a numbering fault is
// reported as enum-value-number and a prefix fault as enum-value-name.
func compareValues(out *Out, where string, pred, real []cElem) {
	byName := indexBy(real, "enum", "name")
	byNum := indexBy(real, "enum", "number")
	used := map[string]bool{}
	for _, p := range pred {
		r, ok := byName[str(p, "enum")+"|"+str(p, "name")]
		if !ok {
			r, ok = byNum[str(p, "enum")+"|"+str(p, "number")]
			if !ok {
				out.V("C02|enum-value-missing|"+where, "declared enum value %s.%s = %s is not in the compiled output", str(p, "enum"), str(p, "name"), str(p, "number"))
				continue
			}
		}
		used[str(r, "enum")+"|"+str(r, "name")] = true
		for _, a := range []string{"name", "number"} {
			if str(p, a) != str(r, a) {
				out.V(fmt.Sprintf("C02|enum-value-%s|%s", a, where), "enum value %s.%s: %s must be %q, compiled output has %q", str(p, "enum"), str(p, "name"), a, str(p, a), str(r, a))
			}
		}
	}
	for _, k := range sortedKeys(byName) {
		if !used[k] {
			out.V("C02|enum-value-extra|"+where, "compiled output has enum value %s which the source does not declare", k)
		}
	}
}

// compareContract evaluates C02 on a compiled bundle: pred is the model's Contract, real the projection.
func compareContract(out *Out, where string, pred, real *contract) {
	// file name and package of the main file are documented (README "Packages and Imports"); the file name of the
	// sub-package outputs (<file>.p.j5s.proto) is a mechanism, the sub-package itself is demanded.
	predMain, predSub := splitFiles(pred.Files)
	realMain, realSub := splitFiles(real.Files)
	compareKind(out, where, "file", predMain, realMain, []string{"name"}, []attrSpec{{"pkg", false}}, false)
	compareKind(out, where, "subfile", pkgsOf(predSub), pkgsOf(realSub), []string{"pkg"}, nil, false)
	compareKind(out, where, "subfile-name", predSub, realSub, []string{"name"}, []attrSpec{{"pkg", true}}, true)
	for _, e := range indexByMissing(pred.Imports, real.Imports, "file", "dep") {
		out.V("C02|import-missing|"+where, "file %s references a type defined in %s but does not import it", str(e, "file"), str(e, "dep"))
	}
	// object / oneof is observable on the fields (inOneof); for a message without fields the kind is not demanded
	hasField := map[string]bool{}
	for _, f := range pred.Fields {
		hasField[str(f, "msg")] = true
	}
	var withF, withoutF, realWith, realWithout []cElem
	for _, m := range pred.Msgs {
		if hasField[str(m, "full")] {
			withF = append(withF, m)
		} else {
			withoutF = append(withoutF, m)
		}
	}
	pnames := indexBy(withoutF, "full")
	for _, m := range real.Msgs {
		if _, ok := pnames[str(m, "full")]; ok {
			realWithout = append(realWithout, m)
		} else {
			realWith = append(realWith, m)
		}
	}
	compareKind(out, where, "message", withF, realWith, []string{"full"}, []attrSpec{{"parent", false}, {"kind", false}, {"file", true}}, false)
	compareKind(out, where, "message", withoutF, realWithout, []string{"full"}, []attrSpec{{"parent", false}, {"kind", true}, {"file", true}}, false)
	compareFields(out, where, pred.Fields, real.Fields)
	compareKind(out, where, "enum", pred.Enums, real.Enums, []string{"full"}, []attrSpec{{"parent", false}, {"file", true}}, false)
	compareValues(out, where, pred.Values, real.Values)
	// services: the sub-package (part of the full name) and role are demanded; the service's own name and the topic
	// name are documented in the README but not listed by the statement, so they are matched by position and drift-only
	compareServices(out, where, pred, real)
}

func splitFiles(fs []cElem) (main, sub []cElem) {
	for _, f := range fs {
		if strings.HasSuffix(str(f, "pkg"), ".service") || strings.HasSuffix(str(f, "pkg"), ".topic") {
			sub = append(sub, f)
		} else {
			main = append(main, f)
		}
	}
	return
}

func pkgsOf(fs []cElem) []cElem {
	seen := map[string]bool{}
	var out []cElem
	for _, f := range fs {
		p := str(f, "pkg")
		if !seen[p] {
			seen[p] = true
			out = append(out, cElem{"pkg": p})
		}
	}
	return out
}

func indexByMissing(pred, real []cElem, keys ...string) []cElem {
	rm := indexBy(real, keys...)
	var out []cElem
	pm := indexBy(pred, keys...)
	for _, k := range sortedKeys(pm) {
		if _, ok := rm[k]; !ok {
			out = append(out, pm[k])
		}
	}
	return out
}

func svcPackage(full string) string {
	i := strings.LastIndex(full, ".")
	if i < 0 {
		return ""
	}
	return full[:i]
}

func compareServices(out *Out, where string, pred, real *contract) {
	// group services per package, in name order within (role, input types) so that a renamed service still matches
	type svc struct {
		e       cElem
		methods []cElem
	}
	collect := func(c *contract) map[string][]svc {
		m := map[string][]svc{}
		for _, s := range c.Services {
			var ms []cElem
			for _, me := range c.Methods {
				if str(me, "service") == str(s, "full") {
					ms = append(ms, me)
				}
			}
			sort.Slice(ms, func(i, j int) bool { return str(ms[i], "name") < str(ms[j], "name") })
			m[svcPackage(str(s, "full"))] = append(m[svcPackage(str(s, "full"))], svc{s, ms})
		}
		return m
	}
	sig := func(s svc) string {
		var parts []string
		for _, m := range s.methods {
			parts = append(parts, str(m, "name")+">"+str(m, "input"))
		}
		return str(s.e, "role") + "#" + strings.Join(parts, ",")
	}
	pm, rm := collect(pred), collect(real)
	pkgs := map[string]bool{}
	for k := range pm {
		pkgs[k] = true
	}
	for k := range rm {
		pkgs[k] = true
	}
	for pkg := range pkgs {
		ps, rs := pm[pkg], rm[pkg]
		usedR := map[int]bool{}
		for _, p := range ps {
			// 1. by full name; 2. by (role, methods) signature
			idx := -1
			for i, r := range rs {
				if !usedR[i] && str(r.e, "full") == str(p.e, "full") {
					idx = i
					break
				}
			}
			if idx < 0 {
				for i, r := range rs {
					if !usedR[i] && sig(r) == sig(p) {
						idx = i
						break
					}
				}
			}
			if idx < 0 {
				out.V("C02|service-missing|"+where, "declared service/topic %s (package %s) is not in the compiled output", str(p.e, "full"), pkg)
				continue
			}
			usedR[idx] = true
			r := rs[idx]
			if str(r.e, "full") != str(p.e, "full") {
				out.D("C02|service-name|"+where, "service predicted %s, compiled %s", str(p.e, "full"), str(r.e, "full"))
			}
			if str(r.e, "role") != str(p.e, "role") {
				out.V("C02|service-role|"+where, "service %s: messaging role must be %q, compiled output has %q", str(p.e, "full"), str(p.e, "role"), str(r.e, "role"))
			}
			if str(r.e, "topic") != str(p.e, "topic") {
				out.D("C02|service-topic|"+where, "service %s: topic name predicted %q, compiled %q", str(p.e, "full"), str(p.e, "topic"), str(r.e, "topic"))
			}
			rmeth := indexBy(r.methods, "name")
			pmeth := indexBy(p.methods, "name")
			for _, k := range sortedKeys(pmeth) {
				pmm := pmeth[k]
				rmm, ok := rmeth[k]
				if !ok {
					out.V("C02|method-missing|"+where, "declared method %s of %s is not in the compiled output", k, str(p.e, "full"))
					continue
				}
				for _, a := range []string{"input", "output", "verb", "path"} {
					if str(pmm, a) != str(rmm, a) {
						out.V(fmt.Sprintf("C02|method-%s|%s", a, where), "method %s.%s: %s must be %q, compiled output has %q", str(p.e, "full"), k, a, str(pmm, a), str(rmm, a))
					}
				}
			}
			for _, k := range sortedKeys(rmeth) {
				if _, ok := pmeth[k]; !ok {
					out.V("C02|method-extra|"+where, "compiled output has method %s.%s which the source does not declare", str(r.e, "full"), k)
				}
			}
		}
		for i, r := range rs {
			if !usedR[i] {
				out.V("C02|service-extra|"+where, "compiled output has service %s which the source does not declare", str(r.e, "full"))
			}
		}
	}
}

// ---------------------------------------------------------------------------------------------
// C13: every wire identity of the earlier compile is unchanged in the later compile.

// wireElems flattens the elements C13's statement lists into identity -> canonical attribute string.
func wireElems(c *contract) map[string]string {
	m := map[string]string{}
	for _, e := range c.Msgs {
		m["message "+str(e, "full")] = "parent=" + str(e, "parent") + " kind=" + str(e, "kind")
	}
	for _, e := range c.Fields {
		m["field "+str(e, "msg")+"."+str(e, "name")] = fmt.Sprintf("name=%s number=%s type=%s typeName=%s label=%s opt=%s json=%s",
			str(e, "name"), str(e, "number"), str(e, "type"), str(e, "typeName"), str(e, "label"), str(e, "opt"), str(e, "json"))
	}
	for _, e := range c.Enums {
		m["enum "+str(e, "full")] = "parent=" + str(e, "parent")
	}
	for _, e := range c.Values {
		m["value "+str(e, "enum")+"."+str(e, "name")] = "number=" + str(e, "number")
	}
	for _, e := range c.Services {
		m["service "+str(e, "full")] = "role=" + str(e, "role") + " topic=" + str(e, "topic")
	}
	for _, e := range c.Methods {
		m["method "+str(e, "service")+"."+str(e, "name")] = fmt.Sprintf("input=%s output=%s verb=%s path=%s", str(e, "input"), str(e, "output"), str(e, "verb"), str(e, "path"))
	}
	return m
}

// compareAppend reports every element of before that is missing from or different in after.
func compareAppend(out *Out, where string, before, after *contract) int {
	b, a := wireElems(before), wireElems(after)
	keys := make([]string, 0, len(b))
	for k := range b {
		keys = append(keys, k)
	}
	sort.Strings(keys)
	n := 0
	for _, k := range keys {
		kind := strings.SplitN(k, " ", 2)[0]
		av, ok := a[k]
		if !ok {
			out.V(fmt.Sprintf("C13|%s-lost|%s", kind, where), "%s existed before the append edit and is gone (or renamed) after it; before: %s", k, b[k])
			n++
		} else if av != b[k] {
			out.V(fmt.Sprintf("C13|%s-changed|%s", kind, where), "%s changed under an append edit: before {%s} after {%s}", k, b[k], av)
			n++
		}
	}
	// a new field of an existing message must not take the number of an existing field
	oldNum := map[string]string{}
	for _, e := range before.Fields {
		oldNum[str(e, "msg")+"#"+str(e, "number")] = str(e, "name")
	}
	for _, e := range after.Fields {
		if n0, ok := oldNum[str(e, "msg")+"#"+str(e, "number")]; ok && n0 != str(e, "name") {
			out.V(fmt.Sprintf("C13|field-number-reused|%s", where), "field number %s of %s belonged to %s before the edit and to %s after it", str(e, "number"), str(e, "msg"), n0, str(e, "name"))
			n++
		}
	}
	return n
}
