package main

// Schema AST (the program space of spec/J5Schema.tla) and its deterministic printer to .j5s text.
//
// REUSE (C04/C05/C07/C15/C16): the case JSON emitted by J5Schema.tla carries `ast` (a schemaBundle).
//   parseSchemaBundle(raw)            -> *schemaBundle
//   astToJ5s(bundle)                  -> map[filename]text   (only documented syntax forms; spelling choices come from the AST)
//   compileAST(bundle)                -> compiled linker.Files per package (real protobuild.PackageSet, in memory)
//   projectFiles(files)               -> *contract (schema_project.go), the same vocabulary as J5Compile.tla's Contract
//
// AST JSON (all sequences are JSON arrays, no sets, so that it survives a TLC ndJsonDeserialize round trip):
//   bundle  = [pkg]                          pkg  = {name:"foo.v1", files:[file]}
//   file    = {name:"a", kind:"j5s"|"proto", imports:[imp], decls:[decl]}   -> <pkgdir>/a.j5s  or  <pkgdir>/a.proto
//             (a proto file holds objects with string / reference fields and enums only and is printed as plain proto3)
//   imp     = {pkg:"bar.v1", form:"pkg"|"alias"|"file"|"protofile"|"j5sfile", alias:"bz", file:"b"}
//             file: import "<dir>/b.j5s.proto" from j5s; protofile: import "<dir>/b.proto" from j5s; j5sfile: a proto file importing "<dir>/b.j5s.proto"
//   decl    = {kind:"object", name:N, fields:[field], nested:[decl]}
//           | {kind:"oneof",  name:N, fields:[field]}
//           | {kind:"enum",   name:N, options:["A","B"], unspec:bool, prefix:""}
//           | {kind:"service",name:N, basePath:"/foo/v1"|"", methods:[{name:N, verb:"GET", path:[seg], request:[field], hasResponse:bool, response:[field]}]}
//           | {kind:"topic",  name:N, tkind:"publish"|"reqres"|"upsert", messages:[{name:N, fields:[field]}]}   (reqres: messages = [request, reply])
//   N       = {w:["foo","bar"], sp:"camel"|"snake"|"upper"|"acro", src:"fooBar"}   (src is computed by the spec; the printer prints src)
//   seg     = {p:false, s:"bar"} | {p:true, s:"fooId"}          (path segment: literal or :param, s = source spelling)
//   field   = {name:N, type:T, pres:"none"|"req"|"opt", presForm:"mark"|"attr"}
//   T       = {k:"scalar", s:"string"|"bool"|"int32"|"int64"|"uint32"|"uint64"|"float32"|"float64"|"bytes"|"timestamp"|"date"|"decimal"|"key"|"key:id62"|"key:uuid"|"any"}
//           | {k:"ref", rk:"object"|"oneof"|"enum", pkg:"bar.v1", path:["Bar"], qual:""|"bar"|"bar.v1"|"bz", form:"qual"|"block"}
//           | {k:"inline", ik:"object"|"oneof"|"enum", oname:N (src "" = default name), fields:[field], options:[...]}
//           | {k:"array", item:T} | {k:"map", item:T}

import (
	"encoding/json"
	"fmt"
	"sort"
	"strings"
)

type schemaName struct {
	W   []string `json:"w"`
	Sp  string   `json:"sp"`
	Src string   `json:"src"`
}

type schemaType struct {
	K       string        `json:"k"`
	S       string        `json:"s,omitempty"`
	Rk      string        `json:"rk,omitempty"`
	Pkg     string        `json:"pkg,omitempty"`
	Path    []string      `json:"path,omitempty"`
	Qual    string        `json:"qual,omitempty"`
	Form    string        `json:"form,omitempty"`
	Ik      string        `json:"ik,omitempty"`
	Oname   schemaName    `json:"oname"`
	Fields  []schemaField `json:"fields,omitempty"`
	Options []string      `json:"options,omitempty"`
	Info    [][]string    `json:"info,omitempty"` // <key, value atom> pairs of the info map attached to every enum option
	Item    *schemaType   `json:"item,omitempty"`
}

type schemaField struct {
	Name     schemaName `json:"name"`
	Type     schemaType `json:"type"`
	Pres     string     `json:"pres"`
	PresForm string     `json:"presForm"`
	Attrs    []string   `json:"attrs,omitempty"` // further body attributes, printed verbatim (rules of harness-built bundles)
}

type schemaSeg struct {
	P bool   `json:"p"`
	S string `json:"s"`
}

type schemaMethod struct {
	Name        schemaName    `json:"name"`
	Verb        string        `json:"verb"`
	Path        []schemaSeg   `json:"path"`
	Request     []schemaField `json:"request"`
	HasResponse bool          `json:"hasResponse"`
	Response    []schemaField `json:"response"`
}

type schemaMessage struct {
	Name   schemaName    `json:"name"`
	Fields []schemaField `json:"fields"`
}

type schemaDecl struct {
	Kind     string          `json:"kind"`
	Name     schemaName      `json:"name"`
	Fields   []schemaField   `json:"fields,omitempty"`
	Nested   []schemaDecl    `json:"nested,omitempty"`
	Options  []string        `json:"options,omitempty"`
	Info     [][]string      `json:"info,omitempty"` // <key, value atom> pairs of the info map attached to every enum option
	Unspec   bool            `json:"unspec,omitempty"`
	Prefix   string          `json:"prefix,omitempty"`
	BasePath string          `json:"basePath,omitempty"`
	Methods  []schemaMethod  `json:"methods,omitempty"`
	Tkind    string          `json:"tkind,omitempty"`
	Messages []schemaMessage `json:"messages,omitempty"`
}

type schemaImport struct {
	Pkg   string `json:"pkg"`
	Form  string `json:"form"`
	Alias string `json:"alias,omitempty"`
	File  string `json:"file,omitempty"`
}

type schemaFile struct {
	Name    string         `json:"name"`
	Kind    string         `json:"kind"` // "j5s" (default) | "proto": a hand-written proto3 file of the bundle
	Imports []schemaImport `json:"imports"`
	Decls   []schemaDecl   `json:"decls"`
}

type schemaPkg struct {
	Name  string       `json:"name"`
	Files []schemaFile `json:"files"`
}

type schemaBundle []schemaPkg

func parseSchemaBundle(raw json.RawMessage) (schemaBundle, error) { return parseAST(raw) }
func parseSchemaBundleBare(raw json.RawMessage) (schemaBundle, error) {
	var b schemaBundle
	if err := json.Unmarshal(raw, &b); err != nil {
		return nil, err
	}
	return b, nil
}

func pkgDir(pkg string) string { return strings.ReplaceAll(pkg, ".", "/") }

// j5sFileName is the bundle-relative source file name of a file of the AST.
func j5sFileName(pkg, file string) string { return pkgDir(pkg) + "/" + file + ".j5s" }

type j5sPrinter struct {
	sb  strings.Builder
	ind int
}

func (p *j5sPrinter) line(format string, a ...any) {
	p.sb.WriteString(strings.Repeat("  ", p.ind))
	fmt.Fprintf(&p.sb, format, a...)
	p.sb.WriteByte('\n')
}

// infoValue concretises a value atom of the specification: option values "range over strings needing escapes" (C05)
func infoValue(atom string) string {
	switch atom {
	case "quote":
		return `say "hi" \ there 'q'`
	case "astral":
		return "ok \U0001F600 and \U00010348"
	case "ctl":
		return "tab\there \x01 \x7f nl\nline"
	case "bmp":
		return "\u00e9 \u00fc \u6f22 \u2028 end"
	case "empty":
		return ""
	}
	return "v-" + atom
}

// bclQuote writes a BCL string literal: the only escapes are \\, \" and an escaped line break
func bclQuote(v string) string {
	var sb strings.Builder
	sb.WriteByte('"')
	for _, r := range v {
		switch r {
		case '\\', '"', '\n':
			sb.WriteByte('\\')
		}
		sb.WriteRune(r)
	}
	sb.WriteByte('"')
	return sb.String()
}

// enumOption prints one enum option; info keys become the option's info map (P schema.proto Enum.Option.info)
func (p *j5sPrinter) enumOption(name string, info [][]string) {
	declared := ""
	if strings.HasPrefix(name, "NUM") && len(name) > 3 && strings.Trim(name[3:], "0123456789") == "" {
		declared = name[3:] // the option declares `number = N` (ignored by the compiler: numbering is positional)
	}
	noted := name == "NOTED" // the option carries a description
	if len(info) == 0 && declared == "" && !noted {
		p.line("option %s", name)
		return
	}
	p.line("option %s {", name)
	p.ind++
	if noted {
		p.line("| an option with a description")
	}
	if declared != "" {
		p.line("number = %s", declared)
	}
	for _, kv := range info {
		p.line("info.%s = %s", kv[0], bclQuote(infoValue(kv[1])))
	}
	p.ind--
	p.line("}")
}

var scalarSpelling = map[string]string{
	"string": "string", "bool": "bool",
	"int32": "integer:INT32", "int64": "integer:INT64", "uint32": "integer:UINT32", "uint64": "integer:UINT64",
	"float32": "float:FLOAT32", "float64": "float:FLOAT64",
	"bytes": "bytes", "timestamp": "timestamp", "date": "date", "decimal": "decimal",
	"key": "key", "key:id62": "key:id62", "key:uuid": "key:uuid", "any": "any",
	"msgmeta": "object:j5.messaging.v1.RequestMetadata", // a published type, needs `import j5.messaging.v1`
}

func refText(t *schemaType) string {
	n := strings.Join(t.Path, ".")
	if t.Qual != "" {
		return t.Qual + "." + n
	}
	return n
}

// typeSpec returns the tag text after the field name and the body lines the type contributes.
func (p *j5sPrinter) typeSpec(t *schemaType) (string, func()) {
	switch t.K {
	case "scalar":
		return scalarSpelling[t.S], nil
	case "ref":
		if t.Form == "block" {
			return t.Rk, func() { p.line("ref %s", refText(t)) }
		}
		return t.Rk + ":" + refText(t), nil
	case "inline":
		return t.Ik, func() {
			if t.Oname.Src != "" {
				p.line("%s.name = %q", t.Ik, t.Oname.Src)
			}
			switch t.Ik {
			case "object":
				for i := range t.Fields {
					p.field("field", &t.Fields[i])
				}
			case "oneof":
				for i := range t.Fields {
					p.field("option", &t.Fields[i])
				}
			case "enum":
				for _, o := range t.Options {
					p.enumOption(o, t.Info)
				}
			}
		}
	case "array", "map":
		s, body := p.typeSpec(t.Item)
		return t.K + ":" + s, body
	}
	return "?" + t.K, nil
}

func (p *j5sPrinter) field(kw string, f *schemaField) {
	mark := ""
	var attrs []string
	switch f.Pres {
	case "req":
		if f.PresForm == "attr" {
			attrs = append(attrs, "required = true")
		} else {
			mark = "! "
		}
	case "opt":
		if f.PresForm == "attr" {
			attrs = append(attrs, "optional = true")
		} else {
			mark = "? "
		}
	}
	attrs = append(attrs, f.Attrs...)
	spec, body := p.typeSpec(&f.Type)
	if body == nil && len(attrs) == 0 {
		p.line("%s %s %s%s", kw, f.Name.Src, mark, spec)
		return
	}
	p.line("%s %s %s%s {", kw, f.Name.Src, mark, spec)
	p.ind++
	for _, a := range attrs {
		p.line("%s", a)
	}
	if body != nil {
		body()
	}
	p.ind--
	p.line("}")
}

func (p *j5sPrinter) decl(d *schemaDecl) {
	switch d.Kind {
	case "object":
		p.line("object %s {", d.Name.Src)
		p.ind++
		for i := range d.Fields {
			p.field("field", &d.Fields[i])
		}
		for i := range d.Nested {
			p.decl(&d.Nested[i])
		}
		p.ind--
		p.line("}")
	case "oneof":
		p.line("oneof %s {", d.Name.Src)
		p.ind++
		for i := range d.Fields {
			p.field("option", &d.Fields[i])
		}
		p.ind--
		p.line("}")
	case "enum":
		p.line("enum %s {", d.Name.Src)
		p.ind++
		if d.Prefix != "" {
			p.line("prefix = %q", d.Prefix)
		}
		if d.Unspec {
			p.line("option UNSPECIFIED")
		}
		for _, o := range d.Options {
			p.enumOption(o, d.Info)
		}
		p.ind--
		p.line("}")
	case "service":
		p.line("service %s {", d.Name.Src)
		p.ind++
		if d.BasePath != "" {
			p.line("basePath = %q", d.BasePath)
		}
		for i := range d.Methods {
			m := &d.Methods[i]
			p.line("method %s {", m.Name.Src)
			p.ind++
			p.line("httpMethod = %q", m.Verb)
			var sb strings.Builder
			for _, s := range m.Path {
				sb.WriteString("/")
				if s.P {
					sb.WriteString(":")
				}
				sb.WriteString(s.S)
			}
			p.line("httpPath = %q", sb.String())
			p.line("request {")
			p.ind++
			for j := range m.Request {
				p.field("field", &m.Request[j])
			}
			p.ind--
			p.line("}")
			if m.HasResponse {
				p.line("response {")
				p.ind++
				for j := range m.Response {
					p.field("field", &m.Response[j])
				}
				p.ind--
				p.line("}")
			}
			p.ind--
			p.line("}")
		}
		p.ind--
		p.line("}")
	case "topic":
		p.line("topic %s %s {", d.Name.Src, d.Tkind)
		p.ind++
		for i := range d.Messages {
			m := &d.Messages[i]
			switch d.Tkind {
			case "reqres":
				if i == 0 {
					p.line("request {")
				} else {
					p.line("reply {")
				}
			default:
				p.line("message %s {", m.Name.Src)
			}
			p.ind++
			for j := range m.Fields {
				p.field("field", &m.Fields[j])
			}
			p.ind--
			p.line("}")
		}
		p.ind--
		p.line("}")
	}
}

// astToJ5s prints every file of the bundle; keys are bundle-relative file names (foo/v1/a.j5s).
func astToJ5s(b schemaBundle) map[string]string {
	out := map[string]string{}
	for pi := range b {
		pkg := &b[pi]
		for fi := range pkg.Files {
			f := &pkg.Files[fi]
			if f.Kind == "proto" {
				out[pkgDir(pkg.Name)+"/"+f.Name+".proto"] = printProtoFile(pkg.Name, f)
				continue
			}
			p := &j5sPrinter{}
			p.line("package %s", pkg.Name)
			p.line("")
			for _, im := range f.Imports {
				switch im.Form {
				case "alias":
					p.line("import %s:%s", im.Pkg, im.Alias)
				case "file":
					p.line("import %q", pkgDir(im.Pkg)+"/"+im.File+".j5s.proto")
				case "protofile":
					p.line("import %q", pkgDir(im.Pkg)+"/"+im.File+".proto")
				default:
					p.line("import %s", im.Pkg)
				}
			}
			if len(f.Imports) > 0 {
				p.line("")
			}
			body := &j5sPrinter{}
			for di := range f.Decls {
				body.decl(&f.Decls[di])
				body.line("")
			}
			if strings.Contains(body.sb.String(), "j5.messaging.v1.") {
				p.line("import j5.messaging.v1")
				p.line("")
			}
			p.sb.WriteString(body.sb.String())
			out[j5sFileName(pkg.Name, f.Name)] = p.sb.String()
		}
	}
	return out
}

func bundlePackages(b schemaBundle) []string {
	var out []string
	for _, p := range b {
		if len(p.Files) > 0 {
			out = append(out, p.Name)
		}
	}
	sort.Strings(out)
	return out
}

// printProtoFile prints a hand-written proto3 file of the bundle (objects with string / message fields, enums).
func printProtoFile(pkg string, f *schemaFile) string {
	p := &j5sPrinter{}
	p.line("syntax = \"proto3\";")
	p.line("")
	p.line("package %s;", pkg)
	p.line("")
	// (a hand-written file of a bundle typically also declares the project's own options: three extendees, in this order)
	p.line("import \"google/protobuf/descriptor.proto\";")
	for _, im := range f.Imports {
		switch im.Form {
		case "j5sfile":
			p.line("import %q;", pkgDir(im.Pkg)+"/"+im.File+".j5s.proto")
		default:
			p.line("import %q;", pkgDir(im.Pkg)+"/"+im.File+".proto")
		}
	}
	for di := range f.Decls {
		d := &f.Decls[di]
		switch d.Kind {
		case "object":
			p.line("message %s {", d.Name.Src)
			p.ind++
			for i := range d.Fields {
				fl := &d.Fields[i]
				t := "string"
				if fl.Type.K == "ref" {
					t = fl.Type.Pkg + "." + strings.Join(fl.Type.Path, ".")
				}
				p.line("%s %s = %d;", t, fl.Name.Src, i+1)
			}
			p.ind--
			p.line("}")
		case "enum":
			pre := strings.ToUpper(d.Name.Src) + "_"
			p.line("enum %s {", d.Name.Src)
			p.ind++
			p.line("%sUNSPECIFIED = 0;", pre)
			for i, o := range d.Options {
				p.line("%s%s = %d;", pre, o, i+1)
			}
			p.ind--
			p.line("}")
		}
		p.line("")
	}
	p.line("extend google.protobuf.MessageOptions {")
	p.line("  string %s_note = 50001;", f.Name)
	p.line("}")
	p.line("")
	p.line("extend google.protobuf.FieldOptions {")
	p.line("  string %s_hint = 50001;", f.Name)
	p.line("  bool %s_flag = 50002;", f.Name)
	p.line("}")
	p.line("")
	p.line("extend google.protobuf.EnumOptions {")
	p.line("  string %s_kind = 50001;", f.Name)
	p.line("}")
	return p.sb.String()
}
