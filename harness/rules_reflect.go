package main

// Property C04, driver "rules-reflect": one case = one field declaration of spec/J5Rules.tla with the schema
// projection the model expects after Write (j5s -> annotations) and Read (annotations -> J5 schema).
// The declaration is compiled with the real compiler; the compiled descriptors are reflected with
// j5schema (SchemaCache.Schema and SchemaSetFromFiles) and ToJ5Root() is projected onto the attributes the
// statement lists; the printed .proto text is re-parsed with protocompile and reflected the same way.

import (
	"context"
	"encoding/json"
	"fmt"
	"reflect"
	"sort"
	"strings"

	"github.com/bufbuild/protocompile"
	"github.com/bufbuild/protocompile/linker"
	"github.com/pentops/j5/gen/j5/list/v1/list_j5pb"
	"github.com/pentops/j5/gen/j5/schema/v1/schema_j5pb"
	"github.com/pentops/j5/lib/j5schema"
	"google.golang.org/protobuf/proto"
	"google.golang.org/protobuf/reflect/protodesc"
	"google.golang.org/protobuf/reflect/protoreflect"
	"google.golang.org/protobuf/reflect/protoregistry"
	"google.golang.org/protobuf/types/descriptorpb"
)

type rlReflectCase struct {
	Decl   rlDecl `json:"decl"`
	Expect rlDecl `json:"expect"`
	Opts   rlOpts `json:"opts"`
}

// attributes of the projection the C04 statement does not list (compared as drift only)
var rlDriftOnly = map[string]bool{"single": true}

func init() { register("rules-reflect", rlReflectDriver) }

func rlFlag(b bool) string {
	if b {
		return "t"
	}
	return "na"
}

func rlOptU(p *uint64) int {
	if p == nil {
		return rlNA
	}
	return int(*p)
}

func rlOptI(p *int64) int {
	if p == nil {
		return rlNA
	}
	return int(*p)
}

func rlPatternAtom(p *string) string {
	if p == nil {
		return "na"
	}
	for k, v := range rlPatterns {
		if v == *p {
			return k
		}
	}
	return "raw:" + *p
}

func rlOptionIdx(names []string) []int {
	out := []int{}
	for _, n := range names {
		ix := -1
		for i, o := range rlEnumOptions {
			if n == o || strings.HasSuffix(n, "_"+o) {
				ix = i + 1
			}
		}
		if ix < 0 && strings.HasSuffix(n, "UNSPECIFIED") {
			ix = 0
		}
		out = append(out, ix)
	}
	return out
}

func rlStrAtom(p *string, kind string) string {
	if p == nil {
		return "na"
	}
	for k, v := range rlStringAtoms {
		if v == *p && strings.HasSuffix(k, "."+kind) {
			return strings.TrimSuffix(k, "."+kind)
		}
	}
	return "raw:" + *p
}

func rlFloatAtom(p *float64) string {
	if p == nil {
		return "na"
	}
	s := fmt.Sprint(*p)
	for k, v := range rlStringAtoms {
		if v == s && strings.HasSuffix(k, ".float") {
			return strings.TrimSuffix(k, ".float")
		}
	}
	return "raw:" + s
}

func rlFilt(f *list_j5pb.FilteringConstraint, d *rlDecl) {
	if f == nil {
		return
	}
	d.Filt = rlFlag(f.Filterable)
	d.Dfilt = rlOptionIdx(f.DefaultFilters)
}

func rlSorting(s *list_j5pb.SortingConstraint, d *rlDecl) {
	if s == nil {
		return
	}
	d.Sort = rlFlag(s.Sortable)
	d.Dsort = rlFlag(s.DefaultSort)
}

func rlBlank() rlDecl {
	return rlDecl{Minimum: rlNA, Maximum: rlNA, Xmin: "na", Xmax: "na", MinLength: rlNA, MaxLength: rlNA, Pattern: "na", Const: "na",
		In: []int{}, NotIn: []int{}, MinItems: rlNA, MaxItems: rlNA, Unique: "na", MinPairs: rlNA, MaxPairs: rlNA,
		Desc: "na", Single: "na", Filt: "na", Sort: "na", Dsort: "na", Search: "na", Sident: "na", Dfilt: []int{},
		Ent: "na", Tenant: "na", Flatten: "na", MinProps: rlNA, Sminimum: "na", Smaximum: "na", Fminimum: "na", Fmaximum: "na"}
}

// rlProjectItem fills the item-level attributes of d from a reflected field schema.
func rlProjectItem(f *schema_j5pb.Field, d *rlDecl) error {
	switch t := f.GetType().(type) {
	case *schema_j5pb.Field_String_:
		d.Kind = "string"
		if t.String_.Format != nil {
			d.Kind = "string/" + *t.String_.Format
		}
		if r := t.String_.Rules; r != nil {
			d.MinLength, d.MaxLength, d.Pattern = rlOptU(r.MinLength), rlOptU(r.MaxLength), rlPatternAtom(r.Pattern)
		}
		if s := t.String_.GetListRules().GetSearching(); s != nil {
			d.Search = rlFlag(s.Searchable)
			if s.FieldIdentifier != "" {
				d.Sident = s.FieldIdentifier
			}
		}
	case *schema_j5pb.Field_Integer:
		d.Kind = strings.ToLower(strings.TrimPrefix(t.Integer.Format.String(), "FORMAT_"))
		if r := t.Integer.Rules; r != nil {
			d.Minimum, d.Maximum = rlOptI(r.Minimum), rlOptI(r.Maximum)
			d.Xmin, d.Xmax = rlFlag(r.GetExclusiveMinimum()), rlFlag(r.GetExclusiveMaximum())
		}
		rlFilt(t.Integer.GetListRules().GetFiltering(), d)
		rlSorting(t.Integer.GetListRules().GetSorting(), d)
	case *schema_j5pb.Field_Float:
		d.Kind = strings.ToLower(strings.TrimPrefix(t.Float.Format.String(), "FORMAT_"))
		if r := t.Float.Rules; r != nil {
			d.Fminimum, d.Fmaximum = rlFloatAtom(r.Minimum), rlFloatAtom(r.Maximum)
			d.Xmin, d.Xmax = rlFlag(r.GetExclusiveMinimum()), rlFlag(r.GetExclusiveMaximum())
		}
		rlFilt(t.Float.GetListRules().GetFiltering(), d)
		rlSorting(t.Float.GetListRules().GetSorting(), d)
	case *schema_j5pb.Field_Bool:
		d.Kind = "bool"
		if r := t.Bool.Rules; r != nil && r.Const != nil {
			d.Const = "f"
			if *r.Const {
				d.Const = "t"
			}
		}
		rlFilt(t.Bool.GetListRules().GetFiltering(), d)
	case *schema_j5pb.Field_Bytes:
		d.Kind = "bytes"
		if r := t.Bytes.Rules; r != nil {
			d.MinLength, d.MaxLength = rlOptU(r.MinLength), rlOptU(r.MaxLength)
		}
	case *schema_j5pb.Field_Enum:
		d.Kind = "enum"
		if ref := t.Enum.GetRef(); ref == nil || ref.Schema != "Color" || ref.Package != rlPkg {
			d.Kind = fmt.Sprintf("enum->%s.%s", ref.GetPackage(), ref.GetSchema())
		}
		if r := t.Enum.Rules; r != nil {
			d.In, d.NotIn = rlOptionIdx(r.In), rlOptionIdx(r.NotIn)
		}
		rlFilt(t.Enum.GetListRules().GetFiltering(), d)
	case *schema_j5pb.Field_Key:
		d.Kind = "key"
		switch ft := t.Key.GetFormat().GetType().(type) {
		case *schema_j5pb.KeyFormat_Id62:
			d.Kind = "key_id62"
		case *schema_j5pb.KeyFormat_Uuid:
			d.Kind = "key_uuid"
		case *schema_j5pb.KeyFormat_Custom_:
			d.Kind = "key_custom"
			d.Pattern = rlPatternAtom(&ft.Custom.Pattern)
		}
		if e := t.Key.Entity; e != nil {
			switch et := e.Type.(type) {
			case *schema_j5pb.EntityKey_PrimaryKey:
				if et.PrimaryKey {
					d.Ent = "primary"
				}
			case *schema_j5pb.EntityKey_ForeignKey:
				d.Ent = "foreign"
				if et.ForeignKey.GetPackage() != "other.v1" || et.ForeignKey.GetEntity() != "thing" {
					d.Ent = "foreign:" + et.ForeignKey.GetPackage() + "." + et.ForeignKey.GetEntity()
				}
			}
			if e.TenantKey != nil {
				d.Tenant = *e.TenantKey
			}
		}
		rlFilt(t.Key.GetListRules().GetFiltering(), d)
	case *schema_j5pb.Field_Object:
		d.Kind = "object"
		if ref := t.Object.GetRef(); ref == nil || ref.Schema != "Inner" || ref.Package != rlPkg {
			d.Kind = fmt.Sprintf("object->%s.%s", ref.GetPackage(), ref.GetSchema())
		}
		d.Flatten = rlFlag(t.Object.Flatten)
		if r := t.Object.Rules; r != nil {
			d.MinProps = rlOptU(r.MinProperties)
		}
	case *schema_j5pb.Field_Date:
		d.Kind = "date"
		if r := t.Date.Rules; r != nil {
			d.Sminimum, d.Smaximum = rlStrAtom(r.Minimum, "date"), rlStrAtom(r.Maximum, "date")
			d.Xmin, d.Xmax = rlFlag(r.GetExclusiveMinimum()), rlFlag(r.GetExclusiveMaximum())
		}
		rlFilt(t.Date.GetListRules().GetFiltering(), d)
	case *schema_j5pb.Field_Decimal:
		d.Kind = "decimal"
		if r := t.Decimal.Rules; r != nil {
			d.Sminimum, d.Smaximum = rlStrAtom(r.Minimum, "decimal"), rlStrAtom(r.Maximum, "decimal")
			d.Xmin, d.Xmax = rlFlag(r.GetExclusiveMinimum()), rlFlag(r.GetExclusiveMaximum())
		}
		rlFilt(t.Decimal.GetListRules().GetFiltering(), d)
		rlSorting(t.Decimal.GetListRules().GetSorting(), d)
	case *schema_j5pb.Field_Timestamp:
		d.Kind = "timestamp"
		rlFilt(t.Timestamp.GetListRules().GetFiltering(), d)
		rlSorting(t.Timestamp.GetListRules().GetSorting(), d)
	default:
		return fmt.Errorf("unexpected reflected field type %T", t)
	}
	return nil
}

func rlDescAtom(s string) string {
	if strings.TrimSpace(s) == "" {
		return "na"
	}
	norm := strings.Join(strings.Fields(s), " ")
	for k, lines := range rlDescText {
		if strings.Join(strings.Fields(strings.Join(lines, " ")), " ") == norm {
			return k
		}
	}
	return "raw:" + norm
}

// rlProjectProp projects a reflected object property onto the declaration vocabulary.
func rlProjectProp(p *schema_j5pb.ObjectProperty) (rlDecl, error) {
	d := rlBlank()
	d.Pres = "implicit"
	if p.Required {
		d.Pres = "required"
	} else if p.ExplicitlyOptional {
		d.Pres = "optional"
	}
	if p.Required && p.ExplicitlyOptional {
		d.Pres = "required+optional"
	}
	d.Desc = rlDescAtom(p.Description)
	f := p.Schema
	switch t := f.GetType().(type) {
	case *schema_j5pb.Field_Array:
		d.Card = "array"
		if r := t.Array.Rules; r != nil {
			d.MinItems, d.MaxItems, d.Unique = rlOptU(r.MinItems), rlOptU(r.MaxItems), rlFlag(r.GetUniqueItems())
		}
		if t.Array.Ext != nil && t.Array.Ext.SingleForm != nil {
			d.Single = *t.Array.Ext.SingleForm
		}
		return d, rlProjectItem(t.Array.Items, &d)
	case *schema_j5pb.Field_Map:
		d.Card = "map"
		if r := t.Map.Rules; r != nil {
			d.MinPairs, d.MaxPairs = rlOptU(r.MinPairs), rlOptU(r.MaxPairs)
		}
		if t.Map.Ext != nil && t.Map.Ext.SingleForm != nil {
			d.Single = *t.Map.Ext.SingleForm
		}
		return d, rlProjectItem(t.Map.ItemSchema, &d)
	}
	d.Card = "single"
	return d, rlProjectItem(f, &d)
}

type rlObjProj struct {
	Names  []string
	Paths  [][]int32
	Desc   string
	Prop   rlDecl
	HasSub bool
}

func rlProjectRoot(root *schema_j5pb.RootSchema, subject string) (*rlObjProj, error) {
	obj := root.GetObject()
	if obj == nil {
		return nil, fmt.Errorf("root schema is %T, not an object", root.GetType())
	}
	out := &rlObjProj{Desc: obj.Description}
	for _, p := range obj.Properties {
		out.Names = append(out.Names, p.Name)
		out.Paths = append(out.Paths, p.ProtoField)
		if p.Name == subject || (!out.HasSub && strings.EqualFold(p.Name, subject)) {
			d, err := rlProjectProp(p)
			if err != nil {
				return nil, err
			}
			out.Prop = d
			out.HasSub = true
		}
	}
	return out, nil
}

// rlGuard runs f, converting a panic into an error (the reflection of a compiled declaration must not panic; the
// panic site is part of the signature).
func rlGuard(f func() error) (err error, panicked string) {
	defer func() {
		if r := recover(); r != nil {
			panicked = fmt.Sprint(r)
			err = fmt.Errorf("panic: %v", r)
		}
	}()
	return f(), ""
}

func rlReflectCache(md protoreflect.MessageDescriptor) (*schema_j5pb.RootSchema, error, string) {
	var root *schema_j5pb.RootSchema
	err, pan := rlGuard(func() error {
		rs, err := j5schema.NewSchemaCache().Schema(md)
		if err != nil {
			return err
		}
		if rs == nil {
			return fmt.Errorf("SchemaCache.Schema returned nil, nil")
		}
		root = rs.ToJ5Root()
		return nil
	})
	return root, err, pan
}

func rlRegisterWithDeps(files *protoregistry.Files, fd protoreflect.FileDescriptor) {
	if _, err := files.FindFileByPath(fd.Path()); err == nil {
		return
	}
	imps := fd.Imports()
	for i := 0; i < imps.Len(); i++ {
		rlRegisterWithDeps(files, imps.Get(i).FileDescriptor)
	}
	_ = files.RegisterFile(fd)
}

func rlReflectSet(fd protoreflect.FileDescriptor, msg string) (*schema_j5pb.RootSchema, error, string) {
	var root *schema_j5pb.RootSchema
	err, pan := rlGuard(func() error {
		files := &protoregistry.Files{}
		rlRegisterWithDeps(files, fd)
		ss, err := j5schema.SchemaSetFromFiles(files, func(f protoreflect.FileDescriptor) bool { return f.Path() == fd.Path() })
		if err != nil {
			return err
		}
		rs, err := ss.SchemaByName(string(fd.Package()), msg)
		if err != nil {
			return err
		}
		root = rs.ToJ5Root()
		return nil
	})
	return root, err, pan
}

// rlParseText parses printed .proto text; builtin imports are served from protoregistry.GlobalFiles
// (as internal/protosrc.BuiltinResolver does) and option values are re-typed by a marshal round trip
// (as internal/protosrc.Compiler.Compile does).
func rlParseText(path, text string) (protoreflect.FileDescriptor, error) {
	resolver := protocompile.ResolverFunc(func(p string) (protocompile.SearchResult, error) {
		if p == path {
			return protocompile.SearchResult{Source: strings.NewReader(text)}, nil
		}
		fd, err := protoregistry.GlobalFiles.FindFileByPath(p)
		if err != nil {
			return protocompile.SearchResult{}, err
		}
		return protocompile.SearchResult{Desc: fd}, nil
	})
	comp := protocompile.Compiler{Resolver: resolver, SourceInfoMode: protocompile.SourceInfoExtraComments}
	files, err := comp.Compile(context.Background(), path)
	if err != nil {
		return nil, err
	}
	fdp := protodesc.ToFileDescriptorProto(files[0])
	b, err := proto.Marshal(fdp)
	if err != nil {
		return nil, err
	}
	fdp2 := &descriptorpb.FileDescriptorProto{}
	if err := proto.Unmarshal(b, fdp2); err != nil {
		return nil, err
	}
	return protodesc.NewFile(fdp2, protoregistry.GlobalFiles)
}

func rlSetAttrs(d *rlDecl) []string {
	blank := rlBlank()
	var out []string
	dv, bv := reflect.ValueOf(*d), reflect.ValueOf(blank)
	t := dv.Type()
	for i := 0; i < t.NumField(); i++ {
		name := strings.Split(t.Field(i).Tag.Get("json"), ",")[0]
		if name == "kind" || name == "card" || name == "pres" {
			continue
		}
		if !reflect.DeepEqual(rlNorm(dv.Field(i).Interface()), rlNorm(bv.Field(i).Interface())) {
			out = append(out, name)
		}
	}
	sort.Strings(out)
	return out
}

func rlNorm(v any) any {
	if s, ok := v.([]int); ok && len(s) == 0 {
		return []int(nil)
	}
	return v
}

// rlDiff lists attribute differences between the expected and the real projection as (attr, class, detail).
func rlDiff(exp, got *rlDecl) [][3]string {
	var out [][3]string
	blank := rlBlank()
	ev, gv, bv := reflect.ValueOf(*exp), reflect.ValueOf(*got), reflect.ValueOf(blank)
	t := ev.Type()
	for i := 0; i < t.NumField(); i++ {
		name := strings.Split(t.Field(i).Tag.Get("json"), ",")[0]
		e, g, b := rlNorm(ev.Field(i).Interface()), rlNorm(gv.Field(i).Interface()), rlNorm(bv.Field(i).Interface())
		if reflect.DeepEqual(e, g) {
			continue
		}
		class := "changed"
		switch {
		case name == "kind" || name == "card" || name == "pres":
			class = fmt.Sprintf("%v-became-%v", e, g)
		case reflect.DeepEqual(g, b):
			class = "lost"
		case reflect.DeepEqual(e, b):
			class = "spurious"
		}
		out = append(out, [3]string{name, class, fmt.Sprintf("%s: declared %v, reflected %v", name, e, g)})
	}
	return out
}

var rlAttrJ5s = map[string]string{
	"minimum": "rules.minimum", "maximum": "rules.maximum", "xmin": "rules.exclusiveMinimum", "xmax": "rules.exclusiveMaximum",
	"minLength": "rules.minLength", "maxLength": "rules.maxLength", "pattern": "rules.pattern", "const": "rules.const",
	"in": "rules.in", "notIn": "rules.notIn", "minItems": "rules.minItems", "maxItems": "rules.maxItems", "unique": "rules.uniqueItems",
	"minPairs": "rules.minPairs", "maxPairs": "rules.maxPairs", "desc": "description", "single": "ext.singleForm",
	"filt": "listRules.filtering.filterable", "sort": "listRules.sorting.sortable", "dsort": "listRules.sorting.defaultSort",
	"search": "listRules.searching.searchable", "sident": "listRules.searching.fieldIdentifier", "dfilt": "listRules.filtering.defaultFilters",
	"ent": "entity.key", "tenant": "entity.tenantKey", "flatten": "flatten", "minProps": "rules.minProperties",
	"sminimum": "rules.minimum", "smaximum": "rules.maximum", "fminimum": "rules.minimum", "fmaximum": "rules.maximum",
	"kind": "type", "card": "cardinality", "pres": "presence",
}

// rlReflectSig builds the signature of one attribute difference: scope | fault class | attribute | family | kind.
func rlReflectSig(d *rlDecl, o rlOpts, name, class string) string {
	fam := rlFamily(d.Kind)
	attr := rlAttrJ5s[name]
	scope := "item@" + d.Card
	switch name {
	case "pres", "desc":
		scope = "prop@" + d.Card
	case "card":
		scope = "prop@" + d.Card
		attr, class = class, "cardinality-changed"
	case "kind":
		attr, class = class, "type-changed"
	case "minItems", "maxItems", "unique":
		scope = "array|bare-items"
		if rlItemsConstrained(d) {
			scope = "array|ruled-items"
		}
	case "minPairs", "maxPairs":
		scope = "map"
	case "single":
		scope = d.Card
	case "in", "notIn":
		if !o.EnumNums {
			attr += "(positional-numbers)"
		}
	}
	if name == "pres" {
		attr, class = "presence", class
	}
	return fmt.Sprintf("C04|%s|%s|%s|%s|%s", scope, class, attr, fam, d.Kind)
}

func rlReflectDriver(raw json.RawMessage) *Out {
	var c rlReflectCase
	if err := json.Unmarshal(raw, &c); err != nil {
		return &Out{Skip: "bad case: " + err.Error()}
	}
	d := &c.Decl
	out := &Out{Key: rlDeclKey(d)}
	if c.Opts.EnumNums {
		out.Key += "|enumNums"
	}
	if c.Opts.ZeroPrefixed {
		out.Key += "|zeroPrefixed"
	}
	if c.Opts.OptDesc {
		out.Key += "|optDesc"
	}
	fam := rlFamily(d.Kind)
	where := d.Card + ":" + d.Kind
	set := rlSetAttrs(d)
	var setJ []string
	for _, a := range set {
		setJ = append(setJ, rlAttrJ5s[a])
	}
	setS := strings.Join(setJ, "+")
	if setS == "" {
		setS = "no-rules"
	}
	// the item-level validation rules of the declaration (names a reflect failure)
	var ruleJ []string
	for _, a := range set {
		switch a {
		case "minimum", "maximum", "xmin", "xmax", "minLength", "maxLength", "pattern", "const", "in", "notIn", "minProps",
			"sminimum", "smaximum", "fminimum", "fmaximum":
			ruleJ = append(ruleJ, rlAttrJ5s[a])
		}
	}
	ruleS := strings.Join(ruleJ, "+")
	if ruleS == "" {
		ruleS = setS
	}
	var msgs map[string]protoreflect.MessageDescriptor
	var fd linker.File
	var text string
	err, cpan := rlGuard(func() error {
		var e error
		msgs, fd, text, e = rlCompile([]rlUnit{{Msg: "Subject", Decl: d}}, c.Opts)
		return e
	})
	if cpan != "" {
		// a documented declaration that panics the compiler is property C07's finding; counted, not decided here
		cls := "other"
		if strings.Contains(cpan, "single_form") {
			cls = "ext.singleForm@" + d.Card
		}
		out.Skip = "compile-panic:" + cls
		out.Note = cpan + "\n" + rlFileText([]rlUnit{{Msg: "Subject", Decl: d}}, c.Opts)
		return out
	}
	if err != nil {
		out.Skip = "compile:" + rlCompileErrClass(err)
		out.Note = err.Error() + "\n" + text
		return out
	}
	md := msgs["Subject"]
	if md == nil {
		out.Skip = "compile: no message Subject"
		return out
	}
	out.Nontrivial = len(set) > 0 || d.Pres != "implicit" || d.Card != "single"
	wantNames := []string{rlSubject(c.Opts)}
	wantPaths := [][]int32{{1}}
	if c.Opts.Anchor || c.Opts.Siblings {
		wantNames, wantPaths = nil, nil
		if c.Opts.Anchor {
			wantNames = append(wantNames, "anchor")
		}
		if c.Opts.Siblings {
			wantNames = append(wantNames, rlSiblingNames...)
		}
		wantNames = append(wantNames, rlSubject(c.Opts))
		for i := range wantNames {
			wantPaths = append(wantPaths, []int32{int32(i + 1)})
		}
	}
	projections := map[string]*rlObjProj{}
	evProj := map[string]any{}
	check := func(src string, root *schema_j5pb.RootSchema, rerr error, pan string) {
		if rerr != nil {
			class := "reflect-error"
			if pan != "" {
				class = "reflect-panic"
			}
			out.V(fmt.Sprintf("C04|item@%s|%s|%s|%s|%s|%s", d.Card, class, ruleS, fam, d.Kind, src),
				"reflecting the compiled declaration fails (%s): %v\n%s", src, rerr, text)
			evProj[src] = map[string]any{"error": class}
			return
		}
		proj, err := rlProjectRoot(root, rlSubject(c.Opts))
		if err != nil {
			out.V(fmt.Sprintf("C04|item@%s|reflect-shape|%s|%s|%s|%s", d.Card, setS, fam, d.Kind, src), "%v\n%s", err, text)
			evProj[src] = map[string]any{"error": "shape"}
			return
		}
		projections[src] = proj
		evProj[src] = map[string]any{"prop": proj.Prop, "names": proj.Names}
		if !reflect.DeepEqual(proj.Names, wantNames) {
			out.V(fmt.Sprintf("C04|object|property-names|%s|%s", where, src), "declared properties %v, reflected %v\n%s", wantNames, proj.Names, text)
			return
		}
		if !reflect.DeepEqual(proj.Paths, wantPaths) {
			out.V(fmt.Sprintf("C04|object|proto-field-paths|%s|%s", where, src), "declared field paths %v, reflected %v\n%s", wantPaths, proj.Paths, text)
		}
		for _, df := range rlDiff(&c.Expect, &proj.Prop) {
			sig := rlReflectSig(d, c.Opts, df[0], df[1])
			if rlDriftOnly[df[0]] {
				out.D(sig, "%s (%s)\n%s", df[2], src, text)
			} else {
				out.V(sig, "%s (%s)\n%s", df[2], src, text)
			}
		}
	}
	// "for every ... enum, the schema the source declared": the options of Color in declaration order, numbered by position
	checkEnum := func(src string, f protoreflect.FileDescriptor) {
		if d.Kind != "enum" {
			return
		}
		er, err, _ := rlReflectSet(f, "Color")
		if err != nil || er.GetEnum() == nil {
			return // a reflection failure is reported by check()
		}
		var got, want []string
		for _, o := range er.GetEnum().Options {
			got = append(got, fmt.Sprintf("%s=%d", o.Name, o.Number))
		}
		want = append(want, "UNSPECIFIED=0")
		for i, n := range rlEnumOptions {
			want = append(want, fmt.Sprintf("%s=%d", n, i+1))
		}
		if !reflect.DeepEqual(got, want) {
			out.V(fmt.Sprintf("C04|enum|options|%s", src), "declared options %v, reflected %v (%s)\n%s", want, got, src, text)
		}
	}
	root, rerr, pan := rlReflectCache(md)
	check("memory", root, rerr, pan)
	checkEnum("memory", fd)
	root2, rerr2, pan2 := rlReflectSet(fd, "Subject")
	if rerr2 != nil || rerr != nil {
		if (rerr2 == nil) != (rerr == nil) {
			check("memory-set", root2, rerr2, pan2)
		}
	} else if !proto.Equal(root, root2) {
		out.V(fmt.Sprintf("C04|cache-vs-set|%s|%s", fam, where), "SchemaCache.Schema and SchemaSetFromFiles reflect different schemas\n%s", text)
	}
	// the same schema from the printed .proto text
	printed, perr := printFile(fd)
	if perr != nil {
		out.D("C04|print|error", "%v", perr)
	} else {
		tfd, terr := rlParseText(fd.Path(), printed)
		if terr != nil {
			out.D("C04|text|reparse-error|"+fam, "printed text does not parse (property C05): %v\n%s", terr, printed)
		} else {
			checkEnum("text", tfd)
			root3, rerr3, pan3 := rlReflectSet(tfd, "Subject")
			memProj := projections["memory"]
			nBefore := len(out.Viol)
			check("text", root3, rerr3, pan3)
			if tp := projections["text"]; tp != nil && memProj != nil && reflect.DeepEqual(tp, memProj) {
				// identical to the in-memory reflection: the differences (if any) are already reported once
				out.Viol = out.Viol[:nBefore]
			} else if tp != nil && memProj != nil {
				// keep only what is specific to the text path, marked as such
				var keep []Finding
				memSigs := map[string]bool{}
				for _, v := range out.Viol[:nBefore] {
					memSigs[v.Sig] = true
				}
				for _, v := range out.Viol[nBefore:] {
					if !memSigs[v.Sig] {
						v.Sig = v.Sig + "|text-only"
						keep = append(keep, v)
					}
				}
				// something the memory path got wrong and the text path gets right is also a difference between the two
				textSigs := map[string]bool{}
				for _, v := range out.Viol[nBefore:] {
					textSigs[strings.TrimSuffix(v.Sig, "|text-only")] = true
				}
				out.Viol = append(out.Viol[:nBefore], keep...)
				for _, v := range out.Viol[:nBefore] {
					if !textSigs[v.Sig] && strings.HasPrefix(v.Sig, "C04|") && !strings.HasSuffix(v.Sig, "|memory") {
						out.Note += "memory-only: " + v.Sig + "\n"
					}
				}
			}
		}
	}
	out.Obs = evProj
	out.Events = append(out.Events, map[string]any{"op": "reflect", "decl": d, "expect": c.Expect, "real": evProj})
	return out
}
