package main

import (
	"encoding/json"
	"net/url"

	"github.com/pentops/j5/internal/codec"
	"google.golang.org/protobuf/reflect/protoreflect"
	"google.golang.org/protobuf/types/dynamicpb"
)

func init() { register("shapes-c06", shapesC06Driver) }

// shapes-c06 (C06, "all target message types ... including recursive types"): every message type of a descriptor set of
// the ProtoShapes model is a decoding target; JSON and URL-query decoding of a few documents into it must return
// (success or error). The stack limit is left at the runtime's default: exhausting it is fatal and seen by the
// orchestrator as the death of the worker. Nothing else is judged here (what the schema looks like is C18's subject).
func shapesC06Driver(raw json.RawMessage) *Out {
	var c shCase
	if err := json.Unmarshal(raw, &c); err != nil {
		return &Out{Skip: "bad case: " + err.Error()}
	}
	shNormalise(&c)
	out := &Out{Key: "c06|" + shKey(&c)}
	b, err := shBuild(&c)
	if err != nil {
		out.Skip = "unbuildable: " + err.Error()
		return out
	}
	cc := codec.NewCodec()
	var walk func(mds protoreflect.MessageDescriptors)
	n := 0
	walk = func(mds protoreflect.MessageDescriptors) {
		for i := 0; i < mds.Len(); i++ {
			md := mds.Get(i)
			if md.IsMapEntry() {
				continue
			}
			for _, doc := range []string{`{}`, `{"f1":null}`, `{"f1":{}}`, `{"f1":{"f1":{"f1":{}}}}`, `{"zzz":1}`, `[`, ``} {
				what := "json " + doc + " into " + string(md.FullName())
				wireDecodeGuarded(out, what, doc, func() error { return cc.JSONToProto([]byte(doc), dynamicpb.NewMessage(md)) })
				n++
			}
			for _, q := range []url.Values{{}, {"f1": {"x"}}, {"f1.f1": {"x"}}, {"f1.f1.f1.f1": {"x"}}} {
				q := q
				wireDecodeGuarded(out, "query "+q.Encode()+" into "+string(md.FullName()), q.Encode(),
					func() error { return cc.QueryToProto(q, dynamicpb.NewMessage(md)) })
				n++
			}
			walk(md.Messages())
		}
	}
	walk(b.File.Messages())
	out.Nontrivial = n > 0
	out.Obs = map[string]any{"calls": n}
	return out
}
