module github.com/pentops/j5/internal/bcl/internal/verifh

go 1.24.0

toolchain go1.24.1

require github.com/pentops/j5 v0.0.0

require github.com/google/uuid v1.6.0 // indirect

replace github.com/pentops/j5 => /repo
