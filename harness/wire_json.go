package main

// A strict RFC 8259 reader that keeps what the properties talk about (number vs string lexemes,
// member order, duplicate keys) and a serialiser for the model's abstract JSON trees.

import (
	"fmt"
	"strconv"
	"strings"
	"unicode/utf16"
	"unicode/utf8"
)

// cJ is a concrete JSON value as read from real bytes.
type cJ struct {
	T    string // obj | arr | str | num | bool | null
	Text string // str: decoded value; num: lexeme; bool: true/false
	M    []cKV
	S    []*cJ
}

type cKV struct {
	K string
	V *cJ
}

type wxStrictParser struct {
	b    []byte
	i    int
	dups []string
	deep int
}

func wxStrictParse(b []byte) (*cJ, []string, error) {
	p := &wxStrictParser{b: b}
	p.ws()
	v, err := p.value()
	if err != nil {
		return nil, nil, err
	}
	p.ws()
	if p.i != len(p.b) {
		return nil, nil, fmt.Errorf("trailing bytes at offset %d", p.i)
	}
	return v, p.dups, nil
}

func (p *wxStrictParser) ws() {
	for p.i < len(p.b) {
		switch p.b[p.i] {
		case ' ', '\t', '\n', '\r':
			p.i++
		default:
			return
		}
	}
}

func (p *wxStrictParser) value() (*cJ, error) {
	if p.i >= len(p.b) {
		return nil, fmt.Errorf("unexpected end of input at offset %d", p.i)
	}
	p.deep++
	defer func() { p.deep-- }()
	if p.deep > 5000 {
		return nil, fmt.Errorf("nesting too deep")
	}
	switch c := p.b[p.i]; {
	case c == '{':
		p.i++
		out := &cJ{T: "obj"}
		seen := map[string]bool{}
		p.ws()
		if p.i < len(p.b) && p.b[p.i] == '}' {
			p.i++
			return out, nil
		}
		for {
			p.ws()
			if p.i >= len(p.b) || p.b[p.i] != '"' {
				return nil, fmt.Errorf("expected object key at offset %d", p.i)
			}
			k, err := p.str()
			if err != nil {
				return nil, err
			}
			k = wxKeyIn(k) // back to the model's key atom
			if seen[k] {
				p.dups = append(p.dups, k)
			}
			seen[k] = true
			p.ws()
			if p.i >= len(p.b) || p.b[p.i] != ':' {
				return nil, fmt.Errorf("expected ':' at offset %d", p.i)
			}
			p.i++
			p.ws()
			v, err := p.value()
			if err != nil {
				return nil, err
			}
			out.M = append(out.M, cKV{k, v})
			p.ws()
			if p.i >= len(p.b) {
				return nil, fmt.Errorf("unterminated object")
			}
			if p.b[p.i] == ',' {
				p.i++
				continue
			}
			if p.b[p.i] == '}' {
				p.i++
				return out, nil
			}
			return nil, fmt.Errorf("expected ',' or '}' at offset %d", p.i)
		}
	case c == '[':
		p.i++
		out := &cJ{T: "arr"}
		p.ws()
		if p.i < len(p.b) && p.b[p.i] == ']' {
			p.i++
			return out, nil
		}
		for {
			p.ws()
			v, err := p.value()
			if err != nil {
				return nil, err
			}
			out.S = append(out.S, v)
			p.ws()
			if p.i >= len(p.b) {
				return nil, fmt.Errorf("unterminated array")
			}
			if p.b[p.i] == ',' {
				p.i++
				continue
			}
			if p.b[p.i] == ']' {
				p.i++
				return out, nil
			}
			return nil, fmt.Errorf("expected ',' or ']' at offset %d", p.i)
		}
	case c == '"':
		s, err := p.str()
		if err != nil {
			return nil, err
		}
		return &cJ{T: "str", Text: s}, nil
	case c == 't' && strings.HasPrefix(string(p.b[p.i:]), "true"):
		p.i += 4
		return &cJ{T: "bool", Text: "true"}, nil
	case c == 'f' && strings.HasPrefix(string(p.b[p.i:]), "false"):
		p.i += 5
		return &cJ{T: "bool", Text: "false"}, nil
	case c == 'n' && strings.HasPrefix(string(p.b[p.i:]), "null"):
		p.i += 4
		return &cJ{T: "null"}, nil
	case c == '-' || (c >= '0' && c <= '9'):
		return p.num()
	}
	end := p.i + 12
	if end > len(p.b) {
		end = len(p.b)
	}
	return nil, fmt.Errorf("invalid JSON value at offset %d: %q", p.i, p.b[p.i:end])
}

func (p *wxStrictParser) num() (*cJ, error) {
	st := p.i
	if p.b[p.i] == '-' {
		p.i++
	}
	if p.i >= len(p.b) {
		return nil, fmt.Errorf("bad number at %d", st)
	}
	if p.b[p.i] == '0' {
		p.i++
	} else if p.b[p.i] >= '1' && p.b[p.i] <= '9' {
		for p.i < len(p.b) && p.b[p.i] >= '0' && p.b[p.i] <= '9' {
			p.i++
		}
	} else {
		return nil, fmt.Errorf("bad number at %d", st)
	}
	if p.i < len(p.b) && p.b[p.i] == '.' {
		p.i++
		n := 0
		for p.i < len(p.b) && p.b[p.i] >= '0' && p.b[p.i] <= '9' {
			p.i++
			n++
		}
		if n == 0 {
			return nil, fmt.Errorf("bad number fraction at %d", st)
		}
	}
	if p.i < len(p.b) && (p.b[p.i] == 'e' || p.b[p.i] == 'E') {
		p.i++
		if p.i < len(p.b) && (p.b[p.i] == '+' || p.b[p.i] == '-') {
			p.i++
		}
		n := 0
		for p.i < len(p.b) && p.b[p.i] >= '0' && p.b[p.i] <= '9' {
			p.i++
			n++
		}
		if n == 0 {
			return nil, fmt.Errorf("bad number exponent at %d", st)
		}
	}
	return &cJ{T: "num", Text: string(p.b[st:p.i])}, nil
}

func (p *wxStrictParser) str() (string, error) {
	st := p.i
	p.i++ // opening quote
	var sb strings.Builder
	for {
		if p.i >= len(p.b) {
			return "", fmt.Errorf("unterminated string at %d", st)
		}
		c := p.b[p.i]
		switch {
		case c == '"':
			p.i++
			return sb.String(), nil
		case c < 0x20:
			return "", fmt.Errorf("raw control character 0x%02x in string at %d", c, p.i)
		case c == '\\':
			if p.i+1 >= len(p.b) {
				return "", fmt.Errorf("bad escape at %d", p.i)
			}
			e := p.b[p.i+1]
			p.i += 2
			switch e {
			case '"', '\\', '/':
				sb.WriteByte(e)
			case 'b':
				sb.WriteByte('\b')
			case 'f':
				sb.WriteByte('\f')
			case 'n':
				sb.WriteByte('\n')
			case 'r':
				sb.WriteByte('\r')
			case 't':
				sb.WriteByte('\t')
			case 'u':
				r, err := p.hex4()
				if err != nil {
					return "", err
				}
				if utf16.IsSurrogate(r) {
					if p.i+1 < len(p.b) && p.b[p.i] == '\\' && p.b[p.i+1] == 'u' {
						p.i += 2
						r2, err := p.hex4()
						if err != nil {
							return "", err
						}
						dec := utf16.DecodeRune(r, r2)
						if dec == utf8.RuneError {
							return "", fmt.Errorf("invalid surrogate pair before %d", p.i)
						}
						sb.WriteRune(dec)
					} else {
						return "", fmt.Errorf("lone surrogate before %d", p.i)
					}
				} else {
					sb.WriteRune(r)
				}
			default:
				return "", fmt.Errorf("invalid escape \\%c at %d", e, p.i-2)
			}
		case c < 0x80:
			sb.WriteByte(c)
			p.i++
		default:
			r, n := utf8.DecodeRune(p.b[p.i:])
			if r == utf8.RuneError && n <= 1 {
				return "", fmt.Errorf("invalid UTF-8 in string at %d", p.i)
			}
			sb.WriteRune(r)
			p.i += n
		}
	}
}

func (p *wxStrictParser) hex4() (rune, error) {
	if p.i+4 > len(p.b) {
		return 0, fmt.Errorf("short \\u escape at %d", p.i)
	}
	v, err := strconv.ParseUint(string(p.b[p.i:p.i+4]), 16, 16)
	if err != nil {
		return 0, fmt.Errorf("bad \\u escape at %d", p.i)
	}
	p.i += 4
	return rune(v), nil
}

// ---- serialising a model tree ----

func wxJsonQuote(s string) string {
	var sb strings.Builder
	sb.WriteByte('"')
	for _, r := range s {
		switch {
		case r == '"':
			sb.WriteString(`\"`)
		case r == '\\':
			sb.WriteString(`\\`)
		case r == '\n':
			sb.WriteString(`\n`)
		case r == '\t':
			sb.WriteString(`\t`)
		case r == '\r':
			sb.WriteString(`\r`)
		case r < 0x20 || r == 0x7f:
			fmt.Fprintf(&sb, `\u%04x`, r)
		default:
			sb.WriteRune(r)
		}
	}
	sb.WriteByte('"')
	return sb.String()
}

// wxSerialise renders the abstract tree; ws is "none" | "spaces" | "lines".
func wxSerialise(j *wJ, ws string) (string, error) {
	var sb strings.Builder
	if ws == "lines" {
		sb.WriteString("\n\t ")
	}
	if err := wxSerialiseTo(&sb, j, ws, 0); err != nil {
		return "", err
	}
	if ws == "lines" {
		sb.WriteString(" \r\n")
	}
	return sb.String(), nil
}

func wxSerialiseTo(sb *strings.Builder, j *wJ, ws string, depth int) error {
	sep, colon, open := ",", ":", ""
	switch ws {
	case "spaces":
		sep, colon, open = " , ", " : ", " "
	case "lines":
		sep, colon, open = ",\n"+strings.Repeat("  ", depth+1), ":\t", "\r\n"+strings.Repeat("  ", depth+1)
	}
	switch j.J {
	case "obj":
		sb.WriteString("{" + open)
		for i, kv := range j.M {
			if i > 0 {
				sb.WriteString(sep)
			}
			sb.WriteString(wxJsonQuote(wxKeyOut(kv.K)))
			sb.WriteString(colon)
			if err := wxSerialiseTo(sb, &kv.V, ws, depth+1); err != nil {
				return err
			}
		}
		sb.WriteString(open + "}")
	case "arr":
		sb.WriteString("[" + open)
		for i := range j.S {
			if i > 0 {
				sb.WriteString(sep)
			}
			if err := wxSerialiseTo(sb, &j.S[i], ws, depth+1); err != nil {
				return err
			}
		}
		sb.WriteString(open + "]")
	case "null":
		sb.WriteString("null")
	case "raw":
		sb.WriteString(wireAnyCur)
	case "rawempty":
		sb.WriteString("{}")
	case "str", "num", "bool":
		jt, text, err := wireLexeme(j.Kind, j.A, j.F)
		if err != nil {
			return err
		}
		// the tree's own j decides quoting (a fault may put a number lexeme in quotes or vice versa)
		_ = jt
		if j.J == "str" {
			sb.WriteString(wxJsonQuote(text))
		} else {
			sb.WriteString(text)
		}
	default:
		return fmt.Errorf("cannot serialise node %q", j.J)
	}
	return nil
}

// Map keys of the model ("k1", "k2") are concretised to keys that need JSON escaping (quote, backslash, control
// character, non-ASCII): member names that are user data must be escaped like any string. The bijection is applied
// wherever a model tree meets real data (message building, serialisation, reading real output back).
var wxKeyTable = map[string]string{"k1": "k\"1\\\u00e9\n", "k2": "k2\t/\u0001"}

func wxKeyOut(k string) string {
	if c, ok := wxKeyTable[k]; ok {
		return c
	}
	return k
}

func wxKeyIn(c string) string {
	for k, v := range wxKeyTable {
		if v == c {
			return k
		}
	}
	return c
}
