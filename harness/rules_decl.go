package main

// Properties C04 / C12 (work package "rules"): the abstract field declaration emitted by
// spec/J5Rules.tla, its j5s text, and the compile step shared by the rules-* drivers.
//
// Only documented syntax is printed (DESIGN Appendix A; attribute names are the JSON names of
// proto/j5/j5/schema/v1/schema.proto as mapped by internal/j5s/j5parse/schema.go):
//   field subject ! integer:INT32 { rules.minimum = 2  rules.exclusiveMinimum = true }
//   field subject array:string { rules.minItems = 1  items.string.rules.minLength = 2 }
//   field subject key:custom { format.custom.pattern = "^[a-z]*$" }

import (
	"fmt"
	"sort"
	"strings"

	"github.com/bufbuild/protocompile/linker"
	"google.golang.org/protobuf/reflect/protoreflect"
)

const rlNA = -99
const rlPkg = "rt.v1"
const rlFile = "rt/v1/subject.j5s"

type rlDecl struct {
	Kind string `json:"kind"`
	Card string `json:"card"`
	Pres string `json:"pres"`

	Minimum   int    `json:"minimum"`
	Maximum   int    `json:"maximum"`
	Xmin      string `json:"xmin"`
	Xmax      string `json:"xmax"`
	MinLength int    `json:"minLength"`
	MaxLength int    `json:"maxLength"`
	Pattern   string `json:"pattern"`
	Const     string `json:"const"`
	In        []int  `json:"in"`
	NotIn     []int  `json:"notIn"`
	MinItems  int    `json:"minItems"`
	MaxItems  int    `json:"maxItems"`
	Unique    string `json:"unique"`
	MinPairs  int    `json:"minPairs"`
	MaxPairs  int    `json:"maxPairs"`

	Desc     string `json:"desc"`
	Single   string `json:"single"`
	Filt     string `json:"filt"`
	Sort     string `json:"sort"`
	Dsort    string `json:"dsort"`
	Search   string `json:"search"`
	Sident   string `json:"sident"`
	Dfilt    []int  `json:"dfilt"`
	Ent      string `json:"ent"`
	Tenant   string `json:"tenant"`
	Flatten  string `json:"flatten"`
	MinProps int    `json:"minProps"`
	Sminimum string `json:"sminimum"`
	Smaximum string `json:"smaximum"`
	Fminimum string `json:"fminimum"`
	Fmaximum string `json:"fmaximum"`
}

// rlOpts are free choices of the concretiser that the properties quantify over implicitly.
type rlOpts struct {
	Anchor   bool `json:"anchor"`   // add a `key:id62` sibling (brings buf/validate + j5 ext imports in: C07 work-around)
	MarkForm bool `json:"markForm"` // presence as `!` / `?` mark instead of `required = true` in the body
	EnumNums bool `json:"enumNums"` // enum options carry explicit `number = i`
	// Siblings: the message also holds required keys of both formats, a flattened object, a ruled timestamp and a
	// unique array BEFORE the subject: whatever the compiler shares between fields of one kind must not leak into the subject
	Siblings     bool `json:"siblings"`
	ZeroPrefixed bool `json:"zeroPrefixed"` // the enum declares its zero option explicitly, spelled with the prefix (COLOR_UNSPECIFIED)
	AcroName     bool `json:"acroName"`     // the subject property is spelled subjectID (proto subject_id): the JSON name is the declared one
	// ListRepeat: an enum `in` / `notIn` list names its first option twice, the second time as written ("same") or with the
	// enum's prefix ("prefixed": ALPHA and COLOR_ALPHA are one option); the list denotes the same set of options
	ListRepeat string `json:"listRepeat"`
	// OptDesc: the first declared option of the enum carries a description, the others none (a comment in the generated
	// file between elements without one)
	OptDesc bool `json:"optDesc"`
}

// rlListRepeat is the ListRepeat choice of the case being printed (the drivers are sequential)
var rlListRepeat string

// rlSubject is the declared name of the subject property
func rlSubject(o rlOpts) string {
	if o.AcroName {
		return "subjectID"
	}
	return "subject"
}

var rlEnumOptions = []string{"ALPHA", "BRAVO", "CHARLIE"} // option i has number i (1-based); 0 = COLOR_UNSPECIFIED

var rlPatterns = map[string]string{
	"lower": `^[a-z]*$`,
	"digit": `^[0-9]+$`,
}

var rlStringAtoms = map[string]string{
	"lowval.date": "2020-01-02", "highval.date": "2030-11-30",
	"lowval.decimal": "1.5", "highval.decimal": "100.25",
	"lowval.float": "1.5", "highval.float": "100.25",
}

func rlIsInt(k string) bool {
	return k == "int32" || k == "int64" || k == "uint32" || k == "uint64"
}
func rlIsKey(k string) bool { return strings.HasPrefix(k, "key") }

// family groups kinds for signatures
func rlFamily(k string) string {
	switch {
	case rlIsInt(k):
		return "integer"
	case rlIsKey(k):
		return "key"
	case k == "float32" || k == "float64":
		return "float"
	}
	return k
}

// rlTypeSpelling is the j5s type expression of the item kind and the BCL name of its schema block.
func rlTypeSpelling(k string) (typ, block string) {
	switch k {
	case "int32", "int64", "uint32", "uint64":
		return "integer:" + strings.ToUpper(k), "integer"
	case "float32", "float64":
		return "float:" + strings.ToUpper(k), "float"
	case "enum":
		return "enum:Color", "enum"
	case "object":
		return "object:Inner", "object"
	case "key":
		return "key", "key"
	case "key_id62":
		return "key:id62", "key"
	case "key_uuid":
		return "key:uuid", "key"
	case "key_custom":
		return "key:custom", "key"
	}
	return k, k
}

func rlBoolLit(f string) string {
	if f == "t" {
		return "true"
	}
	return "false"
}

func rlNames(idx []int) string {
	var out []string
	for k, i := range idx {
		name := ""
		if i == 0 {
			name = "UNSPECIFIED" // the explicitly declared zero option
		}
		if i >= 1 && i <= len(rlEnumOptions) {
			name = rlEnumOptions[i-1]
		}
		if name == "" {
			continue
		}
		out = append(out, fmt.Sprintf("%q", name))
		if k == 0 && rlListRepeat == "same" {
			out = append(out, fmt.Sprintf("%q", name))
		}
		if k == 0 && rlListRepeat == "prefixed" {
			out = append(out, fmt.Sprintf("%q", "COLOR_"+name))
		}
	}
	return "[" + strings.Join(out, ", ") + "]"
}

// rlItemAttrs lists `path = value` lines of the item-level attributes, relative to the item's schema block.
func rlItemAttrs(d *rlDecl) []string {
	var a []string
	add := func(path, val string) { a = append(a, path+" = "+val) }
	if d.Kind == "key_custom" {
		add("format.custom.pattern", fmt.Sprintf("%q", rlPatterns[d.Pattern]))
	}
	if rlIsInt(d.Kind) {
		if d.Minimum != rlNA {
			add("rules.minimum", fmt.Sprint(d.Minimum))
		}
		if d.Maximum != rlNA {
			add("rules.maximum", fmt.Sprint(d.Maximum))
		}
	}
	fam := rlFamily(d.Kind)
	if d.Sminimum != "na" {
		add("rules.minimum", fmt.Sprintf("%q", rlStringAtoms[d.Sminimum+"."+d.Kind]))
	}
	if d.Smaximum != "na" {
		add("rules.maximum", fmt.Sprintf("%q", rlStringAtoms[d.Smaximum+"."+d.Kind]))
	}
	if d.Fminimum != "na" {
		add("rules.minimum", rlStringAtoms[d.Fminimum+"."+fam])
	}
	if d.Fmaximum != "na" {
		add("rules.maximum", rlStringAtoms[d.Fmaximum+"."+fam])
	}
	if d.Xmin != "na" {
		add("rules.exclusiveMinimum", rlBoolLit(d.Xmin))
	}
	if d.Xmax != "na" {
		add("rules.exclusiveMaximum", rlBoolLit(d.Xmax))
	}
	if d.MinLength != rlNA {
		add("rules.minLength", fmt.Sprint(d.MinLength))
	}
	if d.MaxLength != rlNA {
		add("rules.maxLength", fmt.Sprint(d.MaxLength))
	}
	if d.Kind == "string" && d.Pattern != "na" {
		add("rules.pattern", fmt.Sprintf("%q", rlPatterns[d.Pattern]))
	}
	if d.Const != "na" {
		add("rules.const", rlBoolLit(d.Const))
	}
	if len(d.In) > 0 {
		add("rules.in", rlNames(d.In))
	}
	if len(d.NotIn) > 0 {
		add("rules.notIn", rlNames(d.NotIn))
	}
	if d.MinProps != rlNA {
		add("rules.minProperties", fmt.Sprint(d.MinProps))
	}
	if d.Flatten != "na" {
		add("flatten", rlBoolLit(d.Flatten))
	}
	// list rules
	if d.Filt != "na" {
		add("listRules.filtering.filterable", rlBoolLit(d.Filt))
	}
	if len(d.Dfilt) > 0 {
		add("listRules.filtering.defaultFilters", rlNames(d.Dfilt))
	}
	if d.Sort != "na" {
		add("listRules.sorting.sortable", rlBoolLit(d.Sort))
	}
	if d.Dsort != "na" {
		add("listRules.sorting.defaultSort", rlBoolLit(d.Dsort))
	}
	if d.Search != "na" {
		add("listRules.searching.searchable", rlBoolLit(d.Search))
	}
	if d.Sident != "na" {
		add("listRules.searching.fieldIdentifier", fmt.Sprintf("%q", d.Sident))
	}
	// entity key annotations
	switch d.Ent {
	case "primary":
		add("entity.primaryKey", "true")
	case "notprimary":
		add("entity.primaryKey", "false")
	case "foreign":
		add("foreign", "other.v1.thing")
	}
	if d.Tenant != "na" {
		add("entity.tenantKey", fmt.Sprintf("%q", d.Tenant))
	}
	return a
}

var rlDescText = map[string][]string{
	"one":   {"The subject of the declaration."},
	"multi": {"The subject of the declaration,", "described on two lines."},
	"para":  {"The subject of the declaration.", "", "A second paragraph after an empty line."},
}

// rlFieldText prints one `field` declaration.
func rlFieldText(name string, d *rlDecl, o rlOpts, indent string) string {
	typ, block := rlTypeSpelling(d.Kind)
	var lines []string
	head := "field " + name + " "
	mark := ""
	if o.MarkForm {
		switch d.Pres {
		case "required":
			mark = "! "
		case "optional":
			mark = "? "
		}
	}
	var body []string
	if !o.MarkForm {
		switch d.Pres {
		case "required":
			body = append(body, "required = true")
		case "optional":
			body = append(body, "optional = true")
		}
	}
	for _, l := range rlDescText[d.Desc] {
		if l == "" {
			body = append(body, "|")
			continue
		}
		body = append(body, "| "+l)
	}
	item := rlItemAttrs(d)
	switch d.Card {
	case "single":
		head += mark + typ
		body = append(body, item...)
	case "array":
		head += mark + "array:" + typ
		if d.MinItems != rlNA {
			body = append(body, "rules.minItems = "+fmt.Sprint(d.MinItems))
		}
		if d.MaxItems != rlNA {
			body = append(body, "rules.maxItems = "+fmt.Sprint(d.MaxItems))
		}
		if d.Unique != "na" {
			body = append(body, "rules.uniqueItems = "+rlBoolLit(d.Unique))
		}
		if d.Single != "na" {
			body = append(body, fmt.Sprintf("ext.singleForm = %q", d.Single))
		}
		for _, l := range item {
			body = append(body, "items."+block+"."+l)
		}
	case "map":
		head += mark + "map:" + typ
		if d.MinPairs != rlNA {
			body = append(body, "rules.minPairs = "+fmt.Sprint(d.MinPairs))
		}
		if d.MaxPairs != rlNA {
			body = append(body, "rules.maxPairs = "+fmt.Sprint(d.MaxPairs))
		}
		if d.Single != "na" {
			body = append(body, fmt.Sprintf("ext.singleForm = %q", d.Single))
		}
		for _, l := range item {
			body = append(body, "itemSchema."+block+"."+l)
		}
	}
	if len(body) == 0 {
		return indent + head + "\n"
	}
	lines = append(lines, indent+head+" {")
	for _, b := range body {
		lines = append(lines, indent+"  "+b)
	}
	lines = append(lines, indent+"}")
	return strings.Join(lines, "\n") + "\n"
}

// the sibling fields of rlOpts.Siblings, with the names and proto field paths they occupy
const rlSiblingText = "  field sibKey ! key:id62\n\n  field sibUuid ! key:uuid\n\n  field sibFlat object:SibInner {\n    flatten = true\n  }\n\n" +
	"  field sibWhen ! timestamp {\n    rules.exclusiveMinimum = true\n  }\n\n  field sibTags ! array:string {\n    rules.uniqueItems = true\n    rules.minItems = 1\n  }\n\n" +
	// an inline enum whose derived type name, Subject.Color, is the name of the top-level enum the subject may refer to
	"  field color enum {\n    option DARK\n    option LIGHT\n  }\n\n"

var rlSiblingNames = []string{"sibKey", "sibUuid", "sibFlat", "sibWhen", "sibTags", "color"}

// rlUnit is one compiled declaration: object <Msg> { [anchor] subject }.
type rlUnit struct {
	Msg  string
	Decl *rlDecl
}

// rlFileText prints a whole j5s file holding one object per unit plus the shared enum / inner object.
func rlFileText(units []rlUnit, o rlOpts) string {
	var sb strings.Builder
	sb.WriteString("package " + rlPkg + "\n\n")
	usesEnum, usesObj, zeroNamed, usesSib := false, false, false, false
	for _, u := range units {
		sb.WriteString("object " + u.Msg + " {\n")
		if o.Anchor {
			sb.WriteString("  field anchor key:id62\n\n")
		}
		if o.Siblings {
			sb.WriteString(rlSiblingText)
			usesSib = true
		}
		sb.WriteString(rlFieldText(rlSubject(o), u.Decl, o, "  "))
		sb.WriteString("}\n\n")
		usesEnum = usesEnum || u.Decl.Kind == "enum"
		for _, l := range [][]int{u.Decl.In, u.Decl.NotIn, u.Decl.Dfilt} {
			for _, i := range l {
				zeroNamed = zeroNamed || i == 0
			}
		}
		usesObj = usesObj || u.Decl.Kind == "object"
	}
	if usesEnum {
		sb.WriteString("enum Color {\n")
		if o.ZeroPrefixed {
			// ... also under its full name, as in a schema ported from protobuf
			sb.WriteString("  option COLOR_UNSPECIFIED\n")
		} else if zeroNamed {
			// R "Enum": the zero value may be "explicitly included (as UNSPECIFIED)"; needed to name it in a rule
			sb.WriteString("  option UNSPECIFIED\n")
		}
		for i, n := range rlEnumOptions {
			if o.OptDesc && i == 0 {
				sb.WriteString("  option " + n + " {\n    | the first colour\n  }\n")
			} else if o.EnumNums {
				sb.WriteString(fmt.Sprintf("  option %s {\n    number = %d\n  }\n", n, i+1))
			} else {
				sb.WriteString("  option " + n + "\n")
			}
		}
		sb.WriteString("}\n\n")
	}
	if usesSib {
		sb.WriteString("object SibInner {\n  field sibInnerName string\n}\n\n")
	}
	if usesObj {
		sb.WriteString("object Inner {\n  field innerName string\n  field innerCount integer:INT32\n}\n\n")
	}
	return sb.String()
}

// rlCompile compiles the units in one in-memory package; returns message descriptors by name and printed text.
func rlCompile(units []rlUnit, o rlOpts) (map[string]protoreflect.MessageDescriptor, linker.File, string, error) {
	rlListRepeat = o.ListRepeat
	text := rlFileText(units, o)
	rlListRepeat = ""
	res, _, err := compileBundle(newMemFiles(map[string]string{rlFile: text}), nil)
	if err != nil {
		return nil, nil, text, err
	}
	out := map[string]protoreflect.MessageDescriptor{}
	var fd linker.File
	for _, files := range res {
		for _, f := range files {
			fd = f
			msgs := f.Messages()
			for i := 0; i < msgs.Len(); i++ {
				out[string(msgs.Get(i).Name())] = msgs.Get(i)
			}
		}
	}
	return out, fd, text, nil
}

// rlRuleSummary renders the declared rule group an attribute belongs to, with the state of its flag,
// e.g. "maximum,xmax=t" (used in signatures so that each inclusivity state is its own finding).
func rlRuleSummary(d *rlDecl, attr string) string {
	switch attr {
	case "minimum", "xmin":
		s := "minimum"
		if d.Xmin != "na" {
			s += ",exclusiveMinimum=" + rlBoolLit(d.Xmin)
		}
		return s
	case "maximum", "xmax":
		s := "maximum"
		if d.Xmax != "na" {
			s += ",exclusiveMaximum=" + rlBoolLit(d.Xmax)
		}
		return s
	case "unique":
		return "uniqueItems"
	case "pres":
		return "required"
	}
	return attr
}

func rlSortedJoin(xs []string) string {
	sort.Strings(xs)
	return strings.Join(xs, "+")
}
