package main

// C10: concurrent use of one codec / schema cache.
//
//   c10attack  forces a schedule derived by TLC from spec/SchemaCache.tla (Guard = "none") on the real
//              code, using the verifAt hooks as scheduler gates, and compares every call's result with the
//              result of the same call on a private codec.
//   c10stress  free-running goroutines on one shared codec (built with -race by the orchestrator), results
//              compared with sequential results; hook events are logged with a global sequence number for
//              trace validation against the guarded specification.

import (
	"bytes"
	"encoding/json"
	"fmt"
	"math/rand"
	"net/url"
	"runtime"
	"sort"
	"strconv"
	"strings"
	"sync"
	"sync/atomic"
	"time"

	"github.com/pentops/j5/gen/j5/ext/v1/ext_j5pb"
	"github.com/pentops/j5/gen/test/schema/v1/schema_testpb"
	"github.com/pentops/j5/internal/codec"
	"github.com/pentops/j5/j5types/any_j5t"
	"github.com/pentops/j5/lib/j5schema"
	"google.golang.org/protobuf/encoding/protojson"
	"google.golang.org/protobuf/proto"
	"google.golang.org/protobuf/reflect/protodesc"
	"google.golang.org/protobuf/reflect/protoreflect"
	"google.golang.org/protobuf/reflect/protoregistry"
	"google.golang.org/protobuf/types/descriptorpb"
	"google.golang.org/protobuf/types/dynamicpb"
	"google.golang.org/protobuf/types/known/anypb"
)

type c10Type struct {
	Pkg      string   `json:"pkg"`
	Children []string `json:"children"`
	SelfFlat bool     `json:"selfflat"` // the field to the type itself is flattened: the schema builds but is rejected (Invalid)
}

type c10Case struct {
	Graph map[string]c10Type  `json:"graph"`
	Calls map[string][]string `json:"calls"` // proc -> root types
	Hist  [][]string          `json:"hist"`  // forced schedule: [proc, label, key]
	// stress
	Goroutines int    `json:"goroutines"`
	Mix        string `json:"mix"` // c10rich: "" = encode / decode / query at random, "dec" = decodes only
	PerG       int    `json:"per_g"`
	Seed       int64  `json:"seed"`
	Warm       bool   `json:"warm"`
	Global     bool   `json:"global"`
	Log        bool   `json:"log"`
	// Enums (stress only): every message type also has a long repeated field of an enum that all types of its package
	// share - a sub-schema that is referred to, not owned, by each of them
	Enums bool `json:"enums"`
}

var c10WithEnums bool

// buildGraphTypes makes one proto file per package with a message per type:
//
//	message T { string name = 1; <Child> f_<child> = 2..; repeated T2 ... }
func buildGraphTypes(graph map[string]c10Type) (map[string]protoreflect.MessageDescriptor, error) {
	byPkg := map[string][]string{}
	for t, d := range graph {
		byPkg[d.Pkg] = append(byPkg[d.Pkg], t)
	}
	var pkgs []string
	for p := range byPkg {
		sort.Strings(byPkg[p])
		pkgs = append(pkgs, p)
	}
	sort.Strings(pkgs)
	fileOf := func(p string) string { return strings.ReplaceAll(p, ".", "/") + "/types.proto" }
	var fds []*descriptorpb.FileDescriptorProto
	for _, p := range pkgs {
		fd := &descriptorpb.FileDescriptorProto{
			Name:    proto.String(fileOf(p)),
			Package: proto.String(p),
			Syntax:  proto.String("proto3"),
		}
		deps := map[string]bool{}
		for _, t := range byPkg[p] {
			msg := &descriptorpb.DescriptorProto{Name: proto.String(t)}
			msg.Field = append(msg.Field, &descriptorpb.FieldDescriptorProto{
				Name: proto.String("name"), JsonName: proto.String("name"), Number: proto.Int32(1),
				Type:  descriptorpb.FieldDescriptorProto_TYPE_STRING.Enum(),
				Label: descriptorpb.FieldDescriptorProto_LABEL_OPTIONAL.Enum(),
			})
			for i, c := range graph[t].Children {
				cp := graph[c].Pkg
				if cp != p {
					deps[fileOf(cp)] = true
				}
				label := descriptorpb.FieldDescriptorProto_LABEL_OPTIONAL
				if i%2 == 1 {
					label = descriptorpb.FieldDescriptorProto_LABEL_REPEATED
				}
				fname := "f" + strconv.Itoa(i) + strings.ToLower(c)
				fdp := &descriptorpb.FieldDescriptorProto{
					Name: proto.String(fname), JsonName: proto.String(fname), Number: proto.Int32(int32(i + 2)),
					Type:     descriptorpb.FieldDescriptorProto_TYPE_MESSAGE.Enum(),
					TypeName: proto.String("." + cp + "." + c),
					Label:    label.Enum(),
				}
				if graph[t].SelfFlat && c == t {
					fdp.Label = descriptorpb.FieldDescriptorProto_LABEL_OPTIONAL.Enum()
					fdp.Options = &descriptorpb.FieldOptions{}
					proto.SetExtension(fdp.Options, ext_j5pb.E_Field, &ext_j5pb.FieldOptions{
						Type: &ext_j5pb.FieldOptions_Object{Object: &ext_j5pb.ObjectField{Flatten: true}},
					})
					deps["j5/ext/v1/annotations.proto"] = true
				}
				msg.Field = append(msg.Field, fdp)
			}
			if c10WithEnums {
				msg.Field = append(msg.Field, &descriptorpb.FieldDescriptorProto{
					Name: proto.String("shades"), JsonName: proto.String("shades"), Number: proto.Int32(100),
					Type:     descriptorpb.FieldDescriptorProto_TYPE_ENUM.Enum(),
					TypeName: proto.String("." + p + ".Shade"),
					Label:    descriptorpb.FieldDescriptorProto_LABEL_REPEATED.Enum(),
				})
			}
			fd.MessageType = append(fd.MessageType, msg)
		}
		if c10WithEnums {
			fd.EnumType = append(fd.EnumType, &descriptorpb.EnumDescriptorProto{Name: proto.String("Shade"), Value: []*descriptorpb.EnumValueDescriptorProto{
				{Name: proto.String("SHADE_UNSPECIFIED"), Number: proto.Int32(0)},
				{Name: proto.String("SHADE_DARK"), Number: proto.Int32(1)},
				{Name: proto.String("SHADE_LIGHT"), Number: proto.Int32(2)},
			}})
		}
		for d := range deps {
			fd.Dependency = append(fd.Dependency, d)
		}
		sort.Strings(fd.Dependency)
		fds = append(fds, fd)
	}
	// annotation files come from the global registry, with everything they import
	seenDep := map[string]bool{}
	var addDep func(path string) error
	addDep = func(path string) error {
		if seenDep[path] {
			return nil
		}
		seenDep[path] = true
		gf, err := protoregistry.GlobalFiles.FindFileByPath(path)
		if err != nil {
			return err
		}
		imps := gf.Imports()
		for i := 0; i < imps.Len(); i++ {
			if err := addDep(imps.Get(i).Path()); err != nil {
				return err
			}
		}
		fds = append(fds, protodesc.ToFileDescriptorProto(gf))
		return nil
	}
	own := map[string]bool{}
	for _, fd := range fds {
		own[fd.GetName()] = true
	}
	for _, fd := range append([]*descriptorpb.FileDescriptorProto{}, fds...) {
		for _, d := range fd.Dependency {
			if !own[d] {
				if err := addDep(d); err != nil {
					return nil, err
				}
			}
		}
	}
	files, err := protodesc.NewFiles(&descriptorpb.FileDescriptorSet{File: fds})
	if err != nil {
		return nil, err
	}
	out := map[string]protoreflect.MessageDescriptor{}
	for t, d := range graph {
		desc, err := files.FindDescriptorByName(protoreflect.FullName(d.Pkg + "." + t))
		if err != nil {
			return nil, err
		}
		out[t] = desc.(protoreflect.MessageDescriptor)
	}
	_ = protoregistry.GlobalFiles
	return out, nil
}

// populate fills a dynamic message to the given depth.
func populate(md protoreflect.MessageDescriptor, depth int, tag string) *dynamicpb.Message {
	m := dynamicpb.NewMessage(md)
	fields := md.Fields()
	for i := 0; i < fields.Len(); i++ {
		f := fields.Get(i)
		switch {
		case f.Kind() == protoreflect.StringKind:
			m.Set(f, protoreflect.ValueOfString(tag+"-"+string(md.Name())))
		case f.Kind() == protoreflect.EnumKind && f.IsList():
			l := m.Mutable(f).List()
			for k := 0; k < 400; k++ {
				l.Append(protoreflect.ValueOfEnum(protoreflect.EnumNumber(1 + k%2)))
			}
		case f.Kind() == protoreflect.MessageKind && depth > 0:
			if f.IsList() {
				l := m.Mutable(f).List()
				l.Append(protoreflect.ValueOfMessage(populate(f.Message(), depth-1, tag+"a")))
				l.Append(protoreflect.ValueOfMessage(populate(f.Message(), depth-1, tag+"b")))
			} else {
				m.Set(f, protoreflect.ValueOfMessage(populate(f.Message(), depth-1, tag)))
			}
		}
	}
	return m
}

// one call of the public API on a codec; the result is rendered as a string for comparison
func c10Call(cc *codec.Codec, kind int, md protoreflect.MessageDescriptor, tag string) (res string) {
	return c10Do(cc, kind, md, tag, c10Prepare(kind, md, tag))
}

// c10Prepare computes the input of a decode call with a private codec (call it outside hooked goroutines)
func c10Prepare(kind int, md protoreflect.MessageDescriptor, tag string) []byte {
	if kind%3 != 1 {
		return nil
	}
	b, err := codec.NewCodec().ProtoToJSON(populate(md, 2, tag))
	if err != nil {
		return []byte("setup-err: " + err.Error())
	}
	return b
}

func c10Do(cc *codec.Codec, kind int, md protoreflect.MessageDescriptor, tag string, payload []byte) (res string) {
	defer func() {
		if r := recover(); r != nil {
			res = fmt.Sprintf("PANIC: %v", r)
		}
	}()
	switch kind % 3 {
	case 0:
		b, err := cc.ProtoToJSON(populate(md, 2, tag))
		if err != nil {
			return "enc-err: " + err.Error()
		}
		return "enc: " + canonJSON(b)
	case 1:
		// decode what a private codec encoded
		m := dynamicpb.NewMessage(md)
		if err := cc.JSONToProto(payload, m); err != nil {
			return "dec-err: " + err.Error()
		}
		out, _ := proto.MarshalOptions{Deterministic: true}.Marshal(m)
		return fmt.Sprintf("dec: %x", out)
	default:
		m := dynamicpb.NewMessage(md)
		if err := cc.QueryToProto(url.Values{"name": []string{tag}}, m); err != nil {
			return "query-err: " + err.Error()
		}
		out, _ := proto.MarshalOptions{Deterministic: true}.Marshal(m)
		return fmt.Sprintf("query: %x", out)
	}
}

func canonJSON(b []byte) string {
	var v any
	d := json.NewDecoder(bytes.NewReader(b))
	d.UseNumber()
	if err := d.Decode(&v); err != nil {
		return "INVALID-JSON " + string(b)
	}
	o, _ := json.Marshal(v)
	return string(o)
}

func goid() int64 {
	var buf [64]byte
	n := runtime.Stack(buf[:], false)
	// "goroutine 123 ["
	s := string(buf[:n])
	s = strings.TrimPrefix(s, "goroutine ")
	if i := strings.IndexByte(s, ' '); i > 0 {
		id, _ := strconv.ParseInt(s[:i], 10, 64)
		return id
	}
	return -1
}

type arrival struct {
	proc, point, key string
}

func init() {
	register("c10attack", c10Attack)
	register("c10stress", c10Stress)
}

func c10Attack(raw json.RawMessage) *Out {
	var c c10Case
	if err := json.Unmarshal(raw, &c); err != nil {
		return &Out{Skip: "bad case: " + err.Error()}
	}
	out := &Out{Nontrivial: true}
	types, err := buildGraphTypes(c.Graph)
	if err != nil {
		return &Out{Skip: "cannot build types: " + err.Error()}
	}
	var procs []string
	for p := range c.Calls {
		procs = append(procs, p)
	}
	sort.Strings(procs)

	// sequential reference: every call alone on a private codec
	expect := map[string][]string{}
	for _, p := range procs {
		for i, t := range c.Calls[p] {
			expect[p] = append(expect[p], c10Call(codec.NewCodec(), callKind(p, i), types[t], p))
		}
	}

	payload := map[string][][]byte{}
	for _, p := range procs {
		for i, t := range c.Calls[p] {
			payload[p] = append(payload[p], c10Prepare(callKind(p, i), types[t], p))
		}
	}
	shared := codec.NewCodec()
	var free atomic.Bool
	gid := sync.Map{} // goroutine id -> proc
	arrive := make(chan arrival, 64)
	gates := map[string]chan struct{}{}
	done := make(chan string, len(procs))
	got := map[string][]string{}
	var gotMu sync.Mutex
	for _, p := range procs {
		gates[p] = make(chan struct{}, 1)
	}
	j5schema.VerifHook = func(point, key string) {
		if free.Load() {
			return
		}
		pv, ok := gid.Load(goid())
		if !ok {
			return
		}
		p := pv.(string)
		arrive <- arrival{p, point, key}
		<-gates[p]
	}
	defer func() { j5schema.VerifHook = nil }()

	for _, p := range procs {
		p := p
		go func() {
			gid.Store(goid(), p)
			for i, t := range c.Calls[p] {
				r := c10Do(shared, callKind(p, i), types[t], p, payload[p][i])
				gotMu.Lock()
				got[p] = append(got[p], r)
				gotMu.Unlock()
			}
			done <- p
		}()
	}

	pending := map[string]*arrival{}
	finished := map[string]bool{}
	const stepBudget = 150 * time.Millisecond
	// wait until p is parked at a hook or has finished; false on timeout
	waitFor := func(p string, d time.Duration) bool {
		deadline := time.After(d)
		for pending[p] == nil && !finished[p] {
			select {
			case a := <-arrive:
				aa := a
				pending[a.proc] = &aa
			case q := <-done:
				finished[q] = true
			case <-deadline:
				return false
			}
		}
		return true
	}
	forced, feasible, conform := 0, true, true
	why := ""
	for _, p := range procs {
		if !waitFor(p, 5*time.Second) {
			feasible = false
			why = "goroutine " + p + " did not reach its first hook"
		}
	}
	if feasible {
		for _, st := range c.Hist {
			p, label, key := st[0], st[1], st[2]
			if !waitFor(p, stepBudget) {
				feasible = false
				why = fmt.Sprintf("step %d: %s cannot reach %s(%s): blocked (lock held by another goroutine)", forced, p, label, key)
				break
			}
			if finished[p] || pending[p] == nil {
				conform = false
				why = fmt.Sprintf("step %d: %s already finished, model expects %s(%s)", forced, p, label, key)
				break
			}
			if pending[p].point != label || pending[p].key != key {
				conform = false
				why = fmt.Sprintf("step %d: %s is at %s(%s), model expects %s(%s)", forced, p, pending[p].point, pending[p].key, label, key)
				break
			}
			pending[p] = nil
			gates[p] <- struct{}{}
			forced++
			// let the segment complete before the next step is taken
			if !waitFor(p, stepBudget) {
				feasible = false
				why = fmt.Sprintf("after step %d: %s blocked inside %s(%s)", forced, p, label, key)
				break
			}
		}
	}
	// free run
	free.Store(true)
	for _, p := range procs {
		select {
		case gates[p] <- struct{}{}:
		default:
		}
	}
	deadline := time.After(20 * time.Second)
	for len(finished) < len(procs) {
		select {
		case a := <-arrive:
			select {
			case gates[a.proc] <- struct{}{}:
			default:
			}
		case q := <-done:
			finished[q] = true
		case <-deadline:
			out.V("C10|deadlock", "goroutines did not finish within 20s after schedule %v", c.Hist)
			out.Obs = map[string]any{"feasible": feasible, "forced": forced, "why": why}
			return out
		}
	}
	gotMu.Lock()
	defer gotMu.Unlock()
	for _, p := range procs {
		for i := range expect[p] {
			g := "<missing>"
			if i < len(got[p]) {
				g = got[p][i]
			}
			if g != expect[p][i] {
				kind := "result"
				if strings.HasPrefix(g, "PANIC") {
					kind = "panic"
				} else if strings.Contains(g, "-err") {
					kind = "error"
				}
				out.V("C10|schedule|"+kind, "forced schedule (%d of %d steps realised) makes %s call %d on %s return %.200q; alone it returns %.200q",
					forced, len(c.Hist), p, i, c.Calls[p][i], g, expect[p][i])
			}
		}
	}
	if !conform {
		out.D("C10|schedule-nonconforming", "%s", why)
	}
	out.Obs = map[string]any{"feasible": feasible, "forced": forced, "steps": len(c.Hist), "conform": conform, "why": why}
	out.Key = fmt.Sprintf("%v", c.Hist)
	return out
}

func callKind(p string, i int) int {
	h := 0
	for _, ch := range p {
		h = h*31 + int(ch)
	}
	return (h + i) % 3
}

type c10Event struct {
	Seq   int    `json:"seq"`
	G     string `json:"g"`
	Point string `json:"point"`
	Key   string `json:"key"`
}

func c10Stress(raw json.RawMessage) *Out {
	var c c10Case
	if err := json.Unmarshal(raw, &c); err != nil {
		return &Out{Skip: "bad case: " + err.Error()}
	}
	out := &Out{Nontrivial: true, Key: fmt.Sprintf("stress-%d-%v-%v-%d", c.Seed, c.Warm, c.Global, c.Goroutines)}
	c10WithEnums = c.Enums
	defer func() { c10WithEnums = false }()
	types, err := buildGraphTypes(c.Graph)
	if err != nil {
		return &Out{Skip: "cannot build types: " + err.Error()}
	}
	var names []string
	for t := range types {
		names = append(names, t)
	}
	sort.Strings(names)
	rng := rand.New(rand.NewSource(c.Seed))
	type call struct {
		t    string
		kind int
	}
	plan := make([][]call, c.Goroutines)
	for g := range plan {
		for i := 0; i < c.PerG; i++ {
			plan[g] = append(plan[g], call{names[rng.Intn(len(names))], rng.Intn(3)})
		}
	}
	expect := make([][]string, c.Goroutines)
	payloads := make([][][]byte, c.Goroutines)
	for g := range plan {
		for _, cl := range plan[g] {
			expect[g] = append(expect[g], c10Call(codec.NewCodec(), cl.kind, types[cl.t], "g"+strconv.Itoa(g+1)))
			payloads[g] = append(payloads[g], c10Prepare(cl.kind, types[cl.t], "g"+strconv.Itoa(g+1)))
		}
	}
	shared := codec.NewCodec()
	if c.Global {
		shared = codec.Global
	}
	if c.Warm {
		for _, t := range names {
			c10Call(shared, 0, types[t], "warm")
		}
	}
	var evMu sync.Mutex
	var events []c10Event
	gid := sync.Map{}
	if c.Log {
		j5schema.VerifHook = func(point, key string) {
			pv, ok := gid.Load(goid())
			if !ok {
				return
			}
			evMu.Lock()
			events = append(events, c10Event{Seq: len(events) + 1, G: pv.(string), Point: point, Key: key})
			evMu.Unlock()
		}
		defer func() { j5schema.VerifHook = nil }()
	}
	got := make([][]string, c.Goroutines)
	var wg sync.WaitGroup
	start := make(chan struct{})
	for g := range plan {
		g := g
		wg.Add(1)
		go func() {
			defer wg.Done()
			gid.Store(goid(), "g"+strconv.Itoa(g+1))
			<-start
			for i, cl := range plan[g] {
				got[g] = append(got[g], c10Do(shared, cl.kind, types[cl.t], "g"+strconv.Itoa(g+1), payloads[g][i]))
			}
		}()
	}
	close(start)
	fin := make(chan struct{})
	go func() { wg.Wait(); close(fin) }()
	select {
	case <-fin:
	case <-time.After(60 * time.Second):
		out.V("C10|deadlock", "stress goroutines did not finish within 60s")
		return out
	}
	for g := range plan {
		for i := range expect[g] {
			if got[g][i] != expect[g][i] {
				kind := "result"
				if strings.HasPrefix(got[g][i], "PANIC") {
					kind = "panic"
				} else if strings.Contains(got[g][i], "-err") {
					kind = "error"
				}
				out.V("C10|stress|"+kind, "goroutine %d call %d on %s returned %.200q; alone it returns %.200q", g+1, i, plan[g][i].t, got[g][i], expect[g][i])
				break
			}
		}
	}
	if c.Log {
		evs := make([]any, 0, len(events))
		for _, e := range events {
			evs = append(evs, e)
		}
		out.Events = evs
	}
	return out
}

// ---------- rich stress: every kind of schema object the codec touches ----------

const richProtoJSON = `{
 "sString": "x", "oString": "o", "rString": ["a", "b"], "sFloat": 1.5, "rFloat": [1, 2.5],
 "ts": "2024-02-29T10:11:12Z", "rTs": ["1999-12-31T23:59:59Z"], "sBool": true, "rBool": [true, false],
 "sInt32": -5, "sUint32": 7, "sSint32": -9, "sInt64": "-9007199254740993", "sUint64": "18446744073709551615",
 "sBar": {"barId": "b1", "barField": "f"}, "rBars": [{"barId": "b2"}, {"barId": "b3"}],
 "enum": "ENUM_VALUE2", "rEnum": ["ENUM_VALUE1", "ENUM_VALUE2"], "sBytes": "AQID", "rBytes": ["/w=="],
 "mapStringString": {"k1": "v1", "k2": "v2"}, "mapStringBar": {"m": {"barId": "b4"}},
 "aOneofEnum": "ENUM_VALUE1", "exposedString": "e",
 "wrappedOneof": {"wOneofEnum": "ENUM_VALUE2"}, "wrappedOneofs": [{"wOneofString": "s"}, {"wOneofBar": {"barId": "b5"}}],
 "flattened": {"fieldFromFlattened": "ff"}
}`

func init() { register("c10rich", c10Rich) }

// c10Rich: N goroutines encode / decode a populated test.schema.v1.FullSchema (scalars, enums by name, oneofs, maps,
// flattened and nested messages) on one shared codec; every result must equal the sequential result. Run under -race.
func c10Rich(raw json.RawMessage) *Out {
	var c c10Case
	if err := json.Unmarshal(raw, &c); err != nil {
		return &Out{Skip: "bad case: " + err.Error()}
	}
	out := &Out{Nontrivial: true, Key: fmt.Sprintf("rich-%d-%v-%v-%d-%d-%s", c.Seed, c.Warm, c.Global, c.Goroutines, c.PerG, c.Mix)}
	msg := &schema_testpb.FullSchema{}
	if err := protojson.Unmarshal([]byte(richProtoJSON), msg); err != nil {
		return &Out{Skip: "cannot build FullSchema: " + err.Error()}
	}
	// Any fields whose payload exists as proto bytes only: the encoder transcodes them through a nested encoding
	inner := &schema_testpb.Bar{BarId: "any-bar", BarField: "inside an any"}
	if pa, err := anypb.New(inner); err == nil {
		msg.Pbany = pa
	}
	if ib, err := proto.Marshal(inner); err == nil {
		msg.J5Any = &any_j5t.Any{TypeName: string(inner.ProtoReflect().Descriptor().FullName()), Proto: ib}
	}
	// the reference calls use a private codec configured like the shared one (codec.Global has no options)
	newCodec := func() *codec.Codec {
		if c.Global {
			return codec.NewCodec()
		}
		return codec.NewCodec(codec.WithProtoToAny())
	}
	priv := newCodec()
	j5doc, err := priv.ProtoToJSON(msg.ProtoReflect())
	if err != nil {
		return &Out{Skip: "sequential encode fails: " + err.Error()}
	}
	// what decoding that document gives sequentially (an Any comes back with its JSON text as well)
	seqDec := &schema_testpb.FullSchema{}
	seqDecErr := priv.JSONToProto(j5doc, seqDec.ProtoReflect())
	call := func(cc *codec.Codec, kind int) (res string) {
		defer func() {
			if r := recover(); r != nil {
				res = fmt.Sprintf("PANIC: %v", r)
			}
		}()
		switch kind % 3 {
		case 0:
			b, err := cc.ProtoToJSON(msg.ProtoReflect())
			if err != nil {
				return "enc-err: " + err.Error()
			}
			return "enc: " + canonJSON(b)
		case 1:
			m := &schema_testpb.FullSchema{}
			if err := cc.JSONToProto(j5doc, m.ProtoReflect()); err != nil {
				return "dec-err: " + err.Error()
			}
			if seqDecErr != nil || !proto.Equal(m, seqDec) {
				return "dec: differs from the sequentially decoded message"
			}
			return "dec: equal"
		default:
			m := &schema_testpb.FullSchema{}
			if err := cc.QueryToProto(url.Values{"sString": []string{"q"}, "enum": []string{"VALUE1"}, "sBar.barId": []string{"qb"}}, m.ProtoReflect()); err != nil {
				return "query-err: " + err.Error()
			}
			o, _ := proto.MarshalOptions{Deterministic: true}.Marshal(m)
			return fmt.Sprintf("query: %x", o)
		}
	}
	var expect [3]string
	for k := 0; k < 3; k++ {
		expect[k] = call(newCodec(), k)
	}
	shared := newCodec()
	if c.Global {
		shared = codec.Global
	}
	if c.Warm {
		// warm the schema cache by encoding only: decode-side lazy state stays cold
		call(shared, 0)
	}
	rng := rand.New(rand.NewSource(c.Seed))
	plan := make([][]int, c.Goroutines)
	for g := range plan {
		for i := 0; i < c.PerG; i++ {
			k := rng.Intn(3)
			if c.Mix == "dec" {
				k = 1
			}
			plan[g] = append(plan[g], k)
		}
	}
	bad := make([]string, c.Goroutines)
	var wg sync.WaitGroup
	start := make(chan struct{})
	for g := range plan {
		g := g
		wg.Add(1)
		go func() {
			defer wg.Done()
			<-start
			for i, k := range plan[g] {
				if r := call(shared, k); r != expect[k%3] && bad[g] == "" {
					bad[g] = fmt.Sprintf("goroutine %d call %d (kind %d) returned %.200q; alone it returns %.200q", g+1, i, k, r, expect[k%3])
				}
			}
		}()
	}
	close(start)
	fin := make(chan struct{})
	go func() { wg.Wait(); close(fin) }()
	select {
	case <-fin:
	case <-time.After(90 * time.Second):
		out.V("C10|deadlock", "rich stress goroutines did not finish within 90s")
		return out
	}
	for _, b := range bad {
		if b != "" {
			kind := "result"
			if strings.Contains(b, "PANIC") {
				kind = "panic"
			} else if strings.Contains(b, "-err") {
				kind = "error"
			}
			out.V("C10|stress|"+kind, "%s", b)
			break
		}
	}
	return out
}
