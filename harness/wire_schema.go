package main

// Realising a model schema tree as real descriptors, two ways (DESIGN C01):
//  (a) "j5s": j5s source text compiled in memory with the real protobuild.PackageSet,
//  (b) "raw": a hand-built FileDescriptorProto with (j5.ext.v1.*) annotations, linked with protodesc.

import (
	"encoding/json"
	"fmt"
	"sort"
	"strings"

	"github.com/pentops/j5/gen/j5/ext/v1/ext_j5pb"
	"github.com/pentops/j5/internal/codec"
	_ "github.com/pentops/j5/j5types/any_j5t"
	_ "github.com/pentops/j5/j5types/date_j5t"
	_ "github.com/pentops/j5/j5types/decimal_j5t"
	"google.golang.org/protobuf/proto"
	"google.golang.org/protobuf/reflect/protodesc"
	"google.golang.org/protobuf/reflect/protoreflect"
	"google.golang.org/protobuf/reflect/protoregistry"
	"google.golang.org/protobuf/types/descriptorpb"
	"google.golang.org/protobuf/types/dynamicpb"
	_ "google.golang.org/protobuf/types/known/anypb"
	_ "google.golang.org/protobuf/types/known/timestamppb"
)

const wirePkg = "wt.v1"

type wireSchema struct {
	src   string
	root  protoreflect.MessageDescriptor
	msgs  map[string]protoreflect.MessageDescriptor
	codec *codec.Codec
	text  string // j5s text or prototext of the descriptor (for replay files)
}

// wxDynResolver resolves message types of the realised file (for Any) and falls back to the global registry.
type wxDynResolver struct {
	msgs map[string]protoreflect.MessageDescriptor
}

func (r wxDynResolver) FindMessageByName(name protoreflect.FullName) (protoreflect.MessageType, error) {
	if md, ok := r.msgs[string(name)]; ok {
		return dynamicpb.NewMessageType(md), nil
	}
	return protoregistry.GlobalTypes.FindMessageByName(name)
}

var wireSchemaCache = map[string]*wireSchema{}

// wxCollectTypes lists the obj/oneof nodes of a schema tree by name (first occurrence wins; the model
// guarantees that equal names denote equal nodes) in a deterministic order, root first.
func wxCollectTypes(root *wSch) []*wSch {
	var out []*wSch
	seen := map[string]bool{}
	var walk func(n *wSch)
	walk = func(n *wSch) {
		if n.T != "obj" && n.T != "oneof" {
			return
		}
		if seen[n.Name] {
			return
		}
		seen[n.Name] = true
		out = append(out, n)
		for i := range n.Props {
			p := &n.Props[i]
			if p.Exp {
				// the exposed oneof's arms
				for j := range p.Sch.Props {
					walk(&p.Sch.Props[j].Sch)
				}
				continue
			}
			walk(&p.Sch)
		}
	}
	walk(root)
	return out
}

func wxUsesEnum(root *wSch) bool {
	found := false
	var walk func(n *wSch)
	walk = func(n *wSch) {
		if n.T == "leaf" && n.Kind == "enum" {
			found = true
		}
		for i := range n.Props {
			walk(&n.Props[i].Sch)
		}
	}
	walk(root)
	return found
}

func wxJ5sType(n *wSch) (string, error) {
	switch n.T {
	case "leaf":
		switch n.Kind {
		case "string", "bool", "bytes", "timestamp", "date", "decimal":
			return n.Kind, nil
		case "int32", "int64", "uint32", "uint64":
			return "integer:" + strings.ToUpper(n.Kind), nil
		case "float32", "float64":
			return "float:" + strings.ToUpper(n.Kind), nil
		case "key":
			return "key:id62", nil
		case "enum":
			return "enum:Color", nil
		}
	case "obj":
		return "object:" + n.Name, nil
	case "oneof":
		return "oneof:" + n.Name, nil
	case "any":
		if n.Fl == "j5" {
			return "any", nil
		}
		return "", fmt.Errorf("protobuf Any is not expressible in j5s")
	}
	return "", fmt.Errorf("no j5s type for %s/%s", n.T, n.Kind)
}

func wxJ5sText(root *wSch) (string, error) {
	var sb strings.Builder
	sb.WriteString("package " + wirePkg + "\n\n")
	for _, n := range wxCollectTypes(root) {
		kw, member := "object", "field"
		if n.T == "oneof" {
			kw, member = "oneof", "option"
		}
		fmt.Fprintf(&sb, "%s %s {\n", kw, n.Name)
		for _, p := range n.Props {
			if p.Exp {
				return "", fmt.Errorf("exposed oneof is not expressible in j5s")
			}
			t, err := wxJ5sType(&p.Sch)
			if err != nil {
				return "", err
			}
			switch p.Card {
			case "arr":
				t = "array:" + t
			case "map":
				t = "map:" + t
			}
			mark := ""
			if p.Card == "opt" {
				mark = "? "
			}
			if p.Flat {
				fmt.Fprintf(&sb, "  %s %s %s%s {\n    flatten = true\n  }\n", member, p.Name, mark, t)
			} else {
				fmt.Fprintf(&sb, "  %s %s %s%s\n", member, p.Name, mark, t)
			}
		}
		sb.WriteString("}\n\n")
	}
	if wxUsesEnum(root) {
		sb.WriteString("enum Color {\n  option RED\n  option GREEN\n  option INFRARED\n}\n")
	}
	return sb.String(), nil
}

func wxRawFile(root *wSch) (*descriptorpb.FileDescriptorProto, error) {
	fd := &descriptorpb.FileDescriptorProto{
		Name:    proto.String("wt/v1/raw.proto"),
		Package: proto.String(wirePkg),
		Syntax:  proto.String("proto3"),
		Dependency: []string{
			"google/protobuf/timestamp.proto", "google/protobuf/any.proto", "j5/ext/v1/annotations.proto",
			"j5/types/any/v1/any.proto", "j5/types/date/v1/date.proto", "j5/types/decimal/v1/decimal.proto",
		},
	}
	for _, n := range wxCollectTypes(root) {
		msg := &descriptorpb.DescriptorProto{Name: proto.String(n.Name)}
		num := int32(10) // like the repository's own test proto: do not use 1 and 2 (map entry numbers)
		addField := func(p *wProp, oneofIdx *int32) error {
			num++
			f := &descriptorpb.FieldDescriptorProto{
				Name:   proto.String(wxSnakeOf(p.Name)),
				Number: proto.Int32(num),
				Label:  descriptorpb.FieldDescriptorProto_LABEL_OPTIONAL.Enum(),
			}
			if oneofIdx != nil {
				f.OneofIndex = oneofIdx
			}
			opts := &ext_j5pb.FieldOptions{}
			hasOpts := false
			typeName := ""
			switch p.Sch.T {
			case "leaf":
				switch p.Sch.Kind {
				case "string":
					f.Type = descriptorpb.FieldDescriptorProto_TYPE_STRING.Enum()
				case "key":
					f.Type = descriptorpb.FieldDescriptorProto_TYPE_STRING.Enum()
					opts.Type = &ext_j5pb.FieldOptions_Key{Key: &ext_j5pb.KeyField{}}
					hasOpts = true
				case "bool":
					f.Type = descriptorpb.FieldDescriptorProto_TYPE_BOOL.Enum()
				case "int32":
					f.Type = descriptorpb.FieldDescriptorProto_TYPE_INT32.Enum()
				case "int64":
					f.Type = descriptorpb.FieldDescriptorProto_TYPE_INT64.Enum()
				case "uint32":
					f.Type = descriptorpb.FieldDescriptorProto_TYPE_UINT32.Enum()
				case "uint64":
					f.Type = descriptorpb.FieldDescriptorProto_TYPE_UINT64.Enum()
				case "float32":
					f.Type = descriptorpb.FieldDescriptorProto_TYPE_FLOAT.Enum()
				case "float64":
					f.Type = descriptorpb.FieldDescriptorProto_TYPE_DOUBLE.Enum()
				case "bytes":
					f.Type = descriptorpb.FieldDescriptorProto_TYPE_BYTES.Enum()
				case "timestamp":
					typeName = ".google.protobuf.Timestamp"
				case "date":
					typeName = ".j5.types.date.v1.Date"
				case "decimal":
					typeName = ".j5.types.decimal.v1.Decimal"
				case "enum":
					f.Type = descriptorpb.FieldDescriptorProto_TYPE_ENUM.Enum()
					f.TypeName = proto.String("." + wirePkg + ".Color")
				default:
					return fmt.Errorf("raw: unknown kind %s", p.Sch.Kind)
				}
			case "obj", "oneof":
				typeName = "." + wirePkg + "." + p.Sch.Name
				if p.Flat {
					opts.Type = &ext_j5pb.FieldOptions_Object{Object: &ext_j5pb.ObjectField{Flatten: true}}
					hasOpts = true
				}
			case "any":
				if p.Sch.Fl == "pb" {
					typeName = ".google.protobuf.Any"
				} else {
					typeName = ".j5.types.any.v1.Any"
				}
			}
			if typeName != "" {
				f.Type = descriptorpb.FieldDescriptorProto_TYPE_MESSAGE.Enum()
				f.TypeName = proto.String(typeName)
			}
			switch p.Card {
			case "opt":
				// proto3 optional: synthetic oneof
				f.Proto3Optional = proto.Bool(true)
				idx := int32(len(msg.OneofDecl))
				msg.OneofDecl = append(msg.OneofDecl, &descriptorpb.OneofDescriptorProto{Name: proto.String("_" + wxSnakeOf(p.Name))})
				f.OneofIndex = proto.Int32(idx)
			case "arr":
				f.Label = descriptorpb.FieldDescriptorProto_LABEL_REPEATED.Enum()
			case "map":
				entryName := strings.ToUpper(p.Name[:1]) + p.Name[1:] + "Entry"
				// protoc names the entry CamelCase(field_name)+"Entry"
				entryName = wxCamelOfSnake(wxSnakeOf(p.Name)) + "Entry"
				val := proto.Clone(f).(*descriptorpb.FieldDescriptorProto)
				val.Name = proto.String("value")
				val.Number = proto.Int32(2)
				val.OneofIndex = nil
				val.JsonName = nil
				entry := &descriptorpb.DescriptorProto{
					Name: proto.String(entryName),
					Field: []*descriptorpb.FieldDescriptorProto{
						{Name: proto.String("key"), Number: proto.Int32(1), Label: descriptorpb.FieldDescriptorProto_LABEL_OPTIONAL.Enum(), Type: descriptorpb.FieldDescriptorProto_TYPE_STRING.Enum()},
						val,
					},
					Options: &descriptorpb.MessageOptions{MapEntry: proto.Bool(true)},
				}
				msg.NestedType = append(msg.NestedType, entry)
				f.Label = descriptorpb.FieldDescriptorProto_LABEL_REPEATED.Enum()
				f.Type = descriptorpb.FieldDescriptorProto_TYPE_MESSAGE.Enum()
				f.TypeName = proto.String("." + wirePkg + "." + n.Name + "." + entryName)
				hasOpts = false
			}
			if hasOpts {
				fo := &descriptorpb.FieldOptions{}
				proto.SetExtension(fo, ext_j5pb.E_Field, opts)
				f.Options = fo
			}
			msg.Field = append(msg.Field, f)
			return nil
		}
		if n.T == "oneof" {
			mo := &descriptorpb.MessageOptions{}
			proto.SetExtension(mo, ext_j5pb.E_Message, &ext_j5pb.MessageOptions{Type: &ext_j5pb.MessageOptions_Oneof{Oneof: &ext_j5pb.OneofMessageOptions{}}})
			msg.Options = mo
			msg.OneofDecl = append(msg.OneofDecl, &descriptorpb.OneofDescriptorProto{Name: proto.String("type")})
			for i := range n.Props {
				if err := addField(&n.Props[i], proto.Int32(0)); err != nil {
					return nil, err
				}
			}
		} else {
			// real (exposed) oneofs must be declared before synthetic ones: collect them first
			for i := range n.Props {
				if n.Props[i].Exp {
					oo := &descriptorpb.OneofOptions{}
					proto.SetExtension(oo, ext_j5pb.E_Oneof, &ext_j5pb.OneofOptions{Expose: true})
					msg.OneofDecl = append(msg.OneofDecl, &descriptorpb.OneofDescriptorProto{Name: proto.String(wxSnakeOf(n.Props[i].Name)), Options: oo})
				}
			}
			expIdx := int32(0)
			for i := range n.Props {
				p := &n.Props[i]
				if p.Exp {
					idx := expIdx
					expIdx++
					for j := range p.Sch.Props {
						if err := addField(&p.Sch.Props[j], proto.Int32(idx)); err != nil {
							return nil, err
						}
					}
					continue
				}
				if err := addField(p, nil); err != nil {
					return nil, err
				}
			}
		}
		fd.MessageType = append(fd.MessageType, msg)
	}
	if wxUsesEnum(root) {
		fd.EnumType = append(fd.EnumType, &descriptorpb.EnumDescriptorProto{
			Name: proto.String("Color"),
			Value: []*descriptorpb.EnumValueDescriptorProto{
				// hand-written protos need not declare values in number order (legal proto3): the numbers the value
				// atoms use are 1 and 2, declared after a higher number
				{Name: proto.String("COLOR_UNSPECIFIED"), Number: proto.Int32(0)},
				{Name: proto.String("COLOR_LEGACY"), Number: proto.Int32(5)},
				{Name: proto.String("COLOR_RED"), Number: proto.Int32(1)},
				{Name: proto.String("COLOR_GREEN"), Number: proto.Int32(2)},
				{Name: proto.String("COLOR_INFRARED"), Number: proto.Int32(3)},
			},
		})
	}
	return fd, nil
}

func wxCamelOfSnake(s string) string {
	parts := strings.Split(s, "_")
	for i, p := range parts {
		if p != "" {
			parts[i] = strings.ToUpper(p[:1]) + p[1:]
		}
	}
	return strings.Join(parts, "")
}

// wxRealiseSchema builds (and caches per worker) the descriptors and a fresh codec for a schema tree.
func wxRealiseSchema(root *wSch, src string, protoAny bool) (*wireSchema, error) {
	kb, _ := json.Marshal(root)
	key := fmt.Sprintf("%s|%v|%s", src, protoAny, kb)
	if s, ok := wireSchemaCache[key]; ok {
		return s, nil
	}
	ws := &wireSchema{src: src, msgs: map[string]protoreflect.MessageDescriptor{}}
	var file protoreflect.FileDescriptor
	switch src {
	case "j5s":
		text, err := wxJ5sText(root)
		if err != nil {
			return nil, err
		}
		ws.text = text
		res, _, err := compileBundle(newMemFiles(map[string]string{"wt/v1/wire.j5s": text}), nil)
		if err != nil {
			return nil, fmt.Errorf("j5s compile: %w\n%s", err, text)
		}
		for _, files := range res {
			for _, f := range files {
				if string(f.Package()) == wirePkg {
					file = f
				}
			}
		}
		if file == nil {
			return nil, fmt.Errorf("j5s compile: no file for package %s", wirePkg)
		}
	case "raw":
		fdp, err := wxRawFile(root)
		if err != nil {
			return nil, err
		}
		ws.text = fdp.String()
		f, err := protodesc.NewFile(fdp, protoregistry.GlobalFiles)
		if err != nil {
			return nil, fmt.Errorf("protodesc: %w", err)
		}
		file = f
	default:
		return nil, fmt.Errorf("unknown schema source %q", src)
	}
	mds := file.Messages()
	for i := 0; i < mds.Len(); i++ {
		md := mds.Get(i)
		ws.msgs[string(md.FullName())] = md
	}
	ws.root = ws.msgs[wirePkg+"."+root.Name]
	if ws.root == nil {
		var names []string
		for n := range ws.msgs {
			names = append(names, n)
		}
		sort.Strings(names)
		return nil, fmt.Errorf("root message %s not found in %v", root.Name, names)
	}
	opts := []codec.CodecOption{codec.WithResolver(wxDynResolver{ws.msgs})}
	if protoAny {
		opts = append(opts, codec.WithProtoToAny())
	}
	ws.codec = codec.NewCodec(opts...)
	if len(wireSchemaCache) > 4000 {
		wireSchemaCache = map[string]*wireSchema{}
	}
	wireSchemaCache[key] = ws
	return ws, nil
}
