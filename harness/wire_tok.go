package main

// C06 drivers: token sequences and url.Values from spec/J5WireTok.tla, the C03 fault documents (totality
// only), and the residual random / deep-nesting / huge-number driver (plain seeded random testing).

import (
	"encoding/json"
	"fmt"
	"math/rand"
	"net/url"
	"runtime/debug"
	"strings"
	"time"

	"github.com/pentops/j5/internal/codec"
	"google.golang.org/protobuf/reflect/protoreflect"
	"google.golang.org/protobuf/types/dynamicpb"
)

const wxUniJ5s = `package wt.v1

object Uni {
  field s string
  field n integer:INT32
  field e enum:Color
  field o object:Uni
  field w oneof:W
  field as array:string
  field ae array:enum:Color
  field ao array:object:Uni
  field aw array:oneof:W
  field ms map:string
  field me map:enum:Color
  field mo map:object:Uni
  field mw map:oneof:W
  field y any
  field fl object:F {
    flatten = true
  }
  field big integer:UINT64
  field f float:FLOAT32
  field d decimal
  field b bytes
  field t timestamp
  field dt date
}

object F {
  field wxFa string
}

oneof W {
  option wa object:Uni
  option ws string
}

enum Color {
  option RED
  option GREEN
}
`

var wxUniDesc protoreflect.MessageDescriptor
var wxUniDesc2 protoreflect.MessageDescriptor // the same type, compiled a second time: another descriptor INSTANCE of wt.v1.Uni
var wxUniCodec *codec.Codec

func wxUniCompile() (protoreflect.MessageDescriptor, error) {
	res, _, err := compileBundle(newMemFiles(map[string]string{"wt/v1/uni.j5s": wxUniJ5s}), nil)
	if err != nil {
		return nil, err
	}
	for _, files := range res {
		for _, f := range files {
			if md := f.Messages().ByName("Uni"); md != nil {
				return md, nil
			}
		}
	}
	return nil, fmt.Errorf("Uni not found")
}

func wxUniSchema() (protoreflect.MessageDescriptor, *codec.Codec, error) {
	if wxUniDesc != nil {
		return wxUniDesc, wxUniCodec, nil
	}
	md, err := wxUniCompile()
	if err != nil {
		return nil, nil, err
	}
	md2, err := wxUniCompile()
	if err != nil {
		return nil, nil, err
	}
	wxUniDesc, wxUniDesc2 = md, md2
	wxUniCodec = codec.NewCodec()
	return wxUniDesc, wxUniCodec, nil
}

func init() {
	register("wire-tok", wireTokDriver)
	register("wire-c06doc", wireC06Doc)
	register("wire-rand", wireRandDriver)
}

type wireTokCase struct {
	Mode    string   `json:"mode"`
	Toks    []string `json:"toks"`
	Outcome string   `json:"outcome"`
	Cls     string   `json:"cls"`
	Path    []string `json:"path"`
	Vals    []string `json:"vals"`
}

// wireTokensToBytes writes a token sequence as JSON text: commas and colons are inserted where a well-formed
// document needs them; an offending final token is written raw at the point where it occurs.
func wireTokensToBytes(toks []string, bad string) string {
	var sb strings.Builder
	type fr struct {
		obj   bool
		n     int  // members / elements so far
		inVal bool // object: a key was written, the value is next
	}
	var st []*fr
	for _, t := range toks {
		var top *fr
		if len(st) > 0 {
			top = st[len(st)-1]
		}
		text := ""
		switch {
		case t == "EOF":
			return sb.String()
		case t == "BAD":
			text = bad
		case t == "NUM":
			text = "17"
		case t == "BOOL":
			text = "true"
		case t == "NULL":
			text = "null"
		case strings.HasPrefix(t, "S:"):
			text = wxJsonQuote(t[2:])
		default:
			text = t
		}
		closer := t == "}" || t == "]"
		if top != nil && !closer {
			if top.obj {
				if top.inVal {
					sb.WriteString(":")
				} else if top.n > 0 {
					sb.WriteString(",")
				}
			} else if top.n > 0 {
				sb.WriteString(",")
			}
		}
		sb.WriteString(text)
		switch {
		case t == "{" || t == "[":
			if top != nil {
				if top.obj && top.inVal {
					top.inVal = false
					top.n++
				} else if !top.obj {
					top.n++
				} else {
					top.inVal = true // a container in key position: syntax error follows anyway
				}
			}
			st = append(st, &fr{obj: t == "{"})
		case closer:
			if len(st) > 0 {
				st = st[:len(st)-1]
			}
		default:
			if top != nil {
				if top.obj {
					if top.inVal {
						top.inVal = false
						top.n++
					} else {
						top.inVal = true
					}
				} else {
					top.n++
				}
			}
		}
	}
	return sb.String()
}

func wireTokDriver(raw json.RawMessage) *Out {
	var c wireTokCase
	if err := json.Unmarshal(raw, &c); err != nil {
		return &Out{Skip: "bad case: " + err.Error()}
	}
	md, cc, err := wxUniSchema()
	if err != nil {
		return &Out{Skip: "harness: " + err.Error()}
	}
	out := &Out{}
	if c.Mode == "query" {
		vals := url.Values{}
		key := strings.Join(c.Path, ".")
		vals[key] = append([]string{}, c.Vals...)
		out.Key = "q|" + vals.Encode() + fmt.Sprint(len(c.Vals))
		msg := dynamicpb.NewMessage(md)
		t0 := time.Now()
		qerr := cc.QueryToProto(vals, msg) // a panic is caught by the worker: violation
		// "any target message type": the long-lived codec has now seen wt.v1.Uni; a message of another descriptor
		// instance of the same type (a reloaded image) is a target like any other
		_ = cc.QueryToProto(vals, dynamicpb.NewMessage(wxUniDesc2))
		out.Nontrivial = len(c.Path) > 1 || len(c.Vals) > 0
		out.Obs = map[string]any{"query": vals.Encode(), "err": fmt.Sprint(qerr), "ms": time.Since(t0).Milliseconds()}
		return out
	}
	bads := []string{""}
	for _, t := range c.Toks {
		if t == "BAD" {
			bads = []string{"tru", "\"abc", "01", "-", "\"\\x\"", "nul", "1.e5", "\xff"}
		}
	}
	out.Key = "t|" + strings.Join(c.Toks, " ")
	out.Nontrivial = len(c.Toks) > 2
	for _, bad := range bads {
		text := wireTokensToBytes(c.Toks, bad)
		msg := dynamicpb.NewMessage(md)
		derr := cc.JSONToProto([]byte(text), msg) // a panic is caught by the worker: violation
		_ = cc.JSONToProto([]byte(text), dynamicpb.NewMessage(wxUniDesc2))
		real := "ok"
		if derr != nil {
			real = "err"
		}
		if c.Outcome != "" && real != c.Outcome {
			out.D("C06|outcome|"+c.Cls, "model %s, real %s for %s (%v)", c.Outcome, real, wxClip(text), derr)
		}
		out.Obs = text
		out.Events = append(out.Events, map[string]any{"op": "tok", "n": len(c.Toks), "outcome": real, "model": c.Outcome})
	}
	return out
}

// wireC06Doc: the fault documents of C03, decoded under both schema sources; only "the call returns" matters.
func wireC06Doc(raw json.RawMessage) *Out {
	var c wireCase
	if err := json.Unmarshal(raw, &c); err != nil {
		return &Out{Skip: "bad case: " + err.Error()}
	}
	out := &Out{Key: fmt.Sprintf("doc|%s|%s|%s", c.slot(), c.Fault, c.Vl), Nontrivial: true}
	srcs := []string{"j5s", "raw"}
	if wxHasExpOrPbAny(&c.Sch) {
		srcs = []string{"raw"}
	}
	text, err := wxSerialise(c.Doc, c.Ws)
	if err != nil {
		return &Out{Skip: err.Error()}
	}
	out.Obs = text
	for _, src := range srcs {
		ws, err := wxRealiseSchema(&c.Sch, src, c.AnyC)
		if err != nil {
			continue
		}
		msg := dynamicpb.NewMessage(ws.root)
		_ = ws.codec.JSONToProto([]byte(text), msg) // panic -> worker -> violation
	}
	return out
}

// ---- residual: plain random testing ----

type wireRandCase struct {
	Mode   string `json:"mode"`
	Seed   int64  `json:"seed"`
	N      int    `json:"n"`
	Depth  int    `json:"depth"`
	Shape  string `json:"shape"`
	Digits int    `json:"digits"`
}

func wirePanicSite(stack string) string {
	for _, l := range strings.Split(stack, "\n") {
		l = strings.TrimSpace(l)
		if strings.HasPrefix(l, "github.com/pentops/j5/") && !strings.Contains(l, "verifh") {
			if i := strings.LastIndex(l, "("); i > 0 {
				l = l[:i]
			}
			return strings.TrimPrefix(l, "github.com/pentops/j5/")
		}
	}
	return "?"
}

// safely runs one decode; a panic is reported as a violation with the input, and the batch goes on
func wireDecodeGuarded(out *Out, what string, input string, f func() error) (outcome string) {
	defer func() {
		if r := recover(); r != nil {
			site := wirePanicSite(string(debug.Stack()))
			out.V("C06|panic|"+site+"|"+what, "panic %v on input %q", r, wxClip(input))
			outcome = "panic"
		}
	}()
	if err := f(); err != nil {
		return "err"
	}
	return "ok"
}

var wireRandSeeds = []string{
	`{"s":"x","n":1,"e":"RED","o":{"s":"y"},"w":{"!type":"ws","ws":"z"},"as":["a","b"],"ae":["RED"],"ao":[{"n":2}],"aw":[{"wa":{}}],"ms":{"k":"v"},"me":{"k":"GREEN"},"mo":{"k":{}},"mw":{"k":{"ws":"q"}},"y":{"!type":"j5.types.date.v1.Date","value":{"year":1}},"fa":"f","big":"18446744073709551615","f":1.5,"d":"1.50","b":"+/8=","t":"2024-02-29T12:34:56Z","dt":"2024-02-29"}`,
	`{"w":{"!type":"wa","wa":{"w":{"ws":null}}},"ao":[{"ao":[{"ao":[]}]}],"mo":{"a":{"mo":{"b":{}}}}}`,
	`{"n":null,"as":null,"o":null,"w":null,"ms":null,"y":null,"e":null}`,
}

func wireRandDriver(raw json.RawMessage) *Out {
	var c wireRandCase
	if err := json.Unmarshal(raw, &c); err != nil {
		return &Out{Skip: "bad case: " + err.Error()}
	}
	md, cc, err := wxUniSchema()
	if err != nil {
		return &Out{Skip: "harness: " + err.Error()}
	}
	out := &Out{Key: fmt.Sprintf("%s|%d|%d|%s|%d", c.Mode, c.Seed, c.Depth, c.Shape, c.Digits), Nontrivial: true}
	inputs := 0
	maxMs := int64(0)
	counts := map[string]int{}
	run := func(what, in string) {
		inputs++
		t0 := time.Now()
		o := wireDecodeGuarded(out, what, in, func() error { return cc.JSONToProto([]byte(in), dynamicpb.NewMessage(md)) })
		if ms := time.Since(t0).Milliseconds(); ms > maxMs {
			maxMs = ms
		}
		counts[o]++
		if len(out.Events) < 40 && o != "panic" { // the trace carries the calls on which the predicate held
			out.Events = append(out.Events, map[string]any{"op": "out", "n": len(in), "outcome": o})
		}
	}
	runQ := func(what string, vals url.Values) {
		inputs++
		o := wireDecodeGuarded(out, what, vals.Encode(), func() error { return cc.QueryToProto(vals, dynamicpb.NewMessage(md)) })
		counts[o]++
		if len(out.Events) < 40 && o != "panic" {
			out.Events = append(out.Events, map[string]any{"op": "out", "n": len(vals.Encode()), "outcome": o})
		}
	}
	switch c.Mode {
	case "rand":
		rng := rand.New(rand.NewSource(c.Seed))
		alphabet := []string{"{", "}", "[", "]", ":", ",", "\"", "null", "true", "false", "1", "-", "e", ".", "0", "\\", "u", " ", "\n", "!type", "value",
			"\"s\"", "\"o\"", "\"w\"", "\"as\"", "\"ao\"", "\"mo\"", "\"mw\"", "\"y\"", "\"wa\"", "\"ws\"", "\"!type\"", "\"RED\"", "\"n\"", "\"e\"", "\"fa\"", "\"big\"", "\"d\"", "\"b\"", "\"t\"", "\"dt\"", "\"f\"", "\xff", "\x00", "é"}
		for i := 0; i < c.N; i++ {
			switch rng.Intn(4) {
			case 0: // random bytes
				b := make([]byte, rng.Intn(40))
				rng.Read(b)
				run("rand-bytes", string(b))
			case 1: // token soup
				var sb strings.Builder
				for k := rng.Intn(30); k >= 0; k-- {
					sb.WriteString(alphabet[rng.Intn(len(alphabet))])
				}
				run("rand-soup", sb.String())
			case 2: // mutation of a valid document: delete / replace / insert / truncate
				s := []byte(wireRandSeeds[rng.Intn(len(wireRandSeeds))])
				for k := rng.Intn(3); k >= 0; k-- {
					p := rng.Intn(len(s))
					switch rng.Intn(4) {
					case 0:
						s = append(s[:p], s[p+1:]...)
					case 1:
						s[p] = alphabet[rng.Intn(len(alphabet))][0]
					case 2:
						ins := alphabet[rng.Intn(len(alphabet))]
						s = append(s[:p], append([]byte(ins), s[p:]...)...)
					case 3:
						s = s[:p]
					}
					if len(s) == 0 {
						break
					}
				}
				run("rand-mutant", string(s))
			case 3: // url.Values
				segs := []string{"s", "n", "e", "o", "w", "wa", "ws", "as", "ao", "ms", "mo", "y", "fa", "big", "f", "d", "b", "t", "dt", "", "zzz", "!type", "S", "fooBar"}
				vals := url.Values{}
				for k := rng.Intn(3); k >= 0; k-- {
					var path []string
					for d := rng.Intn(4); d >= 0; d-- {
						path = append(path, segs[rng.Intn(len(segs))])
					}
					var vs []string
					for d := rng.Intn(3); d > 0; d-- {
						vs = append(vs, []string{"x", "1", "", "RED", "{}", "{\"s\":1}", "[", "null", "true", "1e400", "-1", "2024-02-29", "!!!"}[rng.Intn(13)])
					}
					vals[strings.Join(path, ".")] = vs
				}
				runQ("rand-query", vals)
			}
		}
	case "deep":
		d := c.Depth
		var open, close string
		switch c.Shape {
		case "array":
			open, close = `{"ao":[`, `]}`
		case "object-rec":
			open, close = `{"o":`, `}`
		case "oneof-rec":
			open, close = `{"w":{"wa":`, `}}`
		case "map-rec":
			open, close = `{"mo":{"k":`, `}}`
		case "any":
			run("deep-any", `{"y":{"!type":"x","value":`+strings.Repeat("[", d)+strings.Repeat("]", d)+`}}`)
			run("deep-any-trunc", `{"y":{"!type":"x","value":`+strings.Repeat("[", d))
			run("deep-scalar-array", `{"as":`+strings.Repeat("[", d)+strings.Repeat("]", d)+`}`)
			run("deep-root-array", strings.Repeat("[", d))
		case "query":
			path := strings.Repeat("o.", d) + "s"
			runQ("deep-query-path", url.Values{path: []string{"x"}})
			runQ("deep-query-path-oneof", url.Values{strings.Repeat("w.wa.", d) + "s": []string{"x"}})
			runQ("deep-query-value", url.Values{"o": []string{strings.Repeat(`{"o":`, d) + "{}" + strings.Repeat("}", d)}})
		}
		if open != "" {
			full := strings.Repeat(open, d) + "{}" + strings.Repeat(close, d)
			run("deep-"+c.Shape, full)
			run("deep-"+c.Shape+"-trunc", strings.Repeat(open, d))
			run("deep-"+c.Shape+"-null", strings.Repeat(open, d)+"null"+strings.Repeat(close, d))
		}
	case "huge":
		digits := strings.Repeat("9", c.Digits)
		for _, f := range []string{"n", "big", "f", "d"} {
			run("huge-bare-"+f, `{"`+f+`":`+digits+`}`)
			run("huge-quoted-"+f, `{"`+f+`":"`+digits+`"}`)
			run("huge-frac-"+f, `{"`+f+`":0.`+digits+`e-`+digits[:min(len(digits), 6)]+`}`)
			runQ("huge-query-"+f, url.Values{f: []string{digits}})
		}
		run("huge-string", `{"s":"`+strings.Repeat("a", c.Digits)+`"}`)
		run("huge-key", `{"`+strings.Repeat("k", c.Digits)+`":1}`)
		run("huge-b64", `{"b":"`+strings.Repeat("A", c.Digits)+`"}`)
	default:
		return &Out{Skip: "unknown mode"}
	}
	out.Obs = map[string]any{"inputs": inputs, "max_ms": maxMs, "outcomes": counts}
	return out
}
