SPECIFICATION Spec
INVARIANTS StageOrder Closure
CHECK_DEADLOCK FALSE
