---------------------------- MODULE SchemaCache ----------------------------
(***************************************************************************)
(* lib/j5schema.SchemaCache: the only shared mutable state on the codec    *)
(* path (codec.Codec -> j5reflect.Reflector -> SchemaCache).               *)
(*                                                                         *)
(* One action per segment of the code between two verifAt(...) points      *)
(* (build tag verif):                                                      *)
(*                                                                         *)
(*   Schema(src):  enter  [Lock]  referencePackage{pkgLookup, pkgInsert}   *)
(*                 lookup  ->  return (built | "unlinked ref")             *)
(*                         ->  insert placeholder, build                   *)
(*   build(t):     [pkgLookup when t is outside the root's package]        *)
(*                 for each message field c of t:                          *)
(*                    refTo(c): pkgLookup [pkgInsert] refLookup            *)
(*                              exists -> use it (cuts cycles)             *)
(*                              else   -> refInsert, build(c)              *)
(*                 setTo (ref.To = built)                                  *)
(*   validate      after the root's setTo: every ref registered by this    *)
(*                 call is checked (validateBuiltRef: an object flattened  *)
(*                 into itself, duplicate property names); types in        *)
(*                 Invalid fail the check                                  *)
(*   rollback      a rejected build removes every ref it registered        *)
(*   return / fail [Unlock]; the caller then walks the returned schema     *)
(*                                                                         *)
(* Guard = "mutex" models a lock held over the whole of Schema();          *)
(* Guard = "early" releases it before the validation and takes it again    *)
(* for the rollback (a tempting "shorter critical section");               *)
(* Guard = "none" is the same algorithm without it and is used to derive   *)
(* attack schedules that are then forced on the real code.                 *)
(*                                                                         *)
(* RefSchema objects are identified by <<type, creating process>>: two     *)
(* unsynchronised processes can each insert "the" placeholder of a type.   *)
(***************************************************************************)
EXTENDS Integers, Sequences, FiniteSets, TLC, Json

CONSTANTS
    Procs,      \* goroutines
    Types,      \* message types
    ChildSeq,   \* [Types -> Seq(Types)]: message-typed fields in declaration order
    Pkg,        \* [Types -> STRING]: package of each type
    Invalid,    \* subset of Types: schemas that build but are rejected by the validation of the built refs
    CallChoices,\* set of [Procs -> Seq(Types)]: root types each goroutine encodes/decodes, in order
    Guard,      \* "mutex" | "early" | "none"
    Mode        \* "check" | "attack" | "trace"

None == "-"

VARIABLES
    pkgs,     \* set of package names in SchemaCache.packages
    smap,     \* [Types -> Procs \cup {None}]: creator of the RefSchema currently in Package.Schemas
    built,    \* set of <<type, creator>>: RefSchema objects whose To is set
    edges,    \* set of <<parent object, child object>>: refs held by built schemas
    lock,     \* holder of the mutex or None
    pc,       \* [Procs -> control point]
    root,     \* [Procs -> root type of the call in progress]
    stack,    \* [Procs -> Seq of frames [t, i, kids]]
    ret,      \* [Procs -> object being returned, or None]
    added,    \* [Procs -> set of types whose ref the call in progress registered] (sc.added)
    calls0,   \* [Procs -> all calls] (constant through a behaviour)
    calls,    \* [Procs -> remaining calls]
    results,  \* [Procs -> Seq of <<type, "ok"|"unlinked"|"orphan">>]
    hist,     \* schedule so far: Seq of <<proc, label, key>> (attack mode only)
    bad       \* attack mode: a call returned something it does not return when run alone

vars == <<pkgs, smap, built, edges, lock, pc, root, stack, ret, added, calls0, calls, results, hist, bad>>

FullName(t) == Pkg[t] \o "." \o t

Label(c) ==
    CASE c \in {"pkgLookup", "fPkgLookup", "refPkgLookup"} -> "pkgLookup"
      [] c \in {"pkgInsert", "refPkgInsert"} -> "pkgInsert"
      [] c \in {"retOk", "retUnlinked"} -> "return"
      [] c = "retErr" -> "fail"
      [] OTHER -> c

Top(p) == stack[p][Len(stack[p])]
CurChild(p) == ChildSeq[Top(p).t][Top(p).i]

\* the key the corresponding verifAt call reports
Key(p) ==
    CASE pc[p] \in {"pkgLookup", "pkgInsert"} -> Pkg[root[p]]
      [] pc[p] = "fPkgLookup" -> Pkg[Top(p).t]
      [] pc[p] \in {"refPkgLookup", "refPkgInsert"} -> Pkg[CurChild(p)]
      [] pc[p] \in {"refLookup", "refInsert"} -> FullName(CurChild(p))
      [] pc[p] = "setTo" -> FullName(Top(p).t)
      [] OTHER -> FullName(root[p])

Record(p) == hist' = IF Mode = "attack" THEN Append(hist, <<p, Label(pc[p]), Key(p)>>) ELSE hist

\* where a frame continues: next field, or done
FramePc(f) == IF f.i <= Len(ChildSeq[f.t]) THEN "refPkgLookup" ELSE "setTo"
\* where a freshly pushed frame starts (schemaRootFromProto looks the package up when it differs)
StartPc(p, t) == IF Pkg[t] # Pkg[root[p]] THEN "fPkgLookup" ELSE FramePc([t |-> t, i |-> 1, kids |-> <<>>])

NewFrame(t) == [t |-> t, i |-> 1, kids |-> <<>>]

\* objects reachable from a set of objects through the refs of built schemas
RECURSIVE Closure(_)
Closure(S) ==
    LET N == S \cup { e[2] : e \in { x \in edges : x[1] \in S /\ x[1] \in built } }
    IN IF N = S THEN S ELSE Closure(N)

Init ==
    /\ pkgs = {} /\ smap = [t \in Types |-> None] /\ built = {} /\ edges = {}
    /\ lock = None
    /\ pc = [p \in Procs |-> "idle"] /\ root = [p \in Procs |-> None]
    /\ stack = [p \in Procs |-> <<>>] /\ ret = [p \in Procs |-> None]
    /\ added = [p \in Procs |-> {}]
    /\ calls0 \in CallChoices /\ calls = calls0 /\ results = [p \in Procs |-> <<>>]
    /\ hist = <<>> /\ bad = FALSE

(* ---- Schema(src) ---- *)

\* the goroutine starts a call on root type t and reaches verifAt("enter")
Begin(p, t) ==
    /\ pc[p] = "idle"
    /\ pc' = [pc EXCEPT ![p] = "enter"] /\ root' = [root EXCEPT ![p] = t]
    /\ UNCHANGED <<pkgs, smap, built, edges, lock, stack, ret, calls0, calls, results, hist, bad, added>>

\* segment after "enter": acquire the mutex (if any)
Enter(p) ==
    /\ pc[p] = "enter"
    /\ IF Guard \in {"mutex", "early"} THEN lock = None /\ lock' = p ELSE UNCHANGED lock
    /\ pc' = [pc EXCEPT ![p] = "pkgLookup"]
    /\ Record(p)
    /\ UNCHANGED <<pkgs, smap, built, edges, root, stack, ret, calls0, calls, results, bad, added>>

\* referencePackage: map read
PkgLookup(p) ==
    /\ pc[p] \in {"pkgLookup", "refPkgLookup", "fPkgLookup"}
    /\ LET k == Key(p) IN
         pc' = [pc EXCEPT ![p] =
            CASE pc[p] = "pkgLookup"    -> IF k \in pkgs THEN "lookup" ELSE "pkgInsert"
              [] pc[p] = "refPkgLookup" -> IF k \in pkgs THEN "refLookup" ELSE "refPkgInsert"
              [] pc[p] = "fPkgLookup"   -> FramePc(Top(p))]      \* refTo already inserted it
    /\ Record(p)
    /\ UNCHANGED <<pkgs, smap, built, edges, lock, root, stack, ret, calls0, calls, results, bad, added>>

\* referencePackage: map write
PkgInsert(p) ==
    /\ pc[p] \in {"pkgInsert", "refPkgInsert"}
    /\ pkgs' = pkgs \cup {Key(p)}
    /\ pc' = [pc EXCEPT ![p] = IF pc[p] = "pkgInsert" THEN "lookup" ELSE "refLookup"]
    /\ Record(p)
    /\ UNCHANGED <<smap, built, edges, lock, root, stack, ret, calls0, calls, results, bad, added>>

\* Schemas[name] read in Schema()
Lookup(p) ==
    /\ pc[p] = "lookup"
    /\ LET t == root[p] IN
         IF smap[t] = None
         THEN pc' = [pc EXCEPT ![p] = "insert"] /\ UNCHANGED ret
         ELSE IF <<t, smap[t]>> \in built
              THEN pc' = [pc EXCEPT ![p] = "retOk"] /\ ret' = [ret EXCEPT ![p] = <<t, smap[t]>>]
              ELSE pc' = [pc EXCEPT ![p] = "retUnlinked"] /\ UNCHANGED ret
    /\ Record(p)
    /\ UNCHANGED <<pkgs, smap, built, edges, lock, root, stack, calls0, calls, results, bad, added>>

\* placeholder insert in Schema(), then the build starts
Insert(p) ==
    /\ pc[p] = "insert"
    /\ LET t == root[p] IN
         /\ smap' = [smap EXCEPT ![t] = p]
         /\ stack' = [stack EXCEPT ![p] = <<NewFrame(t)>>]
         /\ pc' = [pc EXCEPT ![p] = FramePc(NewFrame(t))]
         /\ added' = [added EXCEPT ![p] = {t}]
    /\ Record(p)
    /\ UNCHANGED <<pkgs, built, edges, lock, root, ret, calls0, calls, results, bad>>

(* ---- refTo(child) from buildMessageFieldSchema ---- *)

RefLookup(p) ==
    /\ pc[p] = "refLookup"
    /\ LET c == CurChild(p) f == Top(p) n == Len(stack[p]) IN
         IF smap[c] # None
         THEN \* didExist: the field points at the existing ref; nothing is built
              LET f2 == [f EXCEPT !.i = f.i + 1, !.kids = Append(f.kids, <<c, smap[c]>>)] IN
              /\ stack' = [stack EXCEPT ![p] = [stack[p] EXCEPT ![n] = f2]]
              /\ pc' = [pc EXCEPT ![p] = FramePc(f2)]
         ELSE /\ pc' = [pc EXCEPT ![p] = "refInsert"] /\ UNCHANGED stack
    /\ Record(p)
    /\ UNCHANGED <<pkgs, smap, built, edges, lock, root, ret, calls0, calls, results, bad, added>>

RefInsert(p) ==
    /\ pc[p] = "refInsert"
    /\ LET c == CurChild(p) IN
         /\ smap' = [smap EXCEPT ![c] = p]
         /\ stack' = [stack EXCEPT ![p] = Append(stack[p], NewFrame(c))]
         /\ pc' = [pc EXCEPT ![p] = StartPc(p, c)]
         /\ added' = [added EXCEPT ![p] = @ \cup {c}]
    /\ Record(p)
    /\ UNCHANGED <<pkgs, built, edges, lock, root, ret, calls0, calls, results, bad>>

\* build returns; ref.To = built; the parent continues with its next field
SetTo(p) ==
    /\ pc[p] = "setTo"
    /\ LET f == Top(p) n == Len(stack[p]) me == <<f.t, p>> IN
         /\ built' = built \cup {me}
         /\ edges' = edges \cup { <<me, f.kids[i]>> : i \in 1..Len(f.kids) }
         /\ IF n = 1
            THEN /\ stack' = [stack EXCEPT ![p] = <<>>]
                 /\ pc' = [pc EXCEPT ![p] = "validate"]
                 /\ ret' = [ret EXCEPT ![p] = me]
            ELSE LET par == stack[p][n - 1]
                     par2 == [par EXCEPT !.i = par.i + 1, !.kids = Append(par.kids, me)] IN
                 /\ stack' = [stack EXCEPT ![p] = Append(SubSeq(stack[p], 1, n - 2), par2)]
                 /\ pc' = [pc EXCEPT ![p] = FramePc(par2)]
                 /\ UNCHANGED ret
    \* Guard = "early": the lock is given up as soon as the root is linked, before the validation
    /\ lock' = IF Guard = "early" /\ Len(stack[p]) = 1 THEN None ELSE lock
    /\ Record(p)
    /\ UNCHANGED <<pkgs, smap, root, calls0, calls, results, bad, added>>

\* validateBuiltRef over the refs this call registered
Validate(p) ==
    /\ pc[p] = "validate"
    /\ pc' = [pc EXCEPT ![p] = IF added[p] \cap Invalid # {} THEN "rollback" ELSE "retOk"]
    /\ Record(p)
    /\ UNCHANGED <<pkgs, smap, built, edges, lock, root, stack, ret, added, calls0, calls, results, bad>>

\* a rejected build leaves nothing behind: every ref registered by this call is removed again
Rollback(p) ==
    /\ pc[p] = "rollback"
    /\ IF Guard = "early" THEN lock = None /\ lock' = p ELSE UNCHANGED lock
    /\ LET mine == { <<t, p>> : t \in added[p] } IN
         /\ smap' = [t \in Types |-> IF t \in added[p] /\ smap[t] = p THEN None ELSE smap[t]]
         /\ built' = built \ mine
         /\ edges' = { e \in edges : e[1] \notin mine }
    /\ pc' = [pc EXCEPT ![p] = "retErr"] /\ ret' = [ret EXCEPT ![p] = None]
    /\ Record(p)
    /\ UNCHANGED <<pkgs, root, stack, added, calls0, calls, results, bad>>

\* Schema() returns, the mutex is released, and the caller walks the schema it was given
\* types a call on t registers in an empty cache, and what the call returns when it runs alone
RECURSIVE ReachT(_)
ReachT(S) == LET N == S \cup UNION { { ChildSeq[t][i] : i \in 1..Len(ChildSeq[t]) } : t \in S } IN IF N = S THEN S ELSE ReachT(N)
AloneOutcome(t) == IF ReachT({t}) \cap Invalid # {} THEN "rejected" ELSE "ok"

Outcome(p) ==
    IF pc[p] = "retUnlinked" THEN "unlinked"
    ELSE IF pc[p] = "retErr" THEN "rejected"
    ELSE IF \E m \in Closure({ret[p]}) : m \notin built THEN "orphan" ELSE "ok"

Return(p) ==
    /\ pc[p] \in {"retOk", "retUnlinked", "retErr"}
    /\ results' = [results EXCEPT ![p] = Append(results[p], <<root[p], Outcome(p)>>)]
    /\ bad' = (bad \/ (Mode = "attack" /\ Outcome(p) # AloneOutcome(root[p])))
    /\ IF Guard = "mutex" \/ (Guard = "early" /\ lock = p) THEN lock' = None ELSE UNCHANGED lock
    /\ added' = [added EXCEPT ![p] = {}]
    /\ pc' = [pc EXCEPT ![p] = "idle"] /\ root' = [root EXCEPT ![p] = None] /\ ret' = [ret EXCEPT ![p] = None]
    /\ calls' = [calls EXCEPT ![p] = IF calls[p] = <<>> THEN <<>> ELSE Tail(calls[p])]
    /\ Record(p)
    /\ UNCHANGED <<pkgs, smap, built, edges, stack, calls0>>

Step(p) ==
    \/ Enter(p) \/ PkgLookup(p) \/ PkgInsert(p) \/ Lookup(p) \/ Insert(p)
    \/ RefLookup(p) \/ RefInsert(p) \/ SetTo(p) \/ Validate(p) \/ Rollback(p) \/ Return(p)

AllDone == \A p \in Procs : pc[p] = "idle" /\ calls[p] = <<>>

Next ==
    \/ /\ ~bad
       /\ \E p \in Procs :
            \/ (calls[p] # <<>> /\ Begin(p, Head(calls[p])))
            \/ Step(p)
    \/ (AllDone /\ UNCHANGED vars)
    \/ (bad /\ UNCHANGED vars)

Spec == Init /\ [][Next]_vars /\ \A p \in Procs : WF_vars(Step(p) \/ (calls[p] # <<>> /\ Begin(p, Head(calls[p]))))

(* ---------------- properties ---------------- *)

Inside(p) == pc[p] \notin {"idle", "enter"}

TypeOK ==
    /\ pkgs \subseteq { Pkg[t] : t \in Types }
    /\ \A t \in Types : smap[t] \in Procs \cup {None}
    /\ lock \in Procs \cup {None}

\* with the mutex at most one goroutine is between Lock and Unlock, and it is the holder
MutualExclusion ==
    Guard = "mutex" => /\ Cardinality({ p \in Procs : Inside(p) }) <= 1
                       /\ \A p \in Procs : Inside(p) => lock = p

\* which shared location the next step of p touches, and how
Access(p) ==
    CASE pc[p] \in {"pkgLookup", "refPkgLookup", "fPkgLookup"} -> <<"packages", "r">>
      [] pc[p] \in {"pkgInsert", "refPkgInsert"} -> <<"packages", "w">>
      [] pc[p] \in {"lookup", "refLookup"} -> <<"schemas", "r">>
      [] pc[p] \in {"insert", "refInsert"} -> <<"schemas", "w">>
      [] pc[p] = "setTo" -> <<"to", "w">>
      [] pc[p] \in {"retOk", "validate"} -> <<"to", "r">>
      [] pc[p] = "rollback" -> <<"schemas", "w">>
      [] OTHER -> <<"none", "r">>

\* two goroutines are simultaneously about to touch the same location, one of them writing:
\* a Go data race (for the maps: "fatal error: concurrent map writes")
DataRace ==
    \E p, q \in Procs : p # q /\ Inside(p) /\ Inside(q)
        /\ Access(p)[1] = Access(q)[1] /\ Access(p)[1] # "none"
        /\ (Access(p)[2] = "w" \/ Access(q)[2] = "w")
NoDataRace == ~DataRace

\* every call returns what it returns when run alone
SameAsAlone == \A p \in Procs : \A i \in 1..Len(results[p]) : results[p][i][2] = AloneOutcome(results[p][i][1])

\* nothing of a rejected build is visible once the lock is free
RejectedNeverCached ==
    (Guard = "mutex" /\ lock = None) => \A t \in Types : smap[t] # None => AloneOutcome(t) = "ok"

\* each type is built exactly once per cache
BuiltOnce == \A t \in Types : Cardinality({ o \in built : o[1] = t }) <= 1

\* outside the lock no placeholder with a nil To is visible
NoPlaceholderVisible ==
    (Guard = "mutex" /\ lock = None) => \A t \in Types : smap[t] # None => <<t, smap[t]>> \in built

Termination == <>[]AllDone

\* attack mode: print the schedule that made a call misbehave (one per distinct bad state)
EmitAttack ==
    (Mode = "attack" /\ bad) =>
        PrintT(<<"CASE", ToJson([hist |-> hist, results |-> results, calls |-> calls0,
                                 graph |-> [t \in Types |-> [pkg |-> Pkg[t], children |-> ChildSeq[t], selfflat |-> t \in Invalid]]])>>)

\* history is excluded from the view: each distinct algorithm state is explored once,
\* with the (shortest, BFS) schedule that reached it first
View == <<pkgs, smap, built, edges, lock, pc, root, stack, ret, added, calls0, calls, results, bad>>
=============================================================================
