---------------------------- MODULE SchemaCache ----------------------------
(***************************************************************************)
(* lib/j5schema.SchemaCache: the only shared mutable state on the codec    *)
(* path (codec.Codec -> j5reflect.Reflector -> SchemaCache).               *)
(*                                                                         *)
(* One action per segment of the code between two verifAt(...) points      *)
(* (build tag verif):                                                      *)
(*                                                                         *)
(*   Schema(src):  enter  [Lock]  referencePackage{pkgLookup, pkgInsert}   *)
(*                 lookup  ->  return (built | "unlinked ref")             *)
(*                         ->  insert placeholder, build                   *)
(*   build(t):     [pkgLookup when t is outside the root's package]        *)
(*                 for each message field c of t:                          *)
(*                    refTo(c): pkgLookup [pkgInsert] refLookup            *)
(*                              exists -> use it (cuts cycles)             *)
(*                              else   -> refInsert, build(c)              *)
(*                 setTo (ref.To = built)                                  *)
(*   return        [Unlock]; the caller then walks the returned schema     *)
(*                                                                         *)
(* Guard = "mutex" models a lock held over the whole of Schema();          *)
(* Guard = "none" is the same algorithm without it and is used to derive   *)
(* attack schedules that are then forced on the real code.                 *)
(*                                                                         *)
(* RefSchema objects are identified by <<type, creating process>>: two     *)
(* unsynchronised processes can each insert "the" placeholder of a type.   *)
(***************************************************************************)
EXTENDS Integers, Sequences, FiniteSets, TLC, Json

CONSTANTS
    Procs,      \* goroutines
    Types,      \* message types
    ChildSeq,   \* [Types -> Seq(Types)]: message-typed fields in declaration order
    Pkg,        \* [Types -> STRING]: package of each type
    CallChoices,\* set of [Procs -> Seq(Types)]: root types each goroutine encodes/decodes, in order
    Guard,      \* "mutex" | "none"
    Mode        \* "check" | "attack" | "trace"

None == "-"

VARIABLES
    pkgs,     \* set of package names in SchemaCache.packages
    smap,     \* [Types -> Procs \cup {None}]: creator of the RefSchema currently in Package.Schemas
    built,    \* set of <<type, creator>>: RefSchema objects whose To is set
    edges,    \* set of <<parent object, child object>>: refs held by built schemas
    lock,     \* holder of the mutex or None
    pc,       \* [Procs -> control point]
    root,     \* [Procs -> root type of the call in progress]
    stack,    \* [Procs -> Seq of frames [t, i, kids]]
    ret,      \* [Procs -> object being returned, or None]
    calls0,   \* [Procs -> all calls] (constant through a behaviour)
    calls,    \* [Procs -> remaining calls]
    results,  \* [Procs -> Seq of <<type, "ok"|"unlinked"|"orphan">>]
    hist,     \* schedule so far: Seq of <<proc, label, key>> (attack mode only)
    bad       \* attack mode: a call returned something it does not return when run alone

vars == <<pkgs, smap, built, edges, lock, pc, root, stack, ret, calls0, calls, results, hist, bad>>

FullName(t) == Pkg[t] \o "." \o t

Label(c) ==
    CASE c \in {"pkgLookup", "fPkgLookup", "refPkgLookup"} -> "pkgLookup"
      [] c \in {"pkgInsert", "refPkgInsert"} -> "pkgInsert"
      [] c \in {"retOk", "retUnlinked"} -> "return"
      [] OTHER -> c

Top(p) == stack[p][Len(stack[p])]
CurChild(p) == ChildSeq[Top(p).t][Top(p).i]

\* the key the corresponding verifAt call reports
Key(p) ==
    CASE pc[p] \in {"pkgLookup", "pkgInsert"} -> Pkg[root[p]]
      [] pc[p] = "fPkgLookup" -> Pkg[Top(p).t]
      [] pc[p] \in {"refPkgLookup", "refPkgInsert"} -> Pkg[CurChild(p)]
      [] pc[p] \in {"refLookup", "refInsert"} -> FullName(CurChild(p))
      [] pc[p] = "setTo" -> FullName(Top(p).t)
      [] OTHER -> FullName(root[p])

Record(p) == hist' = IF Mode = "attack" THEN Append(hist, <<p, Label(pc[p]), Key(p)>>) ELSE hist

\* where a frame continues: next field, or done
FramePc(f) == IF f.i <= Len(ChildSeq[f.t]) THEN "refPkgLookup" ELSE "setTo"
\* where a freshly pushed frame starts (schemaRootFromProto looks the package up when it differs)
StartPc(p, t) == IF Pkg[t] # Pkg[root[p]] THEN "fPkgLookup" ELSE FramePc([t |-> t, i |-> 1, kids |-> <<>>])

NewFrame(t) == [t |-> t, i |-> 1, kids |-> <<>>]

\* objects reachable from a set of objects through the refs of built schemas
RECURSIVE Closure(_)
Closure(S) ==
    LET N == S \cup { e[2] : e \in { x \in edges : x[1] \in S /\ x[1] \in built } }
    IN IF N = S THEN S ELSE Closure(N)

Init ==
    /\ pkgs = {} /\ smap = [t \in Types |-> None] /\ built = {} /\ edges = {}
    /\ lock = None
    /\ pc = [p \in Procs |-> "idle"] /\ root = [p \in Procs |-> None]
    /\ stack = [p \in Procs |-> <<>>] /\ ret = [p \in Procs |-> None]
    /\ calls0 \in CallChoices /\ calls = calls0 /\ results = [p \in Procs |-> <<>>]
    /\ hist = <<>> /\ bad = FALSE

(* ---- Schema(src) ---- *)

\* the goroutine starts a call on root type t and reaches verifAt("enter")
Begin(p, t) ==
    /\ pc[p] = "idle"
    /\ pc' = [pc EXCEPT ![p] = "enter"] /\ root' = [root EXCEPT ![p] = t]
    /\ UNCHANGED <<pkgs, smap, built, edges, lock, stack, ret, calls0, calls, results, hist, bad>>

\* segment after "enter": acquire the mutex (if any)
Enter(p) ==
    /\ pc[p] = "enter"
    /\ IF Guard = "mutex" THEN lock = None /\ lock' = p ELSE UNCHANGED lock
    /\ pc' = [pc EXCEPT ![p] = "pkgLookup"]
    /\ Record(p)
    /\ UNCHANGED <<pkgs, smap, built, edges, root, stack, ret, calls0, calls, results, bad>>

\* referencePackage: map read
PkgLookup(p) ==
    /\ pc[p] \in {"pkgLookup", "refPkgLookup", "fPkgLookup"}
    /\ LET k == Key(p) IN
         pc' = [pc EXCEPT ![p] =
            CASE pc[p] = "pkgLookup"    -> IF k \in pkgs THEN "lookup" ELSE "pkgInsert"
              [] pc[p] = "refPkgLookup" -> IF k \in pkgs THEN "refLookup" ELSE "refPkgInsert"
              [] pc[p] = "fPkgLookup"   -> FramePc(Top(p))]      \* refTo already inserted it
    /\ Record(p)
    /\ UNCHANGED <<pkgs, smap, built, edges, lock, root, stack, ret, calls0, calls, results, bad>>

\* referencePackage: map write
PkgInsert(p) ==
    /\ pc[p] \in {"pkgInsert", "refPkgInsert"}
    /\ pkgs' = pkgs \cup {Key(p)}
    /\ pc' = [pc EXCEPT ![p] = IF pc[p] = "pkgInsert" THEN "lookup" ELSE "refLookup"]
    /\ Record(p)
    /\ UNCHANGED <<smap, built, edges, lock, root, stack, ret, calls0, calls, results, bad>>

\* Schemas[name] read in Schema()
Lookup(p) ==
    /\ pc[p] = "lookup"
    /\ LET t == root[p] IN
         IF smap[t] = None
         THEN pc' = [pc EXCEPT ![p] = "insert"] /\ UNCHANGED ret
         ELSE IF <<t, smap[t]>> \in built
              THEN pc' = [pc EXCEPT ![p] = "retOk"] /\ ret' = [ret EXCEPT ![p] = <<t, smap[t]>>]
              ELSE pc' = [pc EXCEPT ![p] = "retUnlinked"] /\ UNCHANGED ret
    /\ Record(p)
    /\ UNCHANGED <<pkgs, smap, built, edges, lock, root, stack, calls0, calls, results, bad>>

\* placeholder insert in Schema(), then the build starts
Insert(p) ==
    /\ pc[p] = "insert"
    /\ LET t == root[p] IN
         /\ smap' = [smap EXCEPT ![t] = p]
         /\ stack' = [stack EXCEPT ![p] = <<NewFrame(t)>>]
         /\ pc' = [pc EXCEPT ![p] = FramePc(NewFrame(t))]
    /\ Record(p)
    /\ UNCHANGED <<pkgs, built, edges, lock, root, ret, calls0, calls, results, bad>>

(* ---- refTo(child) from buildMessageFieldSchema ---- *)

RefLookup(p) ==
    /\ pc[p] = "refLookup"
    /\ LET c == CurChild(p) f == Top(p) n == Len(stack[p]) IN
         IF smap[c] # None
         THEN \* didExist: the field points at the existing ref; nothing is built
              LET f2 == [f EXCEPT !.i = f.i + 1, !.kids = Append(f.kids, <<c, smap[c]>>)] IN
              /\ stack' = [stack EXCEPT ![p] = [stack[p] EXCEPT ![n] = f2]]
              /\ pc' = [pc EXCEPT ![p] = FramePc(f2)]
         ELSE /\ pc' = [pc EXCEPT ![p] = "refInsert"] /\ UNCHANGED stack
    /\ Record(p)
    /\ UNCHANGED <<pkgs, smap, built, edges, lock, root, ret, calls0, calls, results, bad>>

RefInsert(p) ==
    /\ pc[p] = "refInsert"
    /\ LET c == CurChild(p) IN
         /\ smap' = [smap EXCEPT ![c] = p]
         /\ stack' = [stack EXCEPT ![p] = Append(stack[p], NewFrame(c))]
         /\ pc' = [pc EXCEPT ![p] = StartPc(p, c)]
    /\ Record(p)
    /\ UNCHANGED <<pkgs, built, edges, lock, root, ret, calls0, calls, results, bad>>

\* build returns; ref.To = built; the parent continues with its next field
SetTo(p) ==
    /\ pc[p] = "setTo"
    /\ LET f == Top(p) n == Len(stack[p]) me == <<f.t, p>> IN
         /\ built' = built \cup {me}
         /\ edges' = edges \cup { <<me, f.kids[i]>> : i \in 1..Len(f.kids) }
         /\ IF n = 1
            THEN /\ stack' = [stack EXCEPT ![p] = <<>>]
                 /\ pc' = [pc EXCEPT ![p] = "retOk"]
                 /\ ret' = [ret EXCEPT ![p] = me]
            ELSE LET par == stack[p][n - 1]
                     par2 == [par EXCEPT !.i = par.i + 1, !.kids = Append(par.kids, me)] IN
                 /\ stack' = [stack EXCEPT ![p] = Append(SubSeq(stack[p], 1, n - 2), par2)]
                 /\ pc' = [pc EXCEPT ![p] = FramePc(par2)]
                 /\ UNCHANGED ret
    /\ Record(p)
    /\ UNCHANGED <<pkgs, smap, lock, root, calls0, calls, results, bad>>

\* Schema() returns, the mutex is released, and the caller walks the schema it was given
Outcome(p) ==
    IF pc[p] = "retUnlinked" THEN "unlinked"
    ELSE IF \E m \in Closure({ret[p]}) : m \notin built THEN "orphan" ELSE "ok"

Return(p) ==
    /\ pc[p] \in {"retOk", "retUnlinked"}
    /\ results' = [results EXCEPT ![p] = Append(results[p], <<root[p], Outcome(p)>>)]
    /\ bad' = (bad \/ (Mode = "attack" /\ Outcome(p) # "ok"))
    /\ IF Guard = "mutex" THEN lock' = None ELSE UNCHANGED lock
    /\ pc' = [pc EXCEPT ![p] = "idle"] /\ root' = [root EXCEPT ![p] = None] /\ ret' = [ret EXCEPT ![p] = None]
    /\ calls' = [calls EXCEPT ![p] = IF calls[p] = <<>> THEN <<>> ELSE Tail(calls[p])]
    /\ Record(p)
    /\ UNCHANGED <<pkgs, smap, built, edges, stack, calls0>>

Step(p) ==
    \/ Enter(p) \/ PkgLookup(p) \/ PkgInsert(p) \/ Lookup(p) \/ Insert(p)
    \/ RefLookup(p) \/ RefInsert(p) \/ SetTo(p) \/ Return(p)

AllDone == \A p \in Procs : pc[p] = "idle" /\ calls[p] = <<>>

Next ==
    \/ /\ ~bad
       /\ \E p \in Procs :
            \/ (calls[p] # <<>> /\ Begin(p, Head(calls[p])))
            \/ Step(p)
    \/ (AllDone /\ UNCHANGED vars)
    \/ (bad /\ UNCHANGED vars)

Spec == Init /\ [][Next]_vars /\ \A p \in Procs : WF_vars(Step(p) \/ (calls[p] # <<>> /\ Begin(p, Head(calls[p]))))

(* ---------------- properties ---------------- *)

Inside(p) == pc[p] \notin {"idle", "enter"}

TypeOK ==
    /\ pkgs \subseteq { Pkg[t] : t \in Types }
    /\ \A t \in Types : smap[t] \in Procs \cup {None}
    /\ lock \in Procs \cup {None}

\* with the mutex at most one goroutine is between Lock and Unlock, and it is the holder
MutualExclusion ==
    Guard = "mutex" => /\ Cardinality({ p \in Procs : Inside(p) }) <= 1
                       /\ \A p \in Procs : Inside(p) => lock = p

\* which shared location the next step of p touches, and how
Access(p) ==
    CASE pc[p] \in {"pkgLookup", "refPkgLookup", "fPkgLookup"} -> <<"packages", "r">>
      [] pc[p] \in {"pkgInsert", "refPkgInsert"} -> <<"packages", "w">>
      [] pc[p] \in {"lookup", "refLookup"} -> <<"schemas", "r">>
      [] pc[p] \in {"insert", "refInsert"} -> <<"schemas", "w">>
      [] pc[p] = "setTo" -> <<"to", "w">>
      [] pc[p] = "retOk" -> <<"to", "r">>
      [] OTHER -> <<"none", "r">>

\* two goroutines are simultaneously about to touch the same location, one of them writing:
\* a Go data race (for the maps: "fatal error: concurrent map writes")
DataRace ==
    \E p, q \in Procs : p # q /\ Inside(p) /\ Inside(q)
        /\ Access(p)[1] = Access(q)[1] /\ Access(p)[1] # "none"
        /\ (Access(p)[2] = "w" \/ Access(q)[2] = "w")
NoDataRace == ~DataRace

\* every call returns what it returns when run alone
SameAsAlone == \A p \in Procs : \A i \in 1..Len(results[p]) : results[p][i][2] = "ok"

\* each type is built exactly once per cache
BuiltOnce == \A t \in Types : Cardinality({ o \in built : o[1] = t }) <= 1

\* outside the lock no placeholder with a nil To is visible
NoPlaceholderVisible ==
    (Guard = "mutex" /\ lock = None) => \A t \in Types : smap[t] # None => <<t, smap[t]>> \in built

Termination == <>[]AllDone

\* attack mode: print the schedule that made a call misbehave (one per distinct bad state)
EmitAttack ==
    (Mode = "attack" /\ bad) =>
        PrintT(<<"CASE", ToJson([hist |-> hist, results |-> results, calls |-> calls0,
                                 graph |-> [t \in Types |-> [pkg |-> Pkg[t], children |-> ChildSeq[t]]]])>>)

\* history is excluded from the view: each distinct algorithm state is explored once,
\* with the (shortest, BFS) schedule that reached it first
View == <<pkgs, smap, built, edges, lock, pc, root, stack, ret, calls0, calls, results, bad>>
=============================================================================
