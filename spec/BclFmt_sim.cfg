SPECIFICATION FSpec
CONSTANTS
  MaxToks = 30
  MaxDepth = 2
  Atoms <- FmtAtoms
  FailFastChoices <- OnlyFF
  Prune = TRUE
  PruneReps <- Reps
  EmitCases = TRUE
INVARIANTS Pass2Accepts FEmit 
CHECK_DEADLOCK FALSE
