SPECIFICATION Spec
CONSTANTS
  Pkg = "foo.v1"
  PkgPath = "foo/v1"
  Cap <- CapTable
  Upper <- UpperTable
  Acronyms <- AcronymSet
  Focuses <- ThoroughFocuses
  NamePool <- MCNamePool
  KeyOpts <- MCKeyOpts
  MaxKeys <- MCMaxKeys
  DataOpts <- MCDataOpts
  MaxData <- MCMaxData
  StatusPool <- MCStatusPool
  MaxStatus <- MCMaxStatus
  EventPool <- MCEventPool
  MinEvents <- MCMinEvents
  MaxEvents <- MCMaxEvents
  CmdPool <- MCCmdPool
  MaxCmds <- MCMaxCmds
  SummaryPool <- MCSummaryPool
  MaxSummaries <- MCMaxSummaries
  QueryPool <- MCQueryPool
  Layouts <- MCLayouts
  EmitCases = TRUE
INVARIANTS TypeOK EntityConsistent NamesUnique Emit
PROPERTIES Progress
CHECK_DEADLOCK FALSE
