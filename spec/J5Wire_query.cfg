SPECIFICATION Spec
CONSTANTS
  Mode = "query"
  Kinds <- KindsAll
  Cards <- CardsAll
  Positions <- PositionsAll
  Pairs = TRUE
  Combos = FALSE
  EmitCases = TRUE
INVARIANTS TypeOK ReprTotal NoKeyCollision Emit
PROPERTIES Progress
CHECK_DEADLOCK FALSE
