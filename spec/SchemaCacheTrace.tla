-------------------------- MODULE SchemaCacheTrace --------------------------
(***************************************************************************)
(* Trace validation for the schema cache (direction T).                    *)
(*                                                                         *)
(* The verifAt hooks log, under their own mutex and with a global sequence *)
(* number, one event <<goroutine, point, key>> each time a goroutine        *)
(* ARRIVES at a point.  Arriving at point X means the goroutine has just    *)
(* completed the action of SchemaCache.tla that leads to control point X,   *)
(* so an event is matched by the action of that goroutine whose target      *)
(* control point carries the label X and the same key.  The segment after   *)
(* "return" (unlock, use of the schema) is not logged: Return is composed   *)
(* in as a silent step.  Several recorded runs are concatenated; a "reset"  *)
(* event re-initialises the cache.                                          *)
(***************************************************************************)
EXTENDS SchemaCache, IOUtils

TraceFile == IF "VERIF_TRACE" \in DOMAIN IOEnv THEN IOEnv.VERIF_TRACE ELSE "trace.ndjson"
Trace == ndJsonDeserialize(TraceFile)

VARIABLE l
tvars == <<vars, l>>

TypeOfKey(k) == CHOOSE t \in Types : FullName(t) = k

TraceInit ==
    /\ pkgs = {} /\ smap = [t \in Types |-> None] /\ built = {} /\ edges = {}
    /\ lock = None
    /\ pc = [p \in Procs |-> "idle"] /\ root = [p \in Procs |-> None]
    /\ stack = [p \in Procs |-> <<>>] /\ ret = [p \in Procs |-> None]
    /\ added = [p \in Procs |-> {}]
    /\ calls0 = [p \in Procs |-> <<>>] /\ calls = calls0 /\ results = [p \in Procs |-> <<>>]
    /\ hist = <<>> /\ bad = FALSE
    /\ l = 1

Ev == Trace[l]

\* label and key of the control point p will be at after the step (Key/Label on primed variables)
KeyAfter(p) ==
    LET c == pc'[p] top == stack'[p][Len(stack'[p])] IN
    CASE c \in {"pkgLookup", "pkgInsert"} -> Pkg[root'[p]]
      [] c = "fPkgLookup" -> Pkg[top.t]
      [] c \in {"refPkgLookup", "refPkgInsert"} -> Pkg[ChildSeq[top.t][top.i]]
      [] c \in {"refLookup", "refInsert"} -> FullName(ChildSeq[top.t][top.i])
      [] c = "setTo" -> FullName(top.t)
      [] OTHER -> FullName(root'[p])

\* a logged arrival of goroutine p at point Ev.point
Arrive ==
    /\ l <= Len(Trace) /\ Ev.op = "at"
    /\ LET p == Ev.g IN
         /\ p \in Procs
         /\ \/ (\E t \in Types : FullName(t) = Ev.key) /\ Ev.point = "enter" /\ Begin(p, TypeOfKey(Ev.key))
            \/ Step(p) /\ pc[p] \notin {"retOk", "retUnlinked", "retErr"}
         /\ Label(pc'[p]) = Ev.point
         /\ KeyAfter(p) = Ev.key
    /\ l' = l + 1

\* unlogged: Schema() returns and releases the lock
SilentReturn ==
    /\ \E p \in Procs : Return(p)
    /\ UNCHANGED l

Reset ==
    /\ l <= Len(Trace) /\ Ev.op = "reset"
    /\ \A p \in Procs : pc[p] = "idle"
    /\ pkgs' = {} /\ smap' = [t \in Types |-> None] /\ built' = {} /\ edges' = {}
    /\ lock' = None
    /\ pc' = [p \in Procs |-> "idle"] /\ root' = [p \in Procs |-> None]
    /\ stack' = [p \in Procs |-> <<>>] /\ ret' = [p \in Procs |-> None]
    /\ added' = [p \in Procs |-> {}]
    /\ calls0' = [p \in Procs |-> <<>>] /\ calls' = calls0' /\ results' = [p \in Procs |-> <<>>]
    /\ hist' = <<>> /\ bad' = FALSE
    /\ l' = l + 1

TraceNext == Arrive \/ SilentReturn \/ Reset
TraceSpec == TraceInit /\ [][TraceNext]_tvars

TraceDone ==
    (l = Len(Trace) + 1) => PrintT(<<"TRACEDONE", ToJson([events |-> l - 1])>>)

\* how far the trace could be explained (printed so a rejection can be located)
HighWater == PrintT(<<"HW", l>>)
=============================================================================
