SPECIFICATION Spec
CONSTANTS
  Procs <- P2
  Types <- SharedTypes
  ChildSeq <- SharedChild
  Pkg <- SharedPkg
  CallChoices <- SharedCalls2
  Guard = "none"
  Mode = "check"
INVARIANTS SameAsAlone
CHECK_DEADLOCK FALSE
