SPECIFICATION Spec
CONSTANTS
  Procs <- P2
  Types <- SharedTypes
  ChildSeq <- SharedChild
  Invalid <- NoneInvalid
  Pkg <- SharedPkg
  CallChoices <- SharedCalls2
  Guard = "none"
  Mode = "check"
INVARIANTS SameAsAlone
CHECK_DEADLOCK FALSE
