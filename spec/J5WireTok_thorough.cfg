SPECIFICATION Spec
CONSTANTS
  TMode = "tok"
  MaxToks = 8
  MinToks = 0
  Strs <- StrsAll
  EmitCases = TRUE
INVARIANTS TypeOK Total DepthBounded EndsClean Emit
PROPERTIES Progress
VIEW View
CHECK_DEADLOCK TRUE
