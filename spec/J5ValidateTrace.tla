--------------------------- MODULE J5ValidateTrace ---------------------------
(***************************************************************************)
(* Trace validation for properties C12 and C04 (direction T).              *)
(*                                                                         *)
(* The harness records, from real calls,                                   *)
(*   [op |-> "validate", decl, cand, real, err]   protovalidate's verdict  *)
(*        on a message of the type compiled from decl, populated with cand *)
(*   [op |-> "reflect", decl, expect, real]        j5schema's reflection   *)
(*        of the compiled descriptors projected on the declaration         *)
(*        vocabulary (real.memory / real.text)                             *)
(*   [op |-> "reset"]                               between recordings     *)
(* For every event the machine of J5Validate is put in the logged          *)
(* (declaration, candidate) state and TLC evaluates Allows / Read(Write)   *)
(* on the LOGGED values.  Strict mode (Strict = TRUE): the laws are        *)
(* invariants.  Counting mode: disagreements are counted and reported in   *)
(* the TRACEDONE line; the check requires the count to coincide with the   *)
(* violations found by direction G.                                        *)
(***************************************************************************)
EXTENDS J5Validate, IOUtils

CONSTANT Strict

TraceFile == IF "VERIF_TRACE" \in DOMAIN IOEnv THEN IOEnv.VERIF_TRACE ELSE "trace.ndjson"
Trace == ndJsonDeserialize(TraceFile)

VARIABLES l, nBadValidate, nBadReflect, nBadText, nBadExpect
tvars == <<vars, l, nBadValidate, nBadReflect, nBadText, nBadExpect>>

TraceInit ==
    /\ phase = "idle" /\ decl = NoDecl /\ nrules = 0 /\ cand = NoCand
    /\ l = 1 /\ nBadValidate = 0 /\ nBadReflect = 0 /\ nBadText = 0 /\ nBadExpect = 0

Ev == Trace[l]
IsEvent(op) == l <= Len(Trace) /\ Ev.op = op

\* a recorded declaration must be one the specification can build (PickKind then AddRule steps)
DeclOfSpec(d) ==
    /\ d.kind \in Kinds /\ d.card \in Cards /\ d.pres \in Press
    /\ WellFormed(d) /\ Complete(d)

\* the verdict of the real validator agrees with the rule semantics
ValidateAgrees == Ev.err = FALSE /\ Ev.real = Allows(Ev.decl, Ev.cand)

Projected(side) == side \in DOMAIN Ev.real /\ "prop" \in DOMAIN Ev.real[side]
ReflectAgrees(side) == Projected(side) /\ Ev.real[side].prop = Read(Write(Ev.decl))

\* the machine takes the logged state: the declaration as chosen by PickKind/AddRule, the candidate by PickCandidate
TraceValidate ==
    /\ IsEvent("validate")
    /\ DeclOfSpec(Ev.decl)
    /\ decl' = Ev.decl /\ cand' = Ev.cand /\ phase' = "done" /\ nrules' = 0
    /\ nBadValidate' = nBadValidate + (IF ValidateAgrees THEN 0 ELSE 1)
    /\ l' = l + 1
    /\ UNCHANGED <<nBadReflect, nBadText, nBadExpect>>

TraceReflect ==
    /\ IsEvent("reflect")
    /\ DeclOfSpec(Ev.decl)
    /\ decl' = Ev.decl /\ cand' = NoCand /\ phase' = "done" /\ nrules' = 0
    /\ nBadReflect' = nBadReflect + (IF ReflectAgrees("memory") THEN 0 ELSE 1)
    /\ nBadText' = nBadText + (IF "text" \in DOMAIN Ev.real /\ ~ReflectAgrees("text") THEN 1 ELSE 0)
    \* binding integrity: the expectation the replay compared with is the model's
    /\ nBadExpect' = nBadExpect + (IF Ev.expect = Read(Write(Ev.decl)) THEN 0 ELSE 1)
    /\ l' = l + 1
    /\ UNCHANGED nBadValidate

TraceReset ==
    /\ IsEvent("reset")
    /\ phase' = "idle" /\ decl' = NoDecl /\ cand' = NoCand /\ nrules' = 0
    /\ l' = l + 1
    /\ UNCHANGED <<nBadValidate, nBadReflect, nBadText, nBadExpect>>

TraceNext == TraceValidate \/ TraceReflect \/ TraceReset
TraceSpec == TraceInit /\ [][TraceNext]_tvars

(* the laws, evaluated on the state reached by the last consumed event *)
Prev == Trace[l - 1]
LawValidate ==
    (Strict /\ l > 1 /\ Prev.op = "validate") => (Prev.err = FALSE /\ Prev.real = Allows(Prev.decl, Prev.cand))
LawReflect ==
    (Strict /\ l > 1 /\ Prev.op = "reflect") =>
        /\ "prop" \in DOMAIN Prev.real.memory /\ Prev.real.memory.prop = Read(Write(Prev.decl))
        /\ ("text" \in DOMAIN Prev.real => ("prop" \in DOMAIN Prev.real.text /\ Prev.real.text.prop = Read(Write(Prev.decl))))
LawExpect == nBadExpect = 0

\* every event must be consumable (a recorded declaration outside the specification stops the trace: incomplete)
TraceDone ==
    (l = Len(Trace) + 1) =>
        PrintT(<<"TRACEDONE", ToJson([events |-> l - 1, badValidate |-> nBadValidate, badReflect |-> nBadReflect,
                                      badText |-> nBadText, badExpect |-> nBadExpect])>>)
=============================================================================
