SPECIFICATION TraceSpec
CONSTANTS
  Procs <- P4
  Types <- InvTypes
  ChildSeq <- InvChild
  Invalid <- InvInvalid
  Pkg <- InvPkg
  CallChoices <- NoCalls
  Guard = "mutex"
  Mode = "trace"
INVARIANTS MutualExclusion SameAsAlone BuiltOnce NoPlaceholderVisible TraceDone
CHECK_DEADLOCK FALSE
