SPECIFICATION Spec
CONSTANTS
  Mode = "sim"
  Guard = TRUE
  EmitCases = TRUE
  MaxMsgs = 4
  MaxEnums = 2
  MaxFocus = 6
  MaxAnns = 4
  ScalarKinds <- AllScalarKinds
  WktAtoms <- AllWkt
  Cards <- CardsAll
  MapKeys <- KeysTwo
  OneofSels <- SelsThree
  OneofOpts <- OneofOptsTwo
  MsgOpts <- MsgOptsFew
  EnumOpts <- EnumOptsTwo
  RecForms <- RecAll
  ValidateAnns <- ValidateAll
  J5Anns <- J5All
  ListAnns <- ListAll
  PsmAnns <- PsmAll
  MismatchAnns <- MismatchAll
INVARIANTS TypeOK NoReenter EntersBounded StackBounded StepsBounded BuiltLinked OneResultPerRun Emit
CHECK_DEADLOCK FALSE
