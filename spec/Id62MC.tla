------------------------------ MODULE Id62MC ------------------------------
EXTENDS Id62
AllBytes == 0..255
NoBytes == {}
NoChars == {}
\* digit classes 0,9 / a,z (10,35) / A,Z (36,61), sign atoms, underscore, space, non-ASCII, dot, NUL
Chars == {0, 1, 9, 10, 35, 36, 61, 100, 101, 102, 103, 104, 105, 106}
DigitChars == {0, 1, 30, 61}
=============================================================================
