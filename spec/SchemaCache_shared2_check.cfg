SPECIFICATION Spec
CONSTANTS
  Procs <- P2
  Types <- SharedTypes
  ChildSeq <- SharedChild
  Pkg <- SharedPkg
  CallChoices <- SharedCalls2
  Guard = "mutex"
  Mode = "check"
INVARIANTS TypeOK MutualExclusion NoDataRace SameAsAlone BuiltOnce NoPlaceholderVisible
PROPERTIES Termination
CHECK_DEADLOCK TRUE
