SPECIFICATION Spec
CONSTANTS
  Procs <- P2
  Types <- SharedTypes
  ChildSeq <- SharedChild
  Invalid <- NoneInvalid
  Pkg <- SharedPkg
  CallChoices <- SharedCalls2
  Guard = "mutex"
  Mode = "check"
INVARIANTS TypeOK MutualExclusion NoDataRace SameAsAlone BuiltOnce NoPlaceholderVisible
PROPERTIES Termination
CHECK_DEADLOCK TRUE
