SPECIFICATION Spec
CONSTANTS
  Versions = {1, 2}
  MaxCompiles = 3
  EmitCases = TRUE
INVARIANTS HistoryIndependent Emit
CHECK_DEADLOCK FALSE
