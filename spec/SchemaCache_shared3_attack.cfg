SPECIFICATION Spec
CONSTANTS
  Procs <- P3
  Types <- SharedTypes
  ChildSeq <- SharedChild
  Invalid <- NoneInvalid
  Pkg <- SharedPkg
  CallChoices <- SharedCalls3
  Guard = "none"
  Mode = "attack"
INVARIANTS EmitAttack
VIEW View
CHECK_DEADLOCK FALSE
