----------------------------- MODULE J5Compile -----------------------------
(***************************************************************************)
(* The protobuf CONTRACT of a j5s bundle: what property C02's statement    *)
(* says the compiled descriptors must contain.  Contract(bundle) is a      *)
(* record of sets (files, imports, msgs, fields, enums, values, services,  *)
(* methods); the harness computes the same projection from the real        *)
(* descriptors (harness/schema_project.go).                                *)
(*                                                                         *)
(* Rules (each from the statement of C02 and the README):                  *)
(*  - file <dir>/<file>.j5s.proto in the package; services in              *)
(*    <pkg>.service, topics in <pkg>.topic (file <dir>/<sub>/<file>.p.j5s.proto) *)
(*  - field: name = Snake(n), json = n as written, number = 1-based        *)
(*    position after implicit leading fields, proto type / type name,      *)
(*    label repeated for arrays and maps (map entry message <Camel>Entry   *)
(*    with key = 1, value = 2), proto3_optional for "?" / optional = true  *)
(*  - enum: <PREFIX>UNSPECIFIED = 0 then position (1-based); default       *)
(*    prefix ScreamingSnake(name) + "_"                                    *)
(*  - inline types nested in the parent message under UpperCamel(field)    *)
(*    or the overriding name                                               *)
(*  - <Method>Request / <Method>Response / <Name>Message, HttpBody for a   *)
(*    method without response, google.protobuf.Empty for topic methods,    *)
(*    verb and path with ":name" -> "{snake_name}", messaging role.        *)
(*                                                                         *)
(* Model-level properties: NumbersContiguous, NamesUniquePerScope,         *)
(* ImportsSufficient (state), AppendStable (action property: every step    *)
(* of J5Schema is an append edit and must leave the wire identities of     *)
(* the previous contract untouched).                                       *)
(***************************************************************************)
EXTENDS J5Schema, Json

CONSTANTS EmitCases,    \* TRUE: print JSON cases
          EmitLeavesOnly \* TRUE: only for states with steps = MaxSteps (simulation: TLC evaluates invariants on every candidate successor)

VARIABLE con            \* Contract(bundle), maintained by every step (so it is computed once per transition)

vars == <<bundle, steps, rich, cur, started, hist, focus, con>>

EmptyC == [files |-> {}, imports |-> {}, msgs |-> {}, fields |-> {}, enums |-> {}, values |-> {}, services |-> {}, methods |-> {}]
a ++ b == [k \in DOMAIN EmptyC |-> a[k] \cup b[k]]
RECURSIVE SumC(_)
SumC(S) == IF S = {} THEN EmptyC ELSE LET x == CHOOSE y \in S : TRUE IN x ++ SumC(S \ {x})

\* package name -> directory: only the two package names of PkgNames occur
DirOf(p) == IF p = "foo.v1" THEN "foo/v1" ELSE IF p = ClashPkg THEN "qux/foo/v1" ELSE "bar/baz/v1"
MainFile(p, f) == DirOf(p) \o "/" \o f \o ".j5s.proto"
ProtoFileName(p, f) == DirOf(p) \o "/" \o f \o ".proto"
OutFile(p, f, kind) == IF kind = "proto" THEN ProtoFileName(p, f) ELSE MainFile(p, f)
SubFile(p, sub, f) == DirOf(p) \o "/" \o sub \o "/" \o f \o ".p.j5s.proto"

\* the file that declares top-level type n of package p
DefFile(b, p, n) ==
    LET pk == CHOOSE x \in { b.pkgs[j] : j \in Idx(b.pkgs) } : x.name = p
        fd == CHOOSE x \in TopDecls(pk) : x[2].name.src = n
    IN OutFile(p, fd[1], fd[3])

\* R "Scalar Types" table
ScalarProto(s) ==
    CASE s = "string" -> <<"string", "">> [] s = "bool" -> <<"bool", "">>
      [] s = "int32" -> <<"int32", "">> [] s = "int64" -> <<"int64", "">>
      [] s = "uint32" -> <<"uint32", "">> [] s = "uint64" -> <<"uint64", "">>
      [] s = "float32" -> <<"float", "">> [] s = "float64" -> <<"double", "">>
      [] s = "bytes" -> <<"bytes", "">>
      [] s = "timestamp" -> <<"message", "google.protobuf.Timestamp">>
      [] s = "date" -> <<"message", "j5.types.date.v1.Date">>
      [] s = "decimal" -> <<"message", "j5.types.decimal.v1.Decimal">>
      [] s \in {"key", "key:id62", "key:uuid"} -> <<"string", "">>
      [] s = "any" -> <<"message", "j5.types.any.v1.Any">>
      \* not a scalar of the language: a reference to the published type j5.messaging.v1.RequestMetadata (the type of the
      \* implied first field of reqres messages), written object:j5.messaging.v1.RequestMetadata
      [] s = "msgmeta" -> <<"message", "j5.messaging.v1.RequestMetadata">>

FieldElem(msg, n, number, ty, tn, label, opt, inOneof) ==
    [msg |-> msg, name |-> Snake(n), json |-> n.src, number |-> number, type |-> ty, typeName |-> tn,
     label |-> label, opt |-> opt, inOneof |-> inOneof]

EnumC(file, scope, parent, nameStr, prefix, options) ==
    LET full == scope \o "." \o nameStr IN
    [EmptyC EXCEPT !.enums = {[full |-> full, file |-> file, parent |-> parent, scope |-> scope]},
                   !.values = {[enum |-> full, name |-> prefix \o "UNSPECIFIED", number |-> 0]}
                              \cup { [enum |-> full, name |-> prefix \o options[i], number |-> i] : i \in Idx(options) }]

RECURSIVE MsgC(_, _, _, _, _, _, _, _, _)
\* b bundle, file proto file name, pkg package of the source file (for local refs), scope = package or parent full name,
\* parent = parent message full name or "", nameStr, kind object|oneof, fields, implicit = sequence of implicit leading field elements (name,typeName)
MsgC(b, file, pkg, scope, parent, nameStr, kind, fields, implicit) ==
    LET full == scope \o "." \o nameStr
        nImp == Len(implicit)
        one(i) ==
            LET f == fields[i]
                t == f.type
                et == ElemType(t)
                number == nImp + i
                inlineName == IF et.k = "inline" THEN (IF et.oname.src # "" THEN et.oname.src ELSE UpperCamel(f.name)) ELSE ""
                inlinePrefix == IF et.k = "inline" /\ et.ik = "enum"
                                THEN (IF et.oname.src # "" THEN ScreamingSnake(et.oname) ELSE ScreamingSnake(f.name)) \o "_" ELSE ""
                tinfo == CASE et.k = "scalar" -> ScalarProto(et.s)
                           [] et.k = "ref" -> <<IF et.rk = "enum" THEN "enum" ELSE "message", et.pkg \o "." \o JoinWith(et.path, ".")>>
                           [] et.k = "inline" -> <<IF et.ik = "enum" THEN "enum" ELSE "message", full \o "." \o inlineName>>
                nestedC == IF et.k # "inline" THEN EmptyC
                           ELSE IF et.ik = "enum" THEN EnumC(file, full, full, inlineName, inlinePrefix, et.options)
                           ELSE MsgC(b, file, pkg, full, full, inlineName, et.ik, et.fields, <<>>)
                importC == IF et.k = "ref" /\ DefFile(b, et.pkg, et.path[1]) # file
                           THEN [EmptyC EXCEPT !.imports = {[file |-> file, dep |-> DefFile(b, et.pkg, et.path[1])]}] ELSE EmptyC
                entry == full \o "." \o CapAll(f.name.w) \o "Entry"
                fieldC ==
                    IF t.k = "map"
                    THEN [EmptyC EXCEPT
                            !.msgs = {[full |-> entry, file |-> file, parent |-> full, kind |-> "mapentry"]},
                            !.fields = {FieldElem(full, f.name, number, "message", entry, "repeated", FALSE, kind = "oneof"),
                                        [msg |-> entry, name |-> "key", json |-> "", number |-> 1, type |-> "string", typeName |-> "",
                                         label |-> "optional", opt |-> FALSE, inOneof |-> FALSE],
                                        [msg |-> entry, name |-> "value", json |-> "", number |-> 2, type |-> tinfo[1], typeName |-> tinfo[2],
                                         label |-> "optional", opt |-> FALSE, inOneof |-> FALSE]}]
                    ELSE [EmptyC EXCEPT
                            !.fields = {FieldElem(full, f.name, number, tinfo[1], tinfo[2],
                                                  IF t.k = "array" THEN "repeated" ELSE "optional",
                                                  f.pres = "opt" /\ t.k \notin {"array", "map"}, kind = "oneof")}]
            IN fieldC ++ nestedC ++ importC
        impC == [EmptyC EXCEPT !.fields = { [msg |-> full, name |-> implicit[i][1], json |-> implicit[i][1], number |-> i, type |-> "message",
                                             typeName |-> implicit[i][2], label |-> "optional", opt |-> FALSE, inOneof |-> FALSE] : i \in Idx(implicit) }]
    IN [EmptyC EXCEPT !.msgs = {[full |-> full, file |-> file, parent |-> parent, kind |-> kind]}]
       ++ impC ++ SumC({ one(i) : i \in Idx(fields) })

RECURSIVE PathText(_)
PathText(segs) == IF segs = <<>> THEN ""
                  ELSE "/" \o (IF segs[1].p THEN "{" \o JoinWith(segs[1].w, "_") \o "}" ELSE segs[1].s) \o PathText(Tail(segs))

RECURSIVE DeclC(_, _, _, _, _, _)
DeclC(b, p, fname, scope, parent, d) ==
    LET file == MainFile(p, fname) IN
    CASE d.kind = "object" ->
            MsgC(b, file, p, scope, parent, d.name.src, "object", d.fields, <<>>)
            ++ SumC({ DeclC(b, p, fname, scope \o "." \o d.name.src, scope \o "." \o d.name.src, d.nested[n]) : n \in Idx(d.nested) })
      [] d.kind = "oneof" -> MsgC(b, file, p, scope, parent, d.name.src, "oneof", d.fields, <<>>)
      [] d.kind = "enum" ->
            EnumC(file, scope, parent, d.name.src, IF d.prefix # "" THEN d.prefix ELSE ScreamingSnake(d.name) \o "_", d.options)
      [] d.kind = "service" ->
            LET sp == p \o ".service"
                sf == SubFile(p, "service", fname)
                svc == sp \o "." \o d.name.src \o "Service"
                meth(m) ==
                    LET me == d.methods[m]
                        req == me.name.src \o "Request"
                        res == me.name.src \o "Response"
                    IN [EmptyC EXCEPT !.methods = {[service |-> svc, name |-> me.name.src, input |-> sp \o "." \o req,
                                                    output |-> IF me.hasResponse THEN sp \o "." \o res ELSE "google.api.HttpBody",
                                                    verb |-> me.verb, path |-> d.baseOut \o PathText(me.path)]}]
                       ++ MsgC(b, sf, p, sp, "", req, "object", me.request, <<>>)
                       ++ (IF me.hasResponse THEN MsgC(b, sf, p, sp, "", res, "object", me.response, <<>>) ELSE EmptyC)
            IN [EmptyC EXCEPT !.files = {[name |-> sf, pkg |-> sp]},
                              !.services = {[full |-> svc, file |-> sf, role |-> "", topic |-> ""]}]
               ++ SumC({ meth(m) : m \in Idx(d.methods) })
      [] d.kind = "topic" ->
            LET sp == p \o ".topic"
                sf == SubFile(p, "topic", fname)
                base == [EmptyC EXCEPT !.files = {[name |-> sf, pkg |-> sp]}]
                tn == Snake(d.name)
                one(svcName, role, methName, msgName, fields, implicit) ==
                    [EmptyC EXCEPT !.services = {[full |-> sp \o "." \o svcName, file |-> sf, role |-> role, topic |-> tn]},
                                   !.methods = {[service |-> sp \o "." \o svcName, name |-> methName, input |-> sp \o "." \o msgName,
                                                 output |-> "google.protobuf.Empty", verb |-> "", path |-> ""]}]
                    ++ MsgC(b, sf, p, sp, "", msgName, "object", fields, implicit)
            IN CASE d.tkind = "publish" ->
                      base ++ [EmptyC EXCEPT !.services = {[full |-> sp \o "." \o d.name.src \o "Topic", file |-> sf, role |-> "publish", topic |-> tn]}]
                      ++ SumC({ [EmptyC EXCEPT !.methods = {[service |-> sp \o "." \o d.name.src \o "Topic", name |-> d.messages[m].name.src,
                                                             input |-> sp \o "." \o d.messages[m].name.src \o "Message",
                                                             output |-> "google.protobuf.Empty", verb |-> "", path |-> ""]}]
                                ++ MsgC(b, sf, p, sp, "", d.messages[m].name.src \o "Message", "object", d.messages[m].fields, <<>>)
                                : m \in Idx(d.messages) })
                 [] d.tkind = "reqres" ->
                      base
                      ++ one(d.name.src \o "RequestTopic", "request", d.name.src \o "Request", d.name.src \o "RequestMessage",
                             d.messages[1].fields, << <<"request", "j5.messaging.v1.RequestMetadata">> >>)
                      ++ one(d.name.src \o "ReplyTopic", "reply", d.name.src \o "Reply", d.name.src \o "ReplyMessage",
                             d.messages[2].fields, << <<"request", "j5.messaging.v1.RequestMetadata">> >>)
                 [] d.tkind = "upsert" ->
                      base
                      ++ one(d.name.src \o "Topic", "upsert", d.messages[1].name.src, d.messages[1].name.src \o "Message",
                             d.messages[1].fields, << <<"upsert", "j5.messaging.v1.UpsertMetadata">> >>)

\* a hand-written proto file contributes exactly what it says: messages with fields numbered by position, enums
ProtoDeclC(b, p, fname, d) ==
    LET file == ProtoFileName(p, fname) IN
    IF d.kind = "enum" THEN EnumC(file, p, "", d.name.src, ScreamingSnake(d.name) \o "_", d.options)
    ELSE MsgC(b, file, p, p, "", d.name.src, "object", d.fields, <<>>)

Contract(b) ==
    SumC(UNION { UNION { LET pk == b.pkgs[p] fl == pk.files[f] IN
                         IF fl.kind = "proto"
                         THEN { [EmptyC EXCEPT !.files = {[name |-> ProtoFileName(pk.name, fl.name), pkg |-> pk.name]}] }
                              \cup { ProtoDeclC(b, pk.name, fl.name, fl.decls[d]) : d \in Idx(fl.decls) }
                         ELSE
                         { [EmptyC EXCEPT !.files = {[name |-> MainFile(pk.name, fl.name), pkg |-> pk.name]}] }
                         \cup { DeclC(b, pk.name, fl.name, pk.name, "", fl.decls[d]) : d \in Idx(fl.decls) }
                       : f \in Idx(b.pkgs[p].files) }
               : p \in Idx(b.pkgs) })

(* ------------------------------------------------------------------ *)
(* The wire identities C13 talks about                                 *)
(* ------------------------------------------------------------------ *)
Wire(c) == [msgs |-> { [full |-> m.full, parent |-> m.parent, kind |-> m.kind] : m \in c.msgs },
            fields |-> { [msg |-> f.msg, name |-> f.name, json |-> f.json, number |-> f.number, type |-> f.type,
                          typeName |-> f.typeName, label |-> f.label, opt |-> f.opt] : f \in c.fields },
            values |-> c.values,
            services |-> { [full |-> s.full, role |-> s.role] : s \in c.services },
            methods |-> c.methods]
WireKeys == {"msgs", "fields", "values", "services", "methods"}
WireSubset(w1, w2) == \A k \in WireKeys : w1[k] \subseteq w2[k]

(* ------------------------------------------------------------------ *)
(* The machine, with the contract carried along                        *)
(* ------------------------------------------------------------------ *)
Init == SInit /\ con = IF EmitLeavesOnly THEN EmptyC ELSE Contract(bundle)
\* with EmitLeavesOnly (simulation, where TLC evaluates every candidate successor) the contract is only computed at the leaves
ConUpd == con' = IF EmitLeavesOnly /\ steps' < MaxSteps THEN EmptyC ELSE Contract(bundle')
CAddField == AddField /\ ConUpd
CAddOption == AddOption /\ ConUpd
CAddObject == AddObject /\ ConUpd
CAddOneof == AddOneof /\ ConUpd
CAddEnum == AddEnum /\ ConUpd
CAddService == AddService /\ ConUpd
CAddTopic == AddTopic /\ ConUpd
CNest == Nest /\ ConUpd
CAddMethod == AddMethod /\ ConUpd
CAddMessage == AddMessage /\ ConUpd
CAddImport == AddImport /\ ConUpd
CAddFile == AddFile /\ ConUpd
CAddPackage == AddPackage /\ ConUpd
Next == \/ CAddField \/ CAddOption \/ CAddObject \/ CAddOneof \/ CAddEnum \/ CAddService \/ CAddTopic \/ CNest
        \/ CAddMethod \/ CAddMessage \/ CAddImport \/ CAddFile \/ CAddPackage
Spec == Init /\ [][Next]_vars

(* ------------------------------------------------------------------ *)
(* Model-level properties                                              *)
(* ------------------------------------------------------------------ *)
\* field numbers of every message are exactly 1..n
NumbersContiguous ==
    \A m \in con.msgs :
        LET fs == { f \in con.fields : f.msg = m.full } IN { f.number : f \in fs } = 1..Cardinality(fs)

\* enum values are exactly 0..n, 0 being <PREFIX>UNSPECIFIED
EnumNumbersContiguous ==
    \A e \in con.enums :
        LET vs == { v \in con.values : v.enum = e.full } IN { v.number : v \in vs } = 0..(Cardinality(vs) - 1)

\* no two elements share a fully-qualified name; no two fields of a message share a name, a JSON name or a number
NamesUniquePerScope ==
    /\ \A x, y \in con.msgs : x.full = y.full => x = y
    /\ \A x, y \in con.enums : x.full = y.full => x = y
    /\ \A x \in con.msgs : \A y \in con.enums : x.full # y.full
    /\ \A x, y \in con.services : x.full = y.full => x = y
    /\ \A x, y \in con.fields : (x.msg = y.msg /\ (x.name = y.name \/ (x.json # "" /\ x.json = y.json) \/ x.number = y.number)) => x = y
    /\ \A x, y \in con.values : (x.enum = y.enum /\ (x.name = y.name \/ x.number = y.number)) => x = y
    \* protobuf scopes enum values as siblings of their enum: a value name is unique in the enclosing scope
    /\ \A x, y \in con.values : x.name = y.name =>
            \/ x.enum = y.enum
            \/ (CHOOSE e \in con.enums : e.full = x.enum).scope # (CHOOSE e \in con.enums : e.full = y.enum).scope
    /\ \A x, y \in con.methods : (x.service = y.service /\ x.name = y.name) => x = y

\* every reference to a type of the bundle is to a declared type, and the declaring file is imported
ImportsSufficient ==
    \A f \in con.fields :
        (f.typeName # "" /\ \E m \in con.msgs : m.full = f.msg) =>
            LET holder == (CHOOSE m \in con.msgs : m.full = f.msg).file
                defs == { m.file : m \in { x \in con.msgs : x.full = f.typeName } } \cup { e.file : e \in { x \in con.enums : x.full = f.typeName } }
            IN \/ defs = {} /\ \E pfx \in {"google.", "j5."} : TRUE     \* well-known type outside the bundle
               \/ \E df \in defs : df = holder \/ [file |-> holder, dep |-> df] \in con.imports

\* C13 on the model: every step (all are append edits) keeps every wire identity of the previous contract
AppendStable == [][WireSubset(Wire(con), Wire(con'))]_vars

Emit ==
    (EmitCases /\ (~EmitLeavesOnly \/ steps = MaxSteps)) =>
        PrintT(<<"CASE", ToJson([focus |-> focus, steps |-> steps, ast |-> bundle, hist |-> hist, contract |-> con])>>)
=============================================================================
