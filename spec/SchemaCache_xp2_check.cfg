SPECIFICATION Spec
CONSTANTS
  Procs <- P2
  Types <- XpTypes
  ChildSeq <- XpChild
  Invalid <- NoneInvalid
  Pkg <- XpPkg
  CallChoices <- XpCalls2
  Guard = "mutex"
  Mode = "check"
INVARIANTS TypeOK MutualExclusion NoDataRace SameAsAlone BuiltOnce NoPlaceholderVisible
PROPERTIES Termination
CHECK_DEADLOCK TRUE
