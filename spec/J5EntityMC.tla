----------------------------- MODULE J5EntityMC -----------------------------
(***************************************************************************)
(* Pools and bounds for J5Entity, selected by the behaviour's focus.       *)
(* Focus f varies dimension f over its full pool and keeps every other     *)
(* dimension minimal; "mix" combines small pools of every dimension;       *)
(* "all" (simulation) has every pool full.                                 *)
(***************************************************************************)
EXTENDS J5Entity

CapTable ==
    [w \in {"api", "foo", "bar", "baz", "id", "2", "key", "dat", "fld", "sum", "a", "b", "c", "d", "e", "f",
            "create", "archive", "updated", "short", "full", "view", "account", "name", "publish", "event"} |->
     CASE w = "api" -> "Api" [] w = "foo" -> "Foo" [] w = "bar" -> "Bar" [] w = "baz" -> "Baz" [] w = "id" -> "Id" [] w = "2" -> "2"
       [] w = "key" -> "Key" [] w = "dat" -> "Dat" [] w = "fld" -> "Fld" [] w = "sum" -> "Sum"
       [] w = "a" -> "A" [] w = "b" -> "B" [] w = "c" -> "C" [] w = "d" -> "D" [] w = "e" -> "E" [] w = "f" -> "F"
       [] w = "create" -> "Create" [] w = "archive" -> "Archive" [] w = "updated" -> "Updated"
       [] w = "short" -> "Short" [] w = "full" -> "Full" [] w = "view" -> "View"
       [] w = "account" -> "Account" [] w = "name" -> "Name" [] w = "publish" -> "Publish" [] w = "event" -> "Event"]

UpperTable ==
    [w \in DOMAIN CapTable |->
     CASE w = "api" -> "API" [] w = "foo" -> "FOO" [] w = "bar" -> "BAR" [] w = "baz" -> "BAZ" [] w = "id" -> "ID" [] w = "2" -> "2"
       [] w = "key" -> "KEY" [] w = "dat" -> "DAT" [] w = "fld" -> "FLD" [] w = "sum" -> "SUM"
       [] w = "a" -> "A" [] w = "b" -> "B" [] w = "c" -> "C" [] w = "d" -> "D" [] w = "e" -> "E" [] w = "f" -> "F"
       [] w = "create" -> "CREATE" [] w = "archive" -> "ARCHIVE" [] w = "updated" -> "UPDATED"
       [] w = "short" -> "SHORT" [] w = "full" -> "FULL" [] w = "view" -> "VIEW"
       [] w = "account" -> "ACCOUNT" [] w = "name" -> "NAME" [] w = "publish" -> "PUBLISH" [] w = "event" -> "EVENT"]

AcronymSet == {"id"}

N(ws, c) == [words |-> ws, casing |-> c]
NamesMin == {N(<<"foo">>, "upper")}
NamesTwo == {N(<<"foo">>, "upper"), N(<<"foo", "bar">>, "lower"), N(<<"api", "key">>, "leadacr")}
NamesAll ==
    {N(<<"foo">>, c) : c \in {"upper", "lower"}}
    \cup {N(<<"foo", "bar">>, c) : c \in {"upper", "lower", "snake"}}
    \cup {N(<<"foo", "bar", "baz">>, c) : c \in {"upper", "snake"}}
    \cup {N(<<"foo", "2">>, c) : c \in {"upper", "lower", "snake"}}
    \cup {N(<<"foo", "id">>, c) : c \in {"upper", "lower", "snake", "acronym"}}
    \cup {N(<<"foo", "bar">>, "screaming")}
    \cup {N(<<"api", "key">>, "leadacr")}

K(t, m, ten, sh, r) == [type |-> t, marker |-> m, tenant |-> ten, shard |-> sh, req |-> r]
KeysMin == {K("key:id62", "primary", FALSE, FALSE, FALSE)}
\* every key type x marker x tenant x shard x required, plus keys that are not of key type
KeysFull ==
    {K(t, m, ten, sh, r) : t \in {"key", "key:id62", "key:uuid"}, m \in {"none", "primary", "notprimary", "foreign"},
                           ten \in BOOLEAN, sh \in BOOLEAN, r \in BOOLEAN}
    \cup {K(t, "none", FALSE, sh, r) : t \in {"string", "integer:INT64", "date", "bool", "enum-inline"}, sh \in BOOLEAN, r \in BOOLEAN}
\* order matters: sequences of up to three keys over primary / foreign / plain x shard, and a natural string key
KeysSeq ==
    {K("key:id62", m, FALSE, sh, FALSE) : m \in {"none", "primary", "foreign"}, sh \in BOOLEAN}
    \cup {K("string", "none", FALSE, FALSE, FALSE)}
KeysMix == {K("key:id62", "primary", FALSE, FALSE, FALSE), K("key:uuid", "none", TRUE, TRUE, TRUE), K("string", "none", FALSE, FALSE, FALSE)}

Types == {"string", "bool", "integer:INT32", "integer:INT64", "integer:UINT32", "float:FLOAT64", "bytes", "timestamp", "date", "decimal",
          "key", "key:id62", "key:uuid", "array:string", "map:string", "any",
          "object-inline", "enum-inline", "oneof-inline", "array-object-inline", "object-ref"}
D(t, r) == [type |-> t, req |-> r]
DataFull == {D(t, FALSE) : t \in Types} \cup {D("string", TRUE), D("object-inline", TRUE)}
DataMix == {D("string", FALSE), D("object-inline", TRUE)}

\* OUTCOME_UNSPECIFIED: a status that merely ENDS in UNSPECIFIED (never declared first: J5Entity!AddStatus)
StatusFull == {"ACTIVE", "INACTIVE", "PENDING_REVIEW", "S1", "OUTCOME_UNSPECIFIED"}
StatusMin == {"ACTIVE"}
StatusTwo == {"ACTIVE", "INACTIVE", "OUTCOME_UNSPECIFIED"}

Ev(n, fs) == [name |-> n, fields |-> fs]
EventNames == {<<"create">>, <<"archive">>, <<"foo", "updated">>}
EventsFull == {Ev(n, fs) : n \in EventNames, fs \in {<<>>, <<"string">>, <<"object-inline", "integer:INT64">>, <<"key:id62", "array:string">>}}
EventsTypes == {Ev(<<"create">>, <<t>>) : t \in Types}
EventsMix == {Ev(<<"create">>, <<"string">>), Ev(<<"foo", "updated">>, <<>>)}

M(n, v, p, s, r) == [name |-> n, verb |-> v, path |-> p, seg |-> s, response |-> r]
M1 == M("DoThing", "POST", "plain", "do_thing", TRUE)
M2 == M("Remove", "DELETE", "id", "rm", FALSE)
M3 == M("Fetch", "GET", "id", "fetch", TRUE)
M4 == M("Change", "PUT", "plain", "change", TRUE)
M5 == M("Touch", "PATCH", "id", "touch", TRUE)
Cm(n, suf, bp, ms) == [name |-> n, suffixed |-> suf, basePath |-> bp, methods |-> ms, opts |-> FALSE]
\* the block sets service options of its own (options.audience): the entity annotation lives in the same options message
CmO(n, suf, bp, ms) == [Cm(n, suf, bp, ms) EXCEPT !.opts = TRUE]
CmdNames == {<<"", FALSE>>, <<"Other", FALSE>>, <<"AuxCommand", TRUE>>}
CmdsFull == {Cm(n[1], n[2], bp, ms) : n \in CmdNames, bp \in {"", "oc"}, ms \in {<<M1>>, <<M1, M2>>, <<M3, M4, M5>>}}
            \cup {CmO(n[1], n[2], "", <<M1>>) : n \in CmdNames}
            \* a command block that declares no method yet (a scaffold): the service exists all the same
            \cup {Cm(n[1], n[2], bp, <<>>) : n \in CmdNames, bp \in {"", "oc"}}
CmdsMix == {Cm("", FALSE, "", <<M1>>), Cm("Other", FALSE, "oc", <<M2>>), CmO("Admin", FALSE, "", <<M1>>)}

Su(n, fs) == [name |-> n, fields |-> fs]
SummariesFull == {Su(n, fs) : n \in {<<>>, <<"short">>, <<"full", "view">>}, fs \in {<<>>, <<"string">>, <<"key:id62", "object-inline">>}}
\* names that collide with the generated publish topic (FooPublishTopic) and its message (FooEventMessage)
SummariesClash == {Su(<<"publish">>, <<>>), Su(<<"event">>, <<>>)}
SummariesMix == {Su(<<>>, <<"string">>), Su(<<"short">>, <<>>)}

Q(p, g, f) == [present |-> p, eventsInGet |-> g, filter |-> f]
QueryMin == {Q(FALSE, FALSE, "none")}
QueryFull == QueryMin \cup {Q(TRUE, g, f) : g \in BOOLEAN, f \in {"none", "first", "all"}}
QueryMix == {Q(FALSE, FALSE, "none"), Q(TRUE, TRUE, "first")}

QuickFocuses == {"name", "key1", "keyseq", "keynames", "data", "status", "events", "evtypes", "commands", "summaries", "query", "mix"}
ThoroughFocuses == QuickFocuses \cup {"mix2"}
AllFocus == {"all"}
ClashFocus == {"clash"}
TraceFocus == {"trace"}

Big(f) == f \in {"all", "trace"}
Mix(f) == f \in {"mix", "mix2"}

KeysMix1 == {K("key:id62", "primary", FALSE, FALSE, FALSE), K("key:uuid", "none", TRUE, TRUE, TRUE)}
DataMix1 == {D("object-inline", TRUE)}
EventsMix1 == {Ev(<<"foo", "updated">>, <<"string">>)}
CmdsMix1 == {Cm("Other", FALSE, "oc", <<M2>>)}
SummariesMix1 == {Su(<<"short">>, <<"string">>)}

\* "mix": 2 names x (1..2 keys) x (0..1 of everything else) x 2 query settings; "mix2" (thorough): larger pools, two statuses in order
MCNamePool(f)    == IF f = "name" \/ Big(f) THEN NamesAll ELSE IF Mix(f) THEN NamesTwo ELSE NamesMin
MCKeyOpts(f)     == IF f = "key1" \/ Big(f) THEN KeysFull ELSE IF f \in {"keyseq", "keynames"} THEN KeysSeq ELSE IF f = "mix" THEN KeysMix1 ELSE IF f = "mix2" THEN KeysMix ELSE KeysMin
MCMaxKeys(f)     == IF f \in {"keyseq", "keynames"} \/ Big(f) THEN 3 ELSE IF Mix(f) THEN 2 ELSE 1
MCDataOpts(f)    == IF f = "data" \/ Big(f) THEN DataFull ELSE IF f = "mix" THEN DataMix1 ELSE IF f = "mix2" THEN DataMix ELSE {}
MCMaxData(f)     == IF f = "data" \/ Big(f) THEN 2 ELSE IF Mix(f) THEN 1 ELSE 0
MCStatusPool(f)  == IF f = "status" \/ Big(f) THEN StatusFull ELSE IF f \in {"mix2", "query"} THEN StatusTwo ELSE StatusMin
MCMaxStatus(f)   == IF f = "status" \/ Big(f) THEN 3 ELSE IF f \in {"mix2", "query"} THEN 2 ELSE 1
EventsMin == {Ev(<<"create">>, <<>>)}
MCEventPool(f)   == IF f = "events" \/ Big(f) THEN EventsFull ELSE IF f = "evtypes" THEN EventsTypes ELSE IF f = "mix" THEN EventsMix1 ELSE IF f = "mix2" THEN EventsMix ELSE EventsMin
MCMinEvents(f)   == IF f = "events" \/ Big(f) \/ Mix(f) THEN 0 ELSE 1
MCMaxEvents(f)   == IF f = "events" \/ Big(f) THEN 3 ELSE 1
MCCmdPool(f)     == IF f = "commands" \/ Big(f) THEN CmdsFull ELSE IF f = "mix" THEN CmdsMix1 ELSE IF f = "mix2" THEN CmdsMix ELSE {}
MCMaxCmds(f)     == IF f = "commands" \/ Big(f) THEN 2 ELSE IF Mix(f) THEN 1 ELSE 0
MCSummaryPool(f) == IF f = "clash" THEN SummariesClash ELSE IF f = "summaries" \/ Big(f) THEN SummariesFull ELSE IF f = "mix" THEN SummariesMix1 ELSE IF f = "mix2" THEN SummariesMix ELSE {}
MCMaxSummaries(f) == IF f = "clash" THEN 1 ELSE IF f = "summaries" \/ Big(f) THEN 2 ELSE IF Mix(f) THEN 1 ELSE 0
MCQueryPool(f)   == IF f = "query" \/ Big(f) THEN QueryFull ELSE IF Mix(f) THEN QueryMix ELSE QueryMin
MCLayouts(f)     == IF f = "query" \/ Big(f) THEN {"grouped", "mixed"} ELSE {"grouped"}
=============================================================================
