------------------------------ MODULE BclLexer ------------------------------
(***************************************************************************)
(* internal/bcl/internal/parser/lexer.go as a rune-level state machine.    *)
(*                                                                         *)
(* The input is a sequence of symbol atoms (one rune each, except the      *)
(* word atom "true" which is four letters).  It is chosen ON DEMAND: when  *)
(* the lexer reads (next) or peeks past what has been chosen, Look(s)      *)
(* either extends the input by one symbol or closes it (EOF).  The         *)
(* reachable graph is therefore the lexer's behaviour on ALL inputs of at  *)
(* most MaxLen symbols, shared prefixes explored once.                     *)
(*                                                                         *)
(* Variables off/line/col/isEOL are exactly the fields of Lexer; pc names  *)
(* the loop the code is in (NextToken, lexIdent, lexNumber, lexString,     *)
(* lexEscape, lexRegex, lexDescriptionLine, lexBlockComment,               *)
(* lexLineComment).  AllTokens' fail-fast / collect-all behaviour is the   *)
(* LexErr operator.                                                        *)
(***************************************************************************)
EXTENDS Integers, Sequences, FiniteSets, TLC, Json

CONSTANTS
    MaxLen,     \* maximum number of input symbols
    Sym,        \* the symbol alphabet used for on-demand choice (subset of AllSym)
    FailFastChoices, \* subset of BOOLEAN
    EmitCases

EOFS == "EOF"
Letters == {"a", "e2", "true", "false"} \* ASCII letter, two-byte letter (é), the words true / false
Digits  == {"1", "d2"}                 \* ASCII digit, non-ASCII digit (unicode.IsDigit)
Spaces  == {"sp", "tab", "cr", "nbsp"} \* unicode.IsSpace, not newline
Ops     == {"=", "{", "}", "[", "]", ".", ",", ":", "+", "!", "?"}
AllSym  == Letters \cup Digits \cup Spaces \cup Ops \cup {"nl", "dq", "bs", "sl", "st", "pipe", "us", "hash", "arrow"}

W(s) == IF s = "true" THEN 4 ELSE IF s = "false" THEN 5 ELSE 1    \* width in runes

OpType(s) == s                          \* operator tokens are named by their rune

VARIABLES
    inp,      \* input chosen so far
    eof,      \* the input ends after inp
    failFast,
    off,      \* symbols consumed (Lexer.offset)
    line, col, isEOL,
    pc,       \* "start","slash","lineComment0","lineComment","blockComment0","blockComment","blockStar",
              \* "regex","regexSlash","string","stringEsc","descSkip","desc","number","ident","done"
    tokType, tokSL, tokSC, lit, seenDot,
    toks,     \* emitted tokens
    errs      \* lexer errors [k, l, c]

vars == <<inp, eof, failFast, off, line, col, isEOL, pc, tokType, tokSL, tokSC, lit, seenDot, toks, errs>>

Init ==
    /\ inp = <<>> /\ eof = FALSE /\ failFast \in FailFastChoices
    /\ off = 0 /\ line = 0 /\ col = -1 /\ isEOL = FALSE
    /\ pc = "start" /\ tokType = "" /\ tokSL = 0 /\ tokSC = 0 /\ lit = <<>> /\ seenDot = FALSE
    /\ toks = <<>> /\ errs = <<>>

\* s is the symbol at position off+1, chosen now if the input does not reach that far
Look(s) ==
    \/ /\ off < Len(inp) /\ s = inp[off + 1] /\ UNCHANGED <<inp, eof>>
    \/ /\ off = Len(inp) /\ ~eof /\ Len(inp) < MaxLen /\ s \in Sym
       /\ inp' = Append(inp, s) /\ UNCHANGED eof
    \/ /\ off = Len(inp) /\ s = EOFS /\ eof' = TRUE /\ UNCHANGED inp

\* Lexer.next(): position after reading s
NLine == IF isEOL THEN line + 1 ELSE line
NCol0 == IF isEOL THEN 0 ELSE col + 1                \* column of the first rune read
NCol(s) == NCol0 + (IF s = EOFS THEN 0 ELSE W(s) - 1) \* column of the last rune read
Advance(s) ==
    /\ line' = NLine /\ col' = NCol(s)
    /\ isEOL' = (s = "nl")
    /\ off' = IF s = EOFS THEN off ELSE off + 1
Stay == UNCHANGED <<off, line, col, isEOL>>

Tok(t, l, sl, sc, el, ec) == [t |-> t, lit |-> l, sl |-> sl, sc |-> sc, el |-> el, ec |-> ec]

\* AllTokens: record the error; fail-fast stops, collect-all goes on with the next token
LexErr(kind, l, c) ==
    /\ errs' = Append(errs, [k |-> kind, l |-> l, c |-> c])
    /\ pc' = IF failFast THEN "done" ELSE "start"
    /\ UNCHANGED toks

EmitTok(t, l, sl, sc, el, ec) ==
    /\ toks' = Append(toks, Tok(t, l, sl, sc, el, ec)) /\ pc' = "start" /\ UNCHANGED errs

(* ---- NextToken ---- *)
Start(s) ==
    /\ pc = "start" /\ Look(s) /\ Advance(s)
    /\ UNCHANGED <<failFast, seenDot>>
    /\ CASE s = EOFS ->
              pc' = "done" /\ UNCHANGED <<toks, errs, tokType, tokSL, tokSC, lit>>
         [] s \in Ops ->
              EmitTok(OpType(s), <<s>>, NLine, NCol(s), NLine, NCol(s)) /\ UNCHANGED <<tokType, tokSL, tokSC, lit>>
         [] s = "nl" ->
              EmitTok("EOL", <<s>>, NLine, NCol(s), NLine, NCol(s)) /\ UNCHANGED <<tokType, tokSL, tokSC, lit>>
         [] s = "sl" ->
              pc' = "slash" /\ tokSL' = NLine /\ tokSC' = NCol0 /\ lit' = <<>> /\ UNCHANGED <<toks, errs, tokType>>
         [] s = "dq" ->
              pc' = "string" /\ tokSL' = NLine /\ tokSC' = NCol0 /\ lit' = <<>> /\ UNCHANGED <<toks, errs, tokType>>
         [] s = "pipe" ->
              pc' = "descSkip" /\ tokSL' = NLine /\ tokSC' = NCol0 /\ lit' = <<>> /\ UNCHANGED <<toks, errs, tokType>>
         [] s \in Spaces ->
              pc' = "start" /\ UNCHANGED <<toks, errs, tokType, tokSL, tokSC, lit>>
         [] s \in Digits ->
              pc' = "number" /\ tokType' = "INT" /\ tokSL' = NLine /\ tokSC' = NCol0 /\ lit' = <<s>> /\ UNCHANGED <<toks, errs>>
         [] s \in Letters ->
              pc' = "ident" /\ tokSL' = NLine /\ tokSC' = NCol0 /\ lit' = <<s>> /\ UNCHANGED <<toks, errs, tokType>>
         [] OTHER ->   \* "_", "\", "*", "#", multi-byte symbol
              LexErr("unexpected character", NLine, NCol(s)) /\ UNCHANGED <<tokType, tokSL, tokSC, lit>>

\* '/' seen: peek decides comment / block comment / regex
Slash(s) ==
    /\ pc = "slash" /\ Look(s) /\ Stay
    /\ pc' = CASE s = "sl" -> "lineComment0" [] s = "st" -> "blockComment0" [] OTHER -> "regex"
    /\ UNCHANGED <<failFast, tokType, tokSL, tokSC, lit, seenDot, toks, errs>>

\* lexLineComment / lexBlockComment: consume the second rune of the opener
Opener(s) ==
    /\ pc \in {"lineComment0", "blockComment0"} /\ Look(s) /\ Advance(s)
    /\ pc' = IF pc = "lineComment0" THEN "lineComment" ELSE "blockComment"
    /\ UNCHANGED <<failFast, tokType, tokSL, tokSC, lit, seenDot, toks, errs>>

LineComment(s) ==
    /\ pc = "lineComment" /\ Look(s)
    /\ UNCHANGED <<failFast, tokType, tokSL, tokSC, seenDot>>
    /\ IF s \in {EOFS, "nl"}
       THEN Stay /\ EmitTok("COMMENT", lit, tokSL, tokSC, line, col) /\ UNCHANGED lit
       ELSE Advance(s) /\ lit' = Append(lit, s) /\ UNCHANGED <<pc, toks, errs>>

BlockComment(s) ==
    /\ pc = "blockComment" /\ Look(s) /\ Advance(s)
    /\ UNCHANGED <<failFast, tokType, tokSL, tokSC, seenDot>>
    /\ CASE s = "st" -> pc' = "blockStar" /\ UNCHANGED <<lit, toks, errs>>
         [] s = EOFS -> EmitTok("BLOCK_COMMENT", lit, tokSL, tokSC, NLine, NCol(s)) /\ UNCHANGED lit   \* unterminated: accepted
         [] OTHER -> lit' = Append(lit, s) /\ UNCHANGED <<pc, toks, errs>>

\* ch = '*': is the next rune '/'?
BlockStar(s) ==
    /\ pc = "blockStar" /\ Look(s)
    /\ UNCHANGED <<failFast, tokType, tokSL, tokSC, seenDot>>
    /\ IF s = "sl"
       THEN Advance(s) /\ EmitTok("BLOCK_COMMENT", lit, tokSL, tokSC, NLine, NCol(s)) /\ UNCHANGED lit
       ELSE Stay /\ lit' = Append(lit, "st") /\ pc' = "blockComment" /\ UNCHANGED <<toks, errs>>

Regex(s) ==
    /\ pc = "regex" /\ Look(s) /\ Advance(s)
    /\ UNCHANGED <<failFast, tokType, tokSL, tokSC, seenDot>>
    /\ CASE s = EOFS -> LexErr("unexpected EOF", NLine, NCol(s)) /\ UNCHANGED lit
         [] s = "nl" -> LexErr("unexpected EOL in regex", NLine, NCol(s)) /\ UNCHANGED lit
         [] s = "sl" -> pc' = "regexSlash" /\ UNCHANGED <<lit, toks, errs>>
         [] OTHER -> lit' = Append(lit, s) /\ UNCHANGED <<pc, toks, errs>>

\* ch = '/': "//" is an escaped slash, otherwise the regex ends here
RegexSlash(s) ==
    /\ pc = "regexSlash" /\ Look(s)
    /\ UNCHANGED <<failFast, tokType, tokSL, tokSC, seenDot>>
    /\ IF s = "sl"
       THEN Advance(s) /\ lit' = Append(lit, "sl") /\ pc' = "regex" /\ UNCHANGED <<toks, errs>>
       ELSE Stay /\ EmitTok("REGEX", lit, tokSL, tokSC, line, col) /\ UNCHANGED lit

String(s) ==
    /\ pc = "string" /\ Look(s) /\ Advance(s)
    /\ UNCHANGED <<failFast, tokType, tokSL, tokSC, seenDot>>
    /\ CASE s = EOFS -> LexErr("unexpected EOF", NLine, NCol(s)) /\ UNCHANGED lit
         [] s = "dq" -> EmitTok("STRING", lit, tokSL, tokSC, NLine, NCol(s)) /\ UNCHANGED lit
         [] s = "nl" -> LexErr("unexpected EOL in string", NLine, NCol(s)) /\ UNCHANGED lit
         [] s = "bs" -> pc' = "stringEsc" /\ UNCHANGED <<lit, toks, errs>>
         [] OTHER -> lit' = Append(lit, s) /\ UNCHANGED <<pc, toks, errs>>

\* lexEscape: only \\ \" and backslash-newline are escapes; the escaped rune joins the literal
StringEsc(s) ==
    /\ pc = "stringEsc" /\ Look(s)
    /\ UNCHANGED <<failFast, tokType, tokSL, tokSC, seenDot>>
    /\ IF s \in {"bs", "nl", "dq"}
       THEN Advance(s) /\ lit' = Append(lit, s) /\ pc' = "string" /\ UNCHANGED <<toks, errs>>
       ELSE Stay /\ LexErr("invalid escape", line, col) /\ UNCHANGED lit

DescSkip(s) ==
    /\ pc = "descSkip" /\ Look(s)
    /\ UNCHANGED <<failFast, tokType, tokSL, tokSC, seenDot, lit, toks, errs>>
    /\ IF s \in Spaces THEN Advance(s) /\ UNCHANGED pc ELSE Stay /\ pc' = "desc"

Desc(s) ==
    /\ pc = "desc" /\ Look(s)
    /\ UNCHANGED <<failFast, tokType, tokSL, tokSC, seenDot>>
    /\ IF s \in {EOFS, "nl"}
       THEN Stay /\ EmitTok("DESCRIPTION", lit, tokSL, tokSC, line, col) /\ UNCHANGED lit
       ELSE Advance(s) /\ lit' = Append(lit, s) /\ UNCHANGED <<pc, toks, errs>>

Number(s) ==
    /\ pc = "number" /\ Look(s)
    /\ UNCHANGED <<failFast, tokSL, tokSC>>
    /\ CASE s \in Digits -> Advance(s) /\ lit' = Append(lit, s) /\ UNCHANGED <<pc, toks, errs, tokType, seenDot>>
         [] s = "." /\ ~seenDot ->
              Advance(s) /\ lit' = Append(lit, s) /\ seenDot' = TRUE /\ tokType' = "DECIMAL" /\ UNCHANGED <<pc, toks, errs>>
         [] s = "." /\ seenDot ->
              Stay /\ LexErr("second dot in number", line, col) /\ UNCHANGED <<lit, tokType, seenDot>>
         [] OTHER ->
              Stay /\ EmitTok(tokType, lit, tokSL, tokSC, line, col) /\ UNCHANGED <<lit, tokType, seenDot>>

Ident(s) ==
    /\ pc = "ident" /\ Look(s)
    /\ UNCHANGED <<failFast, tokType, tokSL, tokSC, seenDot>>
    /\ IF s \in Letters \cup Digits \cup {"us"}
       THEN Advance(s) /\ lit' = Append(lit, s) /\ UNCHANGED <<pc, toks, errs>>
       ELSE Stay /\ EmitTok(IF lit \in {<<"true">>, <<"false">>} THEN "BOOL" ELSE "IDENT", lit, tokSL, tokSC, line, col) /\ UNCHANGED lit

Step(s) ==
    \/ Start(s) \/ Slash(s) \/ Opener(s) \/ LineComment(s) \/ BlockComment(s) \/ BlockStar(s)
    \/ Regex(s) \/ RegexSlash(s) \/ String(s) \/ StringEsc(s) \/ DescSkip(s) \/ Desc(s) \/ Number(s) \/ Ident(s)

Next == \E s \in AllSym \cup {EOFS} : Step(s)

Spec == Init /\ [][Next]_vars

(* ---------------- properties of the model ---------------- *)

\* termination: every step consumes input, or settles the current token / loop without looping back
Progress == [][off' > off \/ pc' # pc \/ Len(toks') > Len(toks) \/ Len(errs') > Len(errs) \/ eof' # eof \/ Len(inp') > Len(inp)]_vars

\* rune length of each line of the chosen input
RECURSIVE LineLens(_, _, _)
LineLens(i, cur, acc) ==
    IF i > Len(inp) THEN Append(acc, cur)
    ELSE IF inp[i] = "nl" THEN LineLens(i + 1, 0, Append(acc, cur + 1))   \* the newline rune belongs to its line
    ELSE LineLens(i + 1, cur + W(inp[i]), acc)
Lens == LineLens(1, 0, <<>>)

InBounds(l, c) == l >= 0 /\ l < Len(Lens) /\ c >= 0 /\ c <= Lens[l + 1]
PosLE(l1, c1, l2, c2) == l1 < l2 \/ (l1 = l2 /\ c1 <= c2)

\* every token and every error lies inside the input, start not after end
InL(L, l, c) == l >= 0 /\ l < Len(L) /\ c >= 0 /\ c <= L[l + 1]
PosInBounds ==
    pc = "done" =>
        LET L == Lens IN
        /\ \A i \in 1..Len(toks) : LET t == toks[i] IN
              InL(L, t.sl, t.sc) /\ InL(L, t.el, t.ec) /\ PosLE(t.sl, t.sc, t.el, t.ec)
        /\ \A i \in 1..Len(errs) : InL(L, errs[i].l, errs[i].c)

\* tokens come in source order and do not overlap
TokensOrdered ==
    pc = "done" => \A i \in 1..(Len(toks) - 1) : PosLE(toks[i].el, toks[i].ec, toks[i + 1].sl, toks[i + 1].sc)

\* fail-fast stops at the first error
FailFastOne == (failFast /\ pc = "done") => Len(errs) <= 1

Emit ==
    (EmitCases /\ pc = "done") =>
        PrintT(<<"CASE", ToJson([inp |-> inp, ff |-> failFast, toks |-> toks, errs |-> errs])>>)
=============================================================================
