------------------------------- MODULE BclFmt -------------------------------
(***************************************************************************)
(* internal/bcl/internal/parser/fmt.go on top of the parser machine.       *)
(*                                                                         *)
(* Pass 1 parses an on-demand token sequence (fail-fast, as                *)
(* collectFmtFragments does).  Render re-creates, fragment by fragment,    *)
(* the token sequence the formatter writes (doBlockHeader, doAssignment,   *)
(* valueTokens, tagString, referenceTokens, printComment, doDescription,   *)
(* closeBlock and the blank-line rule of Fmt).  tokenSource is modelled    *)
(* by the table Relex: what the LEXER makes of the text tokenSource emits  *)
(* for a literal of each class ("LEXERR" where the emitted text would not  *)
(* be a token).                                                            *)
(* Pass 2 runs the same parser machine on the rendered tokens; the         *)
(* position-free projections of both passes are compared (meaning          *)
(* preserved) and the rendering of pass 2 with that of pass 1              *)
(* (idempotence).                                                          *)
(*                                                                         *)
(* The editor protocol (FmtDiffs) is the list Edits: one [from, to) line   *)
(* range per fragment plus the leading-blank and gap edits; the            *)
(* well-formedness conditions of property C19 are predicates over it.      *)
(***************************************************************************)
EXTENDS BclParser

VARIABLES phase, toks1, frags1, verdict
fvars == <<pvars, phase, toks1, frags1, verdict>>

\* what the lexer reads back from tokenSource(tok)
\* (quoteString writes only \\, \" and backslash-newline escapes and a regex's slash as "//": every literal
\* class reads back as itself. With fmt %q the classes STRING_ML, STRING_TAB, STRING_NP read back as
\* "LEXERR", and REGEX_SL did when the slash was not re-escaped; BrokenRelex keeps that table.)
BrokenRelex(a) ==
    CASE a \in {"STRING_ML", "STRING_TAB", "STRING_NP", "REGEX_SL"} -> "LEXERR"
      [] OTHER -> a
Relex(a) ==
    CASE a = "DESCRIPTION_LONG" -> "DESCRIPTION"
      [] OTHER -> a

RECURSIVE JoinDots(_, _, _)
JoinDots(ts, ids, i) ==
    IF i > Len(ids) THEN <<>>
    ELSE (IF i > 1 THEN <<".">> ELSE <<>>) \o <<Relex(ts[ids[i]])>> \o JoinDots(ts, ids, i + 1)
RefToks(ts, ids) == JoinDots(ts, ids, 1)

TagToks(ts, tg) ==
    (IF tg.mark # "" THEN <<tg.mark>> ELSE <<>>) \o
    (IF tg.kind = "str" THEN <<Relex(ts[tg.ids[1]])>> ELSE RefToks(ts, tg.ids))

RECURSIVE TagsToks(_, _, _, _)
TagsToks(ts, tgs, i, colon) ==
    IF i > Len(tgs) THEN <<>>
    ELSE (IF colon THEN <<":">> ELSE <<>>) \o TagToks(ts, tgs[i]) \o TagsToks(ts, tgs, i + 1, colon)

RECURSIVE ValToks(_, _)
RECURSIVE ElsToks(_, _, _)
ValToks(ts, v) ==
    CASE v.vk = "tok" -> <<Relex(ts[v.i])>>
      [] v.vk = "ref" -> <<"STRING">>                 \* an identifier value is kept as a STRING token: printed quoted
      [] OTHER -> <<"[">> \o ElsToks(ts, v.els, 1) \o <<"]">>
ElsToks(ts, els, i) ==
    IF i > Len(els) THEN <<>>
    ELSE (IF i > 1 THEN <<",">> ELSE <<>>) \o ValToks(ts, els[i]) \o ElsToks(ts, els, i + 1)

\* reformatDescription on line classes (W: a line with words, E: an empty "|" line): consecutive W lines are re-flowed
\* into one running paragraph, an E line after some text ends the paragraph and is kept once, leading E lines carry
\* nothing and disappear, and a description without any output line is written as a single "|".
RECURSIVE Reflow(_, _, _, _, _, _)
Reflow(ts, ids, i, pend, lastEmpty, any) ==     \* any: something has been written or is pending
    IF i > Len(ids) THEN (IF pend THEN <<"DESCRIPTION", "EOL">> ELSE <<>>)
    ELSE IF ts[ids[i]] = "DESCRIPTION_EMPTY"
         THEN IF ~any THEN Reflow(ts, ids, i + 1, FALSE, FALSE, FALSE)       \* leading empty lines carry nothing
              ELSE (IF pend THEN <<"DESCRIPTION", "EOL">> ELSE <<>>)
                   \o (IF ~lastEmpty THEN <<"DESCRIPTION_EMPTY", "EOL">> ELSE <<>>)
                   \o Reflow(ts, ids, i + 1, FALSE, TRUE, TRUE)
         ELSE Reflow(ts, ids, i + 1, TRUE, FALSE, TRUE)
DescToks(ts, ids) ==
    LET r == Reflow(ts, ids, 1, FALSE, FALSE, FALSE) IN IF r = <<>> THEN <<"DESCRIPTION_EMPTY", "EOL">> ELSE r

\* the line(s) the formatter writes for one fragment, as tokens, ending in EOL
FragToks(ts, f) ==
    CASE f.k = "hdr" ->
            RefToks(ts, f.ref) \o TagsToks(ts, f.tags, 1, FALSE) \o TagsToks(ts, f.quals, 1, TRUE)
            \o (IF f.open THEN <<"{">> ELSE <<>>)
            \o (IF f.desc # 0 THEN <<"DESCRIPTION">> ELSE <<>>)
            \o (IF f.cmt # 0 THEN <<"COMMENT">> ELSE <<>>) \o <<"EOL">>
      [] f.k = "assign" ->
            RefToks(ts, f.ref) \o (IF f.app THEN <<"+">> ELSE <<>>) \o <<"=">> \o ValToks(ts, f.val)
            \o (IF f.cmt # 0 THEN <<"COMMENT">> ELSE <<>>) \o <<"EOL">>
      [] f.k = "desc" -> DescToks(ts, f.ts)
      [] f.k = "comment" -> <<Relex(ts[f.i]), "EOL">>
      [] OTHER -> <<"}", "EOL">>

\* line range [from, to) of a fragment in the source text
From(P, f) == P[f.st].sl
To(P, f) == (IF f.en = 0 THEN 0 ELSE P[f.en].el) + 1

\* Fmt: fragments in order; a blank line is kept iff the fragment starts after the previous one's range
RECURSIVE RenderFrom(_, _, _, _, _)
RenderFrom(ts, P, fs, i, lastEnd) ==
    IF i > Len(fs) THEN <<>>
    ELSE (IF i > 1 /\ From(P, fs[i]) > lastEnd THEN <<"EOL">> ELSE <<>>)
         \o FragToks(ts, fs[i]) \o RenderFrom(ts, P, fs, i + 1, To(P, fs[i]))
Render(ts, fs) == RenderFrom(ts, Layout(ts), fs, 1, -1)

\* FmtDiffs: the fragments' ranges plus leading-blank removal and gap edits (before unchanged ones are dropped)
\* mergeSharedLines: fragments whose line ranges overlap become one replacement
RECURSIVE MergeFrom(_, _, _, _)
MergeFrom(P, fs, i, acc) ==
    IF i > Len(fs) THEN acc
    ELSE LET fr == From(P, fs[i]) to == To(P, fs[i]) n == Len(acc) IN
         IF n > 0 /\ fr < acc[n].to
         THEN MergeFrom(P, fs, i + 1, [acc EXCEPT ![n] = [@ EXCEPT !.to = IF to > @ THEN to ELSE @]])
         ELSE MergeFrom(P, fs, i + 1, Append(acc, [from |-> fr, to |-> to]))
Merged(P, fs) == MergeFrom(P, fs, 1, <<>>)

RECURSIVE EditsFrom(_, _, _)
EditsFrom(M, i, lastEnd) ==
    IF i > Len(M) THEN <<>>
    ELSE LET fr == M[i].from to == M[i].to IN
         (IF i = 1 THEN (IF fr > 0 THEN <<[from |-> 0, to |-> fr, gap |-> TRUE]>> ELSE <<>>)
          ELSE IF fr > lastEnd + 1 THEN <<[from |-> lastEnd, to |-> fr, gap |-> TRUE]>> ELSE <<>>)
         \o <<[from |-> fr, to |-> to, gap |-> FALSE]>> \o EditsFrom(M, i + 1, to)
Edits(ts, fs) == EditsFrom(Merged(Layout(ts), fs), 1, -1)

NLines(ts) == LET P == Layout(ts) IN IF P = <<>> THEN 1 ELSE P[Len(P)].el + 1 + (IF ts[Len(ts)] = "EOL" THEN 1 ELSE 0)

EditViolation(ts, fs) ==
    LET E == Edits(ts, fs) n == NLines(ts) IN
    IF \E i \in 1..Len(E) : E[i].from < 0 \/ E[i].from > E[i].to \/ E[i].to > n THEN "range"
    ELSE IF \E i \in 1..(Len(E) - 1) : E[i + 1].from < E[i].from THEN "order"
    ELSE IF \E i \in 1..(Len(E) - 1) : E[i + 1].from < E[i].to THEN "overlap"
    ELSE ""

\* position-free projection of a fragment list (what "denotes the same document" compares)
RECURSIVE PFVal(_, _)
PFVal(ts, v) == CASE v.vk = "tok" -> <<Relex(ts[v.i])>> [] v.vk = "ref" -> <<"STRING">> [] OTHER -> <<"[">> \o ElsToks(ts, v.els, 1) \o <<"]">>
PFTag(ts, tg) == [mark |-> tg.mark, toks |-> TagToks(ts, [tg EXCEPT !.mark = ""])]
PF(ts, f) ==
    CASE f.k = "hdr" -> [k |-> "hdr", ref |-> RefToks(ts, f.ref), tags |-> [i \in 1..Len(f.tags) |-> PFTag(ts, f.tags[i])],
                         quals |-> [i \in 1..Len(f.quals) |-> PFTag(ts, f.quals[i])], open |-> f.open,
                         desc |-> f.desc # 0, cmt |-> f.cmt # 0]
      [] f.k = "assign" -> [k |-> "assign", ref |-> RefToks(ts, f.ref), app |-> f.app, val |-> PFVal(ts, f.val), cmt |-> f.cmt # 0]
      [] f.k = "comment" -> [k |-> "comment", a |-> Relex(ts[f.i])]
      [] OTHER -> [k |-> f.k]
PFAll(ts, fs) == [i \in 1..Len(fs) |-> PF(ts, fs[i])]

HasLexErr(s) == \E i \in 1..Len(s) : s[i] = "LEXERR"
Unlexable(ts, fs) ==
    LET used == UNION { { ts[j] : j \in 1..Len(ts) } } IN { a \in used : Relex(a) = "LEXERR" /\ HasLexErr(Render(ts, fs)) }

\* structural class of a case, used by the harness to make violation signatures specific
Cls(ts, fs) ==
    LET P == Layout(ts) IN
    IF \E i \in 1..Len(fs) : fs[i].k = "hdr" /\ fs[i].en = 0 THEN "header-trailing-comment"
    ELSE IF \E i \in 1..(Len(fs) - 1) : From(P, fs[i + 1]) < To(P, fs[i]) THEN "fragments-share-line"
    ELSE IF \E a \in { ts[j] : j \in 1..Len(ts) } : Relex(a) = "LEXERR"
         THEN CHOOSE a \in { ts[j] : j \in 1..Len(ts) } : Relex(a) = "LEXERR"
    ELSE IF \E j \in 1..Len(ts) : Shape(ts[j]).ml THEN "multi-line-token"
    ELSE "plain"

FInit ==
    /\ PInit /\ phase = "p1" /\ toks1 = <<>> /\ frags1 = <<>> /\ verdict = [accepted |-> FALSE]

Reset2(newToks) ==
    /\ toks' = newToks /\ eof' = TRUE /\ off' = 0 /\ pc' = "frag" /\ ret' = <<>> /\ cur' = NoCur /\ curRef' = <<>>
    /\ mark' = "" /\ tagCtx' = "tag" /\ astk' = <<>> /\ frags' = <<>> /\ errs' = <<>> /\ result' = ""
    /\ UNCHANGED failFast

Pass1 == phase = "p1" /\ pc # "done" /\ PStep /\ UNCHANGED <<phase, toks1, frags1, verdict>>

\* collectFmtFragments succeeded (the walk, not the fold, decides): format, then parse the output again
Switch ==
    /\ phase = "p1" /\ pc = "done"
    /\ IF result \in {"tree", "fold-errors"}
       THEN LET R == Render(toks, frags) IN
            IF HasLexErr(R)
            THEN /\ phase' = "done"
                 /\ verdict' = [accepted |-> TRUE, parses |-> result = "tree", unlexable |-> Unlexable(toks, frags),
                                same |-> FALSE, idem |-> FALSE, editviol |-> EditViolation(toks, frags),
                                ranges |-> Edits(toks, frags), cls |-> Cls(toks, frags)]
                 /\ toks1' = toks /\ frags1' = frags /\ UNCHANGED pvars
            ELSE /\ phase' = "p2" /\ toks1' = toks /\ frags1' = frags /\ Reset2(R)
                 /\ verdict' = [accepted |-> TRUE, parses |-> result = "tree", unlexable |-> {},
                                same |-> FALSE, idem |-> FALSE, editviol |-> EditViolation(toks, frags),
                                ranges |-> Edits(toks, frags), cls |-> Cls(toks, frags)]
       ELSE /\ phase' = "done" /\ verdict' = [accepted |-> FALSE] /\ toks1' = toks /\ frags1' = frags /\ UNCHANGED pvars

Pass2 == phase = "p2" /\ pc # "done" /\ PStep /\ UNCHANGED <<phase, toks1, frags1, verdict>>

Compare ==
    /\ phase = "p2" /\ pc = "done"
    /\ phase' = "done"
    /\ verdict' = [verdict EXCEPT
            !.same = (result \in {"tree", "fold-errors"} /\ PFAll(toks, frags) = PFAll(toks1, frags1)),
            !.idem = (result \in {"tree", "fold-errors"} /\ Render(toks, frags) = toks)]
    /\ UNCHANGED <<pvars, toks1, frags1>>

FNext == Pass1 \/ Switch \/ Pass2 \/ Compare
FSpec == FInit /\ [][FNext]_fvars

(* ---------------- properties ---------------- *)

\* The four laws on the model. Each also has its own configuration (BclFmt_cx_*): on the pinned tree TLC exhibited
\* counterexamples to OutputParses ("a = <STRING_TAB>"), Idempotent and EditsWellFormed ("} }"); they hold since the repairs.
OutputParses == (phase = "done" /\ verdict.accepted) => verdict.unlexable = {}
MeaningPreserved == (phase = "done" /\ verdict.accepted /\ verdict.unlexable = {}) => verdict.same
Idempotent == (phase = "done" /\ verdict.accepted /\ verdict.unlexable = {}) => verdict.idem
EditsWellFormed == (phase = "done" /\ verdict.accepted) => verdict.editviol = ""

\* invariants that hold: pass 2 never fails when the output has no unlexable literal
Pass2Accepts == (phase = "p2" /\ pc = "done") => result \in {"tree", "fold-errors"}

FEmit ==
    (EmitCases /\ phase = "done") =>
        PrintT(<<"CASE", ToJson([toks |-> toks1, ff |-> TRUE, result |-> "", frags |-> <<>>, errs |-> <<>>, fmt |-> verdict])>>)
=============================================================================
