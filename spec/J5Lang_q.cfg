SPECIFICATION Spec
CONSTANTS
  MaxRules = 2
  WithFaults = TRUE
  EmitCases = TRUE
INVARIANTS TypeOK GeneratorClosed FaultInvalid Emit
CHECK_DEADLOCK FALSE
