------------------------------ MODULE BclParser ------------------------------
(***************************************************************************)
(* internal/bcl/internal/parser/parser.go: Walker (walkFragments,          *)
(* nextFragment, walkStatement, popReference, popTag, popValue,            *)
(* walkValueAssign, endStatement, popDescription, recoverError) and        *)
(* fragmentsToFile, as a token-level state machine.                        *)
(*                                                                         *)
(* The token sequence is chosen ON DEMAND by Peek/Peek1 (what peekType     *)
(* and popToken look at), so the reachable graph is the parser's behaviour *)
(* on all token sequences of at most MaxToks tokens, both values of        *)
(* failFast.  Tokens are atoms (type + layout class); Layout gives every   *)
(* token the position it has in the canonical text the harness writes      *)
(* (single spaces, EOL attached), so node and diagnostic positions are     *)
(* model outputs.  The model does what the code does, including the paths  *)
(* on which a node's End would not be set (en = 0; none on the current     *)
(* tree: the header-with-trailing-comment path was repaired).              *)
(***************************************************************************)
EXTENDS Integers, Sequences, FiniteSets, TLC, Json

CONSTANTS
    MaxToks,          \* bound on the number of chosen tokens
    MaxDepth,         \* bound on array nesting
    Atoms,            \* token atoms available for on-demand choice
    FailFastChoices,  \* subset of BOOLEAN
    Prune,            \* TRUE: at each control point only the tokens the code distinguishes there plus PruneReps
    PruneReps,        \* representatives of "any other token"
    EmitCases

\* token atoms: parser-level type, and layout class (multi-line lexemes end on the next line)
Ty(a) ==
    CASE a \in {"STRING", "STRING_ML", "STRING_Q", "STRING_TAB", "STRING_NP", "STRING_U", "STRING_QU", "STRING_MLU"} -> "STRING"
      [] a \in {"REGEX", "REGEX_SL"} -> "REGEX"
      [] a \in {"BLOCK_COMMENT", "BLOCK_COMMENT_ML"} -> "BLOCK_COMMENT"
      [] a \in {"DESCRIPTION", "DESCRIPTION_LONG", "DESCRIPTION_EMPTY"} -> "DESCRIPTION"
      [] OTHER -> a
AllAtoms == {"IDENT", "BOOL", "STRING", "STRING_ML", "STRING_Q", "STRING_TAB", "STRING_NP", "STRING_U", "STRING_QU", "STRING_MLU", "REGEX", "REGEX_SL",
             "INT", "DECIMAL", "COMMENT", "BLOCK_COMMENT", "BLOCK_COMMENT_ML", "DESCRIPTION", "DESCRIPTION_LONG", "DESCRIPTION_EMPTY", "EOL",
             "=", "{", "}", "[", "]", ".", ",", ":", "+", "!", "?"}
Literals == {"IDENT", "STRING", "REGEX", "INT", "DECIMAL", "BOOL", "COMMENT", "BLOCK_COMMENT", "DESCRIPTION"}   \* TokenType.IsLiteral
TagStart == {"IDENT", "STRING", "REGEX", "!", "?", "BOOL"}                                                  \* CanStartTag

\* lexeme shape in the canonical text: runes on the first line, multi-line?, runes on the last line
Shape(a) ==
    CASE a \in {"IDENT", "INT", "=", "{", "}", "[", "]", ".", ",", ":", "+", "!", "?", "DESCRIPTION_EMPTY"} -> [w |-> 1, ml |-> FALSE, w2 |-> 0]
      [] a = "BOOL" -> [w |-> 4, ml |-> FALSE, w2 |-> 0]
      [] a \in {"STRING", "STRING_U", "REGEX", "DECIMAL", "COMMENT", "DESCRIPTION"} -> [w |-> 3, ml |-> FALSE, w2 |-> 0]
      [] a \in {"STRING_TAB", "STRING_NP"} -> [w |-> 4, ml |-> FALSE, w2 |-> 0]     \* "s<tab>" / "s<nbsp>"
      [] a \in {"STRING_Q", "STRING_QU"} -> [w |-> 7, ml |-> FALSE, w2 |-> 0]          \* "s\"\\" (escaped quote and backslash; QU: s is non-ASCII)
      [] a = "REGEX_SL" -> [w |-> 6, ml |-> FALSE, w2 |-> 0]                          \* /r//s/   (escaped slash)
      [] a = "BLOCK_COMMENT" -> [w |-> 5, ml |-> FALSE, w2 |-> 0]                     \* /*c*/
      [] a = "BLOCK_COMMENT_ML" -> [w |-> 3, ml |-> TRUE, w2 |-> 3]                   \* /*c<nl>d*/
      [] a \in {"STRING_ML", "STRING_MLU"} -> [w |-> 3, ml |-> TRUE, w2 |-> 2]          \* "s\<nl>t" (MLU: s, t non-ASCII)
      [] a = "DESCRIPTION_LONG" -> [w |-> 100, ml |-> FALSE, w2 |-> 0]                 \* | nine ten-letter words: re-flowed by Fmt
      [] OTHER -> [w |-> 1, ml |-> FALSE, w2 |-> 0]                                   \* EOL

VARIABLES
    toks, eof, failFast,
    off,      \* Walker.offset
    pc, ret,  \* control point and return stack
    cur,      \* fragment under construction
    curRef,   \* reference under construction (token indices)
    mark, tagCtx,
    astk,     \* stack of arrays under construction
    frags, errs, result

pvars == <<toks, eof, failFast, off, pc, ret, cur, curRef, mark, tagCtx, astk, frags, errs, result>>

NoCur == [k |-> "none"]

PInit ==
    /\ toks = <<>> /\ eof = FALSE /\ failFast \in FailFastChoices
    /\ off = 0 /\ pc = "frag" /\ ret = <<>> /\ cur = NoCur /\ curRef = <<>> /\ mark = "" /\ tagCtx = "tag"
    /\ astk = <<>> /\ frags = <<>> /\ errs = <<>> /\ result = ""

(* ---- on-demand tokens ---- *)

\* what the code distinguishes at each control point
Interesting(p) ==
    CASE p = "frag" -> {"EOL", "}", "COMMENT", "BLOCK_COMMENT", "DESCRIPTION", "IDENT", "BOOL"}
      [] p = "refDot" ->     \* the token is looked at again by whoever asked for the reference
            {"."} \cup (IF ret = <<>> THEN {}
                        ELSE IF ret[1] = "stmtRef" THEN {"=", "+"} \cup TagStart \cup {":", "{", "DESCRIPTION", "COMMENT", "EOL"}
                        ELSE IF ret[1] = "tagRefDone" THEN TagStart \cup {":", "{", "DESCRIPTION", "COMMENT", "EOL"}
                        ELSE {",", "]", "COMMENT", "EOL"})
      [] p = "refIdent" -> {"IDENT", "BOOL"}
      [] p = "stmtRef" -> {"=", "+"} \cup TagStart \cup {":", "{", "DESCRIPTION", "COMMENT", "EOL"}
      [] p = "plusEq" -> {"="}
      [] p = "tags" -> TagStart \cup {":", "{", "DESCRIPTION", "COMMENT", "EOL"}
      [] p = "tagMark" -> {"!", "?", "IDENT", "BOOL", "STRING"}
      [] p = "tagBody" -> {"IDENT", "BOOL", "STRING"}
      [] p = "quals" -> {":", "{", "DESCRIPTION", "COMMENT", "EOL"}
      [] p = "hdrEnd" -> {"{", "DESCRIPTION", "COMMENT", "EOL"}
      [] p \in {"endStmt", "endStmt2"} -> {"COMMENT", "EOL"}
      [] p = "value" -> Literals \cup {"["}
      [] p = "arrFirst" -> {"]"} \cup Literals \cup {"["}
      [] p = "arrElem" -> {",", "]"}
      [] p = "skip" -> {"EOL"}
      [] p \in {"descJoin0"} -> {"EOL"}
      [] p \in {"descJoin1"} -> {"DESCRIPTION", "EOL", "}", "COMMENT", "BLOCK_COMMENT", "IDENT", "BOOL"}
      [] OTHER -> {}

\* the rest of a line after a comment or a description belongs to that token: only EOL can follow
Follows(a) ==
    /\ (toks # <<>> /\ Ty(toks[Len(toks)]) \in {"COMMENT", "DESCRIPTION"}) => a = "EOL"
    /\ (a = "[" => Len(astk) < MaxDepth)
    /\ (Prune => (Ty(a) \in Interesting(pc) \/ a \in PruneReps))

\* t is the type of the token at index off+1+k (k = 0 or 1), choosing it now if needed
PeekAt(k, t) ==
    \/ /\ off + k < Len(toks) /\ t = Ty(toks[off + k + 1]) /\ UNCHANGED <<toks, eof>>
    \/ /\ off + k = Len(toks) /\ ~eof /\ Len(toks) < MaxToks
       /\ \E a \in Atoms : Ty(a) = t /\ Follows(a) /\ toks' = Append(toks, a)
       /\ UNCHANGED eof
    \/ /\ off + k >= Len(toks) /\ (off + k = Len(toks) \/ eof) /\ t = "EOF" /\ eof' = TRUE /\ UNCHANGED toks
Peek(t) == PeekAt(0, t)

Types == { Ty(a) : a \in AllAtoms } \cup {"EOF"}

\* popToken: at the end of the tokens a synthetic EOF is returned and offset stays
Pop(t) == off' = IF t = "EOF" THEN off ELSE off + 1
PopIdx(t) == IF t = "EOF" THEN 0 ELSE off + 1      \* 0 = synthetic EOF (positioned at the end of the last token)
NoPop == UNCHANGED off

(* ---- helpers ---- *)

Push(s, x) == <<x>> \o s
Hdr(ref) == [k |-> "hdr", ref |-> ref, tags |-> <<>>, quals |-> <<>>, open |-> FALSE, desc |-> 0, cmt |-> 0, st |-> ref[1], en |-> 0]
Assign(ref, app) == [k |-> "assign", ref |-> ref, app |-> app, val |-> [vk |-> "none"], cmt |-> 0, st |-> ref[1], en |-> 0]
ValEnd(v) == CASE v.vk = "tok" -> v.i [] v.vk = "ref" -> v.ids[Len(v.ids)] [] OTHER -> v.en

\* recoverError: record, then stop (fail fast) or skip to the next EOL
Err(i) ==
    /\ errs' = Append(errs, [ti |-> i, after |-> off'])
    /\ IF failFast THEN pc' = "done" /\ result' = "errors" ELSE pc' = "skip" /\ UNCHANGED result
    /\ ret' = <<>> /\ cur' = NoCur /\ astk' = <<>>
    /\ UNCHANGED <<failFast, curRef, mark, tagCtx, frags>>

Keep == UNCHANGED <<failFast, errs, result>>

\* a value is complete: hand it to whoever asked for it
ValueDone(v) ==
    IF ret # <<>> /\ ret[1] = "arrElem"
    THEN /\ astk' = [astk EXCEPT ![Len(astk)] = [@ EXCEPT !.els = Append(@, v)]]
         /\ pc' = "arrElem" /\ ret' = Tail(ret) /\ UNCHANGED cur
    ELSE /\ cur' = [cur EXCEPT !.val = v, !.en = ValEnd(v)]
         /\ pc' = "endStmt" /\ ret' = <<"emitAssign">> /\ UNCHANGED astk

(* ---- walkFragments / nextFragment ---- *)
Frag(t) ==
    /\ pc = "frag" /\ t \in {"EOF", "EOL", "}", "COMMENT", "BLOCK_COMMENT", "DESCRIPTION", "IDENT", "BOOL"}
    /\ Peek(t) /\ Keep /\ UNCHANGED <<mark, tagCtx, astk>>
    /\ CASE t = "EOF" -> NoPop /\ pc' = "fold" /\ UNCHANGED <<ret, cur, curRef, frags>>
         [] t = "EOL" -> Pop(t) /\ UNCHANGED <<pc, ret, cur, curRef, frags>>
         [] t = "}" -> Pop(t) /\ frags' = Append(frags, [k |-> "close", i |-> off + 1, st |-> off + 1, en |-> off + 1])
                       /\ UNCHANGED <<pc, ret, cur, curRef>>
         [] t \in {"COMMENT", "BLOCK_COMMENT"} ->
                Pop(t) /\ frags' = Append(frags, [k |-> "comment", i |-> off + 1, st |-> off + 1, en |-> off + 1])
                /\ UNCHANGED <<pc, ret, cur, curRef>>
         [] t = "DESCRIPTION" ->
                Pop(t) /\ cur' = [k |-> "desc", ts |-> <<off + 1>>, st |-> off + 1, en |-> off + 1]
                /\ pc' = "descJoin0" /\ UNCHANGED <<ret, curRef, frags>>
         [] t \in {"IDENT", "BOOL"} ->
                Pop(t) /\ curRef' = <<off + 1>> /\ pc' = "refDot" /\ ret' = <<"stmtRef">> /\ UNCHANGED <<cur, frags>>

\* every other token at statement level is an error
FragBad(t) ==
    /\ pc = "frag" /\ Peek(t) /\ t \notin {"EOF", "EOL", "}", "COMMENT", "BLOCK_COMMENT", "DESCRIPTION", "IDENT", "BOOL"}
    /\ Pop(t) /\ Err(off + 1)

(* ---- popReference ---- *)
RefDot(t) ==
    /\ pc = "refDot" /\ Peek(t) /\ Keep /\ UNCHANGED <<cur, curRef, mark, tagCtx, astk, frags>>
    /\ IF t = "." THEN Pop(t) /\ pc' = "refIdent" /\ UNCHANGED ret
       ELSE NoPop /\ pc' = ret[1] /\ ret' = Tail(ret)

RefIdent(t) ==
    /\ pc = "refIdent" /\ Peek(t) /\ Pop(t)
    /\ IF t \in {"IDENT", "BOOL"}
       THEN /\ curRef' = Append(curRef, off + 1) /\ pc' = "refDot"
            /\ Keep /\ UNCHANGED <<ret, cur, mark, tagCtx, astk, frags>>
       ELSE Err(PopIdx(t))

(* ---- walkStatement ---- *)
StmtRef(t) ==
    /\ pc = "stmtRef" /\ Peek(t) /\ Keep /\ UNCHANGED <<curRef, mark, tagCtx, astk, frags>>
    /\ CASE t = "=" -> Pop(t) /\ cur' = Assign(curRef, FALSE) /\ pc' = "value" /\ ret' = <<"assignEnd">>
         [] t = "+" -> Pop(t) /\ pc' = "plusEq" /\ UNCHANGED <<cur, ret>>
         [] OTHER -> NoPop /\ cur' = Hdr(curRef) /\ pc' = "tags" /\ UNCHANGED ret

PlusEq(t) ==
    /\ pc = "plusEq" /\ Peek(t) /\ Pop(t)
    /\ IF t = "="
       THEN /\ cur' = Assign(curRef, TRUE) /\ pc' = "value" /\ ret' = <<"assignEnd">>
            /\ Keep /\ UNCHANGED <<curRef, mark, tagCtx, astk, frags>>
       ELSE Err(PopIdx(t))

Tags(t) ==
    /\ pc = "tags" /\ Peek(t) /\ NoPop /\ Keep /\ UNCHANGED <<ret, cur, curRef, mark, astk, frags>>
    /\ IF t \in TagStart THEN pc' = "tagMark" /\ tagCtx' = "tag" ELSE pc' = "quals" /\ UNCHANGED tagCtx

Quals(t) ==
    /\ pc = "quals" /\ Peek(t) /\ Keep /\ UNCHANGED <<ret, cur, curRef, mark, astk, frags>>
    /\ IF t = ":" THEN Pop(t) /\ pc' = "tagMark" /\ tagCtx' = "qual" ELSE NoPop /\ pc' = "hdrEnd" /\ UNCHANGED tagCtx

(* ---- popTag ---- *)
TagMark(t) ==
    /\ pc = "tagMark" /\ Peek(t) /\ Keep /\ UNCHANGED <<ret, cur, curRef, tagCtx, astk, frags>>
    /\ IF t \in {"!", "?"} THEN Pop(t) /\ mark' = t ELSE NoPop /\ mark' = ""
    /\ pc' = "tagBody"

AddTag(tg) ==
    /\ cur' = IF tagCtx = "tag" THEN [cur EXCEPT !.tags = Append(@, tg)] ELSE [cur EXCEPT !.quals = Append(@, tg)]
    /\ pc' = IF tagCtx = "tag" THEN "tags" ELSE "quals"

TagBody(t) ==
    /\ pc = "tagBody" /\ Peek(t) /\ Pop(t)
    /\ CASE t \in {"IDENT", "BOOL"} ->
              /\ curRef' = <<off + 1>> /\ pc' = "refDot" /\ ret' = Push(ret, "tagRefDone")
              /\ Keep /\ UNCHANGED <<cur, mark, tagCtx, astk, frags>>
         [] t = "STRING" ->
              /\ AddTag([mark |-> mark, kind |-> "str", ids |-> <<off + 1>>])
              /\ Keep /\ UNCHANGED <<ret, curRef, mark, tagCtx, astk, frags>>
         [] OTHER -> Err(PopIdx(t))

TagRefDone ==
    /\ pc = "tagRefDone" /\ NoPop /\ Keep /\ UNCHANGED <<toks, eof, ret, curRef, mark, tagCtx, astk, frags>>
    /\ AddTag([mark |-> mark, kind |-> "ref", ids |-> curRef])

(* ---- end of a block header ---- *)
EmitCur == frags' = Append(frags, cur')

HdrEnd(t) ==
    /\ pc = "hdrEnd" /\ Peek(t)
    /\ CASE t = "{" ->
              /\ Pop(t) /\ cur' = [cur EXCEPT !.open = TRUE, !.en = off + 1]
              /\ pc' = "endStmt" /\ ret' = <<"emitHdr">> /\ Keep /\ UNCHANGED <<curRef, mark, tagCtx, astk, frags>>
         [] t = "DESCRIPTION" ->
              /\ Pop(t) /\ cur' = [cur EXCEPT !.desc = off + 1, !.en = off + 1]
              /\ EmitCur /\ pc' = "frag" /\ Keep /\ UNCHANGED <<ret, curRef, mark, tagCtx, astk>>
         [] t = "COMMENT" ->       \* hdr.End = currentPos(), then the trailing comment
              /\ NoPop /\ cur' = [cur EXCEPT !.en = off]
              /\ pc' = "endStmt" /\ ret' = <<"emitHdr">> /\ Keep /\ UNCHANGED <<curRef, mark, tagCtx, astk, frags>>
         [] t \in {"EOL", "EOF"} ->
              /\ NoPop /\ cur' = [cur EXCEPT !.en = off]       \* currentPos(): end of the previous token
              /\ EmitCur /\ pc' = "frag" /\ Keep /\ UNCHANGED <<ret, curRef, mark, tagCtx, astk>>
         [] OTHER -> Pop(t) /\ Err(PopIdx(t))

(* ---- endStatement ---- *)
EndStmt(t) ==
    /\ pc = "endStmt" /\ Peek(t) /\ Pop(t)
    /\ CASE t = "COMMENT" ->
              /\ cur' = [cur EXCEPT !.cmt = off + 1] /\ pc' = "endStmt2"
              /\ Keep /\ UNCHANGED <<ret, curRef, mark, tagCtx, astk, frags>>
         [] t \in {"EOL", "EOF"} ->
              /\ pc' = ret[1] /\ ret' = Tail(ret) /\ Keep /\ UNCHANGED <<cur, curRef, mark, tagCtx, astk, frags>>
         [] OTHER -> Err(PopIdx(t))

EndStmt2(t) ==
    /\ pc = "endStmt2" /\ Peek(t) /\ Pop(t)
    /\ IF t \in {"EOL", "EOF"}
       THEN pc' = ret[1] /\ ret' = Tail(ret) /\ Keep /\ UNCHANGED <<cur, curRef, mark, tagCtx, astk, frags>>
       ELSE Err(PopIdx(t))

EmitStmt ==
    /\ pc \in {"emitHdr", "emitAssign"} /\ NoPop /\ Keep
    /\ frags' = Append(frags, cur) /\ cur' = NoCur /\ pc' = "frag"
    /\ UNCHANGED <<toks, eof, ret, curRef, mark, tagCtx, astk>>

(* ---- popValue ---- *)
ValueP(t) ==
    /\ pc = "value" /\ Peek(t)
    /\ CASE t = "IDENT" ->
              /\ Pop(t) /\ curRef' = <<off + 1>> /\ pc' = "refDot" /\ ret' = Push(ret, "valRefDone")
              /\ Keep /\ UNCHANGED <<cur, mark, tagCtx, astk, frags>>
         [] t \in Literals \ {"IDENT"} ->
              /\ Pop(t) /\ ValueDone([vk |-> "tok", i |-> off + 1])
              /\ Keep /\ UNCHANGED <<curRef, mark, tagCtx, frags>>
         [] t = "[" ->
              /\ Pop(t) /\ astk' = Append(astk, [open |-> off + 1, els |-> <<>>]) /\ pc' = "arrFirst"
              /\ Keep /\ UNCHANGED <<ret, cur, curRef, mark, tagCtx, frags>>
         [] OTHER -> Pop(t) /\ Err(PopIdx(t))

ValRefDone ==
    /\ pc = "valRefDone" /\ NoPop /\ Keep /\ UNCHANGED <<toks, eof, curRef, mark, tagCtx, frags>>
    /\ ValueDone([vk |-> "ref", ids |-> curRef])

ArrVal(j) == LET f == astk[Len(astk)] IN [vk |-> "arr", els |-> f.els, open |-> f.open, en |-> j]
PopArr == SubSeq(astk, 1, Len(astk) - 1)

\* ValueDone for a finished array: the frame is popped first
ArrDone(j) ==
    LET v == ArrVal(j) IN
    IF ret # <<>> /\ ret[1] = "arrElem"
    THEN /\ astk' = [PopArr EXCEPT ![Len(PopArr)] = [@ EXCEPT !.els = Append(@, v)]]
         /\ pc' = "arrElem" /\ ret' = Tail(ret) /\ UNCHANGED cur
    ELSE /\ cur' = [cur EXCEPT !.val = v, !.en = j]
         /\ pc' = "endStmt" /\ ret' = <<"emitAssign">> /\ astk' = PopArr

ArrFirst(t) ==
    /\ pc = "arrFirst" /\ Peek(t) /\ Keep /\ UNCHANGED <<curRef, mark, tagCtx, frags>>
    /\ IF t = "]" THEN Pop(t) /\ ArrDone(off + 1)
       ELSE NoPop /\ pc' = "value" /\ ret' = Push(ret, "arrElem") /\ UNCHANGED <<cur, astk>>

ArrElem(t) ==
    /\ pc = "arrElem" /\ Peek(t) /\ Pop(t)
    /\ CASE t = "," -> pc' = "value" /\ ret' = Push(ret, "arrElem") /\ Keep /\ UNCHANGED <<cur, curRef, mark, tagCtx, astk, frags>>
         [] t = "]" -> ArrDone(off + 1) /\ Keep /\ UNCHANGED <<curRef, mark, tagCtx, frags>>
         [] OTHER -> Err(PopIdx(t))

(* ---- popDescription ---- *)
DescJoin0(t) ==
    /\ pc = "descJoin0" /\ Peek(t) /\ NoPop /\ Keep /\ UNCHANGED <<ret, curRef, mark, tagCtx, astk>>
    /\ IF t = "EOL" THEN pc' = "descJoin1" /\ UNCHANGED <<cur, frags>>
       ELSE frags' = Append(frags, cur) /\ cur' = NoCur /\ pc' = "frag"

DescJoin1(t) ==
    /\ pc = "descJoin1" /\ PeekAt(1, t) /\ Keep /\ UNCHANGED <<ret, curRef, mark, tagCtx, astk>>
    /\ IF t = "DESCRIPTION"
       THEN /\ off' = off + 2 /\ cur' = [cur EXCEPT !.ts = Append(@, off + 2), !.en = off + 2]
            /\ pc' = "descJoin0" /\ UNCHANGED frags
       ELSE NoPop /\ frags' = Append(frags, cur) /\ cur' = NoCur /\ pc' = "frag"

(* ---- recoverError: skip to the next EOL ---- *)
Skip(t) ==
    /\ pc = "skip" /\ Peek(t) /\ Pop(t) /\ Keep
    /\ pc' = IF t \in {"EOL", "EOF"} THEN "frag" ELSE "skip"
    /\ UNCHANGED <<ret, cur, curRef, mark, tagCtx, astk, frags>>

(* ---- Walk's epilogue and fragmentsToFile ---- *)
\* fold over the fragments: errors for a close at depth 0 and for blocks still open at the end
RECURSIVE FoldErrs(_, _, _)
FoldErrs(i, depth, acc) ==
    IF i > Len(frags)
    THEN IF depth > 0 THEN Append(acc, [kind |-> "unclosed", fi |-> Len(frags)]) ELSE acc
    ELSE LET f == frags[i] IN
         IF f.k = "hdr" /\ f.open THEN FoldErrs(i + 1, depth + 1, acc)
         ELSE IF f.k = "close"
              THEN IF depth = 0 THEN FoldErrs(i + 1, 0, Append(acc, [kind |-> "unexpected-close", fi |-> i]))
                   ELSE FoldErrs(i + 1, depth - 1, acc)
              ELSE FoldErrs(i + 1, depth, acc)

Fold ==
    /\ pc = "fold" /\ NoPop
    /\ pc' = "done"
    /\ result' = IF errs # <<>> THEN "errors"
                 ELSE IF frags # <<>> /\ FoldErrs(1, 0, <<>>) # <<>> THEN "fold-errors" ELSE "tree"
    /\ UNCHANGED <<toks, eof, failFast, ret, cur, curRef, mark, tagCtx, astk, frags, errs>>

PStep ==
    \/ \E t \in Types :
          \/ Frag(t) \/ FragBad(t) \/ RefDot(t) \/ RefIdent(t) \/ StmtRef(t) \/ PlusEq(t) \/ Tags(t) \/ Quals(t)
          \/ TagMark(t) \/ TagBody(t) \/ HdrEnd(t) \/ EndStmt(t) \/ EndStmt2(t) \/ ValueP(t) \/ ArrFirst(t) \/ ArrElem(t)
          \/ DescJoin0(t) \/ DescJoin1(t) \/ Skip(t)
    \/ TagRefDone \/ EmitStmt \/ ValRefDone \/ Fold

(* ---------------- layout: positions of tokens in the canonical text ---------------- *)

RECURSIVE LayoutFrom(_, _, _, _, _)
LayoutFrom(ts, i, line, prevEnd, acc) ==     \* prevEnd = -1 at the start of a line
    IF i > Len(ts) THEN acc
    ELSE LET a == ts[i]
             sh == Shape(a)
             sc == IF prevEnd < 0 THEN 0 ELSE prevEnd + (IF a = "EOL" THEN 1 ELSE 2)
         IN IF a = "EOL"
            THEN LayoutFrom(ts, i + 1, line + 1, -1, Append(acc, [sl |-> line, sc |-> sc, el |-> line, ec |-> sc]))
            ELSE IF sh.ml
                 THEN LayoutFrom(ts, i + 1, line + 1, sh.w2 - 1,
                                 Append(acc, [sl |-> line, sc |-> sc, el |-> line + 1, ec |-> sh.w2 - 1]))
                 ELSE LayoutFrom(ts, i + 1, line, sc + sh.w - 1,
                                 Append(acc, [sl |-> line, sc |-> sc, el |-> line, ec |-> sc + sh.w - 1]))
Layout(ts) == LayoutFrom(ts, 1, 0, -1, <<>>)

\* start/end of a node given token indices (en = 0: the End the code never set, i.e. 0:0)
NodePos(P, st, en) ==
    [sl |-> P[st].sl, sc |-> P[st].sc, el |-> IF en = 0 THEN 0 ELSE P[en].el, ec |-> IF en = 0 THEN 0 ELSE P[en].ec]
\* a diagnostic on token i; i = 0 is the synthetic EOF placed at the end of the last token
ErrPos(P, e) ==
    IF e.ti = 0 THEN [sl |-> P[Len(P)].el, sc |-> P[Len(P)].ec, el |-> P[Len(P)].el, ec |-> P[Len(P)].ec]
    ELSE P[e.ti]

PosLE(l1, c1, l2, c2) == l1 < l2 \/ (l1 = l2 /\ c1 <= c2)

(* ---------------- properties of the model ---------------- *)

\* the walker never moves backwards and never reads more than one token past the end
OffMonotone == [][off' >= off /\ off' <= Len(toks')]_pvars

\* tree xor diagnostics
TreeXorDiagnostics ==
    pc = "done" => /\ result \in {"tree", "errors", "fold-errors"}
                   /\ (result = "errors") = (errs # <<>>)

\* fail-fast stops at its first diagnostic
FailFastOne == (failFast /\ pc = "done") => Len(errs) <= 1

\* recovery resumes at a line boundary: skipping ends only on an EOL token or at the end of the input
RecoverySkipsToEOL ==
    [][(pc = "skip" /\ pc' = "frag") => ((off' > off /\ toks'[off'] = "EOL") \/ (off' = off /\ eof'))]_pvars

\* every diagnostic lies on a real token (or at the end of the last one): start <= end, inside the text
DiagPosValid ==
    pc = "done" => \A i \in 1..Len(errs) :
        LET P == Layout(toks) p == ErrPos(P, errs[i]) IN PosLE(p.sl, p.sc, p.el, p.ec)

\* every statement node spans start <= end (before the repair of walkStatement's COMMENT path TLC
\* exhibited "a //c": en = 0)
NodePosValid ==
    (pc = "done" /\ result = "tree") => \A i \in 1..Len(frags) :
        LET P == Layout(toks) f == frags[i] p == NodePos(P, f.st, f.en) IN PosLE(p.sl, p.sc, p.el, p.ec)

FragOut(P, f) ==
    LET p == NodePos(P, f.st, f.en) IN
    [k |-> f.k, sl |-> p.sl, sc |-> p.sc, el |-> p.el, ec |-> p.ec,
     open |-> IF f.k = "hdr" THEN f.open ELSE FALSE,
     cmt |-> IF f.k \in {"hdr", "assign"} THEN f.cmt # 0 ELSE FALSE]

PEmitRecord ==
    LET P == Layout(toks) IN
    [toks |-> toks, ff |-> failFast, result |-> result,
     frags |-> [i \in 1..Len(frags) |-> FragOut(P, frags[i])],
     errs |-> [i \in 1..Len(errs) |-> ErrPos(P, errs[i])],
     fold |-> IF result = "fold-errors" THEN FoldErrs(1, 0, <<>>) ELSE <<>>]
=============================================================================
