SPECIFICATION Spec
CONSTANTS
  Bases <- BasesQuick
  MaxSteps = 3
  MaxFocus = 1
  Focused = TRUE
  Breadth = "full"
  MaxFields = 3
  MaxDecls = 4
  MaxFiles = 2
  MaxPkgs = 2
  EmitLeavesOnly = FALSE
  EmitCases = TRUE
INVARIANTS NumbersContiguous EnumNumbersContiguous NamesUniquePerScope ImportsSufficient Emit
PROPERTIES AppendStable
CHECK_DEADLOCK FALSE
