---------------------------- MODULE BclLexerTrace ----------------------------
(***************************************************************************)
(* Direction T for the lexer: each event is one real call                  *)
(*   [op |-> "lex", inp (symbol atoms of the real input), ff, ok,          *)
(*    toks (type, start, end, rune count of the literal), errs (positions)]*)
(* The lexer machine of BclLexer is loaded with the recorded input (Look   *)
(* never chooses), takes its own steps, and on reaching "done" its tokens  *)
(* and errors are compared with what the real lexer returned.  The law     *)
(* part of C11 that concerns tokens (positions inside the input, start     *)
(* not after end, fail-fast reports one error) is evaluated on the LOGGED  *)
(* values.                                                                 *)
(***************************************************************************)
EXTENDS BclLexer, IOUtils

TraceFile == IF "VERIF_TRACE" \in DOMAIN IOEnv THEN IOEnv.VERIF_TRACE ELSE "trace.ndjson"
Trace == ndJsonDeserialize(TraceFile)

VARIABLES l, nDrift, loaded
tvars == <<vars, l, nDrift, loaded>>

TraceInit == Init /\ l = 1 /\ nDrift = 0 /\ loaded = FALSE /\ failFast = FALSE
Ev == Trace[l]

Load ==
    /\ ~loaded /\ l <= Len(Trace)
    /\ loaded' = TRUE
    /\ inp' = Ev.inp /\ eof' = TRUE /\ failFast' = Ev.ff
    /\ off' = 0 /\ line' = 0 /\ col' = -1 /\ isEOL' = FALSE
    /\ pc' = "start" /\ tokType' = "" /\ tokSL' = 0 /\ tokSC' = 0 /\ lit' = <<>> /\ seenDot' = FALSE
    /\ toks' = <<>> /\ errs' = <<>>
    /\ UNCHANGED <<l, nDrift>>

Machine == loaded /\ pc # "done" /\ Next /\ UNCHANGED <<l, nDrift, loaded>>

RECURSIVE LitLen(_, _)
LitLen(s, i) == IF i > Len(s) THEN 0 ELSE W(s[i]) + LitLen(s, i + 1)

SameTok(m, r) == m.t = r.t /\ m.sl = r.sl /\ m.sc = r.sc /\ m.el = r.el /\ m.ec = r.ec
                 /\ (m.t \in {"IDENT", "STRING", "REGEX", "INT", "DECIMAL", "BOOL", "COMMENT", "BLOCK_COMMENT", "DESCRIPTION"} => LitLen(m.lit, 1) = r.n)

Conforms ==
    /\ (errs = <<>>) = Ev.ok
    /\ IF Ev.ok
       THEN Len(toks) = Len(Ev.toks) /\ \A i \in 1..Len(toks) : SameTok(toks[i], Ev.toks[i])
       ELSE Len(errs) = Len(Ev.errs) /\ \A i \in 1..Len(errs) : errs[i].l = Ev.errs[i].l /\ errs[i].c = Ev.errs[i].c

Return ==
    /\ loaded /\ pc = "done"
    /\ nDrift' = nDrift + (IF Conforms THEN 0 ELSE 1)
    /\ (IF Conforms THEN TRUE ELSE PrintT(<<"NONCONF", l>>))
    /\ l' = l + 1 /\ loaded' = FALSE
    /\ UNCHANGED vars

TraceNext == Load \/ Machine \/ Return
TraceSpec == TraceInit /\ [][TraceNext]_tvars

\* law on the logged (real) values; Lens is computed from the loaded input
InB(L, ln, c) == ln >= 0 /\ ln < Len(L) /\ c >= 0 /\ c <= L[ln + 1]
LawTokens ==
    (loaded /\ pc = "done" /\ l <= Len(Trace)) =>     \* evaluated once per recorded call
        LET L == Lens IN
        /\ \A i \in 1..Len(Ev.toks) : LET t == Ev.toks[i] IN
              InB(L, t.sl, t.sc) /\ InB(L, t.el, t.ec) /\ PosLE(t.sl, t.sc, t.el, t.ec)
        /\ \A i \in 1..Len(Ev.errs) : InB(L, Ev.errs[i].l, Ev.errs[i].c)
        /\ (Ev.ff => Len(Ev.errs) <= 1)
        /\ (Ev.ok = (Ev.errs = <<>>))

TraceDone == (~loaded /\ l = Len(Trace) + 1) => PrintT(<<"TRACEDONE", ToJson([events |-> l - 1, drift |-> nDrift])>>)
=============================================================================
