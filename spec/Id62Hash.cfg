SPECIFICATION Spec
CONSTANTS
  Atoms = {"a", "b", ":", "a:b", ""}
  MaxArgs = 3
  MaxCalls = 2
  EmitCases = TRUE
INVARIANTS Pure Emit
CHECK_DEADLOCK FALSE
