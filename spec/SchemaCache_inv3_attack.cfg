SPECIFICATION Spec
CONSTANTS
  Procs <- P3
  Types <- InvTypes
  ChildSeq <- InvChild
  Invalid <- InvInvalid
  Pkg <- InvPkg
  CallChoices <- InvCalls3
  Guard = "early"
  Mode = "attack"
INVARIANTS EmitAttack
VIEW View
CHECK_DEADLOCK FALSE
