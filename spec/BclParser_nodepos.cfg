SPECIFICATION Spec
CONSTANTS
  MaxToks = 4
  MaxDepth = 2
  Atoms <- TypeAtoms
  FailFastChoices <- BothFF
  Prune = TRUE
  PruneReps <- Reps
  EmitCases = FALSE
INVARIANTS NodePosValid
CHECK_DEADLOCK FALSE
