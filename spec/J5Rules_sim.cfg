SPECIFICATION RulesSpec
CONSTANTS
  Kinds <- KindsAll
  Cards <- CardsAll
  Press <- PressAll
  MaxRules = 5
  WithAnn = TRUE
  IntLo <- IntLoT
  IntHi <- IntHiT
  LenLo <- LenLoT
  LenHi <- LenHiT
  CntLo <- CntLoT
  CntHi <- CntHiT
  EmitCases = TRUE
INVARIANTS TypeOK ReadWriteInverse WriteWellTyped EmitDecl
CHECK_DEADLOCK FALSE
