-------------------------- MODULE CompileOrderTrace --------------------------
(***************************************************************************)
(* Trace validation for protobuild.PackageSet (direction T, property C14). *)
(* Events recorded from the real code while it executes a history:         *)
(*   [op |-> "reset"]                      a new history (repetition)       *)
(*   [op |-> "new", pkgListing, listing]   NewPackageSet over that listing  *)
(*   [op |-> "compile", p, digest, canon]  CompilePackage(p) returned;      *)
(*        digest = hash of (deterministic Marshal of every                  *)
(*        FileDescriptorProto, PrintFile text, result order), canon = the   *)
(*        same hash for p compiled alone on a fresh set, sorted listing     *)
(* Each event is matched by the action of CompileOrder.tla (NewSet with    *)
(* the logged listing, Compile(p) with some load order); the specification *)
(* says the output is the canonical one (HistoryIndependent), the law      *)
(* LawDeterministic is evaluated by TLC on the recorded digests: every     *)
(* digest equals its canon, and all digests of a package in the whole log  *)
(* (all histories, all repetitions) are the same.                          *)
(***************************************************************************)
EXTENDS CompileOrder, IOUtils

TraceFile == IF "VERIF_TRACE" \in DOMAIN IOEnv THEN IOEnv.VERIF_TRACE ELSE "trace.ndjson"
Trace == ndJsonDeserialize(TraceFile)

VARIABLES l, first, lastEv
tvars == <<vars, l, first, lastEv>>

Ev == Trace[l]
NoEv == [op |-> "none", p |-> "", digest |-> "", canon |-> ""]

TraceInit == Init /\ l = 1 /\ first = [p \in PkgNames |-> ""] /\ lastEv = NoEv

TReset ==
    /\ l <= Len(Trace) /\ Ev.op = "reset"
    /\ pkgListing' = <<>> /\ listing' = [p \in PkgNames |-> <<>>]
    /\ loaded' = {} /\ exports' = [p \in PkgNames |-> [t \in {} |-> ""]] /\ linked' = {}
    /\ hist' = <<>> /\ outs' = <<>> /\ news' = 0 /\ compiles' = 0
    /\ l' = l + 1 /\ lastEv' = NoEv /\ UNCHANGED first

TNew ==
    /\ l <= Len(Trace) /\ Ev.op = "new"
    /\ pkgListing' = Ev.pkgListing
    /\ listing' = [p \in PkgNames |-> Ev.listing[p]]
    /\ \A p \in PkgNames : listing'[p] \in Perms(FileNames(p))
    /\ loaded' = {} /\ linked' = {} /\ exports' = [p \in PkgNames |-> [t \in {} |-> ""]]
    /\ news' = news + 1
    /\ hist' = Append(hist, [op |-> "new", p |-> "", pkgListing |-> pkgListing', listing |-> listing', loads |-> <<>>])
    /\ UNCHANGED <<outs, compiles>>
    /\ l' = l + 1 /\ lastEv' = NoEv /\ UNCHANGED first

TCompile ==
    /\ l <= Len(Trace) /\ Ev.op = "compile" /\ Ev.p \in PkgNames
    /\ Compile(Ev.p)
    /\ first' = IF first[Ev.p] = "" THEN [first EXCEPT ![Ev.p] = Ev.digest] ELSE first
    /\ lastEv' = [op |-> "compile", p |-> Ev.p, digest |-> Ev.digest, canon |-> Ev.canon]
    /\ l' = l + 1

TraceNext == TReset \/ TNew \/ TCompile
TraceSpec == TraceInit /\ [][TraceNext]_tvars

LawDeterministic ==
    lastEv.op = "compile" => /\ lastEv.digest = lastEv.canon
                             /\ lastEv.digest = first[lastEv.p]

TraceDone ==
    (l = Len(Trace) + 1) => PrintT(<<"TRACEDONE", ToJson([events |-> l - 1])>>)
=============================================================================
