--------------------------- MODULE BclLexerTraceMC ---------------------------
EXTENDS BclLexerTrace
NoSym == {}
BothFF == {TRUE, FALSE}
=============================================================================
