--------------------------- MODULE BclParserTraceMC ---------------------------
EXTENDS BclParserTrace
NoAtoms == {}
BothFF == {TRUE, FALSE}
=============================================================================
