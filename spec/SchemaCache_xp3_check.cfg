SPECIFICATION Spec
CONSTANTS
  Procs <- P3
  Types <- XpTypes
  ChildSeq <- XpChild
  Invalid <- NoneInvalid
  Pkg <- XpPkg
  CallChoices <- XpCalls3
  Guard = "mutex"
  Mode = "check"
INVARIANTS TypeOK MutualExclusion NoDataRace SameAsAlone BuiltOnce NoPlaceholderVisible
PROPERTIES Termination
CHECK_DEADLOCK TRUE
