----------------------------- MODULE J5WireTokMC -----------------------------
EXTENDS J5WireTok
StrsAll == {"s", "n", "e", "o", "w", "as", "ae", "ao", "aw", "ms", "me", "mo", "mw", "y", "fa", "wa", "ws", "!type", "zzz", "RED"}
\* deep simulation: a pool biased toward containers
StrsDeep == {"o", "w", "ao", "aw", "mo", "mw", "y", "wa", "!type", "s", "RED"}
=============================================================================
