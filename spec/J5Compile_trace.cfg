SPECIFICATION TraceSpec
CONSTANTS
  Bases <- NoBases
  MaxSteps = 0
  MaxFocus = 0
  Focused = TRUE
  Breadth = "lite"
  MaxFields = 3
  MaxDecls = 4
  MaxFiles = 2
  MaxPkgs = 2
  EmitLeavesOnly = FALSE
  EmitCases = FALSE
INVARIANTS LawNumbers LawEnumNumbers LawNames LawAppend TraceDone
CHECK_DEADLOCK FALSE
