----------------------------- MODULE J5LangTrace -----------------------------
(***************************************************************************)
(* Direction T for property C07: each event is one real CompilePackage     *)
(* call on a file holding one construct of spec/J5Lang.tla                 *)
(*   [op |-> "compile", container, kind, card, presence, rules, fault,     *)
(*    valid (what the generator claimed), compiled (what the compiler did)]*)
(* The model's state is loaded from the event, Valid is re-evaluated by    *)
(* TLC on it (conformance of the claim) and the law "every program of the  *)
(* documented language is accepted" is tallied: TRACEDONE reports how      *)
(* many valid programs the real compiler rejected; the orchestrator        *)
(* requires that number to equal the per-case findings of direction G.     *)
(***************************************************************************)
EXTENDS J5Lang, IOUtils

TraceFile == IF "VERIF_TRACE" \in DOMAIN IOEnv THEN IOEnv.VERIF_TRACE ELSE "trace.ndjson"
Trace == ndJsonDeserialize(TraceFile)

VARIABLES l, nDrift, nRejectedValid, nAcceptedFault
tvars == <<vars, l, nDrift, nRejectedValid, nAcceptedFault>>

TraceInit == Init /\ l = 1 /\ nDrift = 0 /\ nRejectedValid = 0 /\ nAcceptedFault = 0
Ev == Trace[l]

Load ==
    /\ phase # "done" /\ l <= Len(Trace)
    /\ phase' = "done" /\ container' = Ev.container /\ kind' = Ev.kind /\ card' = Ev.card /\ presence' = Ev.presence
    /\ rules' = Ev.rules /\ fault' = Ev.fault
    /\ UNCHANGED <<l, nDrift, nRejectedValid, nAcceptedFault>>

Judge ==
    /\ phase = "done" /\ l <= Len(Trace)
    /\ nDrift' = nDrift + (IF Valid = Ev.valid THEN 0 ELSE 1)
    /\ nRejectedValid' = nRejectedValid + (IF Valid /\ ~Ev.compiled THEN 1 ELSE 0)
    /\ nAcceptedFault' = nAcceptedFault + (IF ~Valid /\ Ev.compiled THEN 1 ELSE 0)
    /\ l' = l + 1
    /\ phase' = "container" /\ container' = "" /\ kind' = "" /\ card' = "" /\ presence' = "" /\ rules' = <<>> /\ fault' = ""

TraceNext == Load \/ Judge
TraceSpec == TraceInit /\ [][TraceNext]_tvars

TraceDone ==
    (phase # "done" /\ l = Len(Trace) + 1) =>
        PrintT(<<"TRACEDONE", ToJson([events |-> l - 1, drift |-> nDrift, rejectedValid |-> nRejectedValid, acceptedFault |-> nAcceptedFault])>>)
=============================================================================
