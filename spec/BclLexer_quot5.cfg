SPECIFICATION Spec
CONSTANTS
  MaxLen = 5
  Sym <- SymQuot
  FailFastChoices <- BothFF
  EmitCases = TRUE
INVARIANTS PosInBounds TokensOrdered FailFastOne Emit
PROPERTIES Progress
CHECK_DEADLOCK FALSE
