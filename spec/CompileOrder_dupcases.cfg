SPECIFICATION Spec
CONSTANTS
  Shape <- ShapeDup
  BundleName = "dupcases"
  Valid = FALSE
  MaxCompiles = 2
  MaxNews = 1
  SortFiles = TRUE
  PermuteFiles = TRUE
  EmitCases = TRUE
INVARIANTS TypeOK CacheSound Emit
CHECK_DEADLOCK FALSE
