---------------------------- MODULE DepVersions ----------------------------
(***************************************************************************)
(* C14, clause "independent of what else was compiled earlier in the same  *)
(* process", for published dependencies: one process compiles the same     *)
(* local bundle against a dependency file in version 1 or 2 (two bundles   *)
(* of one repository may pin different versions of one upstream file), a   *)
(* fresh PackageSet each time.  The output of a compile is a function of   *)
(* the sources and the version in use - Out(v) - whatever the process has  *)
(* seen before.  A behaviour is a history of versions; every history is    *)
(* run in a process of its own and the outputs are compared per version,   *)
(* within the history and across histories.                                *)
(***************************************************************************)
EXTENDS Naturals, Sequences, TLC, Json

CONSTANTS Versions, MaxCompiles, EmitCases
VARIABLES hist, outs, done
vars == <<hist, outs, done>>

Out(v) == v                      \* the model: the output is determined by the version alone

Init == hist = <<>> /\ outs = <<>> /\ done = FALSE
Compile(v) == ~done /\ Len(hist) < MaxCompiles /\ hist' = Append(hist, v) /\ outs' = Append(outs, Out(v)) /\ UNCHANGED done
Finish == ~done /\ hist # <<>> /\ done' = TRUE /\ UNCHANGED <<hist, outs>>
Next == (\E v \in Versions : Compile(v)) \/ Finish
Spec == Init /\ [][Next]_vars

HistoryIndependent == \A i, j \in 1..Len(hist) : hist[i] = hist[j] => outs[i] = outs[j]
Emit == (done /\ EmitCases) => PrintT(<<"CASE", ToJson([history |-> hist])>>)
=============================================================================
