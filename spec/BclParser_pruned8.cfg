SPECIFICATION Spec
CONSTANTS
  MaxToks = 8
  MaxDepth = 2
  Atoms <- LayoutAtoms
  FailFastChoices <- BothFF
  Prune = TRUE
  PruneReps <- Reps
  EmitCases = TRUE
INVARIANTS TreeXorDiagnostics FailFastOne DiagPosValid Emit
PROPERTIES OffMonotone RecoverySkipsToEOL
CHECK_DEADLOCK FALSE
