SPECIFICATION Spec
CONSTANTS
  Bases <- BasesSim
  MaxSteps = 14
  MaxFocus = 6
  Focused = FALSE
  Breadth = "full"
  MaxFields = 3
  MaxDecls = 4
  MaxFiles = 2
  MaxPkgs = 2
  EmitLeavesOnly = TRUE
  EmitCases = TRUE
INVARIANTS NumbersContiguous EnumNumbersContiguous NamesUniquePerScope ImportsSufficient Emit
PROPERTIES AppendStable
CHECK_DEADLOCK FALSE
