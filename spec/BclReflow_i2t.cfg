SPECIFICATION Spec
CONSTANTS
  Width = 72
  Indent = 2
  WordLens = {3, 35, 36, 37}
  MaxToks = 6
  EmitCases = TRUE
INVARIANTS TypeOK Idempotent WordsPreserved LinesFit Emit
CHECK_DEADLOCK FALSE
