---------------------------- MODULE J5WireTrace ----------------------------
(***************************************************************************)
(* Trace validation for the J5 JSON codec (direction T) of C01, C08, C03.  *)
(*                                                                         *)
(* The harness records one event per public call sequence on the real      *)
(* code, projected onto the vocabulary of J5Wire:                          *)
(*  [op |-> "rt", sch, val, anyc, encok, wf, doc, decok, back, wfonly]     *)
(*       ProtoToJSON(msg) -> strict re-read -> JSONToProto(fresh)          *)
(*  [op |-> "dec", sch, doc, anyc, ok, got, demand]                        *)
(*       JSONToProto of a model document (spelling or fault)               *)
(* For every event TLC evaluates                                           *)
(*   - the property's law on the logged values (invariants LawXxx), and     *)
(*   - conformance: the specification's own Enc / Dec applied to the REAL  *)
(*     message / REAL document agree with what the code did (counted in    *)
(*     nDrift; for the contract property C03 the comparison of Dec with    *)
(*     the real outcome is the law itself).                                *)
(***************************************************************************)
EXTENDS J5Wire, IOUtils

TraceFile == IF "VERIF_TRACE" \in DOMAIN IOEnv THEN IOEnv.VERIF_TRACE ELSE "trace.ndjson"
Trace == ndJsonDeserialize(TraceFile)

VARIABLES l, nDrift
tvars == <<vars, l, nDrift>>

TraceInit == Init /\ l = 1 /\ nDrift = 0

Ev == Trace[l]

\* equality of JSON trees up to member order (order is not part of the wire format)
RECURSIVE SameJ(_, _)
SameJ(a, b) ==
    IF a.j # b.j THEN FALSE
    ELSE CASE a.j = "obj" -> /\ Len(a.m) = Len(b.m)
                             /\ \A i \in 1..Len(a.m) : LET x == Lookup(b.m, a.m[i].k) IN x # <<>> /\ SameJ(a.m[i].v, x[1])
           [] a.j = "arr" -> Len(a.s) = Len(b.s) /\ \A i \in 1..Len(a.s) : SameJ(a.s[i], b.s[i])
           [] a.j \in {"str", "num", "bool"} -> a.kind = b.kind /\ a.a = b.a /\ a.f = b.f
           [] OTHER -> TRUE

\* the specification applied to the real observations agrees with the implementation
Conforms(e) ==
    IF e.op = "rt"
    THEN IF e.wfonly \/ ~e.encok \/ ~e.wf THEN TRUE
         ELSE /\ SameJ(EncNode(e.sch, e.val, S0("")), e.doc)
              /\ (e.decok => DecNode(e.sch, e.doc, e.anyc) = e.back)
    ELSE LET d == DecNode(e.sch, e.doc, e.anyc)
         IN (e.ok = (d # Reject)) /\ (e.ok => e.got = d)

Step ==
    /\ l <= Len(Trace)
    /\ nDrift' = nDrift + (IF Conforms(Ev) THEN 0 ELSE 1)
    /\ l' = l + 1
    /\ UNCHANGED vars

TraceSpec == TraceInit /\ [][Step]_tvars

(* C01: encoding succeeds and decoding the real output gives back the (normalised) message *)
LawRoundTrip ==
    (l <= Len(Trace) /\ Ev.op = "rt" /\ ~Ev.wfonly) => (Ev.encok /\ Ev.decok /\ Ev.back = NormNode(Ev.sch, Ev.val))

(* C08: every successful encoding is well-formed JSON; in the representable range it is Enc(schema, v) *)
LawWellFormed ==
    (l <= Len(Trace) /\ Ev.op = "rt" /\ Ev.encok) => Ev.wf

(* C03 (contract): the real decoder accepts exactly what Dec accepts and stores exactly what Dec denotes *)
LawDecode ==
    (l <= Len(Trace) /\ Ev.op = "dec" /\ Ev.demand) =>
        LET d == DecNode(Ev.sch, Ev.doc, Ev.anyc) IN (Ev.ok = (d # Reject)) /\ (Ev.ok => Ev.got = d)

TraceDone ==
    (l = Len(Trace) + 1) => PrintT(<<"TRACEDONE", ToJson([events |-> l - 1, drift |-> nDrift])>>)
=============================================================================
