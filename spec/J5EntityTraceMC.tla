-------------------------- MODULE J5EntityTraceMC --------------------------
\* the casing tables are those of J5EntityMC
EXTENDS J5EntityTrace, J5EntityMC
NoFocus == {}
None(f) == {}
Three(f) == 3
Zero(f) == 0
=============================================================================
