---------------------------- MODULE ProtoShapesMC ----------------------------
EXTENDS ProtoShapes

None == {}
NumArms == {"float", "double", "int32", "int64", "uint32", "uint64", "sint32", "sint64", "fixed32", "fixed64", "sfixed32", "sfixed64"}
A(arm, vs) == {[arm |-> arm, var |-> v] : v \in vs}

ValidateAll ==
    UNION {A(n, {"gt", "lte", "range", "const", "in", "not_in", "empty"}) : n \in NumArms}
    \cup A("bool", {"const", "const_false", "empty"})
    \cup A("string", {"min_len", "max_len", "const", "pattern", "pattern_date", "pattern_id62", "uuid", "email", "ip", "uri", "hostname", "in", "empty"})
    \cup A("bytes", {"min_len", "const", "empty"})
    \cup A("enum", {"defined_only", "in_ok", "in_missing", "not_in_zero", "not_in_missing", "const", "empty"})
    \cup A("repeated", {"min_items", "unique", "items_string", "items_int32", "items_bool", "items_match", "items_required", "ignore_items", "ignore_noitems", "empty"})
    \cup A("map", {"min_pairs", "values_string", "values_int32", "values_bool", "values_match", "keys", "empty"})
    \cup A("any", {"in", "empty"}) \cup A("duration", {"gt", "const"})
    \cup A("timestamp", {"lt", "gte", "range", "const", "within", "lt_now", "empty"})
    \cup A("required", {"true", "false"}) \cup A("ignore", {"always", "default"}) \cup A("cel", {"expr"})

J5All ==
    A("message", {"flatten", "plain"}) \cup A("object", {"flatten", "plain"}) \cup A("any", {"types", "only_defined", "types_unsorted", "types_dup"})
    \cup A("enum", {"plain"}) \cup A("oneof", {"plain"}) \cup A("map", {"single_form"}) \cup A("array", {"single_form"})
    \cup A("string", {"plain"}) \cup A("integer", {"rules", "plain"}) \cup A("float", {"plain"}) \cup A("bool", {"plain"})
    \cup A("bytes", {"plain"}) \cup A("decimal", {"rules"}) \cup A("date", {"rules"}) \cup A("timestamp", {"plain"})
    \cup A("key", {"uuid", "id62", "unspecified", "pattern", "empty"}) \cup A("description", {"only"})

ListAll ==
    UNION {A(n, {"rules"}) : n \in NumArms} \cup A("bool", {"rules"}) \cup A("enum", {"rules"}) \cup A("oneof", {"rules"})
    \cup A("timestamp", {"rules"}) \cup A("date", {"rules"}) \cup A("decimal", {"rules"}) \cup A("any", {"rules"})
    \cup A("string", {"open_text", "date", "fk_unique", "fk_uuid", "fk_id62", "fk_empty", "empty"})

PsmAll == A("key", {"primary", "foreign", "tenant", "empty"})

M(cls, arm, var) == [cls |-> cls, arm |-> arm, var |-> var]
MismatchReps ==
    {M("validate", "string", "min_len"), M("validate", "string", "uuid"), M("validate", "int32", "gt"), M("validate", "int32", "const"),
     M("validate", "int64", "const"), M("validate", "uint32", "const"), M("validate", "uint64", "in"), M("validate", "float", "const"),
     M("validate", "double", "const"), M("validate", "double", "gt"), M("validate", "bool", "const"), M("validate", "enum", "in_missing"),
     M("validate", "enum", "defined_only"), M("validate", "repeated", "min_items"), M("validate", "repeated", "items_string"),
     M("validate", "repeated", "ignore_noitems"), M("validate", "repeated", "ignore_items"), M("validate", "repeated", "empty"), M("validate", "map", "empty"),
     M("validate", "repeated", "items_bool"), M("validate", "map", "values_string"), M("validate", "map", "values_bool"),
     M("validate", "timestamp", "const"), M("validate", "any", "in"), M("validate", "duration", "gt"), M("validate", "bytes", "min_len"),
     M("j5", "message", "flatten"), M("j5", "object", "flatten"), M("j5", "any", "types"), M("j5", "key", "uuid"), M("j5", "key", "unspecified"),
     M("j5", "array", "single_form"), M("j5", "map", "single_form"), M("j5", "date", "rules"), M("j5", "decimal", "rules"),
     M("j5", "string", "plain"), M("j5", "integer", "rules"), M("j5", "enum", "plain"), M("j5", "oneof", "plain"), M("j5", "bool", "plain"),
     M("list", "string", "open_text"), M("list", "string", "fk_uuid"), M("list", "string", "fk_unique"), M("list", "int64", "rules"),
     M("list", "int32", "rules"), M("list", "double", "rules"), M("list", "bool", "rules"), M("list", "enum", "rules"), M("list", "oneof", "rules"),
     M("list", "timestamp", "rules"), M("list", "date", "rules"), M("list", "decimal", "rules"), M("list", "any", "rules"),
     M("psmkey", "key", "primary")}
MismatchAll == {M("validate", a.arm, a.var) : a \in ValidateAll} \cup {M("j5", a.arm, a.var) : a \in J5All}
               \cup {M("list", a.arm, a.var) : a \in ListAll} \cup {M("psmkey", a.arm, a.var) : a \in PsmAll}

CardsAll == {"single", "optional", "repeated", "map"}
CardsAnn == {"single", "repeated", "map"}
CardsOne == {"single"}
CardsTwo == {"single", "repeated"}
CardsGraph2 == {"single", "map"}
CardsGraph3 == {"single", "repeated", "map"}
KeysAll == {"string", "int32", "bool", "uint64"}
KeysString == {"string"}
KeysTwo == {"string", "int32"}
SelsThree == {"none", "choice", "type"}
EnumOptsTwo == {"none", "no_default"}
SelsTwo == {"none", "choice"}
OneofOptsTwo == {"none", "expose"}
SelsAll == {"none", "choice", "type", "foo_bar"}
SelsNone == {"none"}
OneofOptsAll == {"none", "expose", "expose_false", "filtering", "list"}
OneofOptsNone == {"none"}
\* psm_part*: every value of the entity-part enumeration (P schema.proto EntityPart)
MsgOptsAll == {"none", "wrapper_deprecated", "type_object", "type_object_any", "type_oneof", "description", "psm", "psm_part", "list_request",
               "psm_part_state", "psm_part_event", "psm_part_data", "psm_part_refs", "psm_part_derived"}
MsgOptsNone == {"none"}
MsgOptsFew == {"none", "type_oneof", "psm"}
\* value_prefixed: a value whose short name begins with the enum's prefix once more (E0_E0_X)
\* negative_value: the second value has number -1 (proto3 enums are int32: negative numbers are legal, protoc only warns)
EnumOptsAll == {"none", "no_default", "info_fields", "value_info", "value_prefixed", "negative_value"}
EnumOptsNone == {"none"}
RecAll == {"self", "mutual", "map", "repeated", "optional", "oneof", "flatchild", "flatclash", "oneofclash", "flatoneof", "nestclash", "flatlasso"}
\* recursion forms that need three messages (focus_rec3)
RecThree == {"flatlasso", "mutual"}
KindsOne == {"string"}
\* reduced pools for pair exploration: one representative per class of the kind switch
KindsPair == {"string", "bool", "int32", "fixed32", "fixed64", "double"}
WktPair == {"Timestamp", "Struct", "Any", "Empty"}
ValidatePair == A("string", {"min_len", "uuid", "ip"}) \cup A("bool", {"const"}) \cup A("int32", {"gt", "const"}) \cup A("double", {"gt"})
               \cup A("repeated", {"min_items", "items_match", "items_string"}) \cup A("map", {"values_match", "values_string"})
               \cup A("enum", {"in_ok", "in_missing"}) \cup A("timestamp", {"lt", "const"}) \cup A("required", {"true"})
J5Pair == A("object", {"flatten"}) \cup A("message", {"flatten"}) \cup A("key", {"uuid", "unspecified"}) \cup A("any", {"only_defined", "types_unsorted"}) \cup A("date", {"rules"})
ListPair == A("string", {"open_text", "fk_uuid", "fk_unique"}) \cup A("int32", {"rules"}) \cup A("int64", {"rules"}) \cup A("enum", {"rules"}) \cup A("timestamp", {"rules"})
PsmPair == A("key", {"primary"})

ASSUME SwitchTotal
=============================================================================
