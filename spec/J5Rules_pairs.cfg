SPECIFICATION RulesSpec
CONSTANTS
  Kinds <- KindsRuled
  Cards <- CardsSA
  Press <- PressI
  MaxRules = 2
  WithAnn = TRUE
  IntLo <- IntLoT
  IntHi <- IntHiT
  LenLo <- LenLoT
  LenHi <- LenHiT
  CntLo <- CntLoT
  CntHi <- CntHiT
  EmitCases = TRUE
INVARIANTS TypeOK ReadWriteInverse WriteWellTyped EmitDecl
CHECK_DEADLOCK FALSE
