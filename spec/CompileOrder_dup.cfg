SPECIFICATION Spec
CONSTANTS
  Shape <- ShapeDup
  BundleName = "dup"
  Valid = FALSE
  MaxCompiles = 2
  MaxNews = 1
  SortFiles = TRUE
  PermuteFiles = TRUE
  EmitCases = FALSE
INVARIANTS TypeOK CacheSound HistoryIndependent
CHECK_DEADLOCK FALSE
