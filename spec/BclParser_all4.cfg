SPECIFICATION Spec
CONSTANTS
  MaxToks = 4
  MaxDepth = 2
  Atoms <- TypeAtoms
  FailFastChoices <- BothFF
  Prune = FALSE
  PruneReps <- Reps
  EmitCases = TRUE
INVARIANTS TreeXorDiagnostics FailFastOne DiagPosValid Emit
PROPERTIES OffMonotone RecoverySkipsToEOL
CHECK_DEADLOCK FALSE
