SPECIFICATION Spec
CONSTANTS
  Atoms = {"a", ":", "a:a", ""}
  MaxArgs = 3
  MaxCalls = 3
  EmitCases = TRUE
INVARIANTS Pure Emit
CHECK_DEADLOCK FALSE
