SPECIFICATION TraceSpec
CONSTANTS
  Roots = {"a.v1", "b.v1", "c.v1"}
  Subs = {"", "service", "topic"}
  MaxRefs = 3
  EmitCases = FALSE
INVARIANTS TypeOK Closed ParentListed NamedDirect IndirectMinimal OrderIndependent ListedExact Conforms TraceDone
CHECK_DEADLOCK FALSE
