------------------------- MODULE PackageExportTrace -------------------------
(* Direction T for the package closure of C15: each event is one real export (structure.APIFromImage) of one reference
   graph of PackageExport with one named root:
       [refs |-> <<<<from, to>>, ...>>, named |-> root, listed |-> <<root, ...>>, indirect |-> <<root, ...>>,
        exported |-> <<node, ...>>]           (a node is <<root, sub>>)
   The event is loaded into PackageExport's variables as a finished export (phase "done") and the specification's
   invariants are evaluated on it: OrderIndependent pins the exported nodes to the least fixed point of the graph,
   ListedExact the listed / indirect packages, Closed / ParentListed / NamedDirect / IndirectMinimal as in the model.
   The step itself must be a behaviour of the model: the loaded state has to be the one Name and Follow steps lead to. *)
EXTENDS PackageExport, IOUtils

TraceFile == IF "VERIF_TRACE" \in DOMAIN IOEnv THEN IOEnv.VERIF_TRACE ELSE "trace.ndjson"
Trace == ndJsonDeserialize(TraceFile)

VARIABLE l
tvars == <<vars, l>>
Ev == Trace[l]
Range(s) == { s[k] : k \in DOMAIN s }

TraceInit == Init /\ l = 0

Load == /\ l < Len(Trace)
        /\ l' = l + 1
        /\ LET e == Trace[l + 1] IN
              /\ refs' = Range(e.refs)
              /\ named' = {e.named}
              /\ listed' = Range(e.listed)
              /\ indirect' = Range(e.indirect)
              /\ exported' = Range(e.exported)
              /\ phase' = "done"

TraceNext == Load
TraceSpec == TraceInit /\ [][TraceNext]_tvars

Loaded == l > 0
\* what Name followed by Follow steps produce for this graph and this named root
ModelExported == Fix({ n \in Nodes : RootOf(n) \in named })
ModelListed == named \cup { RootOf(n) : n \in ModelExported }
Conforms == Loaded => /\ exported = ModelExported
                      /\ listed = ModelListed
                      /\ indirect = ModelListed \ named
TraceDone == (l = Len(Trace)) => PrintT(<<"TRACEDONE", ToJson([events |-> l])>>)
=============================================================================
