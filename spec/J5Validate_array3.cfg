SPECIFICATION Spec
CONSTANTS
  Kinds <- KindsV
  Cards <- CardsA
  Press <- PressAll
  MaxRules = 3
  WithAnn = FALSE
  IntLo <- IntLoQ
  IntHi <- IntHiQ
  LenLo <- LenLoQ
  LenHi <- LenHiQ
  CntLo <- CntLoT
  CntHi <- CntHiT
  EmitCases = TRUE
INVARIANTS TypeOK AllowsTotal NoVacuousRule BothSides Emit
CHECK_DEADLOCK FALSE
