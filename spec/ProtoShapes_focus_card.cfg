SPECIFICATION Spec
CONSTANTS
  Mode = "focus"
  Guard = TRUE
  EmitCases = TRUE
  MaxMsgs = 2
  MaxEnums = 1
  MaxFocus = 1
  MaxAnns = 0
  ScalarKinds <- AllScalarKinds
  WktAtoms <- AllWkt
  Cards <- CardsAll
  MapKeys <- KeysAll
  OneofSels <- SelsAll
  OneofOpts <- OneofOptsAll
  MsgOpts <- MsgOptsAll
  EnumOpts <- EnumOptsAll
  RecForms <- RecAll
  ValidateAnns <- None
  J5Anns <- None
  ListAnns <- None
  PsmAnns <- None
  MismatchAnns <- None
INVARIANTS TypeOK NoReenter EntersBounded StackBounded StepsBounded BuiltLinked OneResultPerRun Emit
CHECK_DEADLOCK TRUE
