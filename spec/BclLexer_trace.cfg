SPECIFICATION TraceSpec
CONSTANTS
  MaxLen = 0
  Sym <- NoSym
  FailFastChoices <- BothFF
  EmitCases = FALSE
INVARIANTS LawTokens TraceDone
CHECK_DEADLOCK FALSE
