SPECIFICATION TraceSpec
CONSTANTS
  Procs <- P4
  Types <- SharedTypes
  ChildSeq <- SharedChild
  Invalid <- NoneInvalid
  Pkg <- SharedPkg
  CallChoices <- NoCalls
  Guard = "mutex"
  Mode = "trace"
INVARIANTS MutualExclusion SameAsAlone BuiltOnce NoPlaceholderVisible TraceDone
CHECK_DEADLOCK FALSE
