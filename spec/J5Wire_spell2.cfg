SPECIFICATION Spec
CONSTANTS
  Mode = "spell"
  Kinds <- KindsAll
  Cards <- CardsAll
  Positions <- PositionsAll
  Pairs = TRUE
  Combos = TRUE
  EmitCases = TRUE
INVARIANTS TypeOK ReprTotal SpellingInvariant CanonicalIsSpelling NoKeyCollision Emit
PROPERTIES Progress
CHECK_DEADLOCK FALSE
