---------------------------- MODULE J5CompileMC ----------------------------
EXTENDS J5Compile
BasesQuick == {"single", "twofile", "twopkg", "twopkgfile"}
BasesSingle == {"single"}
BasesSim == {"empty", "single", "onefile", "twofile", "twopkg"}
BasesPairs == {"single", "twopkg"}
=============================================================================
