---------------------------- MODULE J5CompileMC ----------------------------
EXTENDS J5Compile
BasesQuick == {"single", "svc", "twofile", "twopkg", "twopkgfile", "proto", "aliasclash", "shadow", "svcref", "inlsib", "svcreflate", "shadowsvc", "inlsame", "aliasdecl", "dotfiles"}
BasesSingle == {"single"}
BasesProto == {"proto"}
BasesSim == {"empty", "single", "onefile", "twofile", "twopkg"}
BasesPairs == {"single", "svc", "twopkg"}
=============================================================================
