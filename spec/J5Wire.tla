------------------------------- MODULE J5Wire -------------------------------
(***************************************************************************)
(* The J5 JSON wire format (README "Scalar Types", "Oneof", flatten, Any)  *)
(* as an encode / decode pair over abstract value trees, and the input     *)
(* space of properties C01 (round trip), C08 (encoder contract) and C03    *)
(* (decoding exact or rejected) as a state machine that chooses, on        *)
(* demand,                                                                 *)
(*    PickSlot      field kind x cardinality x position                    *)
(*    PickValue     value atoms at the kind's boundaries                   *)
(*    PickSpelling  one documented alternate spelling (or a combination)   *)
(*    InjectFault   exactly one fault of one listed class at one place     *)
(* so that the reachable graph is the bounded input space and -simulate    *)
(* draws random members of it.                                             *)
(*                                                                         *)
(* TLC has no floats, big integers or string indexing: scalar values are   *)
(* named atoms ("min","big53","max",...).  The harness (wire_types.go)     *)
(* holds the literal table atom -> protobuf value / canonical lexeme /     *)
(* alternate spellings.  The specification decides the representation      *)
(* CLASS: bare or quoted, which member key, present or omitted, framing,   *)
(* accept or reject.                                                       *)
(*                                                                         *)
(* Trees (all records, so that any two are comparable in TLC):             *)
(*  schema  [t:"leaf",kind] | [t:"obj",name,props] | [t:"oneof",name,props]*)
(*          | [t:"any",fl]      prop = [name,card,flat,exp,sch]            *)
(*  value   [t:"atom",a] | [t:"obj",m] | [t:"oneof",m] | [t:"arr",s]       *)
(*          | [t:"map",m] | [t:"any",a] | [t:"unset"] | [t:"reject"]       *)
(*          m = sequence of [k,v] in schema order (maps: key order)        *)
(*  JSON    [j:"obj",m] | [j:"arr",s] | [j:"str"|"num"|"bool",kind,a,f]    *)
(*          | [j:"null"] | [j:"raw"]  (raw: payload of an Any)             *)
(***************************************************************************)
EXTENDS Integers, Sequences, FiniteSets, TLC, Json

CONSTANTS
    Mode,        \* "val" (C01/C08) | "spell" | "fault" | "query" (C03)
    Kinds,       \* focus field kinds explored
    Cards,       \* cardinalities explored
    Positions,   \* positions explored
    Pairs,       \* TRUE: arrays / maps also with two elements
    Combos,      \* TRUE: spellings in every combination, FALSE: one variation at a time plus all at once
    EmitCases

ScalarKinds == {"string", "key", "bool", "int32", "int64", "uint32", "uint64", "float32", "float64",
                "bytes", "timestamp", "date", "decimal"}
LeafKinds   == ScalarKinds \cup {"enum"}
AllKinds    == LeafKinds \cup {"object", "oneof", "anyj5", "anypb"}
AllCards    == {"one", "opt", "arr", "map"}
\* "flat2": a flattened object inside a flattened object (both are inlined into the root); "flat3": three levels
AllPositions == {"top", "nested", "arrelem", "mapval", "arm", "armdirect", "flat", "flat2", "flat3", "exposed", "expdirect", "rootoneof"}

(* ---------------- the representation table (README "Scalar Types") ---------------- *)

\* canonical JSON type of a kind
JT(kind) == CASE kind \in {"int32", "uint32", "float32", "float64"} -> "num"
              [] kind = "bool" -> "bool"
              [] OTHER -> "str"       \* string key int64 uint64 bytes timestamp date decimal enum

CanonForm(kind) == CASE kind \in {"int32", "uint32", "float32", "float64"} -> "bare"
                     [] kind \in {"int64", "uint64", "decimal"} -> "quoted"
                     [] kind = "bytes" -> "stdpad"
                     [] kind = "enum" -> "short"
                     [] kind = "timestamp" -> "utc"
                     [] OTHER -> "canon"

\* documented alternate spellings the decoder must accept ("accepts a more flexible range of inputs")
AllForms(kind) == CASE kind \in {"int32", "uint32", "int64", "uint64", "float32", "float64", "decimal"} -> {"bare", "quoted"}
                    [] kind = "bytes" -> {"stdpad", "stdnopad", "urlpad", "urlnopad"}
                    [] kind = "enum" -> {"short", "prefixed"}
                    [] kind = "timestamp" -> {"utc", "plus", "minus"}
                    [] OTHER -> {"canon"}

FormJT(kind, form) == IF form = "bare" THEN "num" ELSE IF form = "quoted" THEN "str" ELSE JT(kind)

\* value atoms representable in the documented wire format (the C01 / C03 space)
GoodAtoms(kind) ==
    CASE kind = "int32"   -> {"min", "m1", "zero", "one", "max"}
      [] kind = "int64"   -> {"min", "m1", "zero", "big53", "max"}
      [] kind = "uint32"  -> {"zero", "one", "max"}
      [] kind = "uint64"  -> {"zero", "one", "big63", "max"}
      [] kind = "float32" -> {"zero", "negzero", "onehalf", "tiny", "neg", "max"}
      [] kind = "float64" -> {"zero", "negzero", "onehalf", "tiny", "tenth", "e21", "max"}
      [] kind = "string"  -> {"zero", "ascii", "esc", "ctrl", "nonbmp", "html"}
      [] kind = "key"     -> {"zero", "id62", "uuid"}
      [] kind = "bool"    -> {"false", "true"}
      \* len257 / len1000: longer than any buffer an encoder might chunk by (256, 512); 257 = 1 mod 3, 1000 = 1 mod 3
      [] kind = "bytes"   -> {"zero", "len1", "len2", "len3", "len4", "len257", "len1000"}
      [] kind = "timestamp" -> {"epoch", "nanos", "pre1970", "y0001", "y9999"}
      [] kind = "date"    -> {"d0001", "d0999", "leap", "leap400", "d9999"}      \* leap400: 2000-02-29 (a century that IS a leap year)
      [] kind = "decimal" -> {"zero", "neg", "big", "small", "exp", "int"}
      [] kind = "enum"    -> {"unspec", "red", "green", "infra"}
      [] OTHER -> {}

\* atoms outside the representable range: C08 well-formedness only (encoder must fail or emit valid JSON)
WfOnlyAtoms(kind) ==
    CASE kind \in {"float32", "float64"} -> {"nan", "pinf", "ninf"}
      [] kind = "date" -> {"y0", "y10000"}
      [] OTHER -> {}

\* proto3 zero values: a singular field without presence holding one of these is unset
ZeroAtoms(kind) ==
    CASE kind \in {"int32", "int64", "uint32", "uint64", "float32", "float64", "string", "key", "bytes"} -> {"zero"}
      [] kind = "bool" -> {"false"}
      [] kind = "enum" -> {"unspec"}
      [] OTHER -> {}      \* timestamp, date, decimal are messages: presence is tracked

(* ---------------- tree constructors ---------------- *)

LeafS(kind) == [t |-> "leaf", kind |-> kind]
ObjS(name, props) == [t |-> "obj", name |-> name, props |-> props]
OneofS(name, props) == [t |-> "oneof", name |-> name, props |-> props]
AnyS(fl) == [t |-> "any", fl |-> fl]
P(name, card, sch) == [name |-> name, card |-> card, flat |-> FALSE, exp |-> FALSE, sch |-> sch]
PFlat(name, sch) == [name |-> name, card |-> "one", flat |-> TRUE, exp |-> FALSE, sch |-> sch]
PExp(name, sch) == [name |-> name, card |-> "one", flat |-> FALSE, exp |-> TRUE, sch |-> sch]

Atom(a) == [t |-> "atom", a |-> a]
ObjV(m) == [t |-> "obj", m |-> m]
OneofV(m) == [t |-> "oneof", m |-> m]
ArrV(s) == [t |-> "arr", s |-> s]
MapV(m) == [t |-> "map", m |-> m]
AnyV(a) == [t |-> "any", a |-> a]
Unset == [t |-> "unset"]
Reject == [t |-> "reject"]
KV(k, v) == [k |-> k, v |-> v]

Leaf(kind, atom, form) == [j |-> FormJT(kind, form), kind |-> kind, a |-> atom, f |-> form]
Lit(text) == [j |-> "str", kind |-> "lit", a |-> text, f |-> "canon"]
X(jt, atom) == [j |-> jt, kind |-> "x", a |-> atom, f |-> "canon"]     \* wrong-type replacement leaves
JNull == [j |-> "null"]
JRaw == [j |-> "raw"]
JRawE == [j |-> "rawempty"]      \* the payload of an Any whose inner message is empty: {}
EmptyAny == {"protoE", "jsonE"}   \* ... carried as (empty) proto bytes only, or as the JSON text {}
JObj(m) == [j |-> "obj", m |-> m]
JArr(s) == [j |-> "arr", s |-> s]

AnyTypeName == "j5.types.date.v1.Date"

Reverse(s) == [i \in 1..Len(s) |-> s[Len(s) + 1 - i]]

RECURSIVE Flatten(_)
Flatten(ss) == IF ss = <<>> THEN <<>> ELSE Head(ss) \o Flatten(Tail(ss))

\* 0 or 1 values stored under key name (first occurrence)
Lookup(m, name) ==
    LET idx == {i \in 1..Len(m) : m[i].k = name}
    IN IF idx = {} THEN <<>> ELSE <<m[CHOOSE i \in idx : \A j \in idx : i <= j].v>>

PropNamed(props, name) == props[CHOOSE i \in 1..Len(props) : props[i].name = name]
HasProp(props, name) == \E i \in 1..Len(props) : props[i].name = name

(* ---------------- the schema of a slot ---------------- *)

Leafbox == ObjS("Leafbox", <<P("n", "one", LeafS("int32")), P("s", "opt", LeafS("string"))>>)
Other   == ObjS("Other", <<P("m", "one", LeafS("int32"))>>)
PickS   == OneofS("Pick", <<P("px", "one", Leafbox), P("py", "one", LeafS("string"))>>)

FocusSch(kind) == CASE kind \in LeafKinds -> LeafS(kind)
                    [] kind = "object" -> Leafbox
                    [] kind = "oneof" -> PickS
                    [] kind = "anyj5" -> AnyS("j5")
                    [] kind = "anypb" -> AnyS("pb")

FocusName == "fooBar"          \* proto name foo_bar: JSON names are lowerCamel
FocusProp(kind, card) == P(FocusName, card, FocusSch(kind))
Sib == P("sib", "one", LeafS("string"))
Box(kind, card) == ObjS("Box", <<P("tag", "one", LeafS("string")), FocusProp(kind, card)>>)

RootSch(kind, card, pos) ==
    CASE pos = "top"       -> ObjS("Root", <<Sib, FocusProp(kind, card)>>)
      [] pos = "nested"    -> ObjS("Root", <<Sib, P("box", "one", Box(kind, card))>>)
      [] pos = "arrelem"   -> ObjS("Root", <<Sib, P("boxes", "arr", Box(kind, card))>>)
      [] pos = "mapval"    -> ObjS("Root", <<Sib, P("boxMap", "map", Box(kind, card))>>)
      [] pos = "arm"       -> ObjS("Root", <<Sib, P("choice", "one", OneofS("Choice", <<P("armA", "one", Box(kind, card)), P("armB", "one", Other)>>))>>)
      [] pos = "armdirect" -> ObjS("Root", <<Sib, P("choice", "one", OneofS("Choice", <<FocusProp(kind, "one"), P("armB", "one", Other)>>))>>)
      [] pos = "flat"      -> ObjS("Root", <<Sib, PFlat("flat", Box(kind, card))>>)
      [] pos = "flat2"     -> ObjS("Root", <<Sib, PFlat("outer", ObjS("Mid", <<P("midTag", "one", LeafS("string")), PFlat("flat", Box(kind, card))>>))>>)
      [] pos = "flat3"     -> ObjS("Root", <<Sib, PFlat("outer", ObjS("Mid", <<P("midTag", "one", LeafS("string")),
                                    PFlat("inner", ObjS("MidInner", <<P("innerTag", "one", LeafS("string")), PFlat("flat", Box(kind, card))>>))>>))>>)
      [] pos = "exposed"   -> ObjS("Root", <<Sib, PExp("pick", OneofS("PickX", <<P("armA", "one", Box(kind, card)), P("alt", "one", LeafS("string"))>>))>>)
      [] pos = "expdirect" -> ObjS("Root", <<Sib, PExp("pick", OneofS("PickX", <<FocusProp(kind, "one"), P("alt", "one", LeafS("string"))>>))>>)
      [] pos = "rootoneof" -> OneofS("Root", <<P("armA", "one", Box(kind, card)), P("armB", "one", Other)>>)

\* combinations J5 admits: optional only for leaves; a proto oneof member is singular
Admissible(kind, card, pos) ==
    /\ (card = "opt" => kind \in LeafKinds)
    /\ (pos \in {"armdirect", "expdirect"} => card = "one")
    /\ (kind \in {"anyj5", "anypb"} => card = "one")       \* arrays / maps of Any are not built by j5reflect

(* ---------------- values ---------------- *)

\* labelled candidate values of one element of the focus field
FocusVals(kind, anyc) ==
    CASE kind \in LeafKinds -> { [l |-> a, v |-> Atom(a), wf |-> FALSE] : a \in GoodAtoms(kind) }
      [] kind = "object" -> { [l |-> "empty", v |-> ObjV(<<>>), wf |-> FALSE],
                              [l |-> "n1", v |-> ObjV(<<KV("n", Atom("one"))>>), wf |-> FALSE],
                              [l |-> "n0", v |-> ObjV(<<KV("n", Atom("zero"))>>), wf |-> FALSE],
                              [l |-> "s0", v |-> ObjV(<<KV("s", Atom("zero"))>>), wf |-> FALSE],
                              [l |-> "n1s", v |-> ObjV(<<KV("n", Atom("max")), KV("s", Atom("esc"))>>), wf |-> FALSE] }
      [] kind = "oneof" -> { [l |-> "none", v |-> OneofV(<<>>), wf |-> FALSE],
                             [l |-> "pxempty", v |-> OneofV(<<KV("px", ObjV(<<>>))>>), wf |-> FALSE],
                             [l |-> "pxn1", v |-> OneofV(<<KV("px", ObjV(<<KV("n", Atom("one"))>>))>>), wf |-> FALSE],
                             [l |-> "py", v |-> OneofV(<<KV("py", Atom("ascii"))>>), wf |-> FALSE],
                             [l |-> "py0", v |-> OneofV(<<KV("py", Atom("zero"))>>), wf |-> FALSE] }
      \* a j5 Any may carry its payload as JSON text, as proto bytes, or both; the encoder transcodes proto bytes. An inner
      \* message without set fields has NO proto bytes at all (and a decoded one has none either): "protoE" / "jsonE"
      [] kind = "anyj5" -> { [l |-> (IF anyc THEN "both" ELSE "json"), v |-> AnyV(IF anyc THEN "both" ELSE "json"), wf |-> FALSE],
                             [l |-> "emptyinner-json", v |-> AnyV("jsonE"), wf |-> FALSE],
                             [l |-> "emptyinner-proto", v |-> AnyV("protoE"), wf |-> FALSE] }
                           \cup (IF anyc THEN { [l |-> "protoonly", v |-> AnyV("proto"), wf |-> FALSE] } ELSE {})
      [] kind = "anypb" -> { [l |-> "proto", v |-> AnyV("proto"), wf |-> FALSE],
                             [l |-> "emptyinner-proto", v |-> AnyV("protoE"), wf |-> FALSE] }

WfVals(kind) == { [l |-> a, v |-> Atom(a), wf |-> TRUE] : a \in WfOnlyAtoms(kind) }

\* the focus member (0 or 1 members) from the chosen elements
FocusMember(card, elems) ==
    IF elems = <<>> THEN <<>>
    ELSE CASE card \in {"one", "opt"} -> <<KV(FocusName, elems[1])>>
           [] card = "arr" -> <<KV(FocusName, ArrV(elems))>>
           [] card = "map" -> <<KV(FocusName, MapV([i \in 1..Len(elems) |-> KV(IF i = 1 THEN "k1" ELSE "k2", elems[i])]))>>

SibM(sibset) == IF sibset THEN <<KV("sib", Atom("ascii"))>> ELSE <<>>
BoxV(tagged, fm) == ObjV((IF tagged THEN <<KV("tag", Atom("html"))>> ELSE <<>>) \o fm)

RootVal(pos, sibset, tagged, fm) ==
    CASE pos = "top"       -> ObjV(SibM(sibset) \o fm)
      [] pos = "nested"    -> ObjV(SibM(sibset) \o <<KV("box", BoxV(tagged, fm))>>)
      [] pos = "arrelem"   -> ObjV(SibM(sibset) \o <<KV("boxes", ArrV(<<BoxV(TRUE, <<>>), BoxV(tagged, fm)>>))>>)
      [] pos = "mapval"    -> ObjV(SibM(sibset) \o <<KV("boxMap", MapV(<<KV("k1", BoxV(tagged, fm))>>))>>)
      [] pos = "arm"       -> ObjV(SibM(sibset) \o <<KV("choice", OneofV(<<KV("armA", BoxV(tagged, fm))>>))>>)
      [] pos = "armdirect" -> ObjV(SibM(sibset) \o <<KV("choice", OneofV(fm))>>)
      [] pos = "flat"      -> ObjV(SibM(sibset) \o <<KV("flat", BoxV(tagged, fm))>>)
      [] pos = "flat2"     -> ObjV(SibM(sibset) \o <<KV("outer", ObjV(<<KV("midTag", Atom("ascii")), KV("flat", BoxV(tagged, fm))>>))>>)
      [] pos = "flat3"     -> ObjV(SibM(sibset) \o <<KV("outer", ObjV(<<KV("midTag", Atom("ascii")),
                                    KV("inner", ObjV(<<KV("innerTag", Atom("html")), KV("flat", BoxV(tagged, fm))>>))>>))>>)
      [] pos = "exposed"   -> ObjV(SibM(sibset) \o <<KV("pick", OneofV(<<KV("armA", BoxV(tagged, fm))>>))>>)
      [] pos = "expdirect" -> ObjV(SibM(sibset) \o (IF fm = <<>> THEN <<>> ELSE <<KV("pick", OneofV(fm))>>))
      [] pos = "rootoneof" -> OneofV(<<KV("armA", BoxV(tagged, fm))>>)

(* ---------------- presence and normal form (what a protobuf message can distinguish) ---------------- *)

HasPresence(p, parentT) ==
    \/ p.card = "opt" \/ parentT = "oneof" \/ p.sch.t # "leaf"
    \/ (p.sch.t = "leaf" /\ ZeroAtoms(p.sch.kind) = {})

IsZeroLeaf(sch, v) == sch.t = "leaf" /\ v.t = "atom" /\ v.a \in ZeroAtoms(sch.kind)

RECURSIVE NormNode(_, _), NormMembers(_, _, _, _)
NormNode(sch, v) ==
    CASE sch.t = "obj" -> ObjV(NormMembers(sch.props, v.m, "obj", 1))
      [] sch.t = "oneof" -> OneofV(NormMembers(sch.props, v.m, "oneof", 1))
      \* a j5 Any given as proto bytes comes back with its JSON text (and, WithProtoToAny - the only codec such values
      \* are generated for - the bytes as well); an empty inner message has no bytes to come back with
      [] sch.t = "any" /\ sch.fl = "j5" -> IF v.a = "protoE" THEN AnyV("jsonE") ELSE IF v.a = "proto" THEN AnyV("both") ELSE v
      [] OTHER -> v
NormMembers(props, m, parentT, i) ==
    IF i > Len(props) THEN <<>>
    ELSE LET p == props[i]
             x == Lookup(m, p.name)
             rest == NormMembers(props, m, parentT, i + 1)
         IN IF x = <<>> THEN rest
            ELSE IF p.card = "arr"
                 THEN (IF x[1].s = <<>> THEN rest ELSE <<KV(p.name, ArrV([k \in 1..Len(x[1].s) |-> NormNode(p.sch, x[1].s[k])]))>> \o rest)
            ELSE IF p.card = "map"
                 THEN (IF x[1].m = <<>> THEN rest ELSE <<KV(p.name, MapV([k \in 1..Len(x[1].m) |-> KV(x[1].m[k].k, NormNode(p.sch, x[1].m[k].v))]))>> \o rest)
            ELSE LET nv == NormNode(p.sch, x[1])
                 IN IF IsZeroLeaf(p.sch, nv) /\ ~HasPresence(p, parentT) THEN rest
                    ELSE IF p.flat /\ nv.m = <<>> THEN rest      \* an empty flattened sub-object is absent
                    ELSE <<KV(p.name, nv)>> \o rest

(* ---------------- Enc: value -> JSON tree, parameterised by a spelling / fault record ---------------- *)
(* S = [fk, form, rev, nulls, rep, replvl, repnode, uk, of, ofn, fkey]                                  *)
(*   fkey     the key the focus member is written under, when it is not its JSON name ("" = the JSON     *)
(*            name): the proto spelling foo_bar or FooBar is an unknown key like any other               *)
(*   fk/form  the spelling used for leaves of kind fk (others canonical)                                 *)
(*   rev      members of every object reversed;  nulls  explicit null for every absent member            *)
(*   rep      TRUE: the focus element (replvl = "elem") or the whole focus field ("field") is            *)
(*            replaced by repnode (a fault)                                                              *)
(*   uk       name of the object / oneof type that receives an unknown member "zzz" ("" = none)          *)
(*   of, ofn  oneof fault "multi" | "mismatch" | "typenum" applied to the oneof type ofn ("" = none)     *)

S0(kind) == [fk |-> kind, form |-> CanonForm(kind), rev |-> FALSE, nulls |-> FALSE, rep |-> FALSE, replvl |-> "",
             repnode |-> JNull, uk |-> "", of |-> "", ofn |-> "", fkey |-> ""]

FormFor(S, kind) == IF S.fk = kind THEN S.form ELSE CanonForm(kind)
Ord(S, m) == IF S.rev THEN Reverse(m) ELSE m

RECURSIVE EncNode(_, _, _), EncCard(_, _, _), EncMembers(_, _, _, _, _), NullsFor(_)

\* explicit nulls for every client member of an absent property
NullsFor(p) == IF p.flat THEN Flatten([i \in 1..Len(p.sch.props) |-> NullsFor(p.sch.props[i])])
               ELSE <<KV(p.name, JNull)>>

EncNode(sch, v, S) ==
    CASE sch.t = "leaf" -> Leaf(sch.kind, v.a, FormFor(S, sch.kind))
      [] sch.t = "obj" ->
            JObj(Ord(S, EncMembers(sch.props, v.m, "obj", S, 1)
                        \o (IF S.uk = sch.name THEN <<KV("zzz", Lit("x"))>> ELSE <<>>)))
      [] sch.t = "oneof" ->
            IF v.m = <<>> THEN JObj(IF S.uk = sch.name THEN <<KV("zzz", Lit("x"))>> ELSE <<>>)
            ELSE LET arm == v.m[1]
                     pr == PropNamed(sch.props, arm.k)
                     other == (CHOOSE i \in 1..Len(sch.props) : sch.props[i].name # arm.k)
                     op == sch.props[other]
                     tyv == IF S.ofn = sch.name /\ S.of = "mismatch" THEN Lit(op.name)
                            ELSE IF S.ofn = sch.name /\ S.of = "typenum" THEN X("num", "one")
                            ELSE Lit(arm.k)
                     extra == (IF S.ofn = sch.name /\ S.of = "multi"
                               THEN <<KV(op.name, IF op.sch.t = "leaf" THEN Leaf(op.sch.kind, "ascii", "canon") ELSE JObj(<<>>))>> ELSE <<>>)
                              \o (IF S.uk = sch.name THEN <<KV("zzz", Lit("x"))>> ELSE <<>>)
                 IN JObj(Ord(S, <<KV("!type", tyv), KV(arm.k, EncCard(pr, arm.v, S))>> \o extra))
      [] sch.t = "any" -> JObj(Ord(S, <<KV("!type", Lit(AnyTypeName)), KV("value", IF v.a \in EmptyAny THEN JRawE ELSE JRaw)>>))

EncCard(p, v, S) ==
    LET isFocus == p.name = FocusName
        repF == S.rep /\ isFocus /\ S.replvl = "field"
        repE == S.rep /\ isFocus /\ S.replvl = "elem"
    IN IF repF THEN S.repnode
       ELSE CASE p.card = "arr" -> JArr([i \in 1..Len(v.s) |-> IF repE /\ i = 1 THEN S.repnode ELSE EncNode(p.sch, v.s[i], S)])
              [] p.card = "map" -> JObj(Ord(S, [i \in 1..Len(v.m) |-> KV(v.m[i].k, IF repE /\ i = 1 THEN S.repnode ELSE EncNode(p.sch, v.m[i].v, S))]))
              [] OTHER -> IF repE THEN S.repnode ELSE EncNode(p.sch, v, S)

\* members of an object in schema order: unset members are omitted (or explicit null), flattened objects are inlined
EncMembers(props, m, parentT, S, i) ==
    IF i > Len(props) THEN <<>>
    ELSE LET p == props[i]
             x == Lookup(m, p.name)
             rest == EncMembers(props, m, parentT, S, i + 1)
             absent == IF S.nulls THEN NullsFor(p) ELSE <<>>
         IN IF x = <<>> THEN absent \o rest
            ELSE IF p.flat THEN
                    (LET inl == EncMembers(p.sch.props, x[1].m, "obj", S, 1) IN inl) \o rest
            ELSE IF p.card \in {"one", "opt"} /\ IsZeroLeaf(p.sch, x[1]) /\ ~HasPresence(p, parentT) THEN absent \o rest
            ELSE IF p.card = "arr" /\ x[1].s = <<>> THEN absent \o rest
            ELSE IF p.card = "map" /\ x[1].m = <<>> THEN absent \o rest
            ELSE <<KV(IF p.name = FocusName /\ S.fkey # "" THEN S.fkey ELSE p.name, EncCard(p, x[1], S))>> \o rest

(* ---------------- Dec: JSON tree -> value or Reject ---------------- *)

\* a leaf lexeme is accepted iff it is a documented spelling of a representable value of that kind
LeafAccepts(kind, j) ==
    /\ j.j \in {"str", "num", "bool"}
    /\ j.kind = kind /\ j.a \in GoodAtoms(kind) /\ j.f \in AllForms(kind) /\ j.j = FormJT(kind, j.f)

RECURSIVE ClientNames(_)
ClientNames(props) == UNION { IF props[i].flat THEN ClientNames(props[i].sch.props) ELSE {props[i].name} : i \in 1..Len(props) }

NonNull(m) == SelectSeq(m, LAMBDA e : e.v.j # "null")
DupKeys(m) == \E i, k \in 1..Len(m) : i < k /\ m[i].k = m[k].k
AnyReject(s) == \E i \in 1..Len(s) : s[i] = Reject
SortKV(m) == IF Len(m) = 2 /\ m[1].k = "k2" /\ m[2].k = "k1" THEN <<m[2], m[1]>> ELSE m

RECURSIVE DecNode(_, _, _), DecCard(_, _, _), BuildObj(_, _, _, _)

\* anyc: the codec was built WithProtoToAny (then a decoded Any carries the proto bytes as well)
DecNode(sch, j, anyc) ==
    CASE sch.t = "leaf" -> IF LeafAccepts(sch.kind, j) THEN Atom(j.a) ELSE Reject
      [] sch.t = "obj" ->
            IF j.j # "obj" THEN Reject
            ELSE IF \E i \in 1..Len(j.m) : j.m[i].k \notin ClientNames(sch.props) THEN Reject      \* unknown key
            ELSE IF DupKeys(NonNull(j.m)) THEN Reject                                              \* already set
            ELSE LET r == BuildObj(sch.props, NonNull(j.m), anyc, 1) IN IF r.ok THEN ObjV(r.m) ELSE Reject
      [] sch.t = "oneof" ->
            IF j.j # "obj" THEN Reject
            ELSE LET tys == SelectSeq(j.m, LAMBDA e : e.k = "!type")
                     arms == SelectSeq(j.m, LAMBDA e : e.k # "!type")
                 IN IF \E i \in 1..Len(tys) : tys[i].v.j # "str" THEN Reject                        \* "!type" must be a string
                    ELSE IF \E i \in 1..Len(arms) : ~HasProp(sch.props, arms[i].k) THEN Reject      \* unknown key
                    ELSE IF Len(arms) > 1 THEN Reject                                               \* more than one key
                    ELSE IF Len(arms) = 0 THEN OneofV(<<>>)
                    ELSE IF tys # <<>> /\ tys[1].v.a # arms[1].k THEN Reject                        \* "!type" contradicts the key
                    ELSE IF arms[1].v.j = "null" THEN OneofV(<<>>)
                    ELSE LET pr == PropNamed(sch.props, arms[1].k)
                             dv == DecCard(pr, arms[1].v, anyc)
                         IN IF dv = Reject THEN Reject ELSE IF dv = Unset THEN OneofV(<<>>) ELSE OneofV(<<KV(arms[1].k, dv)>>)
      [] sch.t = "any" ->
            IF j.j # "obj" THEN Reject
            ELSE LET tys == Lookup(j.m, "!type")
                     vals == Lookup(j.m, "value")
                 IN IF tys = <<>> \/ vals = <<>> \/ Len(j.m) # 2 THEN Reject
                    ELSE IF tys[1].j # "str" THEN Reject
                    ELSE IF sch.fl = "pb" THEN (IF anyc THEN AnyV(IF vals[1].j = "rawempty" THEN "protoE" ELSE "proto") ELSE Reject)
                    ELSE IF vals[1].j = "rawempty" THEN AnyV("jsonE")
                    ELSE AnyV(IF anyc THEN "both" ELSE "json")

DecCard(p, j, anyc) ==
    CASE p.card = "arr" ->
            IF j.j # "arr" THEN Reject
            ELSE LET vs == [i \in 1..Len(j.s) |-> DecNode(p.sch, j.s[i], anyc)]
                 IN IF AnyReject(vs) THEN Reject ELSE IF vs = <<>> THEN Unset ELSE ArrV(vs)
      [] p.card = "map" ->
            IF j.j # "obj" THEN Reject
            ELSE IF DupKeys(j.m) THEN Reject
            ELSE LET vs == [i \in 1..Len(j.m) |-> DecNode(p.sch, j.m[i].v, anyc)]
                 IN IF AnyReject(vs) THEN Reject ELSE IF vs = <<>> THEN Unset
                    ELSE MapV(SortKV([i \in 1..Len(j.m) |-> KV(j.m[i].k, vs[i])]))
      [] OTHER -> DecNode(p.sch, j, anyc)

\* m: the non-null members of the JSON object.  Result [ok, m] with the members in schema order.
BuildObj(props, m, anyc, i) ==
    IF i > Len(props) THEN [ok |-> TRUE, m |-> <<>>]
    ELSE LET p == props[i]
             rest == BuildObj(props, m, anyc, i + 1)
         IN IF ~rest.ok THEN rest
            ELSE IF p.flat THEN
                    LET sub == BuildObj(p.sch.props, m, anyc, 1)
                    IN IF ~sub.ok THEN sub
                       ELSE IF sub.m = <<>> THEN rest
                       ELSE [ok |-> TRUE, m |-> <<KV(p.name, ObjV(sub.m))>> \o rest.m]
            ELSE LET x == Lookup(m, p.name)
                 IN IF x = <<>> THEN rest
                    ELSE LET dv == DecCard(p, x[1], anyc)
                         IN IF dv = Reject THEN [ok |-> FALSE, m |-> <<>>]
                            ELSE IF dv = Unset THEN rest
                            ELSE [ok |-> TRUE, m |-> <<KV(p.name, dv)>> \o rest.m]

(* ---------------- spellings and faults ---------------- *)

SpellRec(kind, form, rev, nulls) == [S0(kind) EXCEPT !.form = form, !.rev = rev, !.nulls = nulls]

\* one documented variation at a time, plus everything at once (or every combination)
Spellings(kind) ==
    IF Combos THEN { SpellRec(kind, f, r, n) : f \in AllForms(kind), r \in BOOLEAN, n \in BOOLEAN }
    ELSE { SpellRec(kind, f, FALSE, FALSE) : f \in AllForms(kind) }
         \cup { SpellRec(kind, CanonForm(kind), TRUE, FALSE), SpellRec(kind, CanonForm(kind), FALSE, TRUE) }
         \cup { SpellRec(kind, f, TRUE, TRUE) : f \in AllForms(kind) \ {CanonForm(kind)} }

WsPatterns == {"none", "spaces", "lines"}

\* wrong-JSON-type and bad-lexeme replacements of one element of the focus field, per kind:
\* [cls, node]; every class is one of the classes listed in C03's statement
Bad(kind, atom, jt, form) == [j |-> jt, kind |-> kind, a |-> atom, f |-> form]
ShapeFaults == { [cls |-> "wrongtype:object", node |-> JObj(<<>>)], [cls |-> "wrongtype:array", node |-> JArr(<<>>)] }
BoolFault == [cls |-> "wrongtype:bool", node |-> X("bool", "true")]
NumFault  == [cls |-> "wrongtype:number", node |-> X("num", "one")]
StrFault  == [cls |-> "wrongtype:string", node |-> X("str", "text")]

ElemFaults(kind) ==
    CASE kind \in {"string", "key"} -> ShapeFaults \cup {BoolFault, NumFault}
      [] kind = "bool" -> ShapeFaults \cup {NumFault, [cls |-> "wrongtype:string", node |-> X("str", "strtrue")]}
      [] kind \in {"int32", "int64", "uint32", "uint64"} ->
            ShapeFaults \cup {BoolFault}
            \cup { [cls |-> "unparsable:junk:quoted", node |-> Bad(kind, "junk", "str", "quoted")],
                   [cls |-> "unparsable:empty:quoted", node |-> Bad(kind, "empty", "str", "quoted")],
                   [cls |-> "unparsable:frac:quoted", node |-> Bad(kind, "frac", "str", "quoted")],
                   [cls |-> "unparsable:frac:bare", node |-> Bad(kind, "frac", "num", "bare")],
                   [cls |-> "outofrange:over:bare", node |-> Bad(kind, "over", "num", "bare")],
                   [cls |-> "outofrange:over:quoted", node |-> Bad(kind, "over", "str", "quoted")],
                   [cls |-> "outofrange:under:bare", node |-> Bad(kind, "under", "num", "bare")],
                   [cls |-> "outofrange:under:quoted", node |-> Bad(kind, "under", "str", "quoted")] }
      [] kind \in {"float32", "float64"} ->
            ShapeFaults \cup {BoolFault}
            \cup { [cls |-> "unparsable:junk:quoted", node |-> Bad(kind, "junk", "str", "quoted")],
                   [cls |-> "unparsable:empty:quoted", node |-> Bad(kind, "empty", "str", "quoted")],
                   [cls |-> "outofrange:over:bare", node |-> Bad(kind, "over", "num", "bare")],
                   [cls |-> "outofrange:over:quoted", node |-> Bad(kind, "over", "str", "quoted")] }
      [] kind = "bytes" -> ShapeFaults \cup {BoolFault, NumFault}
            \cup { [cls |-> "invalid-base64:alphabet", node |-> Bad(kind, "bad", "str", "stdpad")],
                   [cls |-> "invalid-base64:length", node |-> Bad(kind, "badlen", "str", "stdpad")],
                   \* padding that does not belong: "=" after a complete quantum, more "=" than complete the last
                   \* quantum, nothing but padding
                   [cls |-> "invalid-base64:overpad-full", node |-> Bad(kind, "overpad", "str", "stdpad")],
                   [cls |-> "invalid-base64:overpad-partial", node |-> Bad(kind, "overpad2", "str", "stdpad")],
                   [cls |-> "invalid-base64:overpad-url", node |-> Bad(kind, "overpadurl", "str", "urlpad")],
                   [cls |-> "invalid-base64:onlypad", node |-> Bad(kind, "onlypad", "str", "stdpad")] }
      [] kind = "timestamp" -> ShapeFaults \cup {BoolFault, NumFault}
            \cup { [cls |-> "invalid-timestamp:text", node |-> Bad(kind, "bad", "str", "utc")],
                   [cls |-> "invalid-timestamp:dateonly", node |-> Bad(kind, "dateonly", "str", "utc")] }
      [] kind = "date" -> ShapeFaults \cup {BoolFault, NumFault}
            \cup { [cls |-> "invalid-date:text", node |-> Bad(kind, "bad", "str", "canon")],
                   [cls |-> "invalid-date:parts", node |-> Bad(kind, "badparts", "str", "canon")],
                   [cls |-> "invalid-date:calendar", node |-> Bad(kind, "badcal", "str", "canon")],
                   \* 29 February of a year divisible by 100 but not by 400, and of a common year; month 13; day 0
                   [cls |-> "invalid-date:century-leap", node |-> Bad(kind, "badleap100", "str", "canon")],
                   [cls |-> "invalid-date:common-leap", node |-> Bad(kind, "badleap", "str", "canon")],
                   [cls |-> "invalid-date:month13", node |-> Bad(kind, "badmonth", "str", "canon")],
                   [cls |-> "invalid-date:day0", node |-> Bad(kind, "badday0", "str", "canon")] }
      [] kind = "decimal" -> ShapeFaults \cup {BoolFault}
            \cup { [cls |-> "invalid-decimal:dots", node |-> Bad(kind, "bad", "str", "quoted")],
                   [cls |-> "invalid-decimal:junk", node |-> Bad(kind, "junk", "str", "quoted")],
                   [cls |-> "invalid-decimal:empty", node |-> Bad(kind, "empty", "str", "quoted")] }
      [] kind = "enum" -> ShapeFaults \cup {BoolFault, NumFault}
            \cup { [cls |-> "unknown-enum:name", node |-> Bad(kind, "nope", "str", "short")],
                   [cls |-> "unknown-enum:prefixed", node |-> Bad(kind, "pnope", "str", "short")],
                   [cls |-> "unknown-enum:lowercase", node |-> Bad(kind, "lower", "str", "short")],
                   \* the prefix, something else, and a real option name at the end; the prefix twice; an option name
                   \* followed by the zero value's; a real option name after something that is not the prefix
                   [cls |-> "unknown-enum:prefix-x-option", node |-> Bad(kind, "ptail", "str", "short")],
                   [cls |-> "unknown-enum:prefix-twice", node |-> Bad(kind, "pdouble", "str", "short")],
                   [cls |-> "unknown-enum:option-unspecified", node |-> Bad(kind, "ptailzero", "str", "short")],
                   [cls |-> "unknown-enum:x-option", node |-> Bad(kind, "tailonly", "str", "short")] }
      [] OTHER -> {BoolFault, NumFault, StrFault, [cls |-> "wrongtype:array", node |-> JArr(<<>>)]}   \* object oneof any

\* the whole array / map replaced by a value of another JSON type
FieldFaults(card) ==
    CASE card = "arr" -> { [cls |-> "wrongtype:field-object", node |-> JObj(<<>>)], [cls |-> "wrongtype:field-string", node |-> X("str", "text")],
                           [cls |-> "wrongtype:field-number", node |-> X("num", "one")] }
      [] card = "map" -> { [cls |-> "wrongtype:field-array", node |-> JArr(<<>>)], [cls |-> "wrongtype:field-string", node |-> X("str", "text")],
                           [cls |-> "wrongtype:field-bool", node |-> X("bool", "true")] }
      [] OTHER -> {}

\* object / oneof types on the path from the root to the focus (where a key fault can be injected)
ObjTypes(kind, pos, focusSet, lbl) ==
    (IF pos = "rootoneof" THEN {} ELSE {"Root"})
    \cup (IF pos \in {"nested", "arrelem", "mapval", "arm", "exposed", "rootoneof"} THEN {"Box"} ELSE {})   \* flat: Box is inlined into Root
    \cup (IF kind = "object" /\ focusSet THEN {"Leafbox"} ELSE {})
OneofTypes(kind, pos, focusSet, lbl) ==
    (IF pos \in {"arm", "rootoneof"} \/ (pos = "armdirect" /\ focusSet) THEN {IF pos = "rootoneof" THEN "Root" ELSE "Choice"} ELSE {})
    \cup (IF pos = "exposed" \/ (pos = "expdirect" /\ focusSet) THEN {"PickX"} ELSE {})
    \cup (IF kind = "oneof" /\ focusSet /\ lbl \notin {"none"} THEN {"Pick"} ELSE {})

\* every fault class above is one of the classes C03's statement lists (wrong JSON type, unparsable / out-of-range number,
\* invalid base64 / date / decimal / timestamp, unknown enum name, unknown key, more than one key in a oneof, contradicting "!type")
Demanded(cls) == TRUE

(* ---------------- the state machine ---------------- *)

VARIABLES
    phase,    \* "slot" | "value" | "spell" | "fault" | "done"
    kind, card, pos,
    anyc,     \* codec WithProtoToAny (only meaningful for Any)
    elems,    \* chosen elements of the focus field (0 = unset; 1; 2 for arrays / maps)
    lbls,     \* their labels
    wfonly,   \* the value is outside the representable range (C08 well-formedness only)
    tagged,   \* the sibling member inside the container object is set
    sp,       \* spelling / fault record
    ws,       \* whitespace pattern
    fcls      \* fault class label

vars == <<phase, kind, card, pos, anyc, elems, lbls, wfonly, tagged, sp, ws, fcls>>

Init ==
    /\ phase = "slot" /\ kind = "" /\ card = "" /\ pos = "" /\ anyc = FALSE /\ elems = <<>> /\ lbls = <<>>
    /\ wfonly = FALSE /\ tagged = TRUE /\ sp = S0("") /\ ws = "none" /\ fcls = ""

PickSlot ==
    /\ phase = "slot"
    /\ \E k \in Kinds, c \in Cards, p \in Positions, ac \in BOOLEAN :
        /\ Admissible(k, c, p)
        /\ (Mode = "query" => k \in LeafKinds /\ c \in {"one", "opt", "arr"} /\ p \in {"top", "nested", "flat", "arm", "exposed"})
        /\ (ac => k \in {"anyj5", "anypb"}) /\ (k = "anypb" => ac)
        /\ kind' = k /\ card' = c /\ pos' = p /\ anyc' = ac
    /\ phase' = "value" /\ sp' = S0(kind')
    /\ UNCHANGED <<elems, lbls, wfonly, tagged, ws, fcls>>

MaxElems == IF card \in {"arr", "map"} /\ Pairs THEN 2 ELSE 1

\* choose the next element of the focus field (on demand)
PickValue ==
    /\ phase = "value" /\ Len(elems) < MaxElems /\ ~wfonly
    /\ \E fv \in FocusVals(kind, anyc) \cup (IF Mode = "val" /\ elems = <<>> THEN WfVals(kind) ELSE {}) :
        /\ elems' = Append(elems, fv.v) /\ lbls' = Append(lbls, fv.l) /\ wfonly' = fv.wf
    /\ UNCHANGED <<phase, kind, card, pos, anyc, tagged, sp, ws, fcls>>

\* the value is complete; the container's own member may be left unset when that makes the container empty
\* (empty nested object, empty flattened object) or for the flattened position
EndValue ==
    /\ phase = "value"
    /\ (Mode \in {"fault", "query"} => elems # <<>>)
    \* a fault needs a member to sit in: a zero value without presence is omitted from the document
    /\ (Mode = "fault" => ~(card = "one" /\ kind \in LeafKinds /\ pos \notin {"armdirect", "expdirect"} /\ elems[1].a \in ZeroAtoms(kind)))
    /\ \E tg \in BOOLEAN :
        /\ (~tg => (elems = <<>> \/ pos \in {"flat", "flat2", "flat3"}) /\ pos \notin {"top", "armdirect", "expdirect"} /\ Mode \in {"val", "spell"})
        /\ tagged' = tg
    /\ phase' = (CASE Mode = "val" -> "done" [] Mode = "spell" -> "spell" [] Mode = "fault" -> "fault" [] Mode = "query" -> "spell")
    /\ UNCHANGED <<kind, card, pos, anyc, elems, lbls, wfonly, sp, ws, fcls>>

PickSpelling ==
    /\ phase = "spell"
    /\ \E s \in (IF Mode = "query" THEN { SpellRec(kind, f, FALSE, FALSE) : f \in AllForms(kind) } ELSE Spellings(kind)),
          w \in (IF Mode = "query" THEN {"none"} ELSE WsPatterns) :
        /\ (~Combos /\ Mode # "query" => (w # "none" => s = S0(kind) \/ (s.rev /\ s.nulls)))    \* whitespace: alone and with everything
        /\ (elems = <<>> => s.form = CanonForm(kind))                                            \* no leaf to respell
        /\ sp' = s /\ ws' = w
    /\ phase' = "done"
    /\ UNCHANGED <<kind, card, pos, anyc, elems, lbls, wfonly, tagged, fcls>>

InjectFault ==
    /\ phase = "fault"
    /\ \/ \E f \in ElemFaults(kind) :
            /\ sp' = [S0(kind) EXCEPT !.rep = TRUE, !.replvl = "elem", !.repnode = f.node] /\ fcls' = f.cls
       \/ \E f \in FieldFaults(card) :
            /\ sp' = [S0(kind) EXCEPT !.rep = TRUE, !.replvl = "field", !.repnode = f.node] /\ fcls' = f.cls
       \/ \E tn \in ObjTypes(kind, pos, TRUE, lbls[1]) \cup OneofTypes(kind, pos, TRUE, lbls[1]) :
            /\ sp' = [S0(kind) EXCEPT !.uk = tn] /\ fcls' = "unknownkey:" \o tn
       \* the focus member under another spelling of its name (the proto field name, an upper-camel form): an unknown key
       \/ \E k \in {"foo_bar", "FooBar", "foo-bar"} :
            /\ pos \notin {"armdirect", "expdirect"}          \* there the focus is an arm of a oneof: its key is the "!type"
            /\ sp' = [S0(kind) EXCEPT !.fkey = k] /\ fcls' = "unknownkey:spelling:" \o k
       \* the oneof faults are injected with the members in canonical order ("!type" first) and reversed ("!type" after the
       \* key it contradicts): a decoder that checks "!type" while reading keys sees them in document order
       \/ \E tn \in OneofTypes(kind, pos, TRUE, lbls[1]), of \in {"multi", "mismatch", "typenum"}, rv \in BOOLEAN :
            /\ sp' = [S0(kind) EXCEPT !.of = of, !.ofn = tn, !.rev = rv]
            /\ fcls' = "oneof:" \o of \o ":" \o tn \o (IF rv THEN ":rev" ELSE "")
    /\ phase' = "done"
    /\ UNCHANGED <<kind, card, pos, anyc, elems, lbls, wfonly, tagged, ws>>

Next == PickSlot \/ PickValue \/ EndValue \/ PickSpelling \/ InjectFault

Spec == Init /\ [][Next]_vars

(* ---------------- derived observations of a finished case ---------------- *)

Schema == RootSch(kind, card, pos)
SibSet == Mode # "query"
Value == RootVal(pos, SibSet, tagged, FocusMember(card, elems))
EncDoc == EncNode(Schema, Value, S0(kind))            \* the canonical encoding (C08's prediction)
Doc == EncNode(Schema, Value, sp)                     \* the document to decode (C03)
DecDoc == DecNode(Schema, Doc, anyc)
Label == IF lbls = <<>> THEN "unset" ELSE IF Len(lbls) = 1 THEN lbls[1] ELSE lbls[1] \o "+" \o lbls[2]

QueryPath == CASE pos = "top" -> FocusName [] pos \in {"flat", "flat2", "flat3"} -> FocusName [] pos = "nested" -> "box." \o FocusName
               [] pos = "arm" -> "choice.armA." \o FocusName [] pos = "exposed" -> "pick.armA." \o FocusName [] OTHER -> FocusName
Query == [i \in 1..Len(elems) |-> [path |-> QueryPath, kind |-> kind, a |-> elems[i].a, f |-> sp.form]]
QueryVal == RootVal(pos, FALSE, FALSE, FocusMember(card, elems))

(* ---------------- properties of the model (the documented format itself) ---------------- *)

TypeOK ==
    /\ phase \in {"slot", "value", "spell", "fault", "done"}
    /\ Len(elems) <= 2 /\ Len(lbls) = Len(elems)

\* Dec(Enc(v)) = v up to what protobuf can distinguish
RoundTrip == (phase = "done" /\ Mode = "val" /\ ~wfonly) => DecNode(Schema, EncDoc, anyc) = NormNode(Schema, Value)

\* every documented spelling decodes to the same value as the canonical one
SpellingInvariant == (phase = "done" /\ Mode = "spell") => (DecDoc = NormNode(Schema, Value) /\ DecDoc = DecNode(Schema, EncDoc, anyc))

\* every injected fault is rejected, and a faulty document is not a documented spelling of anything explored
FaultRejected == (phase = "done" /\ Mode = "fault") => DecDoc = Reject

RECURSIVE WellFormed(_)
WellFormed(j) ==
    CASE j.j = "obj" -> (\A i, k \in 1..Len(j.m) : i # k => j.m[i].k # j.m[k].k) /\ (\A i \in 1..Len(j.m) : WellFormed(j.m[i].v))
      [] j.j = "arr" -> \A i \in 1..Len(j.s) : WellFormed(j.s[i])
      [] j.j \in {"str", "num", "bool"} -> j.kind = "lit" \/ (j.f = CanonForm(j.kind) /\ j.j = JT(j.kind))
      [] j.j \in {"raw", "rawempty"} -> TRUE
      [] OTHER -> FALSE        \* the encoder never writes null

\* Enc output is a well-formed tree in canonical representation; flatten / exposed oneofs never make two members share a key
NoKeyCollision == (phase = "done" /\ ~wfonly) => WellFormed(EncDoc)

\* the representation table is total over the leaf kinds
ReprTotal == \A k \in LeafKinds : JT(k) \in {"str", "num", "bool"} /\ CanonForm(k) \in AllForms(k) /\ FormJT(k, CanonForm(k)) = JT(k)

\* the canonical document is itself one of the spellings
CanonicalIsSpelling == (phase = "done" /\ Mode = "spell") => S0(kind) \in Spellings(kind)

\* no faulty document coincides with a documented spelling of the same value (fault classes and spellings are disjoint)
FaultNotSpelling == (phase = "done" /\ Mode = "fault") => \A s \in Spellings(kind) : EncNode(Schema, Value, s) # Doc

Progress == [][phase' # phase \/ Len(elems') > Len(elems)]_vars

Emit ==
    (EmitCases /\ phase = "done") =>
        PrintT(<<"CASE", ToJson(
            CASE Mode = "val" ->
                    [mode |-> "val", kind |-> kind, card |-> card, pos |-> pos, vl |-> Label, sch |-> Schema, val |-> Value,
                     enc |-> EncDoc, anyc |-> anyc, wfonly |-> wfonly, dec |-> NormNode(Schema, Value)]
              [] Mode = "spell" ->
                    [mode |-> "spell", kind |-> kind, card |-> card, pos |-> pos, vl |-> Label, sch |-> Schema, val |-> Value,
                     doc |-> Doc, canon |-> EncDoc, ws |-> ws, anyc |-> anyc, form |-> sp.form,
                     sp |-> sp.form \o (IF sp.rev THEN "+reorder" ELSE "") \o (IF sp.nulls THEN "+nulls" ELSE "") \o (IF ws # "none" THEN "+ws-" \o ws ELSE ""),
                     expect |-> IF DecDoc = Reject THEN "reject" ELSE "accept", demand |-> TRUE, dec |-> DecDoc]
              [] Mode = "fault" ->
                    [mode |-> "fault", kind |-> kind, card |-> card, pos |-> pos, vl |-> Label, sch |-> Schema, val |-> Value,
                     doc |-> Doc, ws |-> "none", anyc |-> anyc, fault |-> fcls,
                     expect |-> IF DecDoc = Reject THEN "reject" ELSE "accept", demand |-> Demanded(fcls), dec |-> DecDoc]
              [] Mode = "query" ->
                    [mode |-> "query", kind |-> kind, card |-> card, pos |-> pos, vl |-> Label, sch |-> Schema, val |-> QueryVal,
                     q |-> Query, sp |-> "query:" \o sp.form, form |-> sp.form, anyc |-> anyc, expect |-> "accept",
                     demand |-> (card \in {"one", "opt"} /\ pos \in {"top", "nested", "flat"}),
                     dec |-> NormNode(Schema, QueryVal)]
        )>>)

=============================================================================
