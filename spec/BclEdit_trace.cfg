SPECIFICATION Spec
INVARIANTS EditsWellFormed AppliedEqualsFmt TraceDone
CHECK_DEADLOCK FALSE
