SPECIFICATION TraceSpec
CONSTANTS
  Pkg = "foo.v1"
  PkgPath = "foo/v1"
  Cap <- CapTable
  Upper <- UpperTable
  Acronyms <- AcronymSet
  Focuses <- NoFocus
  NamePool <- None
  KeyOpts <- None
  MaxKeys <- Three
  DataOpts <- None
  MaxData <- Three
  StatusPool <- None
  MaxStatus <- Three
  EventPool <- None
  MinEvents <- Zero
  MaxEvents <- Three
  CmdPool <- None
  MaxCmds <- Three
  SummaryPool <- None
  MaxSummaries <- Three
  QueryPool <- None
  Layouts <- None
  EmitCases = FALSE
INVARIANTS LawNamed LawAnnotation LawStateEvent LawOneof LawPrimary LawStatus LawClient TraceDone
CHECK_DEADLOCK FALSE
