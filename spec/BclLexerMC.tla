----------------------------- MODULE BclLexerMC -----------------------------
EXTENDS BclLexer
SymFull == AllSym
\* one representative per lexer-equivalence class (letters, digits, spaces, operators other than '.', bad runes)
SymQuot == {"a", "true", "us", "1", "sp", "nl", "dq", "bs", "sl", "st", "pipe", ".", "=", "hash"}
BothFF == {TRUE, FALSE}
OnlyCollect == {FALSE}
=============================================================================
