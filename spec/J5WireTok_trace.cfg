SPECIFICATION TraceSpec
CONSTANTS
  TMode = "trace"
  MaxToks = 0
  MinToks = 0
  Strs <- NoStrs
  EmitCases = FALSE
INVARIANTS LawReturns TraceDone
CHECK_DEADLOCK FALSE
