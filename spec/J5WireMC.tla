------------------------------ MODULE J5WireMC ------------------------------
EXTENDS J5Wire
KindsAll == AllKinds
KindsLeaf == LeafKinds
CardsAll == AllCards
PositionsAll == AllPositions
\* quick tiers: every kind and cardinality at every position, single elements
PositionsCore == {"top", "nested", "arrelem", "mapval", "arm", "armdirect", "flat", "flat2", "flat3", "exposed", "expdirect", "rootoneof"}
=============================================================================
