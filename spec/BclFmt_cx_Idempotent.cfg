SPECIFICATION FSpec
CONSTANTS
  MaxToks = 4
  MaxDepth = 2
  Atoms <- FmtAtoms
  FailFastChoices <- OnlyFF
  Prune = TRUE
  PruneReps <- Reps
  EmitCases = FALSE
INVARIANTS Pass2Accepts FEmit Idempotent
CHECK_DEADLOCK FALSE
