SPECIFICATION Spec
CONSTANTS
  Procs <- P3
  Types <- XpTypes
  ChildSeq <- XpChild
  Invalid <- NoneInvalid
  Pkg <- XpPkg
  CallChoices <- XpCalls3
  Guard = "none"
  Mode = "attack"
INVARIANTS EmitAttack
VIEW View
CHECK_DEADLOCK FALSE
