-------------------------- MODULE J5ValidateTraceMC --------------------------
EXTENDS J5ValidateTrace
KindsAll  == {"string", "int32", "int64", "uint32", "uint64", "bool", "bytes", "enum", "key", "key_id62", "key_uuid", "key_custom", "object",
              "date", "decimal", "timestamp", "float32", "float64"}
CardsAll  == {"single", "array", "map"}
PressAll  == {"implicit", "required", "optional"}
NoVals == {}
=============================================================================
