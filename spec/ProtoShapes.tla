------------------------------ MODULE ProtoShapes ------------------------------
(***************************************************************************)
(* C18 - schema reflection over arbitrary proto3 descriptor sets.          *)
(*                                                                         *)
(* Part 1 (phase "shape"): a raw proto3 descriptor set is built by         *)
(* actions, so the reachable graph IS the bounded input space:             *)
(*   AddMessage, AddField (15 scalar kinds, label, real oneof, proto3      *)
(*   optional, map), AddMsgField (message kind), AddEnumField / AddEnum    *)
(*   (with or without *_UNSPECIFIED), AddWkt, AddRecursion (self, mutual,  *)
(*   through map, through repeated, flattened), Annotate (j5.ext field /   *)
(*   message / oneof / enum options, buf.validate rules, j5.list rules,    *)
(*   consistent or not with the annotated field).                          *)
(*                                                                         *)
(* Part 2 (phase "reflect"): the skeleton of lib/j5schema's reflection as  *)
(* a state machine over the type graph: a registry of refs per run,        *)
(* placeholder-before-build (messageSchema / refTo), the kind switch       *)
(* (buildSchema, buildScalarType, wktSchema, buildEnum), once for          *)
(* SchemaSetFromFiles (run 0) and once per message for a fresh             *)
(* SchemaCache.Schema (runs 1..n).  Model-level properties: every cycle    *)
(* is cut by the placeholder (NoReenter, EntersBounded, StepsBounded,      *)
(* no deadlock => termination), the kind switch is total (SwitchTotal).    *)
(* The prediction builds/errors is drift-only for the implementation.      *)
(***************************************************************************)
EXTENDS Integers, Sequences, FiniteSets, TLC, Json

CONSTANTS
    Mode,         \* "focus" | "pair" | "graph" | "sim" | "trace"
    Guard,        \* TRUE: register a placeholder ref before building a message (what the code does)
    EmitCases,
    MaxMsgs, MaxEnums,
    MaxFocus,     \* fields / declarations chosen per set
    MaxAnns,      \* annotations per set
    ScalarKinds, WktAtoms, Cards, MapKeys, OneofSels, OneofOpts, MsgOpts, EnumOpts, RecForms,
    ValidateAnns, J5Anns, ListAnns, PsmAnns,       \* sets of [arm, var]: every annotation value
    MismatchAnns                                   \* the subset used when the annotation is NOT consistent with the field

AllScalarKinds == {"double", "float", "int32", "int64", "uint32", "uint64", "sint32", "sint64",
                   "fixed32", "fixed64", "sfixed32", "sfixed64", "bool", "string", "bytes"}
AllWkt == {"Timestamp", "Duration", "Struct", "Value", "ListValue", "Any", "Empty", "FieldMask",
           "StringValue", "Int64Value", "BoolValue", "DoubleValue", "BytesValue", "UInt32Value",
           "J5Date", "J5Decimal", "J5Any"}
AllCards == {"single", "optional", "repeated", "map"}
Classes == {"validate", "j5", "list", "psmkey"}
ClsRank(c) == CASE c = "validate" -> 1 [] c = "j5" -> 2 [] c = "list" -> 3 [] c = "psmkey" -> 4

VARIABLES
    msgs,      \* Seq of [name, parent, opt, oneofs: Seq([name, opt]), fields: Seq(Field)]
    enums,     \* Seq of [name, parent, unspec, opt]
    phase,     \* "shape" | "reflect" | "done"
    nf, na,    \* focus choices / annotations made
    rec,       \* recursion form added ("none" if none)
    \* --- reflection machine
    run,       \* 0: SchemaSetFromFiles, i >= 1: fresh SchemaCache.Schema(message i)
    reg,       \* message index -> "absent" | "placeholder" | "built"
    ereg,      \* enum indices built in this run
    todo,      \* root messages still to be requested in this run
    enumsDone,
    stack,     \* Seq of [m, i]: message being built, next field
    outcomes,  \* "builds" | "errors" per finished run
    enters, steps

vars == <<msgs, enums, phase, nf, na, rec, run, reg, ereg, todo, enumsDone, stack, outcomes, enters, steps>>
shapeVars == <<msgs, enums, nf, na, rec>>
machVars == <<run, reg, ereg, todo, enumsDone, stack, outcomes, enters, steps>>

MsgName(i) == "M" \o ToString(i - 1)
EnumName(i) == "E" \o ToString(i - 1)
NewMsg(i, parent, opt) == [name |-> MsgName(i), parent |-> parent, opt |-> opt, oneofs |-> <<>>, fields |-> <<>>]
MsgIdx(n) == CHOOSE i \in 1..Len(msgs) : msgs[i].name = n
EnumIdx(n) == CHOOSE i \in 1..Len(enums) : enums[i].name = n
NoAnn(c) == [cls |-> c, arm |-> "none", var |-> "none", consistent |-> TRUE]

(* ---------------- consistency of an annotation with a field ---------------- *)

ElemAtom(f) == IF f.kind = "wkt" THEN f.ref ELSE f.kind

\* the oneof arm of buf.validate.FieldConstraints that matches the field
ValidateArmFor(f) ==
    IF f.card = "repeated" THEN "repeated" ELSE IF f.card = "map" THEN "map"
    ELSE IF f.kind \in AllScalarKinds THEN f.kind
    ELSE IF f.kind = "enum" THEN "enum"
    ELSE IF f.kind = "wkt" /\ f.ref = "Timestamp" THEN "timestamp"
    ELSE IF f.kind = "wkt" /\ f.ref = "Duration" THEN "duration"
    ELSE IF f.kind = "wkt" /\ f.ref = "Any" THEN "any"
    ELSE "-"

J5ArmsFor(f) ==
    IF f.card = "repeated" THEN {"array"} ELSE IF f.card = "map" THEN {"map"}
    ELSE IF f.kind = "bool" THEN {"bool"} ELSE IF f.kind = "string" THEN {"string", "key"}
    ELSE IF f.kind = "bytes" THEN {"bytes"} ELSE IF f.kind \in {"float", "double"} THEN {"float"}
    ELSE IF f.kind \in AllScalarKinds THEN {"integer"}
    ELSE IF f.kind = "enum" THEN {"enum"}
    ELSE IF f.kind = "message" THEN {"message", "object", "oneof"}
    ELSE IF f.ref \in {"Any", "J5Any"} THEN {"any"} ELSE IF f.ref = "Timestamp" THEN {"timestamp"}
    ELSE IF f.ref = "J5Date" THEN {"date"} ELSE IF f.ref = "J5Decimal" THEN {"decimal"}
    ELSE {}

ListArmFor(f) ==
    IF f.card \in {"repeated", "map"} THEN "-"
    ELSE IF f.kind \in AllScalarKinds \ {"bytes"} THEN f.kind
    ELSE IF f.kind = "enum" THEN "enum" ELSE IF f.kind = "message" THEN "oneof"
    ELSE IF f.kind = "wkt" /\ f.ref = "Timestamp" THEN "timestamp"
    ELSE IF f.kind = "wkt" /\ f.ref = "J5Date" THEN "date"
    ELSE IF f.kind = "wkt" /\ f.ref = "J5Decimal" THEN "decimal"
    ELSE IF f.kind = "wkt" /\ f.ref \in {"Any", "J5Any"} THEN "any" ELSE "-"

Pseudo == {"required", "ignore", "cel", "description"}   \* arms that fit every field

IsConsistent(cls, a, f) ==
    CASE cls = "validate" -> a.arm \in Pseudo \/ a.arm = ValidateArmFor(f)
      [] cls = "j5"       -> a.arm \in Pseudo \/ a.arm \in J5ArmsFor(f)
      [] cls = "list"     -> a.arm = ListArmFor(f)
      [] cls = "psmkey"   -> f.kind = "string" /\ f.card \in {"single", "optional"}

AnnSet(cls) == CASE cls = "validate" -> ValidateAnns [] cls = "j5" -> J5Anns [] cls = "list" -> ListAnns [] cls = "psmkey" -> PsmAnns

AnnOf(f, cls) ==
    LET S == {i \in 1..Len(f.anns) : f.anns[i].cls = cls}
    IN IF S = {} THEN NoAnn(cls) ELSE f.anns[CHOOSE i \in S : TRUE]

(* ---------------- the kind switch (buildSchema / buildScalarType / wktSchema / buildEnum) ---------------- *)

TypedValidate(v) == v.arm \notin ({"none"} \cup Pseudo)      \* FieldConstraints.Type is set

\* the validate arm buildScalarType reads for a scalar kind (its getter), "-" if it reads none
ArmRead(kind) ==
    CASE kind \in {"int32", "sint32"} -> "int32" [] kind = "uint32" -> "uint32"
      [] kind \in {"int64", "sint64"} -> "int64" [] kind = "uint64" -> "uint64"
      [] kind = "float" -> "float" [] kind = "double" -> "double"
      [] OTHER -> "-"

StringFormat(v) ==     \* format derived from a validate.string rule; "!" = rejected well-known constraint
    IF v.arm # "string" THEN ""
    ELSE CASE v.var = "uuid" -> "uuid" [] v.var = "email" -> "email" [] v.var = "hostname" -> "hostname"
           [] v.var = "uri" -> "uri" [] v.var = "pattern_date" -> "date" [] v.var = "pattern_id62" -> "id62"
           [] v.var = "ip" -> "!" [] OTHER -> ""

StringOutcome(v, l, j, p) ==
    IF TypedValidate(v) /\ v.arm # "string" THEN "errors"            \* "constraint for string is %T"
    ELSE LET fmt == StringFormat(v) IN
      IF fmt = "!" THEN "errors"
      ELSE IF l.arm = "string" /\ l.var = "fk_unique" /\ fmt # "" THEN "errors"
      ELSE IF l.arm = "string" /\ l.var = "fk_id62" /\ fmt \notin {"", "id62"} THEN "errors"
      ELSE IF l.arm = "string" /\ l.var = "fk_uuid" /\ fmt \notin {"", "uuid"} THEN "errors"
      ELSE IF l.arm = "string" /\ l.var = "open_text" /\ (fmt # "" \/ p.arm # "none") THEN "errors"
      ELSE IF j.arm = "key" /\ j.var = "unspecified" THEN "errors"    \* "unknown key format"
      ELSE "builds"

ScalarOutcome(kind, v, l, j, p) ==
    CASE kind = "string" -> StringOutcome(v, l, j, p)
      [] kind \in {"bool", "bytes"} -> "builds"
      [] kind \in {"fixed32", "sfixed32", "fixed64", "sfixed64"} -> "errors"   \* "unsupported field type"
      [] OTHER -> IF v.arm = ArmRead(kind) /\ v.var \in {"const", "in", "not_in"} THEN "errors" ELSE "builds"

EnumOutcome(e, v) ==
    IF ~e.unspec THEN "errors"                                          \* no *_UNSPECIFIED first value
    ELSE IF v.arm = "enum" /\ v.var \in {"in_missing", "not_in_missing"} THEN "errors"
    ELSE "builds"

WktOutcome(w, v) ==
    CASE w = "Timestamp" -> IF v.arm = "timestamp" /\ v.var \in {"const", "within"} THEN "errors" ELSE "builds"
      [] w \in {"Duration", "Struct", "Any", "J5Date", "J5Decimal", "J5Any"} -> "builds"
      [] OTHER -> "errors"                                              \* "unsupported google type"

\* the rule handed to the element of a repeated / map field
ChildValidate(f, v) ==
    IF (f.card = "repeated" /\ v.arm = "repeated") \/ (f.card = "map" /\ v.arm = "map")
    THEN CASE v.var \in {"items_string", "values_string"} -> [cls |-> "validate", arm |-> "string", var |-> "min_len", consistent |-> TRUE]
           [] v.var \in {"items_int32", "values_int32"} -> [cls |-> "validate", arm |-> "int32", var |-> "gt", consistent |-> TRUE]
           [] v.var \in {"items_bool", "values_bool"} -> [cls |-> "validate", arm |-> "bool", var |-> "const", consistent |-> TRUE]
           [] v.var \in {"items_match", "values_match"} ->
                 LET g == [f EXCEPT !.card = "single"] IN
                 IF ValidateArmFor(g) = "-" THEN NoAnn("validate")
                 ELSE [cls |-> "validate", arm |-> ValidateArmFor(g), var |-> "gt", consistent |-> TRUE]
           [] OTHER -> NoAnn("validate")
    ELSE NoAnn("validate")

\* outcome of everything in a field except following a reference to a user message
LeafOutcome(f, es) ==
    LET v == AnnOf(f, "validate")  l == AnnOf(f, "list")  j == AnnOf(f, "j5")  p == AnnOf(f, "psmkey")
        container == f.card \in {"repeated", "map"}
        cv == IF container THEN ChildValidate(f, v) ELSE v
        cl == IF container THEN NoAnn("list") ELSE l
        cj == IF container THEN NoAnn("j5") ELSE j
    IN IF f.card = "map" /\ f.key # "string" THEN "errors"            \* "map keys must be strings"
       ELSE CASE f.kind \in AllScalarKinds -> ScalarOutcome(f.kind, cv, cl, cj, p)
              [] f.kind = "enum" -> EnumOutcome(es[CHOOSE i \in 1..Len(es) : es[i].name = f.ref], cv)
              [] f.kind = "wkt" -> WktOutcome(f.ref, cv)
              [] f.kind = "message" -> "builds"

\* message-level checks after the properties (findPSMOptions)
\* isOneofWrapper: by option, else a single real oneof "type" without a j5 option that holds every field, all of message kind
IsWrapper(m) ==
    IF m.opt \in {"wrapper_deprecated", "type_oneof"} THEN TRUE
    ELSE IF m.opt \in {"type_object", "type_object_any"} THEN FALSE
    ELSE /\ Len(m.oneofs) = 1 /\ m.oneofs[1].name = "type" /\ m.oneofs[1].opt \in {"none", "list"}
         /\ \A k \in 1..Len(m.fields) : m.fields[k].oneof = 1 /\ m.fields[k].kind \in {"message", "wkt"}
\* buildObjectSchema reads the psm option (names M0.. have no Keys/State/Event/Data suffix); buildOneofSchema does not
MsgOutcome(m) == IF m.opt = "psm" /\ ~IsWrapper(m) THEN "errors" ELSE "builds"

(* ---------------- phase "shape" ---------------- *)

Init ==
    /\ msgs = <<NewMsg(1, 0, "none")>> /\ enums = <<>> /\ phase = "shape" /\ nf = 0 /\ na = 0 /\ rec = "none"
    /\ run = 0 /\ reg = <<>> /\ ereg = {} /\ todo = <<>> /\ enumsDone = FALSE /\ stack = <<>> /\ outcomes = <<>>
    /\ enters = 0 /\ steps = 0

CanFocus == phase = "shape" /\ nf < MaxFocus /\ na = 0          \* declarations and fields first, annotations last
Free == Mode # "graph"

\* where the field goes: a (possibly new) real oneof of the message, or none
WithOneof(m, sel, oopt) ==
    IF sel = "none" THEN [m |-> m, idx |-> 0]
    ELSE LET S == {k \in 1..Len(m.oneofs) : m.oneofs[k].name = sel}
         IN IF S # {} THEN [m |-> m, idx |-> CHOOSE k \in S : TRUE]
            ELSE [m |-> [m EXCEPT !.oneofs = Append(@, [name |-> sel, opt |-> oopt])], idx |-> Len(m.oneofs) + 1]

PutField(mi, kind, ref, card, key, sel, oopt) ==
    LET w == WithOneof(msgs[mi], sel, oopt)
        f == [name |-> "f" \o ToString(Len(msgs[mi].fields) + 1), kind |-> kind, ref |-> ref, card |-> card,
              key |-> IF card = "map" THEN key ELSE "", oneof |-> w.idx, anns |-> <<>>]
    IN [msgs EXCEPT ![mi] = [w.m EXCEPT !.fields = Append(@, f)]]

\* proto3 wants the members of a oneof declared consecutively: an existing oneof can only be extended at the end
OneofOpen(mi, sel) ==
    LET m == msgs[mi]  S == {k \in 1..Len(m.oneofs) : m.oneofs[k].name = sel}
    IN sel = "none" \/ S = {} \/ (m.fields # <<>> /\ m.fields[Len(m.fields)].oneof \in S)

FieldShape(card, key, sel, oopt) ==
    /\ card \in Cards /\ key \in MapKeys /\ sel \in OneofSels /\ oopt \in OneofOpts
    /\ (card # "map" => key = "string") /\ (card # "single" => sel = "none") /\ (sel = "none" => oopt = "none")

AddField(mi, kind, card, key, sel, oopt) ==
    /\ CanFocus /\ Free /\ OneofOpen(mi, sel) /\ kind \in ScalarKinds /\ FieldShape(card, key, sel, oopt)
    /\ (card = "map" \/ key = "string")
    /\ msgs' = PutField(mi, kind, "", card, key, sel, oopt)
    /\ nf' = nf + 1 /\ UNCHANGED <<enums, phase, na, rec, machVars>>

AddWkt(mi, w, card, sel, oopt) ==
    /\ CanFocus /\ Free /\ OneofOpen(mi, sel) /\ w \in WktAtoms /\ FieldShape(card, "string", sel, oopt)
    /\ msgs' = PutField(mi, "wkt", w, card, "string", sel, oopt)
    /\ nf' = nf + 1 /\ UNCHANGED <<enums, phase, na, rec, machVars>>

\* a declaration nothing refers to: file-level or nested message with a j5 / psm / list option
AddMessage(parent, opt) ==
    /\ CanFocus /\ Free /\ Len(msgs) < MaxMsgs /\ parent \in 0..Len(msgs) /\ opt \in MsgOpts
    /\ msgs' = Append(msgs, NewMsg(Len(msgs) + 1, parent, opt))
    /\ nf' = nf + 1 /\ UNCHANGED <<enums, phase, na, rec, machVars>>

\* a field of message kind: target is an existing message that does not lead back (a cycle is AddRecursion) or a new one
Reaches(ms, a, b) ==
    LET Succ(S) == S \cup {MsgIdx2 \in 1..Len(ms) : \E s \in S : \E k \in 1..Len(ms[s].fields) :
                              ms[s].fields[k].kind = "message" /\ ms[s].fields[k].ref = ms[MsgIdx2].name}
        R1 == Succ({a})  R2 == Succ(R1)  R3 == Succ(R2)  R4 == Succ(R3)
    IN b \in R4

AddMsgField(mi, target, parent, opt, card, sel, oopt) ==
    /\ CanFocus /\ Free /\ OneofOpen(mi, sel) /\ FieldShape(card, "string", sel, oopt)
    /\ target \in 1..(Len(msgs) + 1) /\ target # mi
    /\ IF target = Len(msgs) + 1
       THEN /\ Len(msgs) < MaxMsgs /\ parent \in 0..Len(msgs) /\ opt \in MsgOpts
            /\ msgs' = PutField(mi, "message", MsgName(target), card, "string", sel, oopt) \o <<NewMsg(target, parent, opt)>>
       ELSE /\ parent = 0 /\ opt = "none" /\ ~Reaches(msgs, target, mi)
            /\ msgs' = PutField(mi, "message", msgs[target].name, card, "string", sel, oopt)
    /\ nf' = nf + 1 /\ UNCHANGED <<enums, phase, na, rec, machVars>>

\* recursion: self | mutual | through a map | through a repeated field | self through a flattened field | flattened child
AddRecursion(mi, form) ==
    /\ CanFocus /\ Free /\ form \in RecForms
    /\ CASE form = "self" -> msgs' = PutField(mi, "message", msgs[mi].name, "single", "string", "none", "none")
         [] form = "map" -> msgs' = PutField(mi, "message", msgs[mi].name, "map", "string", "none", "none")
         [] form = "repeated" -> msgs' = PutField(mi, "message", msgs[mi].name, "repeated", "string", "none", "none")
         [] form = "optional" -> msgs' = PutField(mi, "message", msgs[mi].name, "optional", "string", "none", "none")
         [] form = "oneof" -> /\ OneofOpen(mi, "choice")
                              /\ msgs' = PutField(mi, "message", msgs[mi].name, "single", "string", "choice", "expose")
         [] form = "flatchild" ->     \* the ordinary use of flatten: a child message folded into its parent
              /\ Len(msgs) < MaxMsgs
              /\ LET t == Len(msgs) + 1
                     inner == [name |-> "f1", kind |-> "string", ref |-> "", card |-> "single", key |-> "", oneof |-> 0, anns |-> <<>>]
                     ms == PutField(mi, "message", MsgName(t), "single", "string", "none", "none")
                     fi == Len(ms[mi].fields)
                 IN msgs' = [ms EXCEPT ![mi].fields[fi].anns = <<[cls |-> "j5", arm |-> "object", var |-> "flatten", consistent |-> TRUE]>>]
                            \o <<[NewMsg(t, 0, "none") EXCEPT !.fields = <<inner>>]>>
         [] form = "flatclash" ->     \* ... whose field has the JSON name of a field of the parent
              /\ Len(msgs) < MaxMsgs /\ \A k \in 1..Len(msgs[mi].fields) : msgs[mi].fields[k].name # "clash"
              /\ LET t == Len(msgs) + 1
                     inner == [name |-> "clash", kind |-> "string", ref |-> "", card |-> "single", key |-> "", oneof |-> 0, anns |-> <<>>]
                     ms0 == PutField(mi, "int32", "", "single", "string", "none", "none")
                     ms1 == [ms0 EXCEPT ![mi].fields[Len(ms0[mi].fields)].name = "clash"]
                     ms == [ms1 EXCEPT ![mi].fields = Append(@, [name |-> "f" \o ToString(Len(ms1[mi].fields) + 1), kind |-> "message",
                                 ref |-> MsgName(t), card |-> "single", key |-> "", oneof |-> 0,
                                 anns |-> <<[cls |-> "j5", arm |-> "object", var |-> "flatten", consistent |-> TRUE]>>])]
                 IN msgs' = ms \o <<[NewMsg(t, 0, "none") EXCEPT !.fields = <<inner>>]>>
         [] form = "oneofclash" ->    \* an exposed oneof whose lowerCamel name is the JSON name of a field
              /\ \A k \in 1..Len(msgs[mi].oneofs) : msgs[mi].oneofs[k].name # "foo_bar"
              /\ \A k \in 1..Len(msgs[mi].fields) : msgs[mi].fields[k].name # "fooBar"
              /\ LET ms0 == PutField(mi, "string", "", "single", "string", "none", "none")
                     ms1 == [ms0 EXCEPT ![mi].fields[Len(ms0[mi].fields)].name = "fooBar"]
                     w == WithOneof(ms1[mi], "foo_bar", "expose")
                     f == [name |-> "f" \o ToString(Len(ms1[mi].fields) + 1), kind |-> "string", ref |-> "", card |-> "single",
                           key |-> "", oneof |-> w.idx, anns |-> <<>>]
                 IN msgs' = [ms1 EXCEPT ![mi] = [w.m EXCEPT !.fields = Append(@, f)]]
         [] form = "nestclash" ->     \* a NESTED message, used by a field of its parent, with two fields of one JSON name (foo_bar / fooBar)
              /\ Len(msgs) < MaxMsgs
              /\ LET t == Len(msgs) + 1
                     a == [name |-> "foo_bar", kind |-> "string", ref |-> "", card |-> "single", key |-> "", oneof |-> 0, anns |-> <<>>]
                     b == [name |-> "fooBar", kind |-> "int32", ref |-> "", card |-> "single", key |-> "", oneof |-> 0, anns |-> <<>>]
                 IN msgs' = PutField(mi, "message", MsgName(t), "single", "string", "none", "none")
                            \o <<[NewMsg(t, mi, "none") EXCEPT !.fields = <<a, b>>]>>
         [] form = "flatoneof" ->     \* a flattened child whose members sit in an exposed oneof: the oneof's member paths are
                                      \* relative to the child, while the parent has fields of other kinds at the same numbers
              /\ Len(msgs) < MaxMsgs
              /\ LET t == Len(msgs) + 1
                     ms0 == PutField(mi, "int32", "", "single", "string", "none", "none")
                     ms == [ms0 EXCEPT ![mi].fields = Append(@, [name |-> "f" \o ToString(Len(ms0[mi].fields) + 1), kind |-> "message",
                                 ref |-> MsgName(t), card |-> "single", key |-> "", oneof |-> 0,
                                 anns |-> <<[cls |-> "j5", arm |-> "object", var |-> "flatten", consistent |-> TRUE]>>])]
                     m1 == [name |-> "f1", kind |-> "string", ref |-> "", card |-> "single", key |-> "", oneof |-> 1, anns |-> <<>>]
                     m2 == [name |-> "f2", kind |-> "bool", ref |-> "", card |-> "single", key |-> "", oneof |-> 1, anns |-> <<>>]
                 IN msgs' = ms \o <<[NewMsg(t, 0, "none") EXCEPT !.oneofs = <<[name |-> "choice", opt |-> "expose"]>>, !.fields = <<m1, m2>>]>>
         [] form = "flatlasso" ->     \* flattened into a cycle it is not part of: mi -> t <-> t+1, all three fields flattened.
                                      \* Asked for mi, the walk over flattened members never comes back to where it started
              /\ Len(msgs) + 1 < MaxMsgs
              /\ LET t == Len(msgs) + 1
                     fl == <<[cls |-> "j5", arm |-> "object", var |-> "flatten", consistent |-> TRUE]>>
                     ms == PutField(mi, "message", MsgName(t), "single", "string", "none", "none")
                     fi == Len(ms[mi].fields)
                     e1 == [name |-> "f1", kind |-> "message", ref |-> MsgName(t + 1), card |-> "single", key |-> "", oneof |-> 0, anns |-> fl]
                     e2 == [name |-> "f2", kind |-> "message", ref |-> MsgName(t), card |-> "single", key |-> "", oneof |-> 0, anns |-> fl]
                     s1 == [name |-> "f2", kind |-> "string", ref |-> "", card |-> "single", key |-> "", oneof |-> 0, anns |-> <<>>]
                     s2 == [name |-> "f1", kind |-> "string", ref |-> "", card |-> "single", key |-> "", oneof |-> 0, anns |-> <<>>]
                 IN msgs' = [ms EXCEPT ![mi].fields[fi].anns = fl]
                            \o <<[NewMsg(t, 0, "none") EXCEPT !.fields = <<e1, s1>>], [NewMsg(t + 1, 0, "none") EXCEPT !.fields = <<s2, e2>>]>>
         [] form = "mutual" ->
              /\ Len(msgs) < MaxMsgs
              /\ LET t == Len(msgs) + 1
                     back == [name |-> "f1", kind |-> "message", ref |-> msgs[mi].name, card |-> "single", key |-> "",
                              oneof |-> 0, anns |-> <<>>]
                 IN msgs' = PutField(mi, "message", MsgName(t), "single", "string", "none", "none")
                            \o <<[NewMsg(t, 0, "none") EXCEPT !.fields = <<back>>]>>
    /\ rec' = form /\ nf' = nf + 1 /\ UNCHANGED <<enums, phase, na, machVars>>

\* "graph" mode: every type graph, nodes first, then edges in lexicographic order (each labelled digraph once)
TargetIdx(ms, f) == CHOOSE i \in 1..Len(ms) : ms[i].name = f.ref
AddNode ==
    /\ Mode = "graph" /\ CanFocus /\ Len(msgs) < MaxMsgs /\ \A i \in 1..Len(msgs) : msgs[i].fields = <<>>
    /\ msgs' = Append(msgs, NewMsg(Len(msgs) + 1, 0, "none"))
    /\ UNCHANGED <<enums, phase, nf, na, rec, machVars>>
AddEdge(a, b, card) ==
    /\ Mode = "graph" /\ CanFocus /\ card \in Cards
    /\ \A a2 \in (a + 1)..Len(msgs) : msgs[a2].fields = <<>>
    /\ IF msgs[a].fields = <<>> THEN TRUE ELSE TargetIdx(msgs, msgs[a].fields[Len(msgs[a].fields)]) < b
    /\ msgs' = PutField(a, "message", msgs[b].name, card, "string", "none", "none")
    /\ rec' = IF a = b \/ Reaches(msgs, b, a) THEN "cycle" ELSE rec
    /\ nf' = nf + 1 /\ UNCHANGED <<enums, phase, na, machVars>>

NewEnum(i, parent, unspec, opt) == [name |-> EnumName(i), parent |-> parent, unspec |-> unspec, opt |-> opt]

AddEnum(parent, unspec, opt) ==
    /\ CanFocus /\ Free /\ Len(enums) < MaxEnums /\ parent \in 0..Len(msgs) /\ opt \in EnumOpts
    /\ enums' = Append(enums, NewEnum(Len(enums) + 1, parent, unspec, opt))
    /\ nf' = nf + 1 /\ UNCHANGED <<msgs, phase, na, rec, machVars>>

AddEnumField(mi, target, parent, unspec, opt, card, sel, oopt) ==
    /\ CanFocus /\ Free /\ OneofOpen(mi, sel) /\ FieldShape(card, "string", sel, oopt)
    /\ target \in 1..(Len(enums) + 1)
    /\ IF target = Len(enums) + 1
       THEN /\ Len(enums) < MaxEnums /\ parent \in 0..Len(msgs) /\ opt \in EnumOpts
            /\ enums' = Append(enums, NewEnum(target, parent, unspec, opt))
       ELSE parent = 0 /\ unspec /\ opt = "none" /\ UNCHANGED enums
    /\ msgs' = PutField(mi, "enum", EnumName(target), card, "string", sel, oopt)
    /\ nf' = nf + 1 /\ UNCHANGED <<phase, na, rec, machVars>>

\* Annotate a field: class, and whether the value is consistent with the field it annotates
Annotate(mi, fi, cls, consistent, a) ==
    /\ phase = "shape" /\ na < MaxAnns /\ cls \in Classes /\ a \in AnnSet(cls)
    /\ LET f == msgs[mi].fields[fi] IN
         /\ AnnOf(f, cls).arm = "none"
         /\ \A k \in 1..Len(f.anns) : ClsRank(f.anns[k].cls) < ClsRank(cls)     \* one canonical order of classes
         /\ IsConsistent(cls, a, f) = consistent
         /\ (consistent \/ [cls |-> cls, arm |-> a.arm, var |-> a.var] \in MismatchAnns)
         /\ msgs' = [msgs EXCEPT ![mi].fields[fi].anns =
                        Append(@, [cls |-> cls, arm |-> a.arm, var |-> a.var, consistent |-> consistent])]
    /\ na' = na + 1 /\ UNCHANGED <<enums, phase, nf, rec, machVars>>

\* Annotate a message / oneof / enum that has no option yet (targets other than fields)
AnnotateMsg(mi, opt) ==
    /\ phase = "shape" /\ na < MaxAnns /\ opt \in MsgOpts \ {"none"} /\ msgs[mi].opt = "none"
    /\ msgs' = [msgs EXCEPT ![mi].opt = opt]
    /\ na' = na + 1 /\ UNCHANGED <<enums, phase, nf, rec, machVars>>

AnnotateOneof(mi, k, opt) ==
    /\ phase = "shape" /\ na < MaxAnns /\ opt \in OneofOpts \ {"none"} /\ msgs[mi].oneofs[k].opt = "none"
    /\ msgs' = [msgs EXCEPT ![mi].oneofs[k].opt = opt]
    /\ na' = na + 1 /\ UNCHANGED <<enums, phase, nf, rec, machVars>>

AnnotateEnum(ei, opt) ==
    /\ phase = "shape" /\ na < MaxAnns /\ opt \in EnumOpts \ {"none"} /\ enums[ei].opt = "none"
    /\ enums' = [enums EXCEPT ![ei].opt = opt]
    /\ na' = na + 1 /\ UNCHANGED <<msgs, phase, nf, rec, machVars>>

\* flatten annotation on the field that closes a cycle is AddRecursion's companion: Annotate with j5 object.flatten

RootsOf(r) == IF r = 0 THEN SelectSeq([i \in 1..Len(msgs) |-> i], LAMBDA i : msgs[i].parent = 0) ELSE <<r>>

StartReflect ==
    /\ phase = "shape" /\ phase' = "reflect"
    /\ run' = 0 /\ reg' = [i \in 1..Len(msgs) |-> "absent"] /\ ereg' = {} /\ todo' = RootsOf(0)
    /\ enumsDone' = FALSE /\ stack' = <<>> /\ outcomes' = <<>> /\ enters' = 0 /\ steps' = 0
    /\ UNCHANGED shapeVars

(* ---------------- phase "reflect": the skeleton ---------------- *)

NextRun(result) ==
    /\ outcomes' = Append(outcomes, result)
    /\ run' = run + 1 /\ reg' = [i \in 1..Len(msgs) |-> "absent"] /\ ereg' = {} /\ enumsDone' = FALSE
    /\ stack' = <<>> /\ enters' = 0
    /\ IF run + 1 > Len(msgs) THEN phase' = "done" /\ todo' = <<>>
       ELSE phase' = "reflect" /\ todo' = RootsOf(run + 1)

\* messageSchema / SchemaCache.Schema: look the root up, else register the placeholder and build
NextRoot ==
    /\ phase = "reflect" /\ stack = <<>> /\ todo # <<>>
    /\ LET q == Head(todo) IN
         IF reg[q] = "absent"
         THEN /\ stack' = <<[m |-> q, i |-> 1]>>
              /\ reg' = IF Guard THEN [reg EXCEPT ![q] = "placeholder"] ELSE reg
              /\ enters' = enters + 1
         ELSE UNCHANGED <<stack, reg, enters>>
    /\ todo' = Tail(todo) /\ steps' = steps + 1
    /\ UNCHANGED <<shapeVars, phase, run, ereg, enumsDone, outcomes>>

\* one field of the message on top of the stack: the kind switch, or following a reference
FieldStep ==
    /\ phase = "reflect" /\ stack # <<>>
    /\ LET top == stack[Len(stack)]  m == msgs[top.m] IN
       /\ top.i <= Len(m.fields)
       /\ LET f == m.fields[top.i]
              adv == [stack EXCEPT ![Len(stack)].i = top.i + 1] IN
          IF LeafOutcome(f, enums) = "errors"
          THEN NextRun("errors") /\ UNCHANGED <<shapeVars>> /\ steps' = steps + 1
          ELSE /\ steps' = steps + 1
               /\ IF f.kind = "message"
                  THEN LET t == MsgIdx(f.ref) IN
                       IF reg[t] = "absent"                           \* refTo: not there, build it now
                       THEN /\ stack' = Append(adv, [m |-> t, i |-> 1])
                            /\ reg' = IF Guard THEN [reg EXCEPT ![t] = "placeholder"] ELSE reg
                            /\ enters' = enters + 1 /\ UNCHANGED ereg
                       ELSE stack' = adv /\ UNCHANGED <<reg, enters, ereg>>   \* the existing ref (placeholder or built) is used
                  ELSE /\ stack' = adv /\ UNCHANGED <<reg, enters>>
                       /\ ereg' = IF f.kind = "enum" THEN ereg \cup {EnumIdx(f.ref)} ELSE ereg
               /\ UNCHANGED <<shapeVars, phase, run, todo, enumsDone, outcomes>>

\* all fields done: message-level options, link the placeholder, return to the parent
Pop ==
    /\ phase = "reflect" /\ stack # <<>>
    /\ LET top == stack[Len(stack)]  m == msgs[top.m] IN
       /\ top.i > Len(m.fields)
       /\ IF MsgOutcome(m) = "errors"
          THEN NextRun("errors") /\ UNCHANGED <<shapeVars>> /\ steps' = steps + 1
          ELSE /\ reg' = [reg EXCEPT ![top.m] = "built"]
               /\ stack' = SubSeq(stack, 1, Len(stack) - 1) /\ steps' = steps + 1
               /\ UNCHANGED <<shapeVars, phase, run, ereg, todo, enumsDone, outcomes, enters>>

\* SchemaSetFromFiles: file-level enums no message referred to
EnumPass ==
    /\ phase = "reflect" /\ run = 0 /\ stack = <<>> /\ todo = <<>> /\ ~enumsDone
    /\ IF \E e \in 1..Len(enums) : enums[e].parent = 0 /\ e \notin ereg /\ ~enums[e].unspec
       THEN NextRun("errors") /\ UNCHANGED <<shapeVars>> /\ steps' = steps + 1
       ELSE /\ enumsDone' = TRUE /\ steps' = steps + 1
            /\ UNCHANGED <<shapeVars, phase, run, reg, ereg, todo, stack, outcomes, enters>>

\* validateBuiltRef, applied to everything the run built: an object flattened into itself (directly or through other
\* flattened objects) and two properties with one JSON name are rejected when built
IsFlatten(f) == f.kind = "message" /\ f.card \in {"single", "optional"}
                /\ \E k \in 1..Len(f.anns) : f.anns[k].cls = "j5" /\ f.anns[k].arm \in {"object", "message"} /\ f.anns[k].var = "flatten"
\* (a member of an exposed oneof belongs to that oneof's schema, not to the object's properties)
InExposed(m, f) == f.oneof # 0 /\ f.oneof <= Len(m.oneofs) /\ m.oneofs[f.oneof].opt = "expose"
IsFlattenIn(m, f) == IsFlatten(f) /\ ~InExposed(m, f)
FlatEdge(a, b) == /\ ~IsWrapper(msgs[b])      \* a field whose type is a oneof wrapper is a oneof field: nothing to flatten
                  /\ \E k \in 1..Len(msgs[a].fields) : IsFlattenIn(msgs[a], msgs[a].fields[k]) /\ msgs[a].fields[k].ref = msgs[b].name
RECURSIVE FlatReach(_, _, _)
FlatReach(S, target, n) ==
    IF target \in S THEN TRUE
    ELSE IF n = 0 THEN FALSE
    ELSE LET N == S \cup { b \in 1..Len(msgs) : \E a \in S : FlatEdge(a, b) } IN IF N = S THEN FALSE ELSE FlatReach(N, target, n - 1)
FlatCycle(a) == FlatReach({ b \in 1..Len(msgs) : FlatEdge(a, b) }, a, Len(msgs))
NameClash(a) ==
    \/ /\ \E k \in 1..Len(msgs[a].fields) : msgs[a].fields[k].name = "fooBar"
       /\ \/ \E k \in 1..Len(msgs[a].oneofs) : msgs[a].oneofs[k].name = "foo_bar" /\ msgs[a].oneofs[k].opt = "expose"
          \/ \E k \in 1..Len(msgs[a].fields) : msgs[a].fields[k].name = "foo_bar"      \* both have the JSON name fooBar
    \/ /\ ~IsWrapper(msgs[a])            \* a oneof wrapper's options are not flattened
       /\ \E k \in 1..Len(msgs[a].fields) : msgs[a].fields[k].name = "clash" /\ ~IsFlatten(msgs[a].fields[k])
       /\ \E b \in 1..Len(msgs) : FlatEdge(a, b) /\ \E k \in 1..Len(msgs[b].fields) : msgs[b].fields[k].name = "clash"
Unusable == \E a \in 1..Len(msgs) : reg[a] = "built" /\ ((~IsWrapper(msgs[a]) /\ FlatCycle(a)) \/ NameClash(a))

FinishRun ==
    /\ phase = "reflect" /\ stack = <<>> /\ todo = <<>> /\ (run # 0 \/ enumsDone)
    /\ NextRun(IF Unusable THEN "errors" ELSE "builds") /\ steps' = steps + 1 /\ UNCHANGED <<shapeVars>>

Reflect == NextRoot \/ FieldStep \/ Pop \/ EnumPass \/ FinishRun

Done == Mode # "sim" /\ phase = "done" /\ UNCHANGED vars       \* (a simulated behaviour simply ends)

\* the valid (cardinality, map key, oneof, oneof option) combinations, computed once
Shapes == {sh \in [card : Cards, key : MapKeys, sel : OneofSels, oopt : OneofOpts] :
              /\ FieldShape(sh.card, sh.key, sh.sel, sh.oopt) /\ (sh.card = "map" \/ sh.key = "string")}
ShapesStringKey == {sh \in Shapes : sh.key = "string"}

FocusNext ==
    \/ \E mi \in 1..Len(msgs) :
         \/ \E kind \in ScalarKinds, sh \in Shapes : AddField(mi, kind, sh.card, sh.key, sh.sel, sh.oopt)
         \/ \E w \in WktAtoms, sh \in ShapesStringKey : AddWkt(mi, w, sh.card, sh.sel, sh.oopt)
         \/ \E t \in 1..(Len(msgs) + 1) :
              \E parent \in (IF t = Len(msgs) + 1 THEN 0..Len(msgs) ELSE {0}), opt \in (IF t = Len(msgs) + 1 THEN MsgOpts ELSE {"none"}),
                 sh \in ShapesStringKey : AddMsgField(mi, t, parent, opt, sh.card, sh.sel, sh.oopt)
         \/ \E form \in RecForms : AddRecursion(mi, form)
         \/ \E t \in 1..(Len(enums) + 1) :
              \E parent \in (IF t = Len(enums) + 1 THEN 0..Len(msgs) ELSE {0}), unspec \in (IF t = Len(enums) + 1 THEN BOOLEAN ELSE {TRUE}),
                 opt \in (IF t = Len(enums) + 1 THEN EnumOpts ELSE {"none"}), sh \in ShapesStringKey :
                    AddEnumField(mi, t, parent, unspec, opt, sh.card, sh.sel, sh.oopt)
    \/ \E parent \in 0..Len(msgs), opt \in MsgOpts : AddMessage(parent, opt)
    \/ \E parent \in 0..Len(msgs), unspec \in BOOLEAN, opt \in EnumOpts : AddEnum(parent, unspec, opt)

GraphNext == AddNode \/ \E a \in 1..Len(msgs), b \in 1..Len(msgs), card \in Cards : AddEdge(a, b, card)

AnnNext ==
    \/ \E mi \in 1..Len(msgs) :
         \/ \E fi \in 1..Len(msgs[mi].fields), cls \in Classes, consistent \in BOOLEAN :
                \E a \in AnnSet(cls) : Annotate(mi, fi, cls, consistent, a)
         \/ \E opt \in MsgOpts : AnnotateMsg(mi, opt)
         \/ \E k \in 1..Len(msgs[mi].oneofs), opt \in OneofOpts : AnnotateOneof(mi, k, opt)
    \/ \E ei \in 1..Len(enums), opt \in EnumOpts : AnnotateEnum(ei, opt)

\* the guards come first so that TLC does not enumerate the choices of a finished phase
ShapeNext ==
    \/ (CanFocus /\ Free /\ FocusNext)
    \/ (CanFocus /\ ~Free /\ GraphNext)
    \/ (na < MaxAnns /\ AnnNext)
    \/ StartReflect

Next == (Mode # "trace" /\ phase = "shape" /\ ShapeNext) \/ (phase = "reflect" /\ Reflect) \/ Done

Spec == Init /\ [][Next]_vars
FairSpec == Spec /\ WF_vars(Next)

(* ---------------- properties on the model ---------------- *)

TypeOK ==
    /\ phase \in {"shape", "reflect", "done"}
    /\ Len(msgs) <= MaxMsgs /\ Len(enums) <= MaxEnums
    /\ \A i \in 1..Len(outcomes) : outcomes[i] \in {"builds", "errors"}

\* every cycle of the type graph is cut: a message is never entered while it is being built ...
NoReenter == \A a, b \in 1..Len(stack) : a # b => stack[a].m # stack[b].m
\* ... so a run enters every message at most once, the stack is no deeper than the graph,
EntersBounded == enters <= Len(msgs)
StackBounded == Len(stack) <= Len(msgs)
\* ... and the whole reflection takes a bounded number of steps (with no deadlock: it terminates)
TotalFields == LET F[i \in 0..Len(msgs)] == IF i = 0 THEN 0 ELSE F[i - 1] + Len(msgs[i].fields) IN F[Len(msgs)]
StepsBounded == steps <= (Len(msgs) + 1) * (TotalFields + 2 * Len(msgs) + 3)
Termination == <>(phase = "done")

\* when a run builds, every message it entered is linked (no placeholder is left behind)
BuiltLinked == (phase = "reflect" /\ stack = <<>> /\ todo = <<>>) => \A i \in 1..Len(msgs) : reg[i] # "placeholder"

\* one result per entry point: SchemaSetFromFiles and SchemaCache.Schema of every message
OneResultPerRun == phase = "done" => Len(outcomes) = Len(msgs) + 1

\* the kind switch is total: every (kind, cardinality, annotation) has an outcome
SampleField(kind, ref, card, key, anns) ==
    [name |-> "f1", kind |-> kind, ref |-> ref, card |-> card, key |-> key, oneof |-> 0, anns |-> anns]
SwitchTotal ==
    LET es == <<[name |-> "E0", parent |-> 0, unspec |-> TRUE, opt |-> "none"], [name |-> "E1", parent |-> 0, unspec |-> FALSE, opt |-> "none"]>>
        anns == {<<>>} \cup UNION {{<<[cls |-> c, arm |-> a.arm, var |-> a.var, consistent |-> TRUE]>> : a \in AnnSet(c)} : c \in Classes}
        kinds == {<<k, "">> : k \in AllScalarKinds} \cup {<<"enum", "E0">>, <<"enum", "E1">>, <<"message", "M0">>}
                 \cup {<<"wkt", w>> : w \in AllWkt}
    IN \A kr \in kinds, card \in AllCards, key \in {"string", "int32"}, an \in anns :
          LeafOutcome(SampleField(kr[1], kr[2], card, key, an), es) \in {"builds", "errors"}

RecOf == rec

Emit ==
    (EmitCases /\ phase = "done") =>
        PrintT(<<"CASE", ToJson([mode |-> Mode, msgs |-> msgs, enums |-> enums, predSet |-> outcomes[1],
                                 predMsg |-> SubSeq(outcomes, 2, Len(outcomes)), rec |-> rec])>>)
=============================================================================
