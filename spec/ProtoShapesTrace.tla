--------------------------- MODULE ProtoShapesTrace ---------------------------
(***************************************************************************)
(* Trace validation for C18 (direction T).                                 *)
(*                                                                         *)
(* The harness records one event per descriptor set it ran through the     *)
(* real code: the type graph with every field's kind / cardinality /       *)
(* annotations, and what SchemaSetFromFiles, SchemaCache.Schema and        *)
(* Reflector.NewRoot really returned, whether property names were unique,  *)
(* whether every recorded proto path resolved to a field of the matching   *)
(* kind, and whether the codec round trips succeeded.                      *)
(* For each event the reflection skeleton of ProtoShapes is run on the     *)
(* recorded graph (its own NextRoot / FieldStep / Pop ... steps, with the  *)
(* termination invariants checked in every state); at Return the logged    *)
(* outcome classes are compared with the skeleton's (conformance, counted  *)
(* as drift) and the law of C18 is evaluated on the logged values.         *)
(***************************************************************************)
EXTENDS ProtoShapes, IOUtils

CONSTANT StrictLaw     \* TRUE: any event breaking the law violates invariant Law; FALSE: they are counted

TraceFile == IF "VERIF_TRACE" \in DOMAIN IOEnv THEN IOEnv.VERIF_TRACE ELSE "trace.ndjson"
Trace == ndJsonDeserialize(TraceFile)

VARIABLES l, loaded, nDrift, nLaw
tvars == <<vars, l, loaded, nDrift, nLaw>>

TraceInit ==
    /\ msgs = <<>> /\ enums = <<>> /\ phase = "done" /\ nf = 0 /\ na = 0 /\ rec = "none"
    /\ run = 0 /\ reg = <<>> /\ ereg = {} /\ todo = <<>> /\ enumsDone = FALSE /\ stack = <<>> /\ outcomes = <<>>
    /\ enters = 0 /\ steps = 0
    /\ l = 1 /\ loaded = FALSE /\ nDrift = 0 /\ nLaw = 0

Ev == Trace[l]

\* the recorded descriptor set becomes the machine's input (what StartReflect does after phase "shape")
Load ==
    /\ phase = "done" /\ ~loaded /\ l <= Len(Trace)
    /\ msgs' = Ev.msgs /\ enums' = Ev.enums /\ loaded' = TRUE
    /\ phase' = "reflect" /\ run' = 0 /\ reg' = [i \in 1..Len(Ev.msgs) |-> "absent"] /\ ereg' = {}
    /\ todo' = SelectSeq([i \in 1..Len(Ev.msgs) |-> i], LAMBDA i : Ev.msgs[i].parent = 0)
    /\ enumsDone' = FALSE /\ stack' = <<>> /\ outcomes' = <<>> /\ enters' = 0 /\ steps' = 0
    /\ UNCHANGED <<nf, na, rec, l, nDrift, nLaw>>

Machine == phase = "reflect" /\ Reflect /\ UNCHANGED <<l, loaded, nDrift, nLaw>>

Class(o) == IF o = "builds" THEN "ok" ELSE "error"

\* conformance: where the real code returned ok / error, the skeleton predicts the same class
Conforms ==
    /\ (Ev.real.set \in {"ok", "error"} => Ev.real.set = Class(outcomes[1]))
    /\ \A i \in 1..Len(Ev.real.cache) :
          Ev.real.cache[i] \in {"ok", "error"} => Ev.real.cache[i] = Class(outcomes[i + 1])

\* the law of C18 on the logged values
LawOK(ev) ==
    /\ ev.real.set \in {"ok", "error"}                                      \* a schema set or an error
    /\ \A i \in 1..Len(ev.real.cache) : ev.real.cache[i] \in {"ok", "error"}
    /\ \A i \in 1..Len(ev.real.root) : ev.real.root[i] \in {"ok", "error"}   \* in particular not "nilnil", "panic"
    /\ ev.real.namesUnique /\ ev.real.pathsOK
    /\ ev.real.codec \in {"ok", "skipped"}

Return ==
    /\ phase = "done" /\ loaded
    /\ nDrift' = nDrift + (IF Conforms THEN 0 ELSE 1)
    /\ nLaw' = nLaw + (IF LawOK(Ev) THEN 0 ELSE 1)
    /\ l' = l + 1 /\ loaded' = FALSE
    /\ UNCHANGED vars

TraceNext == Load \/ Machine \/ Return
TraceSpec == TraceInit /\ [][TraceNext]_tvars

Law == StrictLaw => nLaw = 0

TraceDone ==
    (phase = "done" /\ ~loaded /\ l = Len(Trace) + 1) =>
        PrintT(<<"TRACEDONE", ToJson([events |-> l - 1, drift |-> nDrift, law |-> nLaw])>>)
=============================================================================
