SPECIFICATION Spec
CONSTANTS
  Mode = "strings"
  BytePool <- NoBytes
  CharPool <- Chars
  MinStr = 18
  MaxStr = 30
  EmitCases = TRUE
INVARIANTS TypeOK RenderFits RoundTrip ParseSound RejectLarge Emit
PROPERTIES Progress
CHECK_DEADLOCK FALSE
