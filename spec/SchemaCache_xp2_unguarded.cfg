SPECIFICATION Spec
CONSTANTS
  Procs <- P2
  Types <- XpTypes
  ChildSeq <- XpChild
  Invalid <- NoneInvalid
  Pkg <- XpPkg
  CallChoices <- XpCalls2
  Guard = "none"
  Mode = "check"
INVARIANTS SameAsAlone
CHECK_DEADLOCK FALSE
