------------------------------- MODULE J5Rules -------------------------------
(***************************************************************************)
(* The rule / annotation language of j5s field declarations (properties    *)
(* C04 and C12) and the writer/reader pair that carries a declaration      *)
(* through protobuf annotations and back.                                  *)
(*                                                                         *)
(*   source declaration d --Write--> abstract annotations --Read--> d'     *)
(*                                                                         *)
(* Write is internal/j5s/j5convert/fields.go (j5s rules -> buf.validate,   *)
(* j5.ext.v1 and j5.list.v1 options), Read is                              *)
(* lib/j5schema/schema_from_proto.go.  The model states the CONTRACT of    *)
(* the pair: Read(Write(d)) = Norm(d) for every declaration the catalogue  *)
(* admits (C04, "Pipeline: Reflect post-condition").  It is the intended   *)
(* design, written from schema.proto and the annotation files, not a copy  *)
(* of the code: where the code deviates the replay finds it.               *)
(*                                                                         *)
(* A declaration is ONE record shape for every kind (TLC cannot compare    *)
(* an integer with a string, so "absent" is NA for numbers and "na" for    *)
(* flags/atoms, <<>> for lists).  The declaration is built on demand by    *)
(* PickKind / AddRule, so the reachable graph is the bounded declaration   *)
(* space and -simulate draws random rule combinations.                     *)
(***************************************************************************)
EXTENDS Integers, Sequences, FiniteSets, TLC, Json

CONSTANTS
    Kinds,      \* item kinds explored
    Cards,      \* subset of {"single","array","map"}
    Press,      \* subset of {"implicit","required","optional"}
    MaxRules,   \* max number of AddRule steps per declaration
    WithAnn,    \* TRUE: annotation attributes (list rules, key entity, flatten, description) are in the space (C04)
    IntLo, IntHi,       \* admissible minimum / maximum values (signed kinds; unsigned kinds use the non-negative ones)
    LenLo, LenHi,       \* admissible minLength / maxLength
    CntLo, CntHi,       \* admissible minItems|minPairs / maxItems|maxPairs
    EmitCases

NA == -99           \* numeric attribute absent
Flag == {"t", "f"}  \* a boolean attribute that is present; "na" = absent

IntKinds  == {"int32", "int64", "uint32", "uint64"}
Unsigned  == {"uint32", "uint64"}
KeyKinds  == {"key", "key_id62", "key_uuid", "key_custom"}
StrLike   == {"string", "key_custom"}
NOpts     == 3      \* the enum every enum field refers to has options 1..NOpts (0 = *_UNSPECIFIED)
\* 0 in a subset names the zero option, which the source enum then declares explicitly (option UNSPECIFIED first)
EnumSubsets == {<<1>>, <<2, 3>>, <<1, 2, 3>>, <<3>>, <<0>>, <<0, 2>>}

(***************************************************************************)
(* THE CATALOGUE.  One row per attribute the language can put on a field:  *)
(*   attr   name in the declaration record                                 *)
(*   scope  "item" (rule of the scalar/enum itself, also inside arrays and *)
(*          maps), "array", "map", "prop" (the object property)            *)
(*   kinds  item kinds it applies to (scope item)                          *)
(*   j5s    spelling in j5s source (JSON path of schema.proto)             *)
(*   wr     where Write puts it                                            *)
(*   c12    TRUE when the C12 statement lists it (validation semantics)    *)
(* Sources: [S] proto/j5/j5/schema/v1/schema.proto, [E] proto/j5/j5/ext/v1 *)
(* /annotations.proto, [L] proto/j5/j5/list/v1/annotations.proto,          *)
(* [W] internal/j5s/j5convert/fields.go, [P] internal/j5s/j5parse/schema.go*)
(***************************************************************************)
Catalogue == {
  \* [S] ObjectProperty.required / explicitly_optional; [P] '!' and '?' marks; [W] buildProperty :147-172
  [attr |-> "pres", scope |-> "prop", kinds |-> {}, j5s |-> "required = true | optional = true | ! | ?",
        wr |-> "validate.required | proto3_optional", c12 |-> TRUE],
  \* [S] ObjectProperty.description; [P] DescriptionField; written as leading comment
  [attr |-> "desc", scope |-> "prop", kinds |-> {}, j5s |-> "| text", wr |-> "leading comment", c12 |-> FALSE],
  \* [S] IntegerField.Rules.minimum/maximum/exclusive_minimum/exclusive_maximum (int64, bool); [W] :443-570
  [attr |-> "minimum", scope |-> "item", kinds |-> IntKinds, j5s |-> "rules.minimum", wr |-> "validate.<fmt>.gt|gte", c12 |-> TRUE],
  [attr |-> "maximum", scope |-> "item", kinds |-> IntKinds, j5s |-> "rules.maximum", wr |-> "validate.<fmt>.lt|lte", c12 |-> TRUE],
  [attr |-> "xmin", scope |-> "item", kinds |-> IntKinds, j5s |-> "rules.exclusiveMinimum", wr |-> "selects gt over gte", c12 |-> TRUE],
  [attr |-> "xmax", scope |-> "item", kinds |-> IntKinds, j5s |-> "rules.exclusiveMaximum", wr |-> "selects lt over lte", c12 |-> TRUE],
  \* [S] StringField.Rules.min_length/max_length/pattern; BytesField.Rules.min_length/max_length; [W] :293-337, :704-735
  [attr |-> "minLength", scope |-> "item", kinds |-> {"string", "bytes"}, j5s |-> "rules.minLength", wr |-> "validate.string|bytes.min_len", c12 |-> TRUE],
  [attr |-> "maxLength", scope |-> "item", kinds |-> {"string", "bytes"}, j5s |-> "rules.maxLength", wr |-> "validate.string|bytes.max_len", c12 |-> TRUE],
  [attr |-> "pattern", scope |-> "item", kinds |-> {"string"}, j5s |-> "rules.pattern", wr |-> "validate.string.pattern", c12 |-> TRUE],
  \* [S] KeyFormat.Custom.pattern (required); [P] KeyField qualifier 'format'; [W] :612-702; [E] KeyField.pattern
  [attr |-> "pattern", scope |-> "item", kinds |-> {"key_custom"}, j5s |-> "format.custom.pattern", wr |-> "validate.string.pattern + ext.key.pattern", c12 |-> TRUE],
  \* [S] BoolField.Rules.const
  [attr |-> "const", scope |-> "item", kinds |-> {"bool"}, j5s |-> "rules.const", wr |-> "validate.bool.const", c12 |-> TRUE],
  \* [S] EnumField.Rules.in / not_in (option names); [W] :243-291 defined_only always, names -> numbers
  [attr |-> "in", scope |-> "item", kinds |-> {"enum"}, j5s |-> "rules.in", wr |-> "validate.enum.in (numbers)", c12 |-> TRUE],
  [attr |-> "notIn", scope |-> "item", kinds |-> {"enum"}, j5s |-> "rules.notIn", wr |-> "validate.enum.not_in (numbers)", c12 |-> TRUE],
  \* [S] ArrayField.Rules.min_items/max_items/unique_items; [W] :90-140 validate.repeated
  [attr |-> "minItems", scope |-> "array", kinds |-> {}, j5s |-> "rules.minItems", wr |-> "validate.repeated.min_items", c12 |-> TRUE],
  [attr |-> "maxItems", scope |-> "array", kinds |-> {}, j5s |-> "rules.maxItems", wr |-> "validate.repeated.max_items", c12 |-> TRUE],
  [attr |-> "unique", scope |-> "array", kinds |-> {}, j5s |-> "rules.uniqueItems", wr |-> "validate.repeated.unique", c12 |-> TRUE],
  \* [S] MapField.Rules.min_pairs/max_pairs (not in the C12 statement)
  [attr |-> "minPairs", scope |-> "map", kinds |-> {}, j5s |-> "rules.minPairs", wr |-> "validate.map.min_pairs", c12 |-> FALSE],
  [attr |-> "maxPairs", scope |-> "map", kinds |-> {}, j5s |-> "rules.maxPairs", wr |-> "validate.map.max_pairs", c12 |-> FALSE],
  \* [S] ArrayField.Ext.single_form / MapField.Ext.single_form; [E] ArrayField/MapField.single_form
  [attr |-> "single", scope |-> "array", kinds |-> {}, j5s |-> "ext.singleForm", wr |-> "ext.array.single_form", c12 |-> FALSE],
  [attr |-> "single", scope |-> "map", kinds |-> {}, j5s |-> "ext.singleForm", wr |-> "ext.map.single_form", c12 |-> FALSE],
  \* [L] FilteringConstraint.filterable: Integer/Float/Bool/Key/Enum/Timestamp/Date/Decimal rules
  [attr |-> "filt", scope |-> "item", kinds |-> IntKinds \cup {"bool", "enum", "key_id62", "key_uuid", "key", "key_custom", "date", "decimal", "timestamp", "float32", "float64"},
        j5s |-> "listRules.filtering.filterable", wr |-> "list.<arm>.filtering.filterable", c12 |-> FALSE],
  \* [L] SortingConstraint.sortable / default_sort: Integer/Float/Timestamp/Decimal rules
  [attr |-> "sort", scope |-> "item", kinds |-> IntKinds \cup {"timestamp", "decimal", "float32", "float64"}, j5s |-> "listRules.sorting.sortable", wr |-> "list.<arm>.sorting.sortable", c12 |-> FALSE],
  [attr |-> "dsort", scope |-> "item", kinds |-> IntKinds \cup {"timestamp", "decimal", "float32", "float64"}, j5s |-> "listRules.sorting.defaultSort", wr |-> "list.<arm>.sorting.default_sort", c12 |-> FALSE],
  \* [L] SearchingConstraint.searchable / field_identifier: OpenTextRules (string)
  [attr |-> "search", scope |-> "item", kinds |-> {"string"}, j5s |-> "listRules.searching.searchable", wr |-> "list.string.open_text.searching.searchable", c12 |-> FALSE],
  [attr |-> "sident", scope |-> "item", kinds |-> {"string"}, j5s |-> "listRules.searching.fieldIdentifier", wr |-> "list.string.open_text.searching.field_identifier", c12 |-> FALSE],
  \* [L] FilteringConstraint.default_filters (enum option names)
  [attr |-> "dfilt", scope |-> "item", kinds |-> {"enum"}, j5s |-> "listRules.filtering.defaultFilters", wr |-> "list.enum.filtering.default_filters", c12 |-> FALSE],
  \* [S] KeyField.entity (EntityKey primary_key | foreign_key, tenant_key); [E] PSMKeyFieldOptions; [W] :612-630
  [attr |-> "ent", scope |-> "item", kinds |-> KeyKinds, j5s |-> "entity.primaryKey | foreign = pkg.entity", wr |-> "ext.key (field 555101)", c12 |-> TRUE],
  [attr |-> "tenant", scope |-> "item", kinds |-> KeyKinds, j5s |-> "entity.tenantKey", wr |-> "ext.key.tenant_type", c12 |-> FALSE],
  \* [S] ObjectField.flatten; [E] ObjectField.flatten
  [attr |-> "flatten", scope |-> "item", kinds |-> {"object"}, j5s |-> "flatten", wr |-> "ext.object.flatten", c12 |-> FALSE],
  \* [S] ObjectField.Rules.min_properties/max_properties
  [attr |-> "minProps", scope |-> "item", kinds |-> {"object"}, j5s |-> "rules.minProperties", wr |-> "(no buf.validate equivalent)", c12 |-> FALSE],
  \* [S] DateField/DecimalField.Rules minimum/maximum (strings) + exclusive flags; [E] DateField.Rules / DecimalField.Rules
  [attr |-> "sminimum", scope |-> "item", kinds |-> {"date", "decimal"}, j5s |-> "rules.minimum", wr |-> "ext.date|decimal.rules.minimum", c12 |-> FALSE],
  [attr |-> "smaximum", scope |-> "item", kinds |-> {"date", "decimal"}, j5s |-> "rules.maximum", wr |-> "ext.date|decimal.rules.maximum", c12 |-> FALSE],
  [attr |-> "xmin", scope |-> "item", kinds |-> {"date", "decimal"}, j5s |-> "rules.exclusiveMinimum", wr |-> "ext.date|decimal.rules.exclusive_minimum", c12 |-> FALSE],
  [attr |-> "xmax", scope |-> "item", kinds |-> {"date", "decimal"}, j5s |-> "rules.exclusiveMaximum", wr |-> "ext.date|decimal.rules.exclusive_maximum", c12 |-> FALSE],
  \* [S] FloatField.Rules minimum/maximum (double) + exclusive flags ([W]: "TODO: float rules not implemented" -> C07)
  [attr |-> "fminimum", scope |-> "item", kinds |-> {"float32", "float64"}, j5s |-> "rules.minimum", wr |-> "validate.float|double.gt|gte", c12 |-> FALSE],
  [attr |-> "fmaximum", scope |-> "item", kinds |-> {"float32", "float64"}, j5s |-> "rules.maximum", wr |-> "validate.float|double.lt|lte", c12 |-> FALSE],
  [attr |-> "xmin", scope |-> "item", kinds |-> {"float32", "float64"}, j5s |-> "rules.exclusiveMinimum", wr |-> "selects gt over gte", c12 |-> FALSE],
  [attr |-> "xmax", scope |-> "item", kinds |-> {"float32", "float64"}, j5s |-> "rules.exclusiveMaximum", wr |-> "selects lt over lte", c12 |-> FALSE]
}

Attrs == {r.attr : r \in Catalogue}
AnnAttrs == {"desc", "single", "filt", "sort", "dsort", "search", "sident", "dfilt", "ent", "tenant", "flatten", "minProps",
             "sminimum", "smaximum", "fminimum", "fmaximum"}
NumAttrs == {"minimum", "maximum", "minLength", "maxLength", "minItems", "maxItems", "minPairs", "maxPairs", "minProps"}
FlagAttrs == {"xmin", "xmax", "const", "unique", "filt", "sort", "dsort", "search", "flatten"}
AtomAttrs == {"pattern", "desc", "single", "sident", "ent", "tenant", "sminimum", "smaximum", "fminimum", "fmaximum"}
ListAttrs == {"in", "notIn", "dfilt"}

Absent(a) == IF a \in NumAttrs THEN NA ELSE IF a \in ListAttrs THEN <<>> ELSE "na"

VARIABLES
    phase,   \* "kind" | "rules" | "cand" | "done"
    decl,    \* the declaration record
    nrules,  \* AddRule steps taken
    cand     \* candidate value (module J5Validate); NoCand here

NoCand == [t |-> "none", n |-> 0, s |-> "", items |-> <<>>]
NoDecl == [kind |-> "", card |-> "", pres |-> ""]

BaseDecl(k, c, p) ==
    [kind |-> k, card |-> c, pres |-> p,
     minimum |-> NA, maximum |-> NA, xmin |-> "na", xmax |-> "na",
     minLength |-> NA, maxLength |-> NA, pattern |-> "na", const |-> "na",
     in |-> <<>>, notIn |-> <<>>,
     minItems |-> NA, maxItems |-> NA, unique |-> "na", minPairs |-> NA, maxPairs |-> NA,
     desc |-> "na", single |-> "na", filt |-> "na", sort |-> "na", dsort |-> "na", search |-> "na", sident |-> "na",
     dfilt |-> <<>>, ent |-> "na", tenant |-> "na", flatten |-> "na", minProps |-> NA,
     sminimum |-> "na", smaximum |-> "na", fminimum |-> "na", fmaximum |-> "na"]

Applicable(d, a) ==
    \E r \in Catalogue :
        /\ r.attr = a /\ a # "pres"
        /\ \/ r.scope = "item" /\ d.kind \in r.kinds
           \/ r.scope = "array" /\ d.card = "array"
           \/ r.scope = "map" /\ d.card = "map"
           \/ r.scope = "prop"
        \* (the entity-key marker is an annotation with a validation consequence - a primary key is required - so it is part
        \* of C12's space too)
        /\ (a \in AnnAttrs => WithAnn \/ a = "ent")

RangeOf(s) == {s[i] : i \in 1..Len(s)}

Values(d, a) ==
    CASE a = "minimum"   -> IF d.kind \in Unsigned THEN {v \in IntLo : v >= 0} ELSE IntLo
      [] a = "maximum"   -> IF d.kind \in Unsigned THEN {v \in IntHi : v >= 0} ELSE IntHi
      [] a = "minLength" -> LenLo
      [] a = "maxLength" -> LenHi
      [] a \in {"minItems", "minPairs"} -> CntLo
      [] a \in {"maxItems", "maxPairs"} -> CntHi
      [] a = "minProps"  -> {1}
      [] a \in FlagAttrs -> Flag
      [] a = "pattern"   -> {"lower", "digit"}
      [] a \in ListAttrs -> EnumSubsets
      [] a = "desc"      -> {"one", "multi", "para"}      \* para: two paragraphs separated by an empty "|" line
      [] a = "single"    -> {"thing"}
      [] a = "sident"    -> {"ident"}
      [] a = "ent"       -> {"primary", "notprimary", "foreign"}
      [] a = "tenant"    -> {"acct"}
      [] a = "sminimum"  -> {"lowval"}
      [] a = "smaximum"  -> {"highval"}
      [] a = "fminimum"  -> {"lowval"}
      [] a = "fmaximum"  -> {"highval"}
      [] OTHER -> {}

\* Syntactic admissibility (what the language documents as meaningful); J5Validate strengthens it semantically.
WellFormed(d) ==
    /\ (d.xmin # "na" => (d.minimum # NA \/ d.sminimum # "na" \/ d.fminimum # "na"))
    /\ (d.xmax # "na" => (d.maximum # NA \/ d.smaximum # "na" \/ d.fmaximum # "na"))
    /\ (d.minimum # NA /\ d.maximum # NA => d.minimum <= d.maximum)
    /\ (d.minLength # NA /\ d.maxLength # NA => d.minLength <= d.maxLength)
    /\ (d.minItems # NA /\ d.maxItems # NA => d.minItems <= d.maxItems)
    /\ (d.minPairs # NA /\ d.maxPairs # NA => d.minPairs <= d.maxPairs)
    /\ RangeOf(d.in) \cap RangeOf(d.notIn) = {}
    /\ (d.dsort = "t" => d.sort = "t")
    /\ (d.sident # "na" => d.search # "na")
    \* a primary key is required by definition ([W] "cannot be both required and optional")
    /\ (d.ent = "primary" => d.pres # "optional")

\* the custom key format REQUIRES a pattern ([S] KeyFormat.Custom.pattern required = true)
Complete(d) == d.kind = "key_custom" => d.pattern # "na"

Extra(d) == TRUE   \* refined by J5Validate (a declaration must accept something)

PickKind(k, c, p) ==
    /\ phase = "kind"
    /\ (p = "optional" => c = "single")          \* proto3 optional only exists on singular fields
    /\ (c = "map" => p = "implicit")
    /\ (k \in {"object", "date", "decimal", "timestamp", "float32", "float64"} => WithAnn)
    \* the custom key format cannot be declared without its pattern: it is part of the kind choice
    /\ decl' = IF k = "key_custom" THEN [BaseDecl(k, c, p) EXCEPT !.pattern = "lower"] ELSE BaseDecl(k, c, p)
    /\ phase' = "rules" /\ nrules' = 0
    /\ UNCHANGED cand

AddRule(a, v) ==
    /\ phase = "rules" /\ nrules < MaxRules
    /\ Applicable(decl, a)
    /\ decl[a] = Absent(a)
    /\ v \in Values(decl, a)
    /\ LET d2 == [decl EXCEPT ![a] = v] IN
         /\ WellFormed(d2)
         /\ decl' = d2
    /\ nrules' = nrules + 1
    /\ UNCHANGED <<phase, cand>>

\* ---------------------------------------------------------------------------
\* Norm: the observable content of a declaration (void attribute values are indistinguishable from absent:
\* an exclusive flag / unique / list flag that is false, a primary key that is explicitly false)
NormFlag(f) == IF f = "f" THEN "na" ELSE f
Norm(d) == [d EXCEPT !.xmin = NormFlag(d.xmin), !.xmax = NormFlag(d.xmax), !.unique = NormFlag(d.unique),
                     !.filt = NormFlag(d.filt), !.sort = NormFlag(d.sort), !.dsort = NormFlag(d.dsort),
                     !.search = NormFlag(d.search), !.flatten = NormFlag(d.flatten),
                     !.ent = IF d.ent = "notprimary" THEN "na" ELSE d.ent,
                     \* a primary key is always required ([W] buildProperty: "a primary key is required")
                     !.pres = IF d.ent = "primary" /\ d.card \in {"single", "array"} THEN "required" ELSE d.pres]

\* ---------------------------------------------------------------------------
\* Write: declaration -> abstract annotations.  vt = arm of (buf.validate.field) type oneof, xt = arm of
\* (j5.ext.v1.field) type oneof, lt = arm of (j5.list.v1.field) type oneof.
ItemVT(d) ==
    CASE d.kind \in IntKinds -> d.kind
      [] d.kind \in {"string"} \cup KeyKinds -> "string"
      [] d.kind = "bool" -> "bool"
      [] d.kind = "bytes" -> "bytes"
      [] d.kind = "enum" -> "enum"
      [] d.kind = "float32" -> "float"
      [] d.kind = "float64" -> "double"
      [] d.kind = "timestamp" -> "timestamp"
      [] OTHER -> "none"

ItemXT(d) ==
    CASE d.kind \in IntKinds -> "integer"
      [] d.kind \in KeyKinds -> "key"
      [] d.kind \in {"float32", "float64"} -> "float"
      [] OTHER -> d.kind

ItemLT(d) ==
    CASE d.kind \in IntKinds -> d.kind
      [] d.kind = "key_id62" -> "string.foreign_key.id62"
      [] d.kind = "key_uuid" -> "string.foreign_key.uuid"
      [] d.kind \in {"key", "key_custom"} -> "string.foreign_key.unique_string"
      [] d.kind = "string" -> "string.open_text"
      [] d.kind = "float32" -> "float"
      [] d.kind = "float64" -> "double"
      [] OTHER -> d.kind

WriteItem(d) ==
    [vt |-> ItemVT(d), xt |-> ItemXT(d), lt |-> ItemLT(d),
     \* inclusivity: minimum/maximum are INCLUSIVE unless the exclusive flag is true (JSON-schema convention,
     \* [S] field names exclusive_minimum / exclusive_maximum)
     gt  |-> IF d.minimum # NA /\ d.xmin = "t" THEN d.minimum ELSE NA,
     gte |-> IF d.minimum # NA /\ d.xmin # "t" THEN d.minimum ELSE NA,
     lt_ |-> IF d.maximum # NA /\ d.xmax = "t" THEN d.maximum ELSE NA,
     lte |-> IF d.maximum # NA /\ d.xmax # "t" THEN d.maximum ELSE NA,
     minLen |-> d.minLength, maxLen |-> d.maxLength,
     vpattern |-> IF d.kind = "key_id62" THEN "ID62" ELSE d.pattern,
     uuid |-> d.kind = "key_uuid",
     const |-> d.const,
     definedOnly |-> d.kind = "enum",
     in |-> d.in, notIn |-> d.notIn,          \* option NUMBERS: option i of the enum has number i
     keyFormat |-> CASE d.kind = "key_id62" -> "ID62" [] d.kind = "key_uuid" -> "UUID" [] d.kind = "key_custom" -> "pattern" [] OTHER -> "na",
     keyPattern |-> IF d.kind = "key_custom" THEN d.pattern ELSE "na",
     flatten |-> d.flatten = "t",
     xrules |-> [minimum |-> d.sminimum, maximum |-> d.smaximum,
                 xmin |-> IF d.kind \in {"date", "decimal"} THEN d.xmin ELSE "na",
                 xmax |-> IF d.kind \in {"date", "decimal"} THEN d.xmax ELSE "na"],
     frules |-> [minimum |-> d.fminimum, maximum |-> d.fmaximum,
                 xmin |-> IF d.kind \in {"float32", "float64"} THEN d.xmin = "t" ELSE FALSE,
                 xmax |-> IF d.kind \in {"float32", "float64"} THEN d.xmax = "t" ELSE FALSE],
     minProps |-> d.minProps,
     lfilt |-> d.filt = "t", lsort |-> d.sort = "t", ldsort |-> d.dsort = "t", lsearch |-> d.search = "t",
     lsident |-> d.sident, ldfilt |-> d.dfilt,
     kprimary |-> d.ent = "primary", kforeign |-> d.ent = "foreign", ktenant |-> d.tenant]

Write(d) ==
    [label |-> CASE d.card = "array" -> "repeated" [] d.card = "map" -> "map" [] OTHER -> "singular",
     proto3opt |-> d.pres = "optional",
     required |-> d.pres = "required" \/ (d.ent = "primary" /\ d.card \in {"single", "array"}),
     comment |-> d.desc,
     item |-> WriteItem(d),            \* under repeated.items / map.values for containers
     rmin |-> d.minItems, rmax |-> d.maxItems, runique |-> d.unique = "t",
     mmin |-> d.minPairs, mmax |-> d.maxPairs,
     single |-> d.single]

\* Read: abstract annotations -> declaration
ReadKind(i) ==
    CASE i.xt = "integer" -> i.vt
      [] i.xt = "key" -> (CASE i.keyFormat = "ID62" -> "key_id62" [] i.keyFormat = "UUID" -> "key_uuid"
                            [] i.keyFormat = "pattern" -> "key_custom" [] OTHER -> "key")
      [] i.xt = "float" -> (IF i.vt = "float" THEN "float32" ELSE "float64")
      [] OTHER -> i.xt

Read(a) ==
    LET i == a.item
        k == ReadKind(i)
        card == CASE a.label = "repeated" -> "array" [] a.label = "map" -> "map" [] OTHER -> "single"
        base == BaseDecl(k, card, IF a.required THEN "required" ELSE IF a.proto3opt THEN "optional" ELSE "implicit")
    IN [base EXCEPT
          !.minimum = IF i.gt # NA THEN i.gt ELSE i.gte,
          !.xmin = IF i.gt # NA \/ i.xrules.xmin = "t" \/ i.frules.xmin THEN "t" ELSE "na",
          !.maximum = IF i.lt_ # NA THEN i.lt_ ELSE i.lte,
          !.xmax = IF i.lt_ # NA \/ i.xrules.xmax = "t" \/ i.frules.xmax THEN "t" ELSE "na",
          !.minLength = i.minLen, !.maxLength = i.maxLen,
          !.pattern = IF k = "key_custom" THEN i.keyPattern ELSE IF i.vpattern = "ID62" THEN "na" ELSE i.vpattern,
          !.const = i.const, !.in = i.in, !.notIn = i.notIn,
          !.minItems = a.rmin, !.maxItems = a.rmax, !.unique = IF a.runique THEN "t" ELSE "na",
          !.minPairs = a.mmin, !.maxPairs = a.mmax,
          !.desc = a.comment, !.single = a.single,
          !.filt = IF i.lfilt THEN "t" ELSE "na", !.sort = IF i.lsort THEN "t" ELSE "na",
          !.dsort = IF i.ldsort THEN "t" ELSE "na", !.search = IF i.lsearch THEN "t" ELSE "na",
          !.sident = i.lsident, !.dfilt = i.ldfilt,
          !.ent = IF i.kprimary THEN "primary" ELSE IF i.kforeign THEN "foreign" ELSE "na",
          !.tenant = i.ktenant,
          !.flatten = IF i.flatten THEN "t" ELSE "na", !.minProps = i.minProps,
          !.sminimum = i.xrules.minimum, !.smaximum = i.xrules.maximum,
          !.fminimum = i.frules.minimum, !.fmaximum = i.frules.maximum]

\* C04 on the model: the reader inverts the writer on every declaration of the catalogue
ReadWriteInverse == (phase # "kind") => Read(Write(decl)) = Norm(decl)

\* the writer never uses two different arms for one field, and every kind has an ext arm (type marker)
WriteWellTyped == (phase # "kind") =>
    LET i == Write(decl).item IN
      /\ i.xt # ""
      /\ (i.gt # NA => i.gte = NA) /\ (i.lt_ # NA => i.lte = NA)
      /\ (i.vt = "none" => i.gt = NA /\ i.gte = NA /\ i.lt_ = NA /\ i.lte = NA /\ i.minLen = NA /\ i.maxLen = NA)

TypeOK ==
    /\ phase \in {"kind", "rules", "cand", "done"}
    /\ nrules \in 0..MaxRules

(* ------------------------------------------------------------------------ *)
(* The declaration machine on its own (C04): PickKind, AddRule*, Finish.     *)
Init == phase = "kind" /\ decl = NoDecl /\ nrules = 0 /\ cand = NoCand

FinishDecl ==
    /\ phase = "rules" /\ Complete(decl) /\ Extra(decl)
    /\ phase' = "done"
    /\ UNCHANGED <<decl, nrules, cand>>

DeclNext ==
    \/ \E k \in Kinds, c \in Cards, p \in Press : PickKind(k, c, p)
    \/ \E a \in Attrs : phase = "rules" /\ \E v \in Values(decl, a) : AddRule(a, v)

RulesNext == DeclNext \/ FinishDecl
RulesSpec == Init /\ [][RulesNext]_<<phase, decl, nrules, cand>>

\* one CASE per field declaration with the expected reflected schema projection
EmitDecl ==
    (EmitCases /\ phase = "done") =>
        PrintT(<<"CASE", ToJson([decl |-> decl, expect |-> Read(Write(decl)), nrules |-> nrules])>>)

=============================================================================
