--------------------------- MODULE CompileOrderMC ---------------------------
EXTENDS CompileOrder
\* two packages x three files; ab.v1 refers to aa.v1; the type name Thing is declared in BOTH packages
Shape23 == <<
  [name |-> "aa.v1", files |-> << [name |-> "a", decls |-> <<"Thing">>, refs |-> << <<"aa.v1", "Other">> >>],
                                  [name |-> "b", decls |-> <<"Other">>, refs |-> << <<"aa.v1", "Third">> >>],
                                  [name |-> "c", decls |-> <<"Third">>, refs |-> << >>] >>],
  [name |-> "ab.v1", files |-> << [name |-> "a", decls |-> <<"Thing">>, refs |-> << <<"aa.v1", "Thing">>, <<"ab.v1", "Local">> >>],
                                  [name |-> "b", decls |-> <<"Local">>, refs |-> << <<"aa.v1", "Other">> >>],
                                  [name |-> "c", decls |-> <<"Last">>, refs |-> << <<"ab.v1", "Thing">> >>] >>] >>
\* three packages x three files: chain ac -> ab -> aa plus ac -> aa, same type names in all packages
Shape33 == <<
  [name |-> "aa.v1", files |-> << [name |-> "a", decls |-> <<"Thing">>, refs |-> << <<"aa.v1", "Other">> >>],
                                  [name |-> "b", decls |-> <<"Other">>, refs |-> << >>],
                                  [name |-> "c", decls |-> <<"Third">>, refs |-> << <<"aa.v1", "Thing">> >>] >>],
  [name |-> "ab.v1", files |-> << [name |-> "a", decls |-> <<"Thing">>, refs |-> << <<"aa.v1", "Thing">> >>],
                                  [name |-> "b", decls |-> <<"Other">>, refs |-> << <<"ab.v1", "Thing">>, <<"aa.v1", "Third">> >>],
                                  [name |-> "c", decls |-> <<"Third">>, refs |-> << >>] >>],
  [name |-> "ac.v1", files |-> << [name |-> "a", decls |-> <<"Thing">>, refs |-> << <<"ab.v1", "Other">>, <<"aa.v1", "Other">> >>],
                                  [name |-> "b", decls |-> <<"Other">>, refs |-> << <<"ac.v1", "Third">> >>],
                                  [name |-> "c", decls |-> <<"Third">>, refs |-> << <<"ab.v1", "Thing">> >>] >>] >>
\* two imported packages share the short name "billing" (R "Packages and Imports": an import brings the package in by its
\* last name before the version); a third element "short" marks a reference written through that short name. Each file
\* of user.v1 imports both packages (one through a fully qualified reference) in a different order; the reference the
\* shape records is the later import, which is what the short name means while both claim it.
ShapeClash == <<
  [name |-> "xa.billing.v1", files |-> << [name |-> "a", decls |-> <<"Thing">>, refs |-> << >>] >>],
  [name |-> "xb.billing.v1", files |-> << [name |-> "a", decls |-> <<"Thing">>, refs |-> << >>] >>],
  [name |-> "user.v1", files |-> << [name |-> "a", decls |-> <<"Holder">>, refs |-> << <<"xa.billing.v1", "Thing">>, <<"xb.billing.v1", "Thing", "short">> >>],
                                    [name |-> "b", decls |-> <<"Other">>,  refs |-> << <<"xb.billing.v1", "Thing">>, <<"xa.billing.v1", "Thing", "short">> >>] >>] >>
\* NOT a valid bundle: Thing is declared twice in aa.v1 (files a and c); ab.v1 refers to it
ShapeDup == <<
  [name |-> "aa.v1", files |-> << [name |-> "a", decls |-> <<"Thing">>, refs |-> << >>],
                                  [name |-> "c", decls |-> <<"Thing">>, refs |-> << >>] >>],
  [name |-> "ab.v1", files |-> << [name |-> "a", decls |-> <<"User">>, refs |-> << <<"aa.v1", "Thing">> >>] >>] >>
\* a package whose directory lies inside another package's directory (na/v1/sub/v1 under na/v1): which package a file
\* belongs to must not depend on the order in which the packages are listed
ShapeNested == <<
  [name |-> "na.v1", files |-> << [name |-> "a", decls |-> <<"Thing">>, refs |-> << >>],
                                  [name |-> "b", decls |-> <<"Other">>, refs |-> << <<"na.v1", "Thing">> >>] >>],
  [name |-> "na.v1.sub.v1", files |-> << [name |-> "a", decls |-> <<"Thing">>, refs |-> << <<"na.v1", "Thing">> >>],
                                         [name |-> "b", decls |-> <<"Leaf">>, refs |-> << <<"na.v1.sub.v1", "Thing">> >>] >>] >>
=============================================================================
