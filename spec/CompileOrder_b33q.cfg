SPECIFICATION Spec
CONSTANTS
  Shape <- Shape33
  BundleName = "b33q"
  Valid = TRUE
  MaxCompiles = 3
  MaxNews = 1
  SortFiles = TRUE
  PermuteFiles = FALSE
  EmitCases = TRUE
INVARIANTS TypeOK CacheSound HistoryIndependent Emit
CHECK_DEADLOCK FALSE
