----------------------------- MODULE J5ValidateMC -----------------------------
EXTENDS J5Validate
KindsV    == {"string", "int32", "int64", "uint32", "uint64", "bool", "bytes", "enum", "key", "key_id62", "key_uuid", "key_custom"}
KindsInt  == {"int32", "int64", "uint32", "uint64"}
CardsSA   == {"single", "array"}
CardsS    == {"single"}
CardsA    == {"array"}
PressAll  == {"implicit", "required", "optional"}
PressIR   == {"implicit", "required"}
IntLoQ == {0, 2}
IntHiQ == {5}
IntLoT == {0, 2}
IntHiT == {0, 5}
LenLoQ == {0, 2, 3}      \* 3 = LenHiQ: an exact length (min = max)
LenHiQ == {3}
LenLoT == {0, 1, 2, 3}
LenHiT == {0, 3}
CntLoQ == {0, 1, 2}      \* 2 = CntHiQ: an exact count, and a lower bound above the 1 that `required` implies
CntHiQ == {2}
CntLoT == {0, 1, 2}
CntHiT == {0, 2}
=============================================================================
