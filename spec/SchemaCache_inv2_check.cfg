SPECIFICATION Spec
CONSTANTS
  Procs <- P2
  Types <- InvTypes
  ChildSeq <- InvChild
  Invalid <- InvInvalid
  Pkg <- InvPkg
  CallChoices <- InvCalls2
  Guard = "mutex"
  Mode = "check"
INVARIANTS TypeOK MutualExclusion NoDataRace SameAsAlone BuiltOnce NoPlaceholderVisible RejectedNeverCached
PROPERTIES Termination
CHECK_DEADLOCK TRUE
