---------------------------- MODULE CompileOrder ----------------------------
(***************************************************************************)
(* protobuild.PackageSet as a HISTORY-INDEPENDENT CACHE (property C14).    *)
(*                                                                         *)
(* A PackageSet is created over a file source (NewSet) whose listing of    *)
(* packages and of each package's files may come in any order; then        *)
(* CompilePackage(p) calls arrive in any order.  A call loads p and,       *)
(* transitively, the packages its files refer to (in Go map-iteration      *)
(* order: nondeterministic here), remembers them (ps.Packages), builds     *)
(* each package's export table by walking its files IN LISTING ORDER       *)
(* (pkg.Exports[name] = typeRef: the last file listed wins), converts the  *)
(* files, and links the package's files sorted by name, remembering linked *)
(* files (result.Linked).  The property: the output of Compile(p) is a     *)
(* function of the file set only, not of the listing, the earlier calls,   *)
(* the load order, or whether the set is fresh.                            *)
(*                                                                         *)
(* The model's output of a file is abstract: its declarations and, for     *)
(* every reference <<pkg, type>>, the FILE the export table resolves it    *)
(* to (that file becomes an import of the output).  With a type name       *)
(* declared in two files of one package the export table depends on the    *)
(* listing: TLC shows the leak (configuration *_dup), which is why such a   *)
(* bundle must be (and is) rejected at link time; with SortFiles = FALSE    *)
(* the result order follows map iteration and TLC shows that leak too.     *)
(***************************************************************************)
EXTENDS Integers, Sequences, FiniteSets, TLC, Json

CONSTANTS
    Shape,        \* <<[name |-> pkg, files |-> <<[name |-> f, decls |-> <<type...>>, refs |-> << <<pkg, type>>... >>]...>>]...>>
    BundleName,   \* label carried into the cases
    Valid,        \* FALSE for shapes that are not valid bundles (duplicate type in one package)
    MaxCompiles,  \* CompilePackage calls per history
    MaxNews,      \* NewPackageSet calls per history (the 2nd and later keep the listing: "fresh vs reused set")
    SortFiles,    \* TRUE: CompilePackage sorts the file names before linking (what the code does)
    PermuteFiles, \* TRUE: NewSet may list each package's files in any order (else sorted)
    EmitCases

VARIABLES
    pkgListing,   \* what ListPackages returns
    listing,      \* pkg -> what ListSourceFiles returns
    loaded,       \* ps.Packages (set of package names)
    exports,      \* pkg -> [type -> file], built at load time
    linked,       \* files with a cached link result
    hist,         \* the calls so far
    outs,         \* <<[p, out]>> one per Compile call
    news, compiles

vars == <<pkgListing, listing, loaded, exports, linked, hist, outs, news, compiles>>

Idx(s) == 1..Len(s)
Range(s) == { s[i] : i \in Idx(s) }
PkgNames == { Shape[i].name : i \in Idx(Shape) }
PkgRec(p) == CHOOSE r \in Range(Shape) : r.name = p
FileNames(p) == { f.name : f \in Range(PkgRec(p).files) }
FileRec(p, fn) == CHOOSE f \in Range(PkgRec(p).files) : f.name = fn
Deps(p) == { r[1] : r \in UNION { Range(f.refs) : f \in Range(PkgRec(p).files) } } \ {p}

Perms(S) == { s \in [1..Cardinality(S) -> S] : \A i, j \in 1..Cardinality(S) : i # j => s[i] # s[j] }

\* strings are opaque in TLC; file and package names are ordered by their position in Shape
PkgPos(p) == CHOOSE i \in Idx(Shape) : Shape[i].name = p
FilePos(p, fn) == CHOOSE i \in Idx(PkgRec(p).files) : PkgRec(p).files[i].name = fn
SortedFiles(p) == [i \in Idx(PkgRec(p).files) |-> PkgRec(p).files[i].name]
SortedPkgs == [i \in Idx(Shape) |-> Shape[i].name]

\* pkg.Exports as built by includeIO over the files in listing order: the last file that declares a name wins
RECURSIVE ExportsFrom(_, _, _)
ExportsFrom(p, files, acc) ==
    IF files = <<>> THEN acc
    ELSE LET f == FileRec(p, files[1])
             acc2 == [t \in DOMAIN acc \cup Range(f.decls) |-> IF t \in Range(f.decls) THEN f.name ELSE acc[t]]
         IN ExportsFrom(p, Tail(files), acc2)
ExportsOf(p, ls) == ExportsFrom(p, ls, [t \in {} |-> ""])

RECURSIVE Closure(_)
Closure(S) == LET n == S \cup UNION { Deps(p) : p \in S } IN IF n = S THEN S ELSE Closure(n)

\* the abstract output of one file under an export table
FileOut(p, fn, ex) ==
    LET f == FileRec(p, fn)
        res == [i \in Idx(f.refs) |-> <<f.refs[i][1], f.refs[i][2],
                                        IF f.refs[i][2] \in DOMAIN ex[f.refs[i][1]] THEN ex[f.refs[i][1]][f.refs[i][2]] ELSE "unresolved">>]
    IN [file |-> fn, decls |-> f.decls, refs |-> res, imports |-> { <<r[1], r[3]>> : r \in Range(res) } \ {<<p, fn>>}]

Output(p, order, ex) == [i \in Idx(order) |-> FileOut(p, order[i], ex)]

\* the reference: a fresh set with the sorted listing
CanonExports == [p \in PkgNames |-> ExportsOf(p, SortedFiles(p))]
Canon(p) == Output(p, SortedFiles(p), CanonExports)

Init ==
    /\ pkgListing = <<>> /\ listing = [p \in PkgNames |-> <<>>]
    /\ loaded = {} /\ exports = [p \in PkgNames |-> [t \in {} |-> ""]] /\ linked = {}
    /\ hist = <<>> /\ outs = <<>> /\ news = 0 /\ compiles = 0

NewSet ==
    /\ news < MaxNews
    /\ \/ /\ news = 0
          /\ pkgListing' \in Perms(PkgNames)
          /\ listing' \in { l \in [PkgNames -> UNION { Perms(FileNames(p)) : p \in PkgNames }] :
                             \A p \in PkgNames : /\ l[p] \in Perms(FileNames(p))
                                                 /\ (PermuteFiles \/ l[p] = SortedFiles(p)) }
       \/ /\ news > 0 /\ compiles > 0 /\ hist[Len(hist)].op = "compile"
          /\ UNCHANGED <<pkgListing, listing>>
    /\ loaded' = {} /\ linked' = {}
    /\ exports' = [p \in PkgNames |-> [t \in {} |-> ""]]
    /\ news' = news + 1
    /\ hist' = Append(hist, [op |-> "new", p |-> "", pkgListing |-> pkgListing', listing |-> listing', loads |-> <<>>])
    /\ UNCHANGED <<outs, compiles>>

Compile(p) ==
    /\ news > 0 /\ compiles < MaxCompiles
    /\ LET need == Closure({p}) \ loaded IN
       \E ord \in Perms(need) :          \* dependency-driven loads happen in map-iteration order
         LET ex2 == [q \in PkgNames |-> IF q \in need THEN ExportsOf(q, listing[q]) ELSE exports[q]] IN
         /\ loaded' = loaded \cup need
         /\ exports' = ex2
         /\ \E order \in (IF SortFiles THEN {SortedFiles(p)} ELSE Perms(FileNames(p))) :
              /\ outs' = Append(outs, [p |-> p, out |-> Output(p, order, ex2)])
         /\ linked' = linked \cup { <<p, fn>> : fn \in FileNames(p) }
                             \cup UNION { { <<r[1], r[3]>> : r \in Range(FileOut(p, fn, ex2).refs) } : fn \in FileNames(p) }
         /\ hist' = Append(hist, [op |-> "compile", p |-> p, pkgListing |-> <<>>, listing |-> [q \in PkgNames |-> <<>>], loads |-> ord])
    /\ compiles' = compiles + 1
    /\ UNCHANGED <<pkgListing, listing, news>>

Next == NewSet \/ \E p \in PkgNames : Compile(p)
Spec == Init /\ [][Next]_vars

TypeOK == /\ loaded \subseteq PkgNames /\ Len(outs) = compiles

\* C14 on the model: every output equals the canonical output of its package
HistoryIndependent == \A i \in Idx(outs) : outs[i].out = Canon(outs[i].p)

\* the caches only grow between NewSet calls and never hold a package that was not needed
CacheSound == \A p \in loaded : \E i \in Idx(hist) : hist[i].op = "compile" /\ p \in Closure({hist[i].p})

Done == compiles = MaxCompiles

Emit ==
    (EmitCases /\ Done) =>
        PrintT(<<"CASE", ToJson([bundle |-> BundleName, valid |-> Valid, shape |-> Shape,
                                 calls |-> [i \in Idx(hist) |-> [op |-> hist[i].op, p |-> hist[i].p, pkgListing |-> hist[i].pkgListing,
                                                                  listing |-> hist[i].listing, loads |-> hist[i].loads]]])>>)
=============================================================================
