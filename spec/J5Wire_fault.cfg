SPECIFICATION Spec
CONSTANTS
  Mode = "fault"
  Kinds <- KindsAll
  Cards <- CardsAll
  Positions <- PositionsAll
  Pairs = FALSE
  Combos = FALSE
  EmitCases = TRUE
INVARIANTS TypeOK ReprTotal FaultRejected FaultNotSpelling Emit
PROPERTIES Progress
CHECK_DEADLOCK FALSE
