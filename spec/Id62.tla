------------------------------- MODULE Id62 -------------------------------
(***************************************************************************)
(* lib/id62: 128-bit identifiers rendered as 22 base-62 digits.            *)
(*                                                                         *)
(* TLC has 32-bit integers, so an identifier is a big-endian sequence of   *)
(* base-256 digits and the conversions are the schoolbook algorithms,      *)
(* taken one digit per step: Render is repeated division by 62 (what       *)
(* big.Int.Text does), Parse is Horner evaluation (what big.Int.SetString  *)
(* does), followed by the width check and left padding of parseBase62.     *)
(*                                                                         *)
(* The input is chosen on demand (ChooseByte / ChooseChar), so the state   *)
(* graph is the behaviour over all inputs of the configured pool, and      *)
(* -simulate draws uniformly random identifiers.                           *)
(***************************************************************************)
EXTENDS Integers, Sequences, FiniteSets, TLC, Json

CONSTANTS
    Mode,       \* "boundary": Init ranges over BoundaryIds; "random": bytes chosen on demand;
                \* "strings": parser input chosen on demand from CharPool
    BytePool,   \* bytes ChooseByte may pick ("random" mode)
    CharPool,   \* parser input atoms ("strings" mode): 0..61 digit values; 100 minus, 101 plus, 102 underscore,
                \* 103 space, 104 non-ASCII letter, 105 dot, 106 NUL (all integers: TLC cannot compare int with string)
    MinStr,     \* minimum parser input length (biases simulation toward long inputs)
    MaxStr,     \* maximum parser input length
    EmitCases   \* TRUE: print one JSON case per terminal state

MINUS == 100
PLUS == 101
W  == 16            \* identifier width in bytes
AW == 24            \* accumulator width (62^30 < 256^24)
ND == 22            \* rendered width

VARIABLES
    phase,   \* "choose" | "render" | "parse" | "done"
    kind,    \* "id" | "str"
    id,      \* chosen identifier bytes (big endian), grows to W
    work,    \* Render: remaining quotient (W bytes)
    digits,  \* Render output so far, most significant first (values 0..61)
    inp,     \* parser input atoms
    pos,     \* parser position (1-based, next atom to read)
    sign,    \* 0 | MINUS | PLUS
    acc,     \* parser accumulator (AW bytes)
    verdict, \* "" | "ok" | "bad-char" | "empty" | "too-large"
    back     \* parse result (W bytes) when verdict = "ok"

vars == <<phase, kind, id, work, digits, inp, pos, sign, acc, verdict, back>>

Zero(n) == [i \in 1..n |-> 0]
IsZero(s) == \A i \in 1..Len(s) : s[i] = 0

(* -------- bignum helpers over big-endian base-256 sequences ---------- *)

\* <<quotient, remainder>> of s by 62, long division from the most significant digit.
RECURSIVE DivFrom(_, _, _, _)
DivFrom(s, i, r, q) ==
    IF i > Len(s) THEN <<q, r>>
    ELSE LET cur == r * 256 + s[i]
         IN DivFrom(s, i + 1, cur % 62, Append(q, cur \div 62))
DivMod62(s) == DivFrom(s, 1, 0, <<>>)

\* s * m + a, from the least significant digit; <<result, carryOut>>
RECURSIVE MulAddFrom(_, _, _, _, _)
MulAddFrom(s, i, m, carry, out) ==
    IF i = 0 THEN <<out, carry>>
    ELSE LET cur == s[i] * m + carry
         IN MulAddFrom(s, i - 1, m, cur \div 256, <<cur % 256>> \o out)
MulAdd(s, m, a) == MulAddFrom(s, Len(s), m, a, <<>>)

\* Horner over a digit sequence into a width-n accumulator; <<value, overflowed>>
RECURSIVE HornerFrom(_, _, _, _)
HornerFrom(ds, i, a, ovf) ==
    IF i > Len(ds) THEN <<a, ovf>>
    ELSE LET r == MulAdd(a, 62, ds[i])
         IN HornerFrom(ds, i + 1, r[1], ovf \/ r[2] # 0)
Horner(ds, n) == HornerFrom(ds, 1, Zero(n), FALSE)

\* full rendering as an operator (used by the trace specification and the invariants)
RECURSIVE RenderFrom(_, _, _)
RenderFrom(w, k, out) ==
    IF k = 0 THEN <<out, w>>
    ELSE LET dm == DivMod62(w) IN RenderFrom(dm[1], k - 1, <<dm[2]>> \o out)
Render(x) == RenderFrom(x, ND, <<>>)[1]
RenderOf(x) == Render(x)
RenderRest(x) == RenderFrom(x, ND, <<>>)[2]

Fits(a) == \A i \in 1..(AW - W) : a[i] = 0        \* value < 2^128
Low(a) == [i \in 1..W |-> a[AW - W + i]]

(* -------- boundary identifiers ------------------------------------- *)

Pow2(k) == IF k = 0 THEN 1 ELSE IF k = 1 THEN 2 ELSE IF k = 2 THEN 4 ELSE IF k = 3 THEN 8
           ELSE IF k = 4 THEN 16 ELSE IF k = 5 THEN 32 ELSE IF k = 6 THEN 64 ELSE 128

SingleBit == { [i \in 1..W |-> IF i = b THEN Pow2(k) ELSE 0] : b \in 1..W, k \in 0..7 }
LeadZero  == { [i \in 1..W |-> IF i <= n THEN 0 ELSE 255] : n \in 0..W }
            \cup { [i \in 1..W |-> IF i <= n THEN 0 ELSE IF i = n + 1 THEN 1 ELSE 0] : n \in 0..(W-1) }
            \cup { [i \in 1..W |-> IF i <= n THEN 255 ELSE 0] : n \in 0..W }

RECURSIVE Pow62(_)
Pow62(k) == IF k = 0 THEN [i \in 1..W |-> IF i = W THEN 1 ELSE 0]
            ELSE MulAdd(Pow62(k - 1), 62, 0)[1]

RECURSIVE IncFrom(_, _)
IncFrom(s, i) == IF i = 0 THEN s
                 ELSE IF s[i] = 255 THEN IncFrom([s EXCEPT ![i] = 0], i - 1)
                 ELSE [s EXCEPT ![i] = s[i] + 1]
Inc(s) == IncFrom(s, Len(s))
RECURSIVE DecFrom(_, _)
DecFrom(s, i) == IF i = 0 THEN s
                 ELSE IF s[i] = 0 THEN DecFrom([s EXCEPT ![i] = 255], i - 1)
                 ELSE [s EXCEPT ![i] = s[i] - 1]
Dec(s) == DecFrom(s, Len(s))

Powers == UNION { {Pow62(k), Inc(Pow62(k)), Dec(Pow62(k))} : k \in 0..21 }

BoundaryIds == SingleBit \cup LeadZero \cup Powers

\* base-62 increment of a digit string (may carry out of the top digit: then a 1 is prepended)
RECURSIVE IncDigFrom(_, _)
IncDigFrom(s, i) == IF i = 0 THEN <<1>> \o s
                    ELSE IF s[i] = 61 THEN IncDigFrom([s EXCEPT ![i] = 0], i - 1)
                    ELSE [s EXCEPT ![i] = s[i] + 1]
IncDig(s) == IncDigFrom(s, Len(s))

\* parser inputs around 2^128 and with redundant leading zeros / signs
MaxId == [i \in 1..W |-> 255]
BoundaryStrings ==
    LET top == RenderOf(MaxId)
        base == {top, IncDig(top), IncDig(IncDig(top)), [i \in 1..ND |-> 61], [i \in 1..(ND+1) |-> 0],
                 <<1>> \o [i \in 1..ND |-> 0], [i \in 1..(ND-1) |-> 61], <<0>>, <<61>>}
                \cup { RenderOf(x) : x \in Powers }
                \* strings shaped like OTHER renderings of 16 bytes (32 hexadecimal digits, with and without the dashes of the
                \* canonical UUID text): hexadecimal digits are base-62 digits too, so these are ordinary parser inputs -
                \* 32 x "f" does not fit in 16 bytes, 0...010 is the padded rendering of 62, "F" and "f" are different digits
                \cup { [i \in 1..32 |-> d] : d \in {15, 41, 1} }
                \cup { [i \in 1..32 |-> IF i = 31 THEN 1 ELSE 0], [i \in 1..32 |-> IF i = 1 THEN 10 ELSE 0], [i \in 1..32 |-> 0] }
                \cup { [i \in 1..36 |-> IF i \in {9, 14, 19, 24} THEN MINUS ELSE d] : d \in {15, 0} }
    IN base \cup { <<0>> \o s : s \in base } \cup { <<MINUS>> \o s : s \in base } \cup { <<PLUS>> \o s : s \in base }
            \cup { s \o <<102>> : s \in base } \cup { <<PLUS, MINUS>> \o s : s \in base }

(* -------- the machine ----------------------------------------------- *)

Init ==
    /\ digits = <<>> /\ pos = 1 /\ sign = 0 /\ acc = Zero(AW)
    /\ verdict = "" /\ back = <<>>
    /\ \/ /\ Mode = "boundary" /\ kind = "id" /\ phase = "render"
          /\ id \in BoundaryIds /\ work = id /\ inp = <<>>
       \/ /\ Mode = "random" /\ kind = "id" /\ phase = "choose" /\ id = <<>> /\ work = <<>> /\ inp = <<>>
       \/ /\ Mode = "strings" /\ kind = "str" /\ phase = "choose" /\ id = <<>> /\ work = <<>> /\ inp = <<>>
       \/ /\ Mode = "strbound" /\ kind = "str" /\ phase = "parse" /\ id = <<>> /\ work = <<>>
          /\ inp \in BoundaryStrings

ChooseByte(b) ==
    /\ phase = "choose" /\ kind = "id" /\ Len(id) < W
    /\ id' = Append(id, b)
    /\ UNCHANGED <<phase, kind, work, digits, inp, pos, sign, acc, verdict, back>>

StartRender ==
    /\ phase = "choose" /\ kind = "id" /\ Len(id) = W
    /\ phase' = "render" /\ work' = id
    /\ UNCHANGED <<kind, id, digits, inp, pos, sign, acc, verdict, back>>

\* one division step of big.Int.Text(62); the %022s padding is the steps taken once work is zero
DivStep ==
    /\ phase = "render" /\ Len(digits) < ND
    /\ LET dm == DivMod62(work) IN
         /\ work' = dm[1]
         /\ digits' = <<dm[2]>> \o digits
    /\ UNCHANGED <<phase, kind, id, inp, pos, sign, acc, verdict, back>>

\* String() returns; the round trip feeds the rendering to Parse
FinishRender ==
    /\ phase = "render" /\ Len(digits) = ND
    /\ phase' = "parse" /\ inp' = digits
    /\ UNCHANGED <<kind, id, work, digits, pos, sign, acc, verdict, back>>

ChooseChar(c) ==
    /\ phase = "choose" /\ kind = "str" /\ Len(inp) < MaxStr
    /\ inp' = Append(inp, c)
    /\ UNCHANGED <<phase, kind, id, work, digits, pos, sign, acc, verdict, back>>

StartParse ==
    /\ phase = "choose" /\ kind = "str" /\ Len(inp) >= MinStr
    /\ phase' = "parse"
    /\ UNCHANGED <<kind, id, work, digits, inp, pos, sign, acc, verdict, back>>

IsDigit(c) == c \in 0..61

\* big.Int.SetString accepts one leading sign
ParseSign ==
    /\ phase = "parse" /\ verdict = "" /\ pos = 1 /\ sign = 0 /\ Len(inp) >= 1
    /\ inp[1] \in {MINUS, PLUS}
    /\ sign' = inp[1] /\ pos' = 2
    /\ UNCHANGED <<phase, kind, id, work, digits, inp, acc, verdict, back>>

ParseDigit ==
    /\ phase = "parse" /\ verdict = "" /\ pos <= Len(inp)
    /\ ~(pos = 1 /\ sign = 0 /\ inp[1] \in {MINUS, PLUS})
    /\ IF IsDigit(inp[pos])
       THEN LET r == MulAdd(acc, 62, inp[pos]) IN
              \* (a value that no longer fits the accumulator stays too large: saturate instead of wrapping)
              /\ acc' = (IF r[2] # 0 THEN [i \in 1..AW |-> 255] ELSE r[1]) /\ pos' = pos + 1 /\ UNCHANGED verdict
       ELSE /\ verdict' = "bad-char" /\ UNCHANGED <<acc, pos>>
    /\ UNCHANGED <<phase, kind, id, work, digits, inp, sign, back>>

ParseEnd ==
    /\ phase = "parse" /\ verdict = "" /\ pos > Len(inp)
    /\ IF pos = 1 \/ (sign # 0 /\ pos = 2)
       THEN verdict' = "empty" /\ back' = <<>>
       ELSE IF Fits(acc)
            THEN verdict' = "ok" /\ back' = Low(acc)
            ELSE verdict' = "too-large" /\ back' = <<>>
    /\ UNCHANGED <<phase, kind, id, work, digits, inp, pos, sign, acc>>

Finish ==
    /\ phase = "parse" /\ verdict # ""
    /\ phase' = "done"
    /\ UNCHANGED <<kind, id, work, digits, inp, pos, sign, acc, verdict, back>>

Next ==
    \/ \E b \in BytePool : ChooseByte(b)
    \/ StartRender \/ DivStep \/ FinishRender
    \/ \E c \in CharPool : ChooseChar(c)
    \/ StartParse \/ ParseSign \/ ParseDigit \/ ParseEnd \/ Finish

Spec == Init /\ [][Next]_vars

(* -------- properties on the model ----------------------------------- *)

TypeOK ==
    /\ phase \in {"choose", "render", "parse", "done"}
    /\ Len(digits) <= ND /\ \A i \in 1..Len(digits) : digits[i] \in 0..61

\* 62^22 > 2^128: after 22 division steps nothing is left (String() can never panic "too large")
RenderFits == (kind = "id" /\ phase \in {"parse", "done"}) => (Len(digits) = ND /\ IsZero(work))

\* Parse(String(x)) = x
RoundTrip == (kind = "id" /\ phase = "done") => (verdict = "ok" /\ back = id)

\* a parsed string denotes a 128-bit value whose rendering parses back to it;
\* an unsigned 22-digit accepted string is the rendering of its value (bijection on the image)
ParseSound ==
    (kind = "str" /\ phase = "done" /\ verdict = "ok") =>
        /\ Horner(Render(back), AW)[1] = acc
        /\ (sign = 0 /\ Len(inp) = ND) => Render(back) = inp

\* values >= 2^128 are rejected
RejectLarge == (phase = "done" /\ verdict = "ok") => Fits(acc)

Progress == [][pos' >= pos /\ Len(digits') >= Len(digits) /\ Len(id') >= Len(id) /\ Len(inp') >= Len(inp)]_vars

Emit ==
    (EmitCases /\ phase = "done") =>
        PrintT(<<"CASE", ToJson([kind |-> kind, id |-> id, digits |-> digits, inp |-> inp,
                                 verdict |-> verdict, back |-> back, sign |-> sign])>>)

View == <<phase, kind, id, work, digits, inp, pos, sign, acc, verdict, back>>

=============================================================================
