SPECIFICATION Spec
CONSTANTS
  Mode = "focus"
  Guard = TRUE
  EmitCases = TRUE
  MaxMsgs = 2
  MaxEnums = 1
  MaxFocus = 1
  MaxAnns = 1
  ScalarKinds <- KindsPair
  WktAtoms <- WktPair
  Cards <- CardsOne
  MapKeys <- KeysString
  OneofSels <- SelsAll
  OneofOpts <- OneofOptsNone
  MsgOpts <- MsgOptsNone
  EnumOpts <- EnumOptsNone
  RecForms <- RecAll
  ValidateAnns <- None
  J5Anns <- None
  ListAnns <- None
  PsmAnns <- None
  MismatchAnns <- None
INVARIANTS TypeOK NoReenter EntersBounded StackBounded StepsBounded BuiltLinked OneResultPerRun Emit
CHECK_DEADLOCK TRUE
