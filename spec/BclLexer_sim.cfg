SPECIFICATION Spec
CONSTANTS
  MaxLen = 40
  Sym <- SymFull
  FailFastChoices <- BothFF
  EmitCases = TRUE
INVARIANTS PosInBounds TokensOrdered FailFastOne Emit
PROPERTIES Progress
CHECK_DEADLOCK FALSE
