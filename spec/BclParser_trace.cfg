SPECIFICATION TraceSpec
CONSTANTS
  MaxToks = 0
  MaxDepth = 8
  Atoms <- NoAtoms
  FailFastChoices <- BothFF
  Prune = FALSE
  PruneReps <- NoAtoms
  EmitCases = FALSE
INVARIANTS LawTreeXorDiag LawSpans TraceDone
CHECK_DEADLOCK FALSE
