SPECIFICATION Spec
CONSTANTS
  Roots = {"a.v1", "b.v1", "c.v1"}
  Subs = {"", "service", "topic"}
  MaxRefs = 2
  EmitCases = TRUE
INVARIANTS TypeOK Closed ParentListed NamedDirect IndirectMinimal OrderIndependent ListedExact Emit
CHECK_DEADLOCK FALSE
