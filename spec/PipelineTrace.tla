---------------------------- MODULE PipelineTrace ----------------------------
(***************************************************************************)
(* Direction T for C05 / C15 / C16: each event is one real run of the      *)
(* tool-chain on one program: [op |-> "pipeline", stages |-> [stage ->     *)
(* outcome], cls].  The recorded outcomes are replayed through Pipeline's  *)
(* Run action in stage order (a stage that ran although a prerequisite     *)
(* had not succeeded cannot be replayed: the trace is rejected), and the   *)
(* property predicates are tallied on every completed run.                 *)
(***************************************************************************)
EXTENDS Pipeline, Json, IOUtils

TraceFile == IF "VERIF_TRACE" \in DOMAIN IOEnv THEN IOEnv.VERIF_TRACE ELSE "trace.ndjson"
Trace == ndJsonDeserialize(TraceFile)

VARIABLES l, i, n05, n15, n16
tvars == <<vars, l, i, n05, n15, n16>>

TraceInit == Init /\ l = 1 /\ i = 1 /\ n05 = 0 /\ n15 = 0 /\ n16 = 0
Ev == Trace[l]

\* next recorded stage, in pipeline order
Step ==
    /\ l <= Len(Trace) /\ i <= Len(Stages)
    /\ IF Stages[i] \in DOMAIN Ev.stages
       THEN Run(Stages[i], Ev.stages[Stages[i]])
       ELSE UNCHANGED done
    /\ i' = i + 1 /\ UNCHANGED <<l, n05, n15, n16>>

Finish ==
    /\ l <= Len(Trace) /\ i > Len(Stages)
    /\ DOMAIN done = DOMAIN Ev.stages           \* every recorded stage was replayable
    /\ n05' = n05 + (IF C05Holds THEN 0 ELSE 1)
    /\ n15' = n15 + (IF C15Holds THEN 0 ELSE 1)
    /\ n16' = n16 + (IF C16Holds THEN 0 ELSE 1)
    /\ done' = [s \in {} |-> "ok"] /\ i' = 1 /\ l' = l + 1

TraceNext == Step \/ Finish
TraceSpec == TraceInit /\ [][TraceNext]_tvars

TraceDone ==
    (l = Len(Trace) + 1) => PrintT(<<"TRACEDONE", ToJson([events |-> l - 1, c05 |-> n05, c15 |-> n15, c16 |-> n16])>>)
=============================================================================
