----------------------------- MODULE BclReflow -----------------------------
(***************************************************************************)
(* Word-level model of the description re-flow of the BCL formatter        *)
(* (internal/bcl/internal/parser/description.go, reformatDescription):     *)
(* the text of a description is cut at single spaces into words, the words *)
(* of consecutive non-empty lines are filled greedily into lines, a word   *)
(* moves to the next line when  len(line) + len(word) > Width  (the        *)
(* joining space is not counted: a line may be Width + 1 long), an empty   *)
(* line ends the paragraph.  BclFmt.tla abstracts this to line classes;    *)
(* here the arithmetic is explicit, because idempotence (C09) and the      *)
(* equality of edits and formatter (C19) depend on where lines break.      *)
(*                                                                         *)
(* The input is built token by token (on-demand choice):                   *)
(*   <<"w", n>>   a word of n runes                                        *)
(*   <<"gap">>    one more space between two words (an EMPTY word for the  *)
(*                splitter)                                                *)
(*   <<"blank">>  a word made of white space only (TAB), which the lexer   *)
(*                drops at the start of a line and keeps nowhere else      *)
(*   <<"nl">>     end of the source line (next "| " line of the same       *)
(*                description)                                             *)
(*   <<"para">>   an empty "|" line                                        *)
(* Flow(toks) is the INTENDED result: only real words count.  The laws     *)
(* checked on the model are the ones the formatter has to satisfy on the   *)
(* real text: Idempotent, WordsPreserved, LinesFit.                        *)
(***************************************************************************)
EXTENDS Naturals, Sequences, TLC, Json

CONSTANTS
    Width,        \* 80 - 4 * indent
    Indent,       \* number of enclosing blocks (the harness wraps the description)
    WordLens,     \* word lengths to choose from
    MaxToks,      \* tokens per description
    EmitCases

VARIABLES toks, done
vars == <<toks, done>>

Word(n) == <<"w", n>>
IsWord(t) == t[1] = "w"

\* tokens that may follow: no two separators that would make an input the lexer reads differently
CanAdd(t) ==
    LET last == IF toks = <<>> THEN <<"start">> ELSE toks[Len(toks)] IN
    CASE t[1] = "w"     -> TRUE
      [] t[1] = "gap"   -> IsWord(last)                       \* extra space only after a word
      [] t[1] = "blank" -> IsWord(last)
      [] t[1] = "nl"    -> IsWord(last) \/ last[1] \in {"gap", "blank"}
      [] t[1] = "para"  -> last[1] = "nl"
      [] OTHER -> FALSE

Init == toks = <<>> /\ done = FALSE
Add(t) == ~done /\ Len(toks) < MaxToks /\ CanAdd(t) /\ toks' = Append(toks, t) /\ UNCHANGED done
Finish == ~done /\ toks # <<>> /\ (\E i \in 1..Len(toks) : IsWord(toks[i])) /\ done' = TRUE /\ UNCHANGED toks
Next == \/ \E n \in WordLens : Add(Word(n))
        \/ \E k \in {"gap", "blank", "nl", "para"} : Add(<<k>>)
        \/ Finish
Spec == Init /\ [][Next]_vars

(* ------------------------- the intended re-flow ------------------------- *)
\* paragraphs: sequences of word lengths, split at "para"
RECURSIVE Paras(_, _, _)
Paras(ts, i, cur) ==
    IF i > Len(ts) THEN (IF cur = <<>> THEN <<>> ELSE <<cur>>)
    ELSE IF ts[i][1] = "para" THEN (IF cur = <<>> THEN <<>> ELSE <<cur>>) \o Paras(ts, i + 1, <<>>)
    ELSE IF IsWord(ts[i]) THEN Paras(ts, i + 1, Append(cur, ts[i][2]))
    ELSE Paras(ts, i + 1, cur)

\* greedy fill of one paragraph: lines are sequences of word lengths
LineLen(l) == IF l = <<>> THEN 0 ELSE LET RECURSIVE S(_) S(i) == IF i > Len(l) THEN 0 ELSE l[i] + S(i + 1) IN S(1) + (Len(l) - 1)
RECURSIVE Fill(_, _, _)
Fill(ws, i, pend) ==
    IF i > Len(ws) THEN (IF pend = <<>> THEN <<>> ELSE <<pend>>)
    ELSE IF pend = <<>> THEN Fill(ws, i + 1, <<ws[i]>>)
    ELSE IF LineLen(pend) + ws[i] > Width THEN <<pend>> \o Fill(ws, i + 1, <<ws[i]>>)
    ELSE Fill(ws, i + 1, Append(pend, ws[i]))

\* the whole description: lines of the paragraphs, one empty line (<<>>) between paragraphs
RECURSIVE FlowParas(_, _)
FlowParas(ps, i) ==
    IF i > Len(ps) THEN <<>>
    ELSE (IF i > 1 THEN << <<>> >> ELSE <<>>) \o Fill(ps[i], 1, <<>>) \o FlowParas(ps, i + 1)
\* an empty line is kept (once) wherever it follows text, also as the last line of the description
LastWordAt(ts) == IF \E i \in 1..Len(ts) : IsWord(ts[i]) THEN CHOOSE i \in 1..Len(ts) : IsWord(ts[i]) /\ \A j \in (i + 1)..Len(ts) : ~IsWord(ts[j]) ELSE 0
TrailingPara(ts) == LastWordAt(ts) > 0 /\ \E j \in (LastWordAt(ts) + 1)..Len(ts) : ts[j][1] = "para"
Flow(ts) == FlowParas(Paras(ts, 1, <<>>), 1) \o (IF TrailingPara(ts) THEN << <<>> >> ELSE <<>>)

\* the output read as an input again: one source line per output line
RECURSIVE AsToks(_, _)
AsToks(ls, i) ==
    IF i > Len(ls) THEN <<>>
    ELSE (IF ls[i] = <<>> THEN << <<"para">> >>
          ELSE [k \in 1..Len(ls[i]) |-> Word(ls[i][k])] \o << <<"nl">> >>) \o AsToks(ls, i + 1)

RECURSIVE AllWords(_, _)
AllWords(ls, i) == IF i > Len(ls) THEN <<>> ELSE ls[i] \o AllWords(ls, i + 1)
WordsOf(ts) == AllWords(Paras(ts, 1, <<>>), 1)

(* ------------------------------- laws ---------------------------------- *)
Idempotent == done => Flow(AsToks(Flow(toks), 1)) = Flow(toks)
WordsPreserved == done => AllWords(Flow(toks), 1) = WordsOf(toks)
\* a line is longer than Width + 1 only if it is a single word
LinesFit == done => \A i \in 1..Len(Flow(toks)) : LET l == Flow(toks)[i] IN Len(l) > 1 => LineLen(l) <= Width + 1

TypeOK == /\ done \in BOOLEAN /\ Len(toks) <= MaxToks

Emit == (done /\ EmitCases) =>
            PrintT(<<"CASE", ToJson([indent |-> Indent, width |-> Width, toks |-> toks, lines |-> Flow(toks)])>>)
=============================================================================
