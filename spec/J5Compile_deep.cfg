SPECIFICATION Spec
CONSTANTS
  Bases <- BasesSingle
  MaxSteps = 4
  MaxFocus = 1
  Focused = TRUE
  Breadth = "full"
  MaxFields = 3
  MaxDecls = 4
  MaxFiles = 2
  MaxPkgs = 2
  EmitLeavesOnly = FALSE
  EmitCases = TRUE
INVARIANTS NumbersContiguous EnumNumbersContiguous NamesUniquePerScope ImportsSufficient Emit
PROPERTIES AppendStable
CHECK_DEADLOCK FALSE
