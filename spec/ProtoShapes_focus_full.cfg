SPECIFICATION Spec
CONSTANTS
  Mode = "focus"
  Guard = TRUE
  EmitCases = TRUE
  MaxMsgs = 2
  MaxEnums = 1
  MaxFocus = 1
  MaxAnns = 1
  ScalarKinds <- AllScalarKinds
  WktAtoms <- AllWkt
  Cards <- CardsAll
  MapKeys <- KeysString
  OneofSels <- SelsTwo
  OneofOpts <- OneofOptsTwo
  MsgOpts <- MsgOptsNone
  EnumOpts <- EnumOptsNone
  RecForms <- RecAll
  ValidateAnns <- ValidateAll
  J5Anns <- J5All
  ListAnns <- ListAll
  PsmAnns <- PsmAll
  MismatchAnns <- MismatchReps
INVARIANTS TypeOK NoReenter EntersBounded StackBounded StepsBounded BuiltLinked OneResultPerRun Emit
CHECK_DEADLOCK TRUE
