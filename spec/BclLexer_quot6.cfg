SPECIFICATION Spec
CONSTANTS
  MaxLen = 6
  Sym <- SymQuot
  FailFastChoices <- OnlyCollect
  EmitCases = TRUE
INVARIANTS PosInBounds TokensOrdered FailFastOne Emit
PROPERTIES Progress
CHECK_DEADLOCK FALSE
