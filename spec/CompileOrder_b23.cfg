SPECIFICATION Spec
CONSTANTS
  Shape <- Shape23
  BundleName = "b23"
  Valid = TRUE
  MaxCompiles = 3
  MaxNews = 2
  SortFiles = TRUE
  PermuteFiles = TRUE
  EmitCases = TRUE
INVARIANTS TypeOK CacheSound HistoryIndependent Emit
CHECK_DEADLOCK FALSE
