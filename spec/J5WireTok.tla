------------------------------ MODULE J5WireTok ------------------------------
(***************************************************************************)
(* C06: a token-level model of the J5 JSON decoder (internal/codec/        *)
(* decoder.go) as a pushdown machine, used to show that the decoder's      *)
(* design is TOTAL: in every control state there is an action for every    *)
(* JSON token class (delimiters, strings by role, number, bool, null,      *)
(* truncation = EOF, malformed token), and to generate - on demand, token  *)
(* by token - the bounded space of token sequences that is replayed into   *)
(* the real decoder.                                                       *)
(*                                                                         *)
(* Target type "Uni" (harness/wire_tok.go builds it): one property per     *)
(* decoder path                                                            *)
(*   s string   n int32   e enum   o object:Uni (recursive)   w oneof:W    *)
(*   as array:string  ae array:enum  ao array:Uni  aw array:W              *)
(*   ms map:string    me map:enum    mo map:Uni    mw map:W                *)
(*   y any      fl object:F flattened (client key "fa")                    *)
(*   oneof W { wa object:Uni ; ws string }                                 *)
(*                                                                         *)
(* Control state = a stack of frames (one per open JSON container, with    *)
(* the decoder function that owns it) + what the decoder reads next.       *)
(* Outcome "ok" | "err" is the model's prediction; property C06 itself is  *)
(* only "the real call returns" (prediction mismatches are drift).  Where  *)
(* the code swallows a scalar parse error (a quoted non-number in an       *)
(* integer property is accepted and dropped) the model does what the code  *)
(* does; C03 owns that defect.                                             *)
(*                                                                         *)
(* Second mode "query": url.Values chosen as (dotted path, values).        *)
(***************************************************************************)
EXTENDS Integers, Sequences, FiniteSets, TLC, Json

CONSTANTS
    TMode,      \* "tok" | "query"
    MaxToks,    \* maximum number of tokens before the forced EOF (query mode: maximum path length)
    MinToks,    \* simulation bias: no terminating token before this many tokens (0 in the exhaustive configurations)
    Strs,       \* pool of string tokens (keys and values share it, as in the real token stream)
    EmitCases

\* token classes
Delims == {"{", "}", "[", "]"}
Others == {"NUM", "BOOL", "NULL", "EOF", "BAD"}
StrTok(s) == "S:" \o s
Tokens == Delims \cup Others \cup { StrTok(s) : s \in Strs }
IsStr(t) == t \notin Delims \cup Others
StrOf(t) == CHOOSE s \in Strs : StrTok(s) = t

\* property class of a key inside an object of type Uni ("" = no such field)
FieldClass(k) ==
    CASE k = "s" -> "sc-str" [] k = "fa" -> "sc-str" [] k = "n" -> "sc-num" [] k = "e" -> "en"
      [] k = "o" -> "O" [] k = "w" -> "W" [] k = "y" -> "Y"
      [] k = "as" -> "A:sc-str" [] k = "ae" -> "A:en" [] k = "ao" -> "A:O" [] k = "aw" -> "A:W"
      [] k = "ms" -> "M:sc-str" [] k = "me" -> "M:en" [] k = "mo" -> "M:O" [] k = "mw" -> "M:W"
      [] OTHER -> ""
ArmClass(k) == CASE k = "wa" -> "O" [] k = "ws" -> "sc-str" [] OTHER -> ""
ItemOf(c) == CASE c = "A:sc-str" -> "sc-str" [] c = "A:en" -> "en" [] c = "A:O" -> "O" [] c = "A:W" -> "W"
               [] c = "M:sc-str" -> "sc-str" [] c = "M:en" -> "en" [] c = "M:O" -> "O" [] c = "M:W" -> "W" [] OTHER -> ""
IsArr(c) == c \in {"A:sc-str", "A:en", "A:O", "A:W"}
IsMap(c) == c \in {"M:sc-str", "M:en", "M:O", "M:W"}

VARIABLES
    stack,   \* frames [c, set, k, nf, fk, ty, hv]: context, keys already set, pending key, oneof: arm keys found / first arm key / "!type" seen; any: has value
    exp,     \* "root" | "key" | "val" | "elem" | "tyval" | "raw" | "done"
    cur,     \* class of the value being read (exp = "val" / "elem")
    where,   \* "prop" | "elem" | "mapv": whose value it is (null handling differs per call site)
    dup,     \* the pending key was already set in this frame (CreateField will fail on a non-null value)
    rstk,    \* exp = "raw": bracket stack of the raw value being skipped (Any payload)
    rexp,    \* exp = "raw": "val" | "key" | "colonval"
    toks,    \* tokens chosen so far
    status,  \* "run" | "ok" | "err"
    why,     \* label of the terminating rule
    \* query mode
    qpath, qvals

vars == <<stack, exp, cur, where, dup, rstk, rexp, toks, status, why, qpath, qvals>>

Frame(c) == [c |-> c, set |-> {}, k |-> "", nf |-> 0, fk |-> "", ty |-> "", hv |-> FALSE]
Top == stack[Len(stack)]
SetTop(f) == [stack EXCEPT ![Len(stack)] = f]
Pop == SubSeq(stack, 1, Len(stack) - 1)

Init ==
    /\ stack = <<>> /\ exp = "root" /\ cur = "" /\ where = "prop" /\ dup = FALSE /\ rstk = <<>> /\ rexp = "val"
    /\ toks = <<>> /\ status = "run" /\ why = "" /\ qpath = <<>> /\ qvals = <<>>

Fail(t, w) == /\ status' = "err" /\ why' = w /\ exp' = "done" /\ toks' = Append(toks, t)
              /\ UNCHANGED <<stack, cur, where, dup, rstk, rexp, qpath, qvals>>

\* a value has been completed inside the frame st[Len(st)] (st non-empty): record the key, go back to key / element position
Resume(st, t, isSet) ==
    LET top == st[Len(st)]
        top2 == IF isSet /\ ~IsArr(top.c) THEN [top EXCEPT !.set = top.set \cup {top.k}] ELSE top
        top3 == IF top.c = "Y" /\ top.k # "!type" THEN [top2 EXCEPT !.hv = TRUE] ELSE top2
    IN /\ stack' = [st EXCEPT ![Len(st)] = top3]
       /\ exp' = IF IsArr(top.c) THEN "elem" ELSE "key"
       /\ cur' = IF IsArr(top.c) THEN ItemOf(top.c) ELSE ""
       /\ where' = IF IsArr(top.c) THEN "elem" ELSE "prop"
       /\ dup' = FALSE /\ toks' = Append(toks, t)
       /\ UNCHANGED <<status, why, rstk, rexp, qpath, qvals>>

\* a container closed: the frame is popped; the root object closing ends the call
CloseOK(t) ==
    IF Len(stack) = 1
    THEN /\ status' = "ok" /\ why' = "root-closed" /\ exp' = "done" /\ stack' = <<>> /\ toks' = Append(toks, t)
         /\ UNCHANGED <<cur, where, dup, rstk, rexp, qpath, qvals>>
    ELSE Resume(Pop, t, TRUE)

Push(c, t) ==
    /\ stack' = Append(stack, Frame(c))
    /\ exp' = IF IsArr(c) THEN "elem" ELSE "key"
    /\ cur' = IF IsArr(c) THEN ItemOf(c) ELSE ""
    /\ where' = IF IsArr(c) THEN "elem" ELSE "prop"
    /\ dup' = FALSE /\ toks' = Append(toks, t)
    /\ UNCHANGED <<status, why, rstk, rexp, qpath, qvals>>

\* ---- reading the first token of a value of class cur ----
ReadValue(t) ==
    IF t \in {"}", "]", "EOF", "BAD"} THEN Fail(t, "syntax-in-value")
    ELSE IF t = "NULL" THEN
        (IF where = "prop" THEN Resume(stack, t, FALSE)           \* explicit null: member skipped (before CreateField)
         ELSE Fail(t, "null-element"))                            \* arrays / map values have no null
    ELSE IF dup THEN Fail(t, "already-set")
    ELSE CASE cur = "sc-str" -> IF IsStr(t) THEN Resume(stack, t, TRUE) ELSE Fail(t, "wrong-type-scalar")
           [] cur = "sc-num" -> IF t = "NUM" \/ IsStr(t) THEN Resume(stack, t, TRUE) ELSE Fail(t, "wrong-type-scalar")
           [] cur = "en" -> IF IsStr(t) /\ StrOf(t) = "RED" THEN Resume(stack, t, TRUE) ELSE Fail(t, "bad-enum")
           [] cur \in {"O", "W", "Y"} -> IF t = "{" THEN Push(cur, t) ELSE Fail(t, "expected-object")
           [] IsArr(cur) -> IF t = "[" THEN Push(cur, t) ELSE Fail(t, "expected-array")
           [] IsMap(cur) -> IF t = "{" THEN Push(cur, t) ELSE Fail(t, "expected-object")

\* ---- key position ----
ReadKey(t) ==
    LET top == Top IN
    IF t = "}" THEN
        CASE top.c = "W" ->
                IF top.nf > 1 THEN Fail(t, "oneof-multiple-keys")
                ELSE IF top.nf = 0 /\ top.ty # "" /\ ArmClass(top.ty) = "" THEN Fail(t, "oneof-type-unknown")
                ELSE IF top.nf = 1 /\ top.ty # "" /\ top.ty # top.fk THEN Fail(t, "oneof-type-mismatch")
                ELSE CloseOK(t)                                   \* includes the only-"!type" oneof (nf = 0, known arm)
          [] top.c = "Y" -> IF top.ty = "" \/ ~top.hv THEN Fail(t, "any-incomplete") ELSE CloseOK(t)
          [] OTHER -> CloseOK(t)
    ELSE IF ~IsStr(t) THEN Fail(t, "expected-key")
    ELSE LET k == StrOf(t) IN
        CASE top.c = "O" ->
                IF FieldClass(k) = "" THEN Fail(t, "no-such-field")
                ELSE /\ stack' = SetTop([top EXCEPT !.k = k]) /\ exp' = "val" /\ cur' = FieldClass(k) /\ where' = "prop"
                     /\ dup' = (k \in top.set) /\ toks' = Append(toks, t)
                     /\ UNCHANGED <<status, why, rstk, rexp, qpath, qvals>>
          [] top.c = "W" ->
                IF k = "!type" THEN
                     /\ stack' = SetTop([top EXCEPT !.k = k]) /\ exp' = "tyval" /\ toks' = Append(toks, t)
                     /\ UNCHANGED <<cur, where, dup, status, why, rstk, rexp, qpath, qvals>>
                ELSE IF ArmClass(k) = "" THEN Fail(t, "no-such-key")
                ELSE /\ stack' = SetTop([top EXCEPT !.k = k, !.nf = IF top.nf < 2 THEN top.nf + 1 ELSE 2, !.fk = IF top.nf = 0 THEN k ELSE top.fk])
                     /\ exp' = "val" /\ cur' = ArmClass(k) /\ where' = "prop" /\ dup' = (k \in top.set) /\ toks' = Append(toks, t)
                     /\ UNCHANGED <<status, why, rstk, rexp, qpath, qvals>>
          [] top.c = "Y" ->
                IF k = "!type" THEN
                     /\ stack' = SetTop([top EXCEPT !.k = k]) /\ exp' = "tyval" /\ toks' = Append(toks, t)
                     /\ UNCHANGED <<cur, where, dup, status, why, rstk, rexp, qpath, qvals>>
                ELSE IF top.hv THEN Fail(t, "any-multiple-keys")
                ELSE /\ stack' = SetTop([top EXCEPT !.k = k]) /\ exp' = "raw" /\ rstk' = <<>> /\ rexp' = "val" /\ toks' = Append(toks, t)
                     /\ UNCHANGED <<cur, where, dup, status, why, qpath, qvals>>
          [] IsMap(top.c) ->
                IF ItemOf(top.c) \in {"O", "W"} /\ k \in top.set THEN Fail(t, "map-key-exists")
                ELSE /\ stack' = SetTop([top EXCEPT !.k = k]) /\ exp' = "val" /\ cur' = ItemOf(top.c) /\ where' = "mapv"
                     /\ dup' = FALSE /\ toks' = Append(toks, t)
                     /\ UNCHANGED <<status, why, rstk, rexp, qpath, qvals>>

\* ---- the value of "!type" ----
ReadTypeValue(t) ==
    IF IsStr(t) THEN /\ stack' = SetTop([Top EXCEPT !.ty = StrOf(t)]) /\ exp' = "key" /\ toks' = Append(toks, t)
                     /\ UNCHANGED <<cur, where, dup, status, why, rstk, rexp, qpath, qvals>>
    ELSE Fail(t, "type-not-string")

\* ---- array element position ----
ReadElem(t) == IF t = "]" THEN CloseOK(t) ELSE ReadValue(t)

\* ---- skipping the raw payload of an Any (json.Decoder.Decode into RawMessage: plain JSON grammar) ----
RawDone(t) == /\ exp' = "key" /\ stack' = SetTop([Top EXCEPT !.hv = TRUE]) /\ rstk' = <<>> /\ rexp' = "val" /\ toks' = Append(toks, t)
              /\ UNCHANGED <<cur, where, dup, status, why, qpath, qvals>>
RawStay(t, st, e) == /\ rstk' = st /\ rexp' = e /\ toks' = Append(toks, t)
                     /\ UNCHANGED <<stack, exp, cur, where, dup, status, why, qpath, qvals>>
RawAfterValue(t, st) == IF st = <<>> THEN RawDone(t) ELSE RawStay(t, st, IF st[Len(st)] = "{" THEN "key" ELSE "val")
ReadRaw(t) ==
    IF t \in {"EOF", "BAD"} THEN Fail(t, "syntax-in-raw")
    ELSE IF rexp = "key" THEN
            (IF t = "}" THEN RawAfterValue(t, SubSeq(rstk, 1, Len(rstk) - 1))
             ELSE IF IsStr(t) THEN RawStay(t, rstk, "colonval") ELSE Fail(t, "syntax-in-raw"))
    ELSE IF t = "]" /\ rstk # <<>> /\ rstk[Len(rstk)] = "[" /\ rexp = "val" THEN RawAfterValue(t, SubSeq(rstk, 1, Len(rstk) - 1))
    ELSE IF t \in {"}", "]"} THEN Fail(t, "syntax-in-raw")
    ELSE IF t = "{" THEN RawStay(t, Append(rstk, "{"), "key")
    ELSE IF t = "[" THEN RawStay(t, Append(rstk, "["), "val")
    ELSE RawAfterValue(t, rstk)          \* scalar token

StepRaw(t) ==
    /\ status = "run" /\ TMode = "tok"
    /\ (Len(toks) >= MaxToks => t = "EOF")
    /\ CASE exp = "root" -> IF t = "{" THEN Push("O", t) ELSE Fail(t, "root-not-object")
         [] exp = "key" -> ReadKey(t)
         [] exp = "val" -> ReadValue(t)
         [] exp = "elem" -> ReadElem(t)
         [] exp = "tyval" -> ReadTypeValue(t)
         [] exp = "raw" -> ReadRaw(t)

\* filtering inside Next: long random walks stay inside the accepted language until MinToks tokens were read
Step(t) == StepRaw(t) /\ (status' = "run" \/ Len(toks) >= MinToks)

(* ---------------- query mode: url.Values ---------------- *)

\* (a key segment may be given in the proto spelling, snake_case: the degenerate spellings - an underscore with no word
\* before or after it - are keys like any other)
QSegs == {"s", "n", "e", "o", "w", "wa", "as", "ao", "ms", "y", "fa", "zzz", "",
          "_", "__", "s_", "_s", "a_s", "a__s", "S", "zz_"}
QVals == {"x", "1", "RED", "", "{}", "{\"s\":\"x\"}", "{"}

QSeg(s) == /\ status = "run" /\ TMode = "query" /\ qvals = <<>> /\ Len(qpath) < MaxToks
           /\ qpath' = Append(qpath, s)
           /\ UNCHANGED <<stack, exp, cur, where, dup, rstk, rexp, toks, status, why, qvals>>
QVal(v) == /\ status = "run" /\ TMode = "query" /\ qpath # <<>> /\ Len(qvals) < 2
           /\ qvals' = Append(qvals, v)
           /\ UNCHANGED <<stack, exp, cur, where, dup, rstk, rexp, toks, status, why, qpath>>
QDone ==   /\ status = "run" /\ TMode = "query" /\ qpath # <<>>
           /\ status' = "ok" /\ why' = "query" /\ exp' = "done"
           /\ UNCHANGED <<stack, cur, where, dup, rstk, rexp, toks, qpath, qvals>>

Next == (\E t \in Tokens : Step(t)) \/ (\E s \in QSegs : QSeg(s)) \/ (\E v \in QVals : QVal(v)) \/ QDone
        \/ (status # "run" /\ UNCHANGED vars)       \* terminal states stutter: with deadlock checking ON, a deadlock is a missing case

Spec == Init /\ [][Next]_vars

(* ---------------- properties of the model ---------------- *)

TypeOK ==
    /\ status \in {"run", "ok", "err"} /\ exp \in {"root", "key", "val", "elem", "tyval", "raw", "done"}
    /\ Len(toks) <= MaxToks + 1

\* TOTALITY: in every running control state every token class has an enabled action
Total == (status = "run" /\ TMode = "tok" /\ Len(toks) < MaxToks) => \A t \in Tokens : ENABLED StepRaw(t)

\* nesting is bounded by the input length (no recursion without consuming a token)
DepthBounded == Len(stack) + Len(rstk) <= Len(toks)

\* every step consumes exactly one token: termination in at most MaxToks + 1 steps
Progress == [][status = "run" /\ TMode = "tok" => Len(toks') = Len(toks) + 1]_vars

\* the call ends exactly when the root closes or an error is raised
EndsClean == (status = "ok" /\ TMode = "tok") => stack = <<>>

Emit ==
    (EmitCases /\ status # "run") =>
        PrintT(<<"CASE", ToJson(IF TMode = "tok"
                                THEN [mode |-> "tok", toks |-> toks, outcome |-> status, cls |-> why, target |-> "Uni", depth |-> Len(stack)]
                                ELSE [mode |-> "query", path |-> qpath, vals |-> qvals, cls |-> "query", target |-> "Uni"])>>)

\* exploration is per control state: the token history is output only
View == <<stack, exp, cur, where, dup, rstk, rexp, status, why, qpath, qvals, Len(toks)>>
=============================================================================
