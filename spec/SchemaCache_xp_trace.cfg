SPECIFICATION TraceSpec
CONSTANTS
  Procs <- P4
  Types <- XpTypes
  ChildSeq <- XpChild
  Pkg <- XpPkg
  CallChoices <- NoCalls
  Guard = "mutex"
  Mode = "trace"
INVARIANTS MutualExclusion SameAsAlone BuiltOnce NoPlaceholderVisible TraceDone
CHECK_DEADLOCK FALSE
