SPECIFICATION TraceSpec
CONSTANTS
  Procs <- P4
  Types <- XpTypes
  ChildSeq <- XpChild
  Invalid <- NoneInvalid
  Pkg <- XpPkg
  CallChoices <- NoCalls
  Guard = "mutex"
  Mode = "trace"
INVARIANTS MutualExclusion SameAsAlone BuiltOnce NoPlaceholderVisible TraceDone
CHECK_DEADLOCK FALSE
