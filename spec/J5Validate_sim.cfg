SPECIFICATION Spec
CONSTANTS
  Kinds <- KindsV
  Cards <- CardsSA
  Press <- PressAll
  MaxRules = 6
  WithAnn = FALSE
  IntLo <- IntLoT
  IntHi <- IntHiT
  LenLo <- LenLoT
  LenHi <- LenHiT
  CntLo <- CntLoT
  CntHi <- CntHiT
  EmitCases = TRUE
INVARIANTS TypeOK AllowsTotal NoVacuousRule BothSides Emit
CHECK_DEADLOCK FALSE
