------------------------- MODULE SchemaCacheTraceMC -------------------------
EXTENDS SchemaCacheTrace
P2 == {"g1", "g2"}
P4 == {"g1", "g2", "g3", "g4"}
NoCalls == {}
SharedTypes == {"A", "B", "C"}
SharedChild == [t \in SharedTypes |-> CASE t = "A" -> <<"B", "C">> [] t = "B" -> <<"C">> [] OTHER -> <<>>]
SharedPkg == [t \in SharedTypes |-> "sa.v1"]
RecTypes == {"A", "B"}
RecChild == [t \in RecTypes |-> IF t = "A" THEN <<"A", "B">> ELSE <<"A">>]
RecPkg == [t \in RecTypes |-> "ra.v1"]
XpTypes == {"A", "C", "D"}
XpChild == [t \in XpTypes |-> IF t = "A" THEN <<"D">> ELSE <<>>]
XpPkg == [t \in XpTypes |-> CASE t = "A" -> "xa.v1" [] t = "D" -> "xb.v1" [] OTHER -> "xc.v1"]
NoneInvalid == {}
InvTypes == {"L", "H", "G"}
InvChild == [t \in InvTypes |-> CASE t = "L" -> <<"L">> [] t = "H" -> <<"L">> [] OTHER -> <<>>]
InvPkg == [t \in InvTypes |-> "ia.v1"]
InvInvalid == {"L"}
=============================================================================
