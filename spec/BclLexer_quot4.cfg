SPECIFICATION Spec
CONSTANTS
  MaxLen = 4
  Sym <- SymQuot
  FailFastChoices <- BothFF
  EmitCases = TRUE
INVARIANTS PosInBounds TokensOrdered FailFastOne Emit
PROPERTIES Progress
CHECK_DEADLOCK FALSE
