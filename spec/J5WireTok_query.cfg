SPECIFICATION Spec
CONSTANTS
  TMode = "query"
  MaxToks = 2
  MinToks = 0
  Strs <- StrsAll
  EmitCases = TRUE
INVARIANTS TypeOK Total DepthBounded EndsClean Emit
PROPERTIES Progress
VIEW View
CHECK_DEADLOCK TRUE
