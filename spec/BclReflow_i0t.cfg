SPECIFICATION Spec
CONSTANTS
  Width = 80
  Indent = 0
  WordLens = {1, 39, 40, 41, 85}
  MaxToks = 7
  EmitCases = TRUE
INVARIANTS TypeOK Idempotent WordsPreserved LinesFit Emit
CHECK_DEADLOCK FALSE
