SPECIFICATION Spec
CONSTANTS
  Mode = "pair"
  Guard = TRUE
  EmitCases = TRUE
  MaxMsgs = 2
  MaxEnums = 1
  MaxFocus = 1
  MaxAnns = 2
  ScalarKinds <- KindsPair
  WktAtoms <- WktPair
  Cards <- CardsAnn
  MapKeys <- KeysString
  OneofSels <- SelsNone
  OneofOpts <- OneofOptsNone
  MsgOpts <- MsgOptsFew
  EnumOpts <- EnumOptsNone
  RecForms <- RecAll
  ValidateAnns <- ValidatePair
  J5Anns <- J5Pair
  ListAnns <- ListPair
  PsmAnns <- PsmPair
  MismatchAnns <- MismatchReps
INVARIANTS TypeOK NoReenter EntersBounded StackBounded StepsBounded BuiltLinked OneResultPerRun Emit
CHECK_DEADLOCK TRUE
