SPECIFICATION TraceSpec
CONSTANTS
  Shape <- ShapeNested
  BundleName = "nested"
  Valid = TRUE
  MaxCompiles = 100
  MaxNews = 100
  SortFiles = TRUE
  PermuteFiles = TRUE
  EmitCases = FALSE
INVARIANTS HistoryIndependent LawDeterministic TraceDone
CHECK_DEADLOCK FALSE
