SPECIFICATION Spec
CONSTANTS
  Mode = "val"
  Kinds <- KindsAll
  Cards <- CardsAll
  Positions <- PositionsAll
  Pairs = TRUE
  Combos = FALSE
  EmitCases = TRUE
INVARIANTS TypeOK ReprTotal RoundTrip NoKeyCollision Emit
PROPERTIES Progress
CHECK_DEADLOCK FALSE
