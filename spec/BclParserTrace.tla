---------------------------- MODULE BclParserTrace ----------------------------
(***************************************************************************)
(* Direction T for the parser: each event is one real ParseFile call on    *)
(* the canonical text of a token sequence                                  *)
(*   [op |-> "parse", toks, ff, tree, ndiag, stmts (kind, span, open,      *)
(*    cmt of every statement in pre-order), diags (spans)]                 *)
(* The parser machine is loaded with the recorded tokens, takes its own    *)
(* steps and is compared with the recorded outcome at "done".  The law     *)
(* of C11 on the logged values: tree xor diagnostics, start <= end for     *)
(* every statement and diagnostic.                                         *)
(***************************************************************************)
EXTENDS BclParser, IOUtils

TraceFile == IF "VERIF_TRACE" \in DOMAIN IOEnv THEN IOEnv.VERIF_TRACE ELSE "trace.ndjson"
Trace == ndJsonDeserialize(TraceFile)

VARIABLES l, nDrift, loaded
tvars == <<pvars, l, nDrift, loaded>>

TraceInit == PInit /\ l = 1 /\ nDrift = 0 /\ loaded = FALSE /\ failFast = FALSE
Ev == Trace[l]

Load ==
    /\ ~loaded /\ l <= Len(Trace) /\ loaded' = TRUE
    /\ toks' = Ev.toks /\ eof' = TRUE /\ failFast' = Ev.ff
    /\ off' = 0 /\ pc' = "frag" /\ ret' = <<>> /\ cur' = NoCur /\ curRef' = <<>> /\ mark' = "" /\ tagCtx' = "tag"
    /\ astk' = <<>> /\ frags' = <<>> /\ errs' = <<>> /\ result' = ""
    /\ UNCHANGED <<l, nDrift>>

Machine == loaded /\ pc # "done" /\ PStep /\ UNCHANGED <<l, nDrift, loaded>>

Stmts == SelectSeq(frags, LAMBDA f : f.k \in {"hdr", "assign", "desc"})

Conforms ==
    LET P == Layout(toks) IN
    /\ (result = "tree") = Ev.tree
    /\ IF Ev.tree
       THEN /\ Len(Stmts) = Len(Ev.stmts)
            /\ \A i \in 1..Len(Stmts) :
                 LET f == FragOut(P, Stmts[i]) r == Ev.stmts[i] IN
                 f.k = r.k /\ f.sl = r.sl /\ f.sc = r.sc /\ f.el = r.el /\ f.ec = r.ec /\ f.open = r.open /\ f.cmt = r.cmt
       ELSE IF result = "errors"
            THEN /\ Len(errs) = Len(Ev.diags)
                 /\ \A i \in 1..Len(errs) : LET p == ErrPos(P, errs[i]) r == Ev.diags[i] IN
                      p.sl = r.sl /\ p.sc = r.sc /\ p.el = r.el /\ p.ec = r.ec
            ELSE Len(FoldErrs(1, 0, <<>>)) = Len(Ev.diags)

Return ==
    /\ loaded /\ pc = "done"
    /\ nDrift' = nDrift + (IF Conforms THEN 0 ELSE 1)
    /\ (IF Conforms THEN TRUE ELSE PrintT(<<"NONCONF", l>>))
    /\ l' = l + 1 /\ loaded' = FALSE
    /\ UNCHANGED pvars

TraceNext == Load \/ Machine \/ Return
TraceSpec == TraceInit /\ [][TraceNext]_tvars

\* law on the logged values
LawTreeXorDiag == (loaded /\ l <= Len(Trace)) => (Ev.tree = (Ev.ndiag = 0))
LawSpans ==
    (loaded /\ l <= Len(Trace)) =>
        /\ \A i \in 1..Len(Ev.stmts) : PosLE(Ev.stmts[i].sl, Ev.stmts[i].sc, Ev.stmts[i].el, Ev.stmts[i].ec)
        /\ \A i \in 1..Len(Ev.diags) : PosLE(Ev.diags[i].sl, Ev.diags[i].sc, Ev.diags[i].el, Ev.diags[i].ec)

TraceDone == (~loaded /\ l = Len(Trace) + 1) => PrintT(<<"TRACEDONE", ToJson([events |-> l - 1, drift |-> nDrift])>>)
=============================================================================
