SPECIFICATION TraceSpec
CONSTANTS
  Mode = "trace"
  BytePool <- NoBytes
  CharPool <- NoChars
  MinStr = 0
  MaxStr = 0
  EmitCases = FALSE
INVARIANTS LawRT LawParse RenderFits TraceDone
CHECK_DEADLOCK FALSE
