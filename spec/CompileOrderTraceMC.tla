------------------------- MODULE CompileOrderTraceMC -------------------------
EXTENDS CompileOrderTrace
Shape23 == <<
  [name |-> "aa.v1", files |-> << [name |-> "a", decls |-> <<"Thing">>, refs |-> << <<"aa.v1", "Other">> >>],
                                  [name |-> "b", decls |-> <<"Other">>, refs |-> << <<"aa.v1", "Third">> >>],
                                  [name |-> "c", decls |-> <<"Third">>, refs |-> << >>] >>],
  [name |-> "ab.v1", files |-> << [name |-> "a", decls |-> <<"Thing">>, refs |-> << <<"aa.v1", "Thing">>, <<"ab.v1", "Local">> >>],
                                  [name |-> "b", decls |-> <<"Local">>, refs |-> << <<"aa.v1", "Other">> >>],
                                  [name |-> "c", decls |-> <<"Last">>, refs |-> << <<"ab.v1", "Thing">> >>] >>] >>
Shape33 == <<
  [name |-> "aa.v1", files |-> << [name |-> "a", decls |-> <<"Thing">>, refs |-> << <<"aa.v1", "Other">> >>],
                                  [name |-> "b", decls |-> <<"Other">>, refs |-> << >>],
                                  [name |-> "c", decls |-> <<"Third">>, refs |-> << <<"aa.v1", "Thing">> >>] >>],
  [name |-> "ab.v1", files |-> << [name |-> "a", decls |-> <<"Thing">>, refs |-> << <<"aa.v1", "Thing">> >>],
                                  [name |-> "b", decls |-> <<"Other">>, refs |-> << <<"ab.v1", "Thing">>, <<"aa.v1", "Third">> >>],
                                  [name |-> "c", decls |-> <<"Third">>, refs |-> << >>] >>],
  [name |-> "ac.v1", files |-> << [name |-> "a", decls |-> <<"Thing">>, refs |-> << <<"ab.v1", "Other">>, <<"aa.v1", "Other">> >>],
                                  [name |-> "b", decls |-> <<"Other">>, refs |-> << <<"ac.v1", "Third">> >>],
                                  [name |-> "c", decls |-> <<"Third">>, refs |-> << <<"ab.v1", "Thing">> >>] >>] >>
=============================================================================
