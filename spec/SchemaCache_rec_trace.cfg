SPECIFICATION TraceSpec
CONSTANTS
  Procs <- P4
  Types <- RecTypes
  ChildSeq <- RecChild
  Invalid <- NoneInvalid
  Pkg <- RecPkg
  CallChoices <- NoCalls
  Guard = "mutex"
  Mode = "trace"
INVARIANTS MutualExclusion SameAsAlone BuiltOnce NoPlaceholderVisible TraceDone
CHECK_DEADLOCK FALSE
