SPECIFICATION Spec
CONSTANTS
  TMode = "tok"
  MaxToks = 36
  MinToks = 24
  Strs <- StrsDeep
  EmitCases = TRUE
INVARIANTS TypeOK Total DepthBounded EndsClean Emit
PROPERTIES Progress
VIEW View
CHECK_DEADLOCK TRUE
