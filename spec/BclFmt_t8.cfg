SPECIFICATION FSpec
CONSTANTS
  MaxToks = 8
  MaxDepth = 2
  Atoms <- TypeAtoms
  FailFastChoices <- OnlyFF
  Prune = TRUE
  PruneReps <- Reps
  EmitCases = TRUE
INVARIANTS Pass2Accepts FEmit 
CHECK_DEADLOCK FALSE
