SPECIFICATION TraceSpec
INVARIANTS StageOrder TraceDone
CHECK_DEADLOCK FALSE
