----------------------------- MODULE BclEditTrace -----------------------------
(***************************************************************************)
(* The editor side of property C19 as a machine: a document (sequence of   *)
(* lines) to which the recorded list of line edits is applied one edit     *)
(* per step, in the order given, each edit replacing the source lines      *)
(* [from, to) by its new lines.  Events are recorded from the real         *)
(* parser.FmtDiffs / parser.Fmt:                                           *)
(*   [op |-> "edits", lines (source lines), edits ([from, to, new lines]), *)
(*    fmt (lines of Fmt's output, trailing blank lines removed)]           *)
(* Invariants evaluated at every Apply step: the edit's range is valid,    *)
(* starts at or after the previous edit's end (ascending, disjoint); when  *)
(* all edits are applied the document equals the formatter's output up to  *)
(* trailing blank lines.                                                   *)
(***************************************************************************)
EXTENDS Integers, Sequences, TLC, Json, IOUtils

TraceFile == IF "VERIF_TRACE" \in DOMAIN IOEnv THEN IOEnv.VERIF_TRACE ELSE "trace.ndjson"
Trace == ndJsonDeserialize(TraceFile)

VARIABLES l, k, cursor, doc, loaded, bad
vars == <<l, k, cursor, doc, loaded, bad>>

Init == l = 1 /\ k = 1 /\ cursor = 0 /\ doc = <<>> /\ loaded = FALSE /\ bad = ""
Ev == Trace[l]

Load == /\ ~loaded /\ l <= Len(Trace) /\ loaded' = TRUE /\ k' = 1 /\ cursor' = 0 /\ doc' = <<>> /\ bad' = "" /\ UNCHANGED l

\* source lines [a, b) (0-based, b exclusive)
Src(a, b) == IF b <= a THEN <<>> ELSE SubSeq(Ev.lines, a + 1, b)

Apply ==
    /\ loaded /\ bad = "" /\ k <= Len(Ev.edits)
    /\ LET e == Ev.edits[k] IN
         IF e.from < 0 \/ e.from > e.to \/ e.to > Len(Ev.lines) THEN bad' = "range" /\ UNCHANGED <<doc, cursor>>
         ELSE IF e.from < cursor THEN bad' = "overlap" /\ UNCHANGED <<doc, cursor>>
         ELSE /\ doc' = doc \o Src(cursor, e.from) \o e.new
              /\ cursor' = e.to /\ UNCHANGED bad
    /\ k' = k + 1 /\ UNCHANGED <<l, loaded>>

RECURSIVE TrimBlank(_)
TrimBlank(s) == IF s # <<>> /\ s[Len(s)] = "" THEN TrimBlank(SubSeq(s, 1, Len(s) - 1)) ELSE s

Final == TrimBlank(doc \o Src(cursor, Len(Ev.lines)))

Finish ==
    /\ loaded /\ (bad # "" \/ k > Len(Ev.edits))
    /\ l' = l + 1 /\ loaded' = FALSE /\ UNCHANGED <<k, cursor, doc, bad>>

Next == Load \/ Apply \/ Finish
Spec == Init /\ [][Next]_vars

\* the law of C19 on the recorded edits
EditsWellFormed == bad = ""
AppliedEqualsFmt == (loaded /\ bad = "" /\ k > Len(Ev.edits)) => Final = TrimBlank(Ev.fmt)

TraceDone == (~loaded /\ l = Len(Trace) + 1) => PrintT(<<"TRACEDONE", ToJson([events |-> l - 1])>>)
=============================================================================
