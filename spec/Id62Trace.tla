----------------------------- MODULE Id62Trace -----------------------------
(***************************************************************************)
(* Trace validation for lib/id62 (direction T).                            *)
(*                                                                         *)
(* The harness records one event per public call of the real code:         *)
(*   [op |-> "rt", id, out, len, match, pok, pval]  String() then Parse()  *)
(*   [op |-> "parse", inp, ok, val]                 Parse() of any string  *)
(* For each event the machine of Id62 is loaded with the logged input,     *)
(* takes its own (unlogged) DivStep / ParseDigit ... steps, and at Finish  *)
(* its result is compared with the logged result (conformance).  The law   *)
(* of property C20 is evaluated by TLC on the logged values in every       *)
(* state (LawRT, LawParse).                                                *)
(***************************************************************************)
EXTENDS Id62, IOUtils

TraceFile == IF "VERIF_TRACE" \in DOMAIN IOEnv THEN IOEnv.VERIF_TRACE ELSE "trace.ndjson"
Trace == ndJsonDeserialize(TraceFile)

VARIABLES l, nDrift
tvars == <<vars, l, nDrift>>

Idle ==
    /\ phase = "idle" /\ kind = "" /\ id = <<>> /\ work = <<>> /\ digits = <<>> /\ inp = <<>>
    /\ pos = 1 /\ sign = 0 /\ acc = Zero(AW) /\ verdict = "" /\ back = <<>>

TraceInit == Idle /\ l = 1 /\ nDrift = 0

Ev == Trace[l]

Load ==
    /\ phase = "idle" /\ l <= Len(Trace)
    /\ IF Ev.op = "rt"
       THEN /\ kind' = "id" /\ id' = Ev.id /\ work' = Ev.id /\ phase' = "render" /\ inp' = <<>>
       ELSE /\ kind' = "str" /\ id' = <<>> /\ work' = <<>> /\ phase' = "parse" /\ inp' = Ev.inp
    /\ UNCHANGED <<digits, pos, sign, acc, verdict, back, l, nDrift>>

Machine ==
    /\ (DivStep \/ FinishRender \/ ParseSign \/ ParseDigit \/ ParseEnd)
    /\ UNCHANGED <<l, nDrift>>

Conforms ==
    IF Ev.op = "rt"
    THEN digits = Ev.out /\ (verdict = "ok") = Ev.pok /\ (Ev.pok => back = Ev.pval)
    ELSE (verdict = "ok") = Ev.ok /\ (Ev.ok => back = Ev.val)

\* the public call returns: compare, then reset for the next recorded call
Return ==
    /\ phase = "parse" /\ verdict # ""
    /\ nDrift' = nDrift + (IF Conforms THEN 0 ELSE 1)
    /\ l' = l + 1
    /\ phase' = "idle" /\ kind' = "" /\ id' = <<>> /\ work' = <<>> /\ digits' = <<>> /\ inp' = <<>>
    /\ pos' = 1 /\ sign' = 0 /\ acc' = Zero(AW) /\ verdict' = "" /\ back' = <<>>

TraceNext == Load \/ Machine \/ Return
TraceSpec == TraceInit /\ [][TraceNext]_tvars

(* the law of C20, evaluated on what the real code returned *)
LawRT ==
    (phase # "idle" /\ l <= Len(Trace) /\ Ev.op = "rt") =>
        /\ Ev.len = 22 /\ Ev.match          \* 22 characters matching the published pattern
        /\ Ev.pok /\ Ev.pval = Ev.id        \* parses back to the same 16 bytes

\* a successful parse yields 16 bytes whose own rendering (by the real code) parses back to them
LawParse ==
    (phase # "idle" /\ l <= Len(Trace) /\ Ev.op = "parse" /\ Ev.ok) =>
        /\ Len(Ev.val) = 16 /\ Ev.reok /\ Ev.reval = Ev.val

TraceDone ==
    (phase = "idle" /\ l = Len(Trace) + 1) => PrintT(<<"TRACEDONE", ToJson([events |-> l - 1, drift |-> nDrift])>>)
=============================================================================
