------------------------------ MODULE BclFmtMC ------------------------------
EXTENDS BclFmt
TypeAtoms == {"IDENT", "BOOL", "STRING", "REGEX", "INT", "DECIMAL", "COMMENT", "BLOCK_COMMENT", "DESCRIPTION", "EOL",
              "=", "{", "}", "[", "]", ".", ",", ":", "+", "!", "?"}
FmtAtoms == TypeAtoms \cup {"BLOCK_COMMENT_ML", "STRING_ML", "STRING_Q", "STRING_TAB", "STRING_NP", "STRING_U", "REGEX_SL"}
Reps == {"INT"}
OnlyFF == {TRUE}
=============================================================================
