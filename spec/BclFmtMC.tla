------------------------------ MODULE BclFmtMC ------------------------------
EXTENDS BclFmt
TypeAtoms == {"IDENT", "BOOL", "STRING", "REGEX", "INT", "DECIMAL", "COMMENT", "BLOCK_COMMENT", "DESCRIPTION", "EOL",
              "=", "{", "}", "[", "]", ".", ",", ":", "+", "!", "?"}
FmtAtoms == TypeAtoms \cup {"BLOCK_COMMENT_ML", "STRING_ML", "STRING_Q", "STRING_TAB", "STRING_NP", "STRING_U", "STRING_QU", "STRING_MLU", "REGEX_SL", "DESCRIPTION_EMPTY"}
Reps == {"INT"}
OnlyFF == {TRUE}
=============================================================================
