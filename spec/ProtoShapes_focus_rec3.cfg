SPECIFICATION Spec
CONSTANTS
  Mode = "focus"
  Guard = TRUE
  EmitCases = TRUE
  MaxMsgs = 3
  MaxEnums = 1
  MaxFocus = 1
  MaxAnns = 1
  ScalarKinds <- KindsOne
  WktAtoms <- None
  Cards <- CardsOne
  MapKeys <- KeysString
  OneofSels <- SelsNone
  OneofOpts <- OneofOptsNone
  MsgOpts <- MsgOptsNone
  EnumOpts <- EnumOptsNone
  RecForms <- RecThree
  ValidateAnns <- None
  J5Anns <- None
  ListAnns <- None
  PsmAnns <- None
  MismatchAnns <- None
INVARIANTS TypeOK NoReenter EntersBounded StackBounded StepsBounded BuiltLinked OneResultPerRun Emit
CHECK_DEADLOCK TRUE
