SPECIFICATION Spec
CONSTANTS
  Procs <- P3
  Types <- RecTypes
  ChildSeq <- RecChild
  Invalid <- NoneInvalid
  Pkg <- RecPkg
  CallChoices <- RecCalls3
  Guard = "mutex"
  Mode = "check"
INVARIANTS TypeOK MutualExclusion NoDataRace SameAsAlone BuiltOnce NoPlaceholderVisible
PROPERTIES Termination
CHECK_DEADLOCK TRUE
