------------------------------ MODULE J5Entity ------------------------------
(***************************************************************************)
(* The `entity` declaration of the j5s language and its expansion (C17).   *)
(*                                                                         *)
(* An entity declaration is built by actions shaped like the clauses of    *)
(* the declaration (SetName, AddKey, AddData, AddStatus, AddEvent,         *)
(* AddCommand, AddSummary, SetQuery, Finish); the pools are constants, so  *)
(* the reachable graph is the bounded space of declarations and            *)
(* `tlc -simulate` draws random deep declarations.                         *)
(*                                                                         *)
(* EntityExpand(e) is the expansion the property statement demands, in the *)
(* statement's vocabulary: schema names built from the entity name by the  *)
(* casing functions (computed here over the Cap / Upper tables), the psm   *)
(* annotation per message, the fields of State and Event, the event oneof, *)
(* the query service methods with verb, path and path parameters, the      *)
(* command services, the publish topic, one upsert topic per summary and   *)
(* the status enum numbering.  internal/j5s/sourcewalk/entity.go is the    *)
(* implementation; the harness projects the compiled descriptors and the   *)
(* client API StateEntity on the same vocabulary.                          *)
(***************************************************************************)
EXTENDS Integers, Sequences, FiniteSets, TLC, Json

CONSTANTS
    Pkg,          \* package of the file holding the entity, e.g. "foo.v1"
    PkgPath,      \* the same with slashes, e.g. "foo/v1"
    Cap,          \* word -> Capitalised word
    Upper,        \* word -> UPPER word
    Acronyms,     \* words written fully upper in the "acronym" casing (fooID)
    Focuses,        \* the dimensions varied exhaustively, one per behaviour (chosen in Init); "all" = every pool full
    NamePool(_),    \* focus -> set of [words, casing]
    KeyOpts(_),     \* focus -> set of [type, marker, tenant, shard, req]
    MaxKeys(_),
    DataOpts(_),    \* focus -> set of [type, req]
    MaxData(_),
    StatusPool(_),  \* focus -> set of status names (SCREAMING_SNAKE strings)
    MaxStatus(_),
    EventPool(_),   \* focus -> set of [name (words), fields (seq of types)]
    MinEvents(_),   \* focus -> least number of events (0 is in the space; the other focuses keep one so that the oneof is not empty)
    MaxEvents(_),
    CmdPool(_),     \* focus -> set of [name, suffixed, basePath, methods (seq of [name, verb, path, seg, response])]
    MaxCmds(_),
    SummaryPool(_), \* focus -> set of [name (words; <<>> = default), fields (seq of types)]
    MaxSummaries(_),
    QueryPool(_),   \* focus -> set of [present, eventsInGet, filter ("none" | "first" | "all")]
    Layouts(_),     \* focus -> set of source layouts: "grouped" | "mixed"
    EmitCases

VARIABLES
    focus,    \* which dimension this behaviour varies (selects the pools)
    phase,    \* "name" | "keys" | "data" | "status" | "events" | "commands" | "summaries" | "query" | "done"
    e         \* the declaration built so far

vars == <<focus, phase, e>>

(* ------------------------- casing functions -------------------------- *)

RECURSIVE Concat(_, _, _)
\* f(w1) sep f(w2) sep ... over a sequence of words
Concat(ws, f, sep) ==
    IF Len(ws) = 0 THEN ""
    ELSE IF Len(ws) = 1 THEN f[ws[1]]
    ELSE f[ws[1]] \o sep \o Concat(Tail(ws), f, sep)

Ident == [w \in DOMAIN Cap |-> w]

UpperCamel(ws)     == Concat(ws, Cap, "")
Snake(ws)          == Concat(ws, Ident, "_")
ScreamingSnake(ws) == Concat(ws, Upper, "_")
LowerCamel(ws)     == IF Len(ws) = 0 THEN "" ELSE ws[1] \o Concat(Tail(ws), Cap, "")

\* "acronym" casing: FooID
AcrCap == [w \in DOMAIN Cap |-> IF w \in Acronyms THEN Upper[w] ELSE Cap[w]]
AcronymCamel(ws) == Concat(ws, AcrCap, "")

\* how the name is written in the source
Spelling(n) ==
    CASE n.casing = "upper"   -> UpperCamel(n.words)
      [] n.casing = "lower"   -> LowerCamel(n.words)
      [] n.casing = "snake"   -> Snake(n.words)
      [] n.casing = "acronym" -> AcronymCamel(n.words)
      [] n.casing = "screaming" -> ScreamingSnake(n.words)
      [] n.casing = "leadacr" -> Upper[n.words[1]] \o Concat(Tail(n.words), Cap, "")   \* APIKey

\* CamelCase(entity name): the base of every component name. CamelCase normalises the source spelling
\* (fooID, FooID, foo_id and FOO_ID all give FooId), so it is a function of the words alone.
\* A leading run of capitals (APIKey) is the exception: the camel-caser reads it as one word (Apikey) while the
\* snake-casers split it (api_key, API_KEY); the expansion uses each where the statement's names need it.
CamelOf(n) == IF n.casing = "leadacr" THEN Cap[n.words[1]] \o Concat(Tail(n.words), Ident, "") ELSE UpperCamel(n.words)
\* the query service and its methods are named from the camel case of the *snake* name (ApiKey)
QueryCamelOf(n) == UpperCamel(n.words)
SnakeOf(n) == Snake(n.words)
ScreamOf(n) == ScreamingSnake(n.words)

(* ------------------------- the declaration --------------------------- *)

KeyTypes == {"key", "key:id62", "key:uuid"}
IsKeyType(t) == t \in KeyTypes

Letters == <<"a", "b", "c", "d", "e", "f">>

Empty == [name |-> [words |-> <<>>, casing |-> "upper"],
          keys |-> <<>>, data |-> <<>>, status |-> <<>>, events |-> <<>>,
          commands |-> <<>>, summaries |-> <<>>,
          query |-> [present |-> FALSE, eventsInGet |-> FALSE, filter |-> "none"],
          layout |-> "grouped"]

Init == focus \in Focuses /\ phase = "name" /\ e = Empty

SetName(n) ==
    /\ phase = "name"
    /\ e' = [e EXCEPT !.name = n]
    /\ phase' = "keys"
    /\ UNCHANGED focus

\* positional names: key i is called key<Letter i>, data field i dat<Letter i>, ... (the statement is about order,
\* not about the spelling of member names, which is C02's subject)
\* ... except under the focus "keynames": there every key name is a strict prefix of the next one (keyA, keyAFull,
\* keyAFullView - as in docId / docIdRev), the shorter name declared first: path parameters are whole path segments
NestedKeyWords == << <<"key", "a">>, <<"key", "a", "full">>, <<"key", "a", "full", "view">> >>
Named(prefix, i, rec) == [words |-> IF prefix = "key" /\ focus = "keynames" /\ i <= 3 THEN NestedKeyWords[i] ELSE <<prefix, Letters[i]>>] @@ rec
NamedFields(prefix, types) == [i \in 1..Len(types) |-> [words |-> <<prefix, Letters[i]>>, type |-> types[i]]]

\* k = [words, type, marker, tenant, shard, req]
AddKey(k) ==
    /\ phase = "keys" /\ Len(e.keys) < MaxKeys(focus)
    /\ (k.marker # "none" \/ k.tenant) => IsKeyType(k.type)     \* markers exist on key-typed fields only
    /\ \A i \in 1..Len(e.keys) : e.keys[i].words # k.words
    /\ e' = [e EXCEPT !.keys = Append(@, k)]
    /\ UNCHANGED <<phase, focus>>

\* d = [words, type, req]
AddData(d) ==
    /\ phase = "data" /\ Len(e.data) < MaxData(focus)
    /\ \A i \in 1..Len(e.data) : e.data[i].words # d.words
    /\ e' = [e EXCEPT !.data = Append(@, d)]
    /\ UNCHANGED <<phase, focus>>

AddStatus(s) ==
    /\ phase = "status" /\ Len(e.status) < MaxStatus(focus)
    /\ \A i \in 1..Len(e.status) : e.status[i] # s
    \* the first declared option of an enum whose name ends in UNSPECIFIED IS the zero value (R "Enum"): such a status is
    \* only an ordinary status when something is declared before it
    /\ (s = "OUTCOME_UNSPECIFIED" => Len(e.status) >= 1)
    /\ e' = [e EXCEPT !.status = Append(@, s)]
    /\ UNCHANGED <<phase, focus>>

\* ev = [words, fields (seq of [words, type])]
AddEvent(ev) ==
    /\ phase = "events" /\ Len(e.events) < MaxEvents(focus)
    /\ \A i \in 1..Len(e.events) : e.events[i].words # ev.words
    /\ e' = [e EXCEPT !.events = Append(@, ev)]
    /\ UNCHANGED <<phase, focus>>

\* method (and so request message) names are made distinct per command: <Name><Letter of the command>
RenameMethods(c, L) ==
    [c EXCEPT !.methods = [j \in 1..Len(c.methods) |-> [c.methods[j] EXCEPT !.name = @ \o Cap[L], !.seg = @ \o "_" \o L]]]

AppendCommand(c) ==
    /\ phase = "commands" /\ Len(e.commands) < MaxCmds(focus)
    /\ \A i \in 1..Len(e.commands) : e.commands[i].name # c.name
    /\ e' = [e EXCEPT !.commands = Append(@, c)]
    /\ UNCHANGED <<phase, focus>>

AddCommand(c) == AppendCommand(RenameMethods(c, Letters[Len(e.commands) + 1]))

\* s = [words (<<>> = the default summary), fields (seq of [words, type])]
AddSummary(s) ==
    /\ phase = "summaries" /\ Len(e.summaries) < MaxSummaries(focus)
    /\ \A i \in 1..Len(e.summaries) : e.summaries[i].words # s.words
    /\ e' = [e EXCEPT !.summaries = Append(@, s)]
    /\ UNCHANGED <<phase, focus>>

NextPhase(p) ==
    CASE p = "keys" -> "data" [] p = "data" -> "status" [] p = "status" -> "events"
      [] p = "events" -> "commands" [] p = "commands" -> "summaries" [] p = "summaries" -> "query"

\* an entity has at least one key and one status
Advance ==
    /\ phase \in {"keys", "data", "status", "events", "commands", "summaries"}
    /\ phase = "keys" => Len(e.keys) >= 1
    /\ phase = "status" => Len(e.status) >= 1
    /\ phase = "events" => Len(e.events) >= MinEvents(focus)
    /\ phase' = NextPhase(phase)
    /\ UNCHANGED <<e, focus>>

SetQuery(q, layout) ==
    /\ phase = "query"
    /\ e' = [e EXCEPT !.query = q, !.layout = layout]
    /\ phase' = "done"
    /\ UNCHANGED focus

Next ==
    \/ \E n \in NamePool(focus) : SetName(n)
    \/ \E k \in KeyOpts(focus) : AddKey(Named("key", Len(e.keys) + 1, k))
    \/ \E d \in DataOpts(focus) : AddData(Named("dat", Len(e.data) + 1, d))
    \/ \E s \in StatusPool(focus) : AddStatus(s)
    \/ \E ev \in EventPool(focus) : AddEvent([words |-> ev.name, fields |-> NamedFields("fld", ev.fields)])
    \/ \E c \in CmdPool(focus) : AddCommand(c)
    \/ \E s \in SummaryPool(focus) : AddSummary([words |-> s.name, fields |-> NamedFields("sum", s.fields)])
    \/ Advance
    \/ \E q \in QueryPool(focus), l \in Layouts(focus) : SetQuery(q, l)

Spec == Init /\ [][Next]_vars

(* ------------------------- the expansion ----------------------------- *)

SeqMap(s, Op(_, _)) == [i \in 1..Len(s) |-> Op(s[i], i)]

\* indices i (ascending) of s with Test(s[i])
SelectIdx(s, Test(_)) == SelectSeq([i \in 1..Len(s) |-> i], LAMBDA i : Test(s[i]))

IsPrimary(k) == IsKeyType(k.type) /\ k.marker = "primary"
\* keys that are part of the URL of Get / Events: primary keys, and shard keys of key type, in declaration order
InGetPath(k) == IsKeyType(k.type) /\ (k.marker = "primary" \/ k.shard)
\* keys that are part of the URL of List: shard keys of key type
InListPath(k) == IsKeyType(k.type) /\ k.shard

RECURSIVE JoinPath(_)
JoinPath(ps) == IF Len(ps) = 0 THEN "" ELSE "/{" \o ps[1] \o "}" \o JoinPath(Tail(ps))

FilterNames(ent) ==
    IF ~ent.query.present \/ ent.query.filter = "none" THEN <<>>
    ELSE IF ent.query.filter = "first" THEN <<ScreamOf(ent.name) \o "_STATUS_" \o ent.status[1]>>
    ELSE [i \in 1..Len(ent.status) |-> ScreamOf(ent.name) \o "_STATUS_" \o ent.status[i]]

\* an unnamed command service is <Entity>Command; a named one gets the suffix Command unless it has it already
CmdServiceName(ent, c) == IF c.name = "" THEN CamelOf(ent.name) \o "CommandService"
                          ELSE IF c.suffixed THEN c.name \o "Service" ELSE c.name \o "CommandService"
CmdBase(ent, c) == "/" \o PkgPath \o "/" \o SnakeOf(ent.name) \o "/" \o (IF c.basePath = "" THEN "c" ELSE c.basePath)

SummaryBase(ent, s) == CamelOf(ent.name) \o (IF Len(s.words) = 0 THEN "Summary" ELSE UpperCamel(s.words))
SummaryTopicName(ent, s) == SnakeOf(ent.name) \o "_" \o (IF Len(s.words) = 0 THEN "summary" ELSE Snake(s.words))

EntityExpand(ent) ==
    LET C  == CamelOf(ent.name)
        Q  == QueryCamelOf(ent.name)
        S  == SnakeOf(ent.name)
        SS == ScreamOf(ent.name)
        Full(n) == Pkg \o "." \o n
        TopicEntity == Pkg \o "." \o C
        getIdx  == SelectIdx(ent.keys, InGetPath)
        listIdx == SelectIdx(ent.keys, InListPath)
        pkIdx   == SelectIdx(ent.keys, IsPrimary)
        getParams  == [i \in 1..Len(getIdx)  |-> Snake(ent.keys[getIdx[i]].words)]
        listParams == [i \in 1..Len(listIdx) |-> Snake(ent.keys[listIdx[i]].words)]
        pkParams   == [i \in 1..Len(pkIdx)   |-> Snake(ent.keys[pkIdx[i]].words)]
        base == "/" \o PkgPath \o "/" \o S \o "/q"
        PropOf(p, i) == [name |-> Snake(p.words), json |-> LowerCamel(p.words), number |-> i, type |-> p.type]
    IN
    [ entity |-> S,                 \* the entity annotation of messages and services
      topicEntity |-> TopicEntity,  \* the entity reference of topics
      schemas |-> [keys |-> C \o "Keys", data |-> C \o "Data", status |-> C \o "Status",
                   state |-> C \o "State", eventType |-> C \o "EventType", event |-> C \o "Event"],
      psm |-> << [msg |-> C \o "Keys",  entity |-> S, part |-> "KEYS"],
                 [msg |-> C \o "Data",  entity |-> S, part |-> "DATA"],
                 [msg |-> C \o "State", entity |-> S, part |-> "STATE"],
                 [msg |-> C \o "Event", entity |-> S, part |-> "EVENT"] >>,
      keys |-> SeqMap(ent.keys, LAMBDA k, i : PropOf(k, i) @@
                        [required |-> (k.req \/ IsPrimary(k)), primary |-> IsPrimary(k)]),
      data |-> SeqMap(ent.data, LAMBDA d, i : PropOf(d, i) @@ [required |-> d.req]),
      status |-> <<[name |-> SS \o "_STATUS_UNSPECIFIED", number |-> 0]>> \o
                 SeqMap(ent.status, LAMBDA s, i : [name |-> SS \o "_STATUS_" \o s, number |-> i]),
      state |-> << [name |-> "metadata", number |-> 1, type |-> "j5.state.v1.StateMetadata", flatten |-> FALSE, required |-> TRUE],
                   [name |-> "keys",     number |-> 2, type |-> Full(C \o "Keys"),   flatten |-> TRUE,  required |-> TRUE],
                   [name |-> "data",     number |-> 3, type |-> Full(C \o "Data"),   flatten |-> FALSE, required |-> TRUE],
                   [name |-> "status",   number |-> 4, type |-> Full(C \o "Status"), flatten |-> FALSE, required |-> TRUE] >>,
      event |-> << [name |-> "metadata", number |-> 1, type |-> "j5.state.v1.EventMetadata", flatten |-> FALSE, required |-> TRUE],
                   [name |-> "keys",     number |-> 2, type |-> Full(C \o "Keys"),      flatten |-> TRUE,  required |-> TRUE],
                   [name |-> "event",    number |-> 3, type |-> Full(C \o "EventType"), flatten |-> FALSE, required |-> TRUE] >>,
      eventType |-> [ options |-> SeqMap(ent.events, LAMBDA ev, i :
                          [name |-> Snake(ev.words), json |-> LowerCamel(ev.words), number |-> i,
                           target |-> Full(C \o "EventType." \o UpperCamel(ev.words))]),
                      nested |-> SeqMap(ent.events, LAMBDA ev, i :
                          [name |-> UpperCamel(ev.words),
                           fields |-> SeqMap(ev.fields, LAMBDA f, j : PropOf(f, j))]) ],
      query |-> [ name |-> Q \o "QueryService", entity |-> S,
                  methods |-> <<
                    [name |-> Q \o "Get",    role |-> "get",    verb |-> "GET", path |-> base \o JoinPath(getParams),  params |-> getParams,
                     request |-> Q \o "GetRequest", response |-> Q \o "GetResponse"],
                    [name |-> Q \o "List",   role |-> "list",   verb |-> "GET", path |-> base \o JoinPath(listParams), params |-> listParams,
                     request |-> Q \o "ListRequest", response |-> Q \o "ListResponse"],
                    [name |-> Q \o "Events", role |-> "events", verb |-> "GET", path |-> base \o JoinPath(getParams) \o "/events", params |-> getParams,
                     request |-> Q \o "EventsRequest", response |-> Q \o "EventsResponse"] >>,
                  primaryParams |-> pkParams,
                  eventsInGet |-> (ent.query.present /\ ent.query.eventsInGet),
                  defaultFilters |-> FilterNames(ent) ],
      commands |-> SeqMap(ent.commands, LAMBDA c, i :
                      [ name |-> CmdServiceName(ent, c), entity |-> S,
                        methods |-> SeqMap(c.methods, LAMBDA m, j :
                            [name |-> m.name, verb |-> m.verb,
                             path |-> CmdBase(ent, c) \o (IF m.path = "id" THEN "/{id}/" ELSE "/") \o m.seg]) ]),
      publish |-> [ name |-> C \o "PublishTopic", role |-> "event", entity |-> TopicEntity, topicName |-> S \o "_publish",
                    method |-> C \o "Event", message |-> C \o "EventMessage" ],
      upserts |-> SeqMap(ent.summaries, LAMBDA s, i :
                      [ name |-> SummaryBase(ent, s) \o "Topic", role |-> "upsert", entity |-> TopicEntity,
                        topicName |-> SummaryTopicName(ent, s),
                        method |-> SummaryBase(ent, s), message |-> SummaryBase(ent, s) \o "Message",
                        fields |-> SeqMap(s.fields, LAMBDA f, j : PropOf(f, j + 1)) ]),
      client |-> [ name |-> S,
                   primaryKey |-> [i \in 1..Len(pkIdx) |-> LowerCamel(ent.keys[pkIdx[i]].words)],
                   events |-> SeqMap(ent.events, LAMBDA ev, i : LowerCamel(ev.words)),
                   query |-> <<Q \o "Get", Q \o "List", Q \o "Events">>,
                   commands |-> SeqMap(ent.commands, LAMBDA c, i : CmdServiceName(ent, c)) ]
    ]

\* the declaration as the harness prints it (names spelled out)
Source(ent) ==
    [ name |-> Spelling(ent.name),
      keys |-> SeqMap(ent.keys, LAMBDA k, i : [name |-> LowerCamel(k.words), type |-> k.type, marker |-> k.marker,
                                                tenant |-> k.tenant, shard |-> k.shard, req |-> k.req]),
      data |-> SeqMap(ent.data, LAMBDA d, i : [name |-> LowerCamel(d.words), type |-> d.type, req |-> d.req]),
      status |-> ent.status,
      events |-> SeqMap(ent.events, LAMBDA ev, i : [name |-> UpperCamel(ev.words),
                        fields |-> SeqMap(ev.fields, LAMBDA f, j : [name |-> LowerCamel(f.words), type |-> f.type])]),
      commands |-> ent.commands,
      summaries |-> SeqMap(ent.summaries, LAMBDA s, i : [name |-> LowerCamel(s.words),
                        fields |-> SeqMap(s.fields, LAMBDA f, j : [name |-> LowerCamel(f.words), type |-> f.type])]),
      query |-> [present |-> ent.query.present, eventsInGet |-> ent.query.eventsInGet,
                 filter |-> IF ~ent.query.present \/ ent.query.filter = "none" THEN <<>>
                            ELSE IF ent.query.filter = "first" THEN <<ent.status[1]>> ELSE ent.status],
      layout |-> ent.layout ]

(* ------------------- the statement, on an expansion ------------------ *)
\* These operators take the declaration and an expansion record x (the model's, or - in J5EntityTrace -
\* the projection of the real compiler output) and state what C17 demands of it.

Range(s) == {s[i] : i \in 1..Len(s)}

\* all parts are named from the entity name
NamedFromEntity(ent, x) ==
    LET C == CamelOf(ent.name)
        Q == QueryCamelOf(ent.name) IN
    /\ x.schemas = [keys |-> C \o "Keys", data |-> C \o "Data", status |-> C \o "Status",
                    state |-> C \o "State", eventType |-> C \o "EventType", event |-> C \o "Event"]
    /\ x.query.name = Q \o "QueryService"
    /\ Len(x.query.methods) = 3
    /\ x.query.methods[1].name = Q \o "Get" /\ x.query.methods[2].name = Q \o "List" /\ x.query.methods[3].name = Q \o "Events"
    /\ x.publish.name = C \o "PublishTopic"
    /\ Len(x.commands) = Len(ent.commands)
    /\ \A i \in 1..Len(ent.commands) : x.commands[i].name = CmdServiceName(ent, ent.commands[i])
    /\ Len(x.upserts) = Len(ent.summaries)                                  \* one upsert topic per summary
    /\ \A i \in 1..Len(ent.summaries) : x.upserts[i].name = SummaryBase(ent, ent.summaries[i]) \o "Topic"

\* the same entity annotation everywhere
SameAnnotation(ent, x) ==
    /\ Len(x.psm) = 4
    /\ {p.msg : p \in Range(x.psm)} = {x.schemas.keys, x.schemas.data, x.schemas.state, x.schemas.event}
    /\ \A p \in Range(x.psm) : p.entity = x.entity
    /\ \A p \in Range(x.psm) : (p.msg = x.schemas.keys => p.part = "KEYS") /\ (p.msg = x.schemas.data => p.part = "DATA")
                             /\ (p.msg = x.schemas.state => p.part = "STATE") /\ (p.msg = x.schemas.event => p.part = "EVENT")
    /\ x.query.entity = x.entity
    /\ \A i \in 1..Len(x.commands) : x.commands[i].entity = x.entity
    /\ x.publish.entity = x.topicEntity
    /\ \A i \in 1..Len(x.upserts) : x.upserts[i].entity = x.topicEntity

FieldNamed(fs, n) == {fs[i] : i \in {j \in 1..Len(fs) : fs[j].name = n}}

\* State and Event hold metadata plus the flattened keys (and data/status, or the event oneof)
StateEventShape(ent, x) ==
    /\ \A f \in {"metadata", "keys", "data", "status"} : Cardinality(FieldNamed(x.state, f)) = 1
    /\ \A f \in {"metadata", "keys", "event"} : Cardinality(FieldNamed(x.event, f)) = 1
    /\ \A f \in FieldNamed(x.state, "keys") : f.flatten /\ f.type = Pkg \o "." \o x.schemas.keys
    /\ \A f \in FieldNamed(x.event, "keys") : f.flatten /\ f.type = Pkg \o "." \o x.schemas.keys
    /\ \A f \in FieldNamed(x.state, "data") : f.type = Pkg \o "." \o x.schemas.data
    /\ \A f \in FieldNamed(x.state, "status") : f.type = Pkg \o "." \o x.schemas.status
    /\ \A f \in FieldNamed(x.event, "event") : f.type = Pkg \o "." \o x.schemas.eventType
    /\ \A f \in FieldNamed(x.state, "metadata") : f.type = "j5.state.v1.StateMetadata"
    /\ \A f \in FieldNamed(x.event, "metadata") : f.type = "j5.state.v1.EventMetadata"

\* the event oneof has exactly one option per declared event pointing at a nested message of that name
OneofPerEvent(ent, x) ==
    /\ Len(x.eventType.options) = Len(ent.events)
    /\ Len(x.eventType.nested) = Len(ent.events)
    /\ \A i \in 1..Len(ent.events) :
          /\ x.eventType.options[i].json = LowerCamel(ent.events[i].words)
          /\ x.eventType.options[i].target = Pkg \o "." \o x.schemas.eventType \o "." \o UpperCamel(ent.events[i].words)
          /\ \E j \in 1..Len(x.eventType.nested) : x.eventType.nested[j].name = UpperCamel(ent.events[i].words)

\* primary-key fields are required and appear in declaration order as the path parameters of Get and Events
PrimaryKeysInPath(ent, x) ==
    LET pk == SelectIdx(ent.keys, IsPrimary)
        pkNames == [i \in 1..Len(pk) |-> Snake(ent.keys[pk[i]].words)]
        OnlyPk(params) == SelectSeq(params, LAMBDA p : p \in Range(pkNames))
    IN
    /\ Len(x.keys) = Len(ent.keys)
    /\ \A i \in 1..Len(ent.keys) : x.keys[i].name = Snake(ent.keys[i].words)
    /\ \A i \in 1..Len(pk) : x.keys[pk[i]].required
    /\ OnlyPk(x.query.methods[1].params) = pkNames
    /\ OnlyPk(x.query.methods[3].params) = pkNames
    \* nothing but keys of the entity is a path parameter
    /\ \A m \in Range(x.query.methods) : \A p \in Range(m.params) : \E i \in 1..Len(ent.keys) : p = Snake(ent.keys[i].words)

\* statuses are numbered in declaration order after UNSPECIFIED
StatusNumbered(ent, x) ==
    /\ Len(x.status) = Len(ent.status) + 1
    /\ x.status[1].number = 0 /\ x.status[1].name = ScreamOf(ent.name) \o "_STATUS_UNSPECIFIED"
    /\ \A i \in 1..Len(ent.status) : x.status[i + 1].number = i
                                  /\ x.status[i + 1].name = ScreamOf(ent.name) \o "_STATUS_" \o ent.status[i]

ConsistentOn(ent, x) ==
    /\ NamedFromEntity(ent, x)
    /\ SameAnnotation(ent, x)
    /\ StateEventShape(ent, x)
    /\ OneofPerEvent(ent, x)
    /\ PrimaryKeysInPath(ent, x)
    /\ StatusNumbered(ent, x)

(* ------------------------- model properties -------------------------- *)

\* evaluated on finished declarations (every prefix that is itself a declaration is also finished in another behaviour)
Complete == phase = "done"

TypeOK ==
    /\ phase \in {"name", "keys", "data", "status", "events", "commands", "summaries", "query", "done"}
    /\ Len(e.keys) <= MaxKeys(focus) /\ Len(e.data) <= MaxData(focus) /\ Len(e.status) <= MaxStatus(focus)
    /\ Len(e.events) <= MaxEvents(focus) /\ Len(e.commands) <= MaxCmds(focus) /\ Len(e.summaries) <= MaxSummaries(focus)

\* the expansion defined above satisfies the statement for every declaration of the space
EntityConsistent == Complete => ConsistentOn(e, EntityExpand(e))

\* no two generated elements of one scope share a name (a clash would make the expansion ambiguous)
NoDup(s) == \A i, j \in 1..Len(s) : i # j => s[i] # s[j]
NamesUnique ==
    Complete =>
        LET x == EntityExpand(e)
            msgs == <<x.schemas.keys, x.schemas.data, x.schemas.status, x.schemas.state, x.schemas.eventType, x.schemas.event>>
            svcMsgs == [i \in 1..3 |-> x.query.methods[i].request] \o [i \in 1..3 |-> x.query.methods[i].response]
            svcs == <<x.query.name>> \o [i \in 1..Len(x.commands) |-> x.commands[i].name]
            topics == <<x.publish.name>> \o [i \in 1..Len(x.upserts) |-> x.upserts[i].name]
            topicMsgs == <<x.publish.message>> \o [i \in 1..Len(x.upserts) |-> x.upserts[i].message]
            opts == [i \in 1..Len(x.eventType.options) |-> x.eventType.options[i].name]
            nested == [i \in 1..Len(x.eventType.nested) |-> x.eventType.nested[i].name]
            keyNames == [i \in 1..Len(x.keys) |-> x.keys[i].name]
            cmdIdx == {ix \in (1..Len(x.commands)) \X (1..3) : ix[2] <= Len(x.commands[ix[1]].methods)}
            CmdMethod(ix) == x.commands[ix[1]].methods[ix[2]].name
        IN NoDup(msgs) /\ NoDup(svcMsgs) /\ NoDup(svcs) /\ NoDup(topics) /\ NoDup(topicMsgs)
           /\ NoDup(opts) /\ NoDup(nested) /\ NoDup(keyNames)
           \* request / response messages of all services share one package: method names are unique across them
           /\ (\A c1, c2 \in cmdIdx : c1 # c2 => CmdMethod(c1) # CmdMethod(c2))
           /\ (\A c3 \in cmdIdx : \A i \in 1..3 : CmdMethod(c3) # x.query.methods[i].name)

\* declarations only grow, phases only advance
PhaseRank(p) ==
    CASE p = "name" -> 0 [] p = "keys" -> 1 [] p = "data" -> 2 [] p = "status" -> 3 [] p = "events" -> 4
      [] p = "commands" -> 5 [] p = "summaries" -> 6 [] p = "query" -> 7 [] p = "done" -> 8
Progress == [][focus' = focus /\ PhaseRank(phase') >= PhaseRank(phase) /\ Len(e'.keys) >= Len(e.keys)]_vars

Emit ==
    (EmitCases /\ phase = "done") =>
        PrintT(<<"CASE", ToJson([focus |-> focus, ast |-> e, src |-> Source(e), exp |-> EntityExpand(e)])>>)

=============================================================================
