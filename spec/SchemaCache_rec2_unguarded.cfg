SPECIFICATION Spec
CONSTANTS
  Procs <- P2
  Types <- RecTypes
  ChildSeq <- RecChild
  Invalid <- NoneInvalid
  Pkg <- RecPkg
  CallChoices <- RecCalls2
  Guard = "none"
  Mode = "check"
INVARIANTS SameAsAlone
CHECK_DEADLOCK FALSE
