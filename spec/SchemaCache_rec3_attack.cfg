SPECIFICATION Spec
CONSTANTS
  Procs <- P3
  Types <- RecTypes
  ChildSeq <- RecChild
  Invalid <- NoneInvalid
  Pkg <- RecPkg
  CallChoices <- RecCalls3
  Guard = "none"
  Mode = "attack"
INVARIANTS EmitAttack
VIEW View
CHECK_DEADLOCK FALSE
