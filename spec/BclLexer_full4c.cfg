SPECIFICATION Spec
CONSTANTS
  MaxLen = 4
  Sym <- SymFull
  FailFastChoices <- OnlyCollect
  EmitCases = TRUE
INVARIANTS PosInBounds TokensOrdered FailFastOne Emit
PROPERTIES Progress
CHECK_DEADLOCK FALSE
