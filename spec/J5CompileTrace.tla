--------------------------- MODULE J5CompileTrace ---------------------------
(***************************************************************************)
(* Trace validation for the j5s compiler (direction T) for C02 and C13.    *)
(*                                                                         *)
(* The harness records, per real compile, the projection of the real       *)
(* descriptors onto the Contract vocabulary:                               *)
(*   [op |-> "reset"]                          start of a new history      *)
(*   [op |-> "compile", ast, real]             C02: a program of J5Schema  *)
(*        and what the real compiler produced for it                        *)
(*   [op |-> "version", c]                     C13: the wire identities of  *)
(*        the next version in an append-only edit history                   *)
(* "compile": the machine is loaded with the logged program, the spec's    *)
(* Contract operator computes the expected contract, and the logged real   *)
(* contract is compared with it (conformance, counted as drift); the       *)
(* model-level laws NumbersContiguous / EnumNumbersContiguous /            *)
(* NamesUniquePerScope are evaluated by TLC ON THE REAL contract.          *)
(* "version": the law of C13 (every wire identity of every earlier version *)
(* is unchanged) is evaluated by TLC on the recorded values.               *)
(***************************************************************************)
EXTENDS J5Compile, IOUtils

TraceFile == IF "VERIF_TRACE" \in DOMAIN IOEnv THEN IOEnv.VERIF_TRACE ELSE "trace.ndjson"
Trace == ndJsonDeserialize(TraceFile)

VARIABLES l, nDrift, real, acc, ver
tvars == <<vars, l, nDrift, real, acc, ver>>

SetOf(s) == { s[i] : i \in 1..Len(s) }
EmptyW == [msgs |-> {}, fields |-> {}, values |-> {}, services |-> {}, methods |-> {}]
\* a recorded contract: JSON arrays become sets
RealC(r) == [k \in DOMAIN EmptyC |-> SetOf(r[k])]
RealW(r) == [k \in WireKeys |-> SetOf(r[k])]

Ev == Trace[l]

TraceInit ==
    /\ bundle = [pkgs |-> <<>>] /\ steps = 0 /\ rich = 0 /\ cur = <<>> /\ started = FALSE /\ hist = <<>> /\ focus = ""
    /\ con = EmptyC
    /\ l = 1 /\ nDrift = 0 /\ real = EmptyC /\ acc = EmptyW /\ ver = EmptyW

\* attributes of the statement of C02 (see harness/schema_project.go compareContract)
Demanded(c) ==
    [msgs |-> { [full |-> m.full, parent |-> m.parent, kind |-> m.kind] : m \in c.msgs },
     fields |-> c.fields,
     enums |-> { [full |-> e.full, parent |-> e.parent, scope |-> e.scope] : e \in c.enums },
     values |-> c.values,
     methods |-> c.methods,
     services |-> { [full |-> s.full, role |-> s.role] : s \in c.services },
     mainfiles |-> { f \in c.files : \A m \in c.services : m.file # f.name }]

Reset ==
    /\ l <= Len(Trace) /\ Ev.op = "reset"
    /\ acc' = EmptyW /\ ver' = EmptyW
    /\ l' = l + 1
    /\ UNCHANGED <<vars, nDrift, real>>

\* a recorded compile: load the program, let the specification compute its contract, compare
Compile ==
    /\ l <= Len(Trace) /\ Ev.op = "compile"
    /\ bundle' = Ev.ast
    /\ con' = Contract(Ev.ast)
    /\ real' = RealC(Ev.real)
    /\ nDrift' = nDrift + (IF Demanded(Contract(Ev.ast)) = Demanded(RealC(Ev.real)) THEN 0 ELSE 1)
    /\ l' = l + 1
    /\ UNCHANGED <<steps, rich, cur, started, hist, focus, acc, ver>>

\* the next version of an append-only history
Version ==
    /\ l <= Len(Trace) /\ Ev.op = "version"
    /\ acc' = [k \in WireKeys |-> acc[k] \cup ver[k]]
    /\ ver' = RealW(Ev.c)
    /\ l' = l + 1
    /\ UNCHANGED <<vars, nDrift, real>>

TraceNext == Reset \/ Compile \/ Version
TraceSpec == TraceInit /\ [][TraceNext]_tvars

(* laws evaluated on what the real compiler produced *)
LawNumbers ==
    \A m \in real.msgs :
        LET fs == { f \in real.fields : f.msg = m.full } IN { f.number : f \in fs } = 1..Cardinality(fs)
LawEnumNumbers ==
    \A e \in real.enums :
        LET vs == { v \in real.values : v.enum = e.full } IN
        /\ { v.number : v \in vs } = 0..(Cardinality(vs) - 1)
LawNames ==
    /\ \A x, y \in real.fields : (x.msg = y.msg /\ (x.name = y.name \/ (x.json # "" /\ x.json = y.json) \/ x.number = y.number)) => x = y
    /\ \A x, y \in real.msgs : x.full = y.full => x = y
\* C13: every wire identity of every earlier version is still there, unchanged
LawAppend == WireSubset(acc, ver) \/ ver = EmptyW

TraceDone ==
    (l = Len(Trace) + 1) => PrintT(<<"TRACEDONE", ToJson([events |-> l - 1, drift |-> nDrift])>>)
=============================================================================
