SPECIFICATION TraceSpec
CONSTANTS
  MaxRules = 3
  WithFaults = TRUE
  EmitCases = FALSE
INVARIANTS TraceDone
CHECK_DEADLOCK FALSE
