--------------------------- MODULE J5WireTokTrace ---------------------------
(***************************************************************************)
(* Direction T for C06.  The harness logs one event per real decoder call: *)
(*   [op |-> "tok", n, outcome, model]   a token sequence of J5WireTok     *)
(*   [op |-> "out", n, outcome]          an input of the residual random   *)
(*                                       driver (below the model alphabet) *)
(* The totality specification is "every call returns ok or err": a logged  *)
(* "panic" (or anything else) violates LawReturns.  For model-generated    *)
(* sequences the model's predicted outcome is compared (conformance,       *)
(* counted as drift).                                                      *)
(***************************************************************************)
EXTENDS J5WireTok, IOUtils

TraceFile == IF "VERIF_TRACE" \in DOMAIN IOEnv THEN IOEnv.VERIF_TRACE ELSE "trace.ndjson"
Trace == ndJsonDeserialize(TraceFile)

VARIABLES l, nDrift
tvars == <<vars, l, nDrift>>

TraceInit == Init /\ l = 1 /\ nDrift = 0
Ev == Trace[l]

\* the call returns: one step of the totality specification
Return ==
    /\ l <= Len(Trace)
    /\ nDrift' = nDrift + (IF Ev.op = "tok" /\ Ev.model # Ev.outcome THEN 1 ELSE 0)
    /\ l' = l + 1
    /\ UNCHANGED vars

TraceSpec == TraceInit /\ [][Return]_tvars

LawReturns == (l <= Len(Trace)) => Ev.outcome \in {"ok", "err"}

TraceDone == (l = Len(Trace) + 1) => PrintT(<<"TRACEDONE", ToJson([events |-> l - 1, drift |-> nDrift])>>)
=============================================================================
