------------------------------ MODULE J5Schema ------------------------------
(***************************************************************************)
(* The j5s schema language as a PROGRAM-BUILDING state machine.            *)
(*                                                                         *)
(* The state is an abstract bundle (packages -> files -> declarations) and *)
(* every step appends one element at the END of some list of the program   *)
(* (a field to a message, an option to an enum, a declaration to a file,   *)
(* a method to a service, ...).  The reachable graph therefore is the      *)
(* bounded program space AND every transition is an append edit in the     *)
(* sense of property C13.  J5Compile.tla EXTENDS this module with the      *)
(* protobuf contract of a bundle (property C02).                           *)
(*                                                                         *)
(* Breadth without explosion (DESIGN 5.5): a program is a small base       *)
(* bundle plus a chain of steps; a step is either MINIMAL (positional      *)
(* name, string type, no qualifier: cost 0) or a FOCUS construct drawn     *)
(* from the language catalogue (cost 1, at most MaxFocus per program).     *)
(* With Focused = TRUE the chain stays at or below the node the first      *)
(* step touched, so each focus construct is seen at every position of its  *)
(* container, preceded and followed by minimal elements, and nothing       *)
(* else.  -simulate with Focused = FALSE draws deep random programs.       *)
(*                                                                         *)
(* EVIDENCE for each construct of the language used here (only documented  *)
(* language is generated; see the comment at each catalogue entry):        *)
(*  R   = /repo/README.md                                                  *)
(*  S   = /repo/internal/j5s/j5parse/schema.go (BCL mapping: tags,         *)
(*        qualifiers, "!"/"?" marks, aliases)                              *)
(*  P   = /repo/proto/j5/j5/schema/v1/schema.proto,                        *)
(*        /repo/proto/j5build/j5/sourcedef/v1/file.proto                   *)
(*  T   = tests under /repo/internal/j5s (j5parse, j5convert, protobuild)  *)
(*                                                                         *)
(* The AST uses only records, sequences, strings, integers and booleans    *)
(* (no sets), so that ToJson / ndJsonDeserialize round-trips it.           *)
(***************************************************************************)
EXTENDS Integers, Sequences, FiniteSets, TLC

CONSTANTS
    Bases,        \* subset of {"single", "svc", "twofile", "twopkg", "twopkgfile", "proto", "onefile", "empty"}: base bundles (see Base)
    MaxSteps,     \* number of Add* steps after the base
    MaxFocus,     \* number of non-minimal constructs per program
    Focused,      \* TRUE: steps stay at or below the node touched by the first step
    Breadth,      \* "full" | "lite": size of the focus catalogue
    MaxFields,    \* fields per message / options per enum / methods per service / messages per topic
    MaxDecls,     \* declarations per file
    MaxFiles,     \* files per package
    MaxPkgs       \* packages per bundle

(* ------------------------------------------------------------------ *)
(* Names: sequences of lower-case words plus a source spelling.  The   *)
(* casing functions are computed here by concatenation over the Cap    *)
(* and Up tables, so expected proto / JSON names are MODEL outputs.    *)
(* ------------------------------------------------------------------ *)
Cap(w) ==
    CASE w = "foo" -> "Foo" [] w = "bar" -> "Bar" [] w = "baz" -> "Baz" [] w = "id" -> "Id" [] w = "url" -> "Url"
      [] w = "a" -> "A" [] w = "b" -> "B" [] w = "c" -> "C" [] w = "x" -> "X"
      [] w = "line" -> "Line" [] w = "1" -> "1"
      [] w = "alpha" -> "Alpha" [] w = "beta" -> "Beta" [] w = "gamma" -> "Gamma" [] w = "delta" -> "Delta"
      [] w = "one" -> "One" [] w = "two" -> "Two" [] w = "item" -> "Item"
      [] w = "apple" -> "Apple" [] w = "avocado" -> "Avocado" [] w = "almond" -> "Almond" [] w = "apricot" -> "Apricot"
      [] w = "banana" -> "Banana" [] w = "berry" -> "Berry" [] w = "beet" -> "Beet" [] w = "basil" -> "Basil"
      [] w = "get" -> "Get" [] w = "post" -> "Post" [] w = "thing" -> "Thing" [] w = "named" -> "Named"
      [] w = "inner" -> "Inner" [] w = "kind" -> "Kind" [] w = "pie" -> "Pie"
      [] w = "first" -> "First" [] w = "second" -> "Second" [] w = "third" -> "Third"
      [] w = "request" -> "Request" [] w = "reply" -> "Reply" [] w = "pear" -> "Pear" [] w = "plum" -> "Plum"
      [] w = "message" -> "Message"
Up(w) ==
    CASE w = "foo" -> "FOO" [] w = "bar" -> "BAR" [] w = "baz" -> "BAZ" [] w = "id" -> "ID" [] w = "url" -> "URL"
      [] w = "a" -> "A" [] w = "b" -> "B" [] w = "c" -> "C" [] w = "x" -> "X"
      [] w = "line" -> "LINE" [] w = "1" -> "1"
      [] w = "alpha" -> "ALPHA" [] w = "beta" -> "BETA" [] w = "gamma" -> "GAMMA" [] w = "delta" -> "DELTA"
      [] w = "one" -> "ONE" [] w = "two" -> "TWO" [] w = "item" -> "ITEM"
      [] w = "apple" -> "APPLE" [] w = "avocado" -> "AVOCADO" [] w = "almond" -> "ALMOND" [] w = "apricot" -> "APRICOT"
      [] w = "banana" -> "BANANA" [] w = "berry" -> "BERRY" [] w = "beet" -> "BEET" [] w = "basil" -> "BASIL"
      [] w = "get" -> "GET" [] w = "post" -> "POST" [] w = "thing" -> "THING" [] w = "named" -> "NAMED"
      [] w = "inner" -> "INNER" [] w = "kind" -> "KIND" [] w = "pie" -> "PIE"
      [] w = "first" -> "FIRST" [] w = "second" -> "SECOND" [] w = "third" -> "THIRD"
      [] w = "request" -> "REQUEST" [] w = "reply" -> "REPLY" [] w = "pear" -> "PEAR" [] w = "plum" -> "PLUM"
      [] w = "message" -> "MESSAGE"

RECURSIVE JoinWith(_, _)
JoinWith(ws, sep) == IF ws = <<>> THEN "" ELSE IF Len(ws) = 1 THEN ws[1] ELSE ws[1] \o sep \o JoinWith(Tail(ws), sep)
RECURSIVE CapAll(_)
CapAll(ws) == IF ws = <<>> THEN "" ELSE Cap(ws[1]) \o CapAll(Tail(ws))
RECURSIVE UpJoin(_)
UpJoin(ws) == IF ws = <<>> THEN "" ELSE IF Len(ws) = 1 THEN Up(ws[1]) ELSE Up(ws[1]) \o "_" \o UpJoin(Tail(ws))

\* source spellings: camel fooBar (R: `field fooId key:id62`), snake foo_bar (T: j5parse/convert_test.go `field foo_id key:uuid`),
\* upper FooBar (declaration names, R), acro fooID (last word upper-cased; identifiers are free-form in the BCL lexer)
Spell(ws, sp) ==
    CASE sp = "camel" -> ws[1] \o CapAll(Tail(ws))
      [] sp = "snake" -> JoinWith(ws, "_")
      [] sp = "upper" -> CapAll(ws)
      [] sp = "acro"  -> ws[1] \o CapAll(SubSeq(ws, 2, Len(ws) - 1)) \o Up(ws[Len(ws)])
Name(ws, sp) == [w |-> ws, sp |-> sp, src |-> Spell(ws, sp)]
NoName == [w |-> <<>>, sp |-> "", src |-> ""]

Snake(n) == JoinWith(n.w, "_")
LowerCamel(n) == n.w[1] \o CapAll(Tail(n.w))
\* UpperCamel is a function of the words: fooID, foo_id and fooId all give FooId
UpperCamel(n) == CapAll(n.w)
ScreamingSnake(n) == UpJoin(n.w)

(* ------------------------------------------------------------------ *)
(* AST constructors                                                    *)
(* ------------------------------------------------------------------ *)
Scalar(s) == [k |-> "scalar", s |-> s]
Ref(rk, pkg, path, qual, form) == [k |-> "ref", rk |-> rk, pkg |-> pkg, path |-> path, qual |-> qual, form |-> form]
InlineObject(oname, fields) == [k |-> "inline", ik |-> "object", oname |-> oname, fields |-> fields, options |-> <<>>]
InlineOneof(oname, fields)  == [k |-> "inline", ik |-> "oneof", oname |-> oname, fields |-> fields, options |-> <<>>]
InlineEnum(oname, options)  == [k |-> "inline", ik |-> "enum", oname |-> oname, fields |-> <<>>, options |-> options]
ArrayOf(t) == [k |-> "array", item |-> t]
MapOf(t) == [k |-> "map", item |-> t]
Field(n, t, pres, form) == [name |-> n, type |-> t, pres |-> pres, presForm |-> form]
Plain(n, t) == Field(n, t, "none", "mark")

ObjectDecl(n, fields) == [kind |-> "object", name |-> n, fields |-> fields, nested |-> <<>>]
OneofDecl(n, fields) == [kind |-> "oneof", name |-> n, fields |-> fields]
\* info: the keys of the info map carried by every option of the enum (P schema.proto Enum.Option.info); the compiled
\* value annotation is a protobuf map, so more than one key exercises the order in which maps are written (C14, C05)
EnumDecl(n, options, unspec, prefix) == [kind |-> "enum", name |-> n, options |-> options, unspec |-> unspec, prefix |-> prefix, info |-> <<>>]
\* <key, value atom>: the values are strings that need escaping in the printed options (quotes and backslash, control
\* characters and a line break, non-ASCII inside and outside the basic plane); the harness concretises the atoms
\* (two keys that differ in case only: any order the printer imposes has to be total)
InfoKeys == << <<"delta", "quote">>, <<"alpha", "astral">>, <<"gamma", "ctl">>, <<"beta", "bmp">>, <<"epsilon", "plain">>, <<"Alpha", "upper">> >>
\* baseOut: the base path as it is emitted (":name" rewritten to "{snake_name}"); baseParams: the names of its parameters,
\* which every method's request has to declare
ServiceDecl(n, basePath, methods) == [kind |-> "service", name |-> n, basePath |-> basePath, methods |-> methods,
                                      baseOut |-> basePath, baseParams |-> <<>>]
Method(n, verb, path, request, hasResponse, response) ==
    [name |-> n, verb |-> verb, path |-> path, request |-> request, hasResponse |-> hasResponse, response |-> response]
TopicDecl(n, tkind, messages) == [kind |-> "topic", name |-> n, tkind |-> tkind, messages |-> messages]
Message(n, fields) == [name |-> n, fields |-> fields]
Lit(s) == [p |-> FALSE, s |-> s, w |-> <<>>]
Param(n) == [p |-> TRUE, s |-> n.src, w |-> n.w]
Import(pkg, form, alias, file) == [pkg |-> pkg, form |-> form, alias |-> alias, file |-> file]
File(name, imports, decls) == [name |-> name, kind |-> "j5s", imports |-> imports, decls |-> decls]
\* a hand-written .proto file of the bundle (R "Packages and Imports": "A j5s source can import a proto source, and v/v";
\* T protobuild/packages_test.go TestImportJ5FromProto / TestImportProtoToJ5Local / TestImportProtoToJ5Other).  Proto files
\* only occur in base bundles: objects with string / message-reference fields and enums, printed as plain proto3.
ProtoFile(name, imports, decls) == [name |-> name, kind |-> "proto", imports |-> imports, decls |-> decls]
Pkg(name, files) == [name |-> name, files |-> files]

ElemType(t) == IF t.k \in {"array", "map"} THEN t.item ELSE t

(* ------------------------------------------------------------------ *)
(* Positional (minimal) names                                          *)
(* ------------------------------------------------------------------ *)
PkgNames == <<"foo.v1", "bar.baz.v1">>      \* R: "any number of dot-separated strings ending in a version"
\* a third package, only in the base bundle "aliasclash": its short name is the same as that of foo.v1
ClashPkg == "qux.foo.v1"
ShortOf(p) == IF p \in {"foo.v1", ClashPkg} THEN "foo" ELSE "baz"     \* R: import brings the package in "by the package name ('bar' not 'v1')"
AliasOf(p) == IF p = "foo.v1" THEN "fz" ELSE IF p = ClashPkg THEN "qz" ELSE "bz"
FileNames == <<"a", "b">>
\* the same declaration names are used in every package (same simple name in two packages must resolve by package)
DeclNames == <<  <<Name(<<"apple">>, "upper"), Name(<<"avocado">>, "upper"), Name(<<"almond">>, "upper"), Name(<<"apricot">>, "upper")>>,
                 <<Name(<<"banana">>, "upper"), Name(<<"berry">>, "upper"), Name(<<"beet">>, "upper"), Name(<<"basil">>, "upper")>> >>
\* field names by position mix the spellings so that every program exercises the casing functions
\* (deliberately NOT in alphabetical order: numbering by sorted name must differ from numbering by position)
FieldNames == << Name(<<"gamma", "one">>, "camel"), Name(<<"beta", "two">>, "snake"), Name(<<"alpha">>, "camel"), Name(<<"delta", "id">>, "camel") >>
OptionNames == << "FIRST", "SECOND", "THIRD", "FOURTH" >>
\* <Method>Request / <Method>Response and <Name>Message types of all services / topics of a package share one sub-package
\* (TLC found the collision with fixed method names: NumbersContiguous failed for two topics with a message of the
\* same name), so positional method and message names are derived from the owning declaration's name
MethodWords == << "get", "post", "first", "second" >>
MessageWords == << "item", "first", "second", "third" >>
MethodName(owner, k) == Name(<<MethodWords[k]>> \o owner.w, "upper")
MessageName(owner, k) == Name(owner.w \o <<MessageWords[k]>>, "upper")

MinField(i) == Plain(FieldNames[i], Scalar("string"))
\* R "Oneof": "all of the properties must be objects"
MinOption(i) == Plain(FieldNames[i], InlineObject(NoName, <<>>))

ShadowMessage == Name(MessageName(DeclNames[1][4], 1).w \o <<"message">>, "upper")      \* ApricotItemMessage
ShadowRequest == Name(MethodName(DeclNames[1][4], 1).w \o <<"request">>, "upper")        \* GetApricotRequest

(* ------------------------------------------------------------------ *)
(* Base bundles                                                        *)
(* ------------------------------------------------------------------ *)
TargetFile(fname, k) ==
    File(fname, <<>>, << ObjectDecl(DeclNames[k][1], <<MinField(1)>>),
                         OneofDecl(DeclNames[k][2], <<MinOption(1)>>),
                         EnumDecl(DeclNames[k][3], <<"FIRST">>, FALSE, "") >>)
\* (fn: the name of the file that holds the service and the topic; generated files are linked in the order of their
\* paths, and "u" sorts after "service/" and "topic/": there the sub-package files are linked BEFORE the file they import)
SvcRefBase(fn) == [pkgs |-> << Pkg(PkgNames[1], << File(fn, <<>>,
                            << ObjectDecl(DeclNames[1][1], <<MinField(1)>>),
                               ServiceDecl(DeclNames[1][2], "/" \o ShortOf(PkgNames[1]) \o "/v1",
                                  << Method(MethodName(DeclNames[1][2], 1), "POST", <<Lit("things")>>,
                                            << Plain(FieldNames[1], Ref("object", PkgNames[1], <<DeclNames[1][1].src>>, "", "qual")) >>, TRUE,
                                            << Plain(FieldNames[1], Ref("object", PkgNames[1], <<DeclNames[1][1].src>>, "", "qual")) >>) >>),
                               TopicDecl(DeclNames[1][3], "publish",
                                  << Message(MessageName(DeclNames[1][3], 1),
                                             << Plain(FieldNames[1], Ref("object", PkgNames[1], <<DeclNames[1][1].src>>, "", "qual")) >>) >>) >>),
                            \* (a second file keeps this base out of the "wide" bases, where the whole catalogue is explored)
                            File("b", <<>>, << ObjectDecl(DeclNames[2][1], <<>>) >>) >>) >>]

Base(b) ==
    CASE b = "empty"   -> [pkgs |-> <<>>]
      \* the wide base: the full catalogue is explored here (see Wide)
      [] b = "single"  -> [pkgs |-> << Pkg(PkgNames[1], << File("a", <<>>, << ObjectDecl(DeclNames[1][1], <<>>) >>) >>) >>]
      [] b = "onefile" -> [pkgs |-> << Pkg(PkgNames[1], << File("a", <<>>, <<>>) >>) >>]
      \* cross-file references inside one package: file b holds the targets, file a is worked on
      \* (Apple already has an inline object field: its nested type GammaOne is what a later, deeper GammaOne may capture)
      [] b = "twofile" -> [pkgs |-> << Pkg(PkgNames[1], << File("a", <<>>, << ObjectDecl(DeclNames[1][1],
                                                                 << Plain(FieldNames[1], InlineObject(NoName, <<MinField(1)>>)) >>) >>), TargetFile("b", 2) >>) >>]
      \* cross-package references: package 1 holds the targets, package 2's file imports it in the three documented ways
      \* (package 2 declares its own Apple and already refers to both Apples: a reference must be kept by package, not by name)
      [] b = "twopkg"  -> [pkgs |-> << Pkg(PkgNames[1], << TargetFile("a", 1) >>),
                                       Pkg(PkgNames[2], << File("a", << Import(PkgNames[1], "pkg", "", ""),
                                                                          Import(PkgNames[1], "alias", AliasOf(PkgNames[1]), "") >>,
                                                                 << ObjectDecl(DeclNames[1][1], <<>>),
                                                                    ObjectDecl(DeclNames[1][2],
                                                                      << Plain(FieldNames[1], Ref("object", PkgNames[2], <<DeclNames[1][1].src>>, "", "qual")),
                                                                         Plain(FieldNames[2], Ref("object", PkgNames[1], <<DeclNames[1][1].src>>, PkgNames[1], "qual")) >>) >>) >>) >>]
      \* services and topics exist already, so that ONE focus construct reaches every method shape (verb x path pattern x response)
      \* and every field kind inside request / response / topic messages
      [] b = "svc" -> [pkgs |-> << Pkg(PkgNames[1], << File("a", <<>>,
                            << ServiceDecl(DeclNames[1][1], "/" \o ShortOf(PkgNames[1]) \o "/v1", <<>>),
                               TopicDecl(DeclNames[1][2], "publish", <<Message(MessageName(DeclNames[1][2], 1), <<>>)>>),
                               TopicDecl(DeclNames[1][3], "reqres", <<Message(Name(<<"request">>, "upper"), <<>>), Message(Name(<<"reply">>, "upper"), <<>>)>>),
                               TopicDecl(DeclNames[1][4], "upsert", <<Message(MessageName(DeclNames[1][4], 1), <<>>)>>) >>) >>) >>]
      \* a method and a topic message whose fields already refer to the declared type Apple: an inline type appended to the
      \* same message and named Apple (field apple object {...}) must not capture those references
      [] b = "svcref" -> SvcRefBase("a")
      [] b = "svcreflate" -> SvcRefBase("u")
      \* proto <-> j5s: p.proto of package 1 imports a.j5s.proto and uses its Apple (proto -> j5s); file b of package 1 may refer to
      \* p.proto's Pear / Plum without import (j5s -> proto, same package); package 2 imports "foo/v1/p.proto" by path
      [] b = "proto" -> [pkgs |-> << Pkg(PkgNames[1], << File("a", <<>>, << ObjectDecl(DeclNames[1][1], <<MinField(1)>>) >>),
                                                         File("b", <<>>, << ObjectDecl(DeclNames[2][1], <<>>) >>),
                                                         ProtoFile("p", << Import(PkgNames[1], "j5sfile", "", "a") >>,
                                                                   << ObjectDecl(Name(<<"pear">>, "upper"),
                                                                                 << Plain(Name(<<"alpha">>, "camel"), Scalar("string")),
                                                                                    Plain(Name(<<"gamma">>, "camel"), Ref("object", PkgNames[1], <<DeclNames[1][1].src>>, PkgNames[1], "qual")) >>),
                                                                      EnumDecl(Name(<<"plum">>, "upper"), <<"FIRST">>, FALSE, "") >>) >>),
                                     Pkg(PkgNames[2], << File("a", << Import(PkgNames[1], "protofile", "", "p") >>,
                                                               << ObjectDecl(DeclNames[1][1], <<>>) >>) >>) >>]
      \* inline types that need each other's names: Apple has an inline enum, Apricot an inline oneof, Almond an inline object
      \* named like Almond itself; a field added next to them (named like the parent, or any inline type) is the focus
      [] b = "inlsib" -> [pkgs |-> << Pkg(PkgNames[1], << File("a", <<>>,
                            << ObjectDecl(DeclNames[1][1], << Plain(FieldNames[1], InlineEnum(NoName, <<"FIRST", "SECOND">>)) >>),
                               ObjectDecl(DeclNames[1][2], << Plain(FieldNames[1], InlineOneof(NoName, <<MinOption(1)>>)) >>),
                               ObjectDecl(DeclNames[1][3], << Plain(Name(DeclNames[1][3].w, "camel"), InlineEnum(NoName, <<"FIRST">>)) >>),
                               ObjectDecl(DeclNames[1][4], << Plain(Name(DeclNames[1][4].w, "camel"), InlineObject(NoName, <<MinField(1)>>)) >>) >>),
                            File("b", <<>>, << ObjectDecl(DeclNames[2][1], <<>>) >>) >>) >>]
      \* two imported packages with the same short name: foo.v1 by package (short name "foo") and qux.foo.v1 by alias only
      \* (R: "import <package>:<alias>" brings it in under the alias); both declare the same type names, so a reference
      \* that resolves to the wrong package still links
      [] b = "aliasclash" -> [pkgs |-> << Pkg(PkgNames[1], << TargetFile("a", 1) >>),
                                          Pkg(ClashPkg, << TargetFile("a", 1) >>),
                                          Pkg(PkgNames[2], << File("a", << Import(PkgNames[1], "pkg", "", ""),
                                                                             Import(ClashPkg, "alias", AliasOf(ClashPkg), "") >>,
                                                                    << ObjectDecl(DeclNames[1][1], <<>>) >>) >>) >>]
      \* user types named like the types the compiler derives for a topic message / a method request in the sub-packages
      \* (<Name>Message, <Method>Request) and already referred to: the next declaration of the file (position 4, Apricot)
      \* derives exactly those names in foo.v1.topic / foo.v1.service
      [] b = "shadow" -> [pkgs |-> << Pkg(PkgNames[1], << File("a", <<>>,
                            << ObjectDecl(ShadowMessage, <<MinField(1)>>),
                               ObjectDecl(ShadowRequest, <<MinField(1)>>),
                               ObjectDecl(DeclNames[1][1],
                                          << Plain(FieldNames[1], Ref("object", PkgNames[1], <<ShadowMessage.src>>, "", "qual")),
                                             Plain(FieldNames[2], Ref("object", PkgNames[1], <<ShadowRequest.src>>, "", "qual")) >>) >>) >>) >>]
      \* ... and the derived types REFER to their namesakes of the parent package: foo.v1.service.GetApricotRequest has a field of
      \* type foo.v1.GetApricotRequest, foo.v1.topic.ApricotItemMessage one of type foo.v1.ApricotItemMessage (a relative name
      \* written inside the sub-package would find the sub-package's own type first)
      [] b = "shadowsvc" -> [pkgs |-> << Pkg(PkgNames[1], << File("a", <<>>,
                            << ObjectDecl(ShadowMessage, <<MinField(1)>>),
                               ObjectDecl(ShadowRequest, <<MinField(1)>>),
                               ServiceDecl(DeclNames[1][4], "/" \o ShortOf(PkgNames[1]) \o "/v1",
                                  << Method(MethodName(DeclNames[1][4], 1), "POST", <<Lit("things")>>,
                                            << Plain(FieldNames[1], Ref("object", PkgNames[1], <<ShadowRequest.src>>, "", "qual")) >>, TRUE,
                                            << Plain(FieldNames[1], Ref("object", PkgNames[1], <<ShadowRequest.src>>, "", "qual")) >>) >>),
                               TopicDecl(DeclNames[1][4], "publish",
                                  << Message(MessageName(DeclNames[1][4], 1),
                                             << Plain(FieldNames[1], Ref("object", PkgNames[1], <<ShadowMessage.src>>, "", "qual")) >>) >>) >>),
                            File("b", <<>>, << ObjectDecl(DeclNames[2][1], <<>>) >>) >>) >>]
      \* two inline enums of one name in different messages (Avocado.GammaOne exists; Apple gets its own GammaOne by an append),
      \* next to a top-level enum of that name: three distinct types
      [] b = "inlsame" -> [pkgs |-> << Pkg(PkgNames[1], << File("a", <<>>,
                            << ObjectDecl(DeclNames[1][1], <<>>),
                               ObjectDecl(DeclNames[1][2], << Plain(FieldNames[1], InlineEnum(NoName, <<"FIRST", "SECOND">>)) >>),
                               EnumDecl(Name(FieldNames[1].w, "upper"), <<"FIRST">>, FALSE, "") >>),
                            File("b", <<>>, << ObjectDecl(DeclNames[2][1], <<>>) >>) >>) >>]
      \* an import alias spelled like a declaration name: bar.baz.v1 imports foo.v1 as "Avocado" and refers to Avocado.Apple;
      \* the declaration appended next is called Avocado, and may get an inline type Apple of its own
      [] b = "aliasdecl" -> [pkgs |-> << Pkg(PkgNames[1], << TargetFile("a", 1) >>),
                                         Pkg(PkgNames[2], << File("a", << Import(PkgNames[1], "alias", DeclNames[1][2].src, "") >>,
                                              << ObjectDecl(DeclNames[1][1],
                                                   << Plain(FieldNames[1], Ref("object", PkgNames[1], <<DeclNames[1][1].src>>, DeclNames[1][2].src, "qual")) >>) >>) >>) >>]
      \* source files with dots in their names (orders.api.j5s / orders.events.j5s): the generated service / topic files are
      \* named after the whole file name; file x.a has a service and a topic, file x.b gets its own by an append
      [] b = "dotfiles" -> [pkgs |-> << Pkg(PkgNames[1], << File("x.a", <<>>,
                            << ObjectDecl(DeclNames[1][1], <<MinField(1)>>),
                               ServiceDecl(DeclNames[1][2], "/" \o ShortOf(PkgNames[1]) \o "/v1",
                                  << Method(MethodName(DeclNames[1][2], 1), "GET", <<Lit("things")>>, <<>>, TRUE, <<>>) >>),
                               TopicDecl(DeclNames[1][3], "publish", <<Message(MessageName(DeclNames[1][3], 1), <<>>)>>) >>),
                            File("x.b", <<>>, << ObjectDecl(DeclNames[2][1], <<>>) >>) >>) >>]
      \* file-path import (T: protobuild TestImportProtoToJ5Other, README "Packages and Imports")
      [] b = "twopkgfile" -> [pkgs |-> << Pkg(PkgNames[1], << TargetFile("a", 1) >>),
                                       Pkg(PkgNames[2], << File("a", << Import(PkgNames[1], "file", "", "a") >>,
                                                                 << ObjectDecl(DeclNames[1][1], <<>>) >>) >>) >>]

VARIABLES
    bundle,   \* the program: [pkgs |-> <<package...>>]
    steps,    \* number of Add* steps taken
    rich,     \* number of focus constructs used
    cur,      \* path of the node the first step touched (Focused mode), or <<>> before the first step
    started,  \* a step has been taken
    hist,     \* sequence of edits [kind, path, list, label] (each is an append at the end of `list` of the node at `path`)
    focus     \* concatenated labels of the focus constructs (used for finding signatures)

(* ------------------------------------------------------------------ *)
(* Paths: a path is a sequence of steps [f |-> field, i |-> index];   *)
(* i = 0 means "the record field f", i > 0 "element i of sequence f". *)
(* ------------------------------------------------------------------ *)
St(f, i) == [f |-> f, i |-> i]
RECURSIVE GetNode(_, _)
GetNode(node, path) ==
    IF path = <<>> THEN node
    ELSE LET s == Head(path) IN GetNode(IF s.i = 0 THEN node[s.f] ELSE node[s.f][s.i], Tail(path))
RECURSIVE AppendAt(_, _, _, _)
AppendAt(node, path, list, e) ==
    IF path = <<>> THEN [node EXCEPT ![list] = Append(@, e)]
    ELSE LET s == Head(path) IN
         IF s.i = 0 THEN [node EXCEPT ![s.f] = AppendAt(@, Tail(path), list, e)]
         ELSE [node EXCEPT ![s.f][s.i] = AppendAt(@, Tail(path), list, e)]
IsPrefix(p, q) == Len(p) <= Len(q) /\ SubSeq(q, 1, Len(p)) = p

Idx(s) == 1..Len(s)
PkgPaths(b) == { <<St("pkgs", p)>> : p \in Idx(b.pkgs) }
FilePaths(b) == UNION { { <<St("pkgs", p), St("files", f)>> : f \in { x \in Idx(b.pkgs[p].files) : b.pkgs[p].files[x].kind = "j5s" } } : p \in Idx(b.pkgs) }
DeclPaths(b) == UNION { { fp \o <<St("decls", d)>> : d \in Idx(GetNode(b, fp).decls) } : fp \in FilePaths(b) }

\* containers of a field list's inline bodies (one level: fields of a declared message / nested / request ...)
InlineContainers(base, fields, depth) ==
    UNION { LET t == fields[i].type
                et == ElemType(t)
                tp == base \o <<St("fields", i), St("type", 0)>> \o (IF t.k \in {"array", "map"} THEN <<St("item", 0)>> ELSE <<>>)
            IN IF et.k # "inline" THEN {}
               ELSE IF et.ik = "enum" THEN {[path |-> tp, list |-> "options", ctx |-> "inline-enum", depth |-> depth]}
               ELSE {[path |-> tp, list |-> "fields", ctx |-> "inline-" \o et.ik, depth |-> depth]}
          : i \in Idx(fields) }

DeclContainers(b, dp) ==
    LET d == GetNode(b, dp) IN
    CASE d.kind = "object" ->
            {[path |-> dp, list |-> "fields", ctx |-> "object", depth |-> 1], [path |-> dp, list |-> "nested", ctx |-> "nest", depth |-> 1]}
            \cup InlineContainers(dp, d.fields, 2)
            \cup { [path |-> dp \o <<St("nested", n)>>, list |-> "fields", ctx |-> "nested", depth |-> 2] : n \in Idx(d.nested) }
      [] d.kind = "oneof" -> {[path |-> dp, list |-> "fields", ctx |-> "oneof", depth |-> 1]}
            \cup UNION { LET t == d.fields[i].type IN
                         IF t.k = "inline" THEN {[path |-> dp \o <<St("fields", i), St("type", 0)>>, list |-> "fields", ctx |-> "inline-object", depth |-> 2]} ELSE {}
                       : i \in Idx(d.fields) }
      [] d.kind = "enum" -> {[path |-> dp, list |-> "options", ctx |-> "enum", depth |-> 1]}
      [] d.kind = "service" -> {[path |-> dp, list |-> "methods", ctx |-> "service", depth |-> 1]}
            \cup UNION { {[path |-> dp \o <<St("methods", m)>>, list |-> "request", ctx |-> "request", depth |-> 1]}
                         \cup (IF d.methods[m].hasResponse
                               THEN {[path |-> dp \o <<St("methods", m)>>, list |-> "response", ctx |-> "response", depth |-> 1]} ELSE {})
                       : m \in Idx(d.methods) }
      [] d.kind = "topic" -> (IF d.tkind = "publish" THEN {[path |-> dp, list |-> "messages", ctx |-> "topic", depth |-> 1]} ELSE {})
            \cup { [path |-> dp \o <<St("messages", m)>>, list |-> "fields", ctx |-> "topicmsg", depth |-> 1] : m \in Idx(d.messages) }

Containers(b) ==
    {[path |-> <<>>, list |-> "pkgs", ctx |-> "root", depth |-> 0]}
    \cup { [path |-> pp, list |-> "files", ctx |-> "pkg", depth |-> 0] : pp \in PkgPaths(b) }
    \cup { [path |-> fp, list |-> "decls", ctx |-> "file", depth |-> 0] : fp \in FilePaths(b) }
    \cup UNION { DeclContainers(b, dp) : dp \in DeclPaths(b) }

(* ------------------------------------------------------------------ *)
(* Lookups used by the generator's validity guards                     *)
(* ------------------------------------------------------------------ *)
PkgIndexOf(c) == c.path[1].i
FileIndexOf(c) == c.path[2].i
PkgOfPath(b, path) == b.pkgs[path[1].i]
FileOfPath(b, path) == b.pkgs[path[1].i].files[path[2].i]

\* all top-level declarations of a package: <<file name, decl>>
TopDecls(pk) == UNION { { <<pk.files[f].name, pk.files[f].decls[d], pk.files[f].kind>> : d \in Idx(pk.files[f].decls) } : f \in Idx(pk.files) }
TopNames(pk, kinds) == { fd[2].name.src : fd \in { x \in TopDecls(pk) : x[2].kind \in kinds } }

\* reference forms available in file fl of package index pi towards declarations of kind rk
\* (R "Packages and Imports", T j5convert/imports_test.go: same file, same package, qualified same package,
\*  package import by last-but-one segment, by full name, by alias; file-path import resolves by full package name)
\* Same-package references across files are only generated from a file to a LATER file: two files of one package that
\* refer to each other are valid j5s but become mutually importing .proto files, on which the real linker recurses until the
\* stack overflowed (found by simulation; reported for C07; since /repo 9f324d6 it is a "circular import" error) - such programs
\* cannot be compiled, so they are kept out of the space.
FilePos(fname) == IF fname = FileNames[1] THEN 1 ELSE IF fname = FileNames[2] THEN 2 ELSE 3
\* the files of the own package that file fname (a proto file) imports
ImportedBy(pk, fname) == UNION { IF pk.files[f].name = fname /\ pk.files[f].kind = "proto"
                                 THEN { pk.files[f].imports[i].file : i \in Idx(pk.files[f].imports) } ELSE {} : f \in Idx(pk.files) }
RefTargets(b, pi, fl, rk) ==
    LET self == b.pkgs[pi]
        kinds == {rk}
        reach == { fd[2].name.src : fd \in { x \in TopDecls(self) : x[2].kind \in kinds /\ FilePos(x[1]) >= FilePos(fl.name)
                                                                      /\ fl.name \notin ImportedBy(self, x[1]) } }
        local == { Ref(rk, self.name, <<n>>, q, fm) : n \in reach, q \in {"", self.name}, fm \in {"qual", "block"} }
        imported == UNION { LET im == fl.imports[i]
                                tp == CHOOSE p \in { b.pkgs[j] : j \in Idx(b.pkgs) } : p.name = im.pkg
                                quals == CASE im.form = "pkg" -> {ShortOf(im.pkg), im.pkg}
                                           [] im.form = "alias" -> {im.alias}
                                           [] im.form \in {"file", "protofile"} -> {im.pkg}
                            IN { Ref(rk, im.pkg, <<n>>, q, "qual") : n \in TopNames(tp, kinds), q \in quals }
                          : i \in Idx(fl.imports) }
    IN local \cup imported

(* ------------------------------------------------------------------ *)
(* The catalogue of focus constructs.  Every entry is [e |-> element,  *)
(* rich |-> 0/1, label |-> string].                                    *)
(* ------------------------------------------------------------------ *)
\* R "Scalar Types" table + "Object Field" (key:id62, integer:INT32); P schema.proto Field oneof (any, key formats id62/uuid/none)
ScalarKinds == {"string", "bool", "int32", "int64", "uint32", "uint64", "float32", "float64", "bytes",
                "timestamp", "date", "decimal", "key", "key:id62", "key:uuid", "any"}
LiteScalars == {"int64", "bool", "timestamp", "key:id62"}

\* R "Object Field": "!" / "?" marks are shortcuts for required / explicitlyOptional; S: ObjectProperty alias optional -> explicitlyOptional
Presences == { <<"none", "mark">>, <<"req", "mark">>, <<"req", "attr">>, <<"opt", "mark">>, <<"opt", "attr">> }
PresLabel(pr) == IF pr[1] = "none" THEN "" ELSE "/" \o pr[1] \o "-" \o pr[2]

\* R "Inline Types" (default name = field name, `object.name` override), "Oneof", "Enum"
InlineTypes(full) ==
    {<<InlineObject(NoName, <<MinField(1)>>), "inline-object">>,
     <<InlineEnum(NoName, <<"FIRST", "SECOND">>), "inline-enum">>,
     <<InlineOneof(NoName, <<MinOption(1)>>), "inline-oneof">>}
    \cup (IF ~full THEN {} ELSE
    {<<InlineObject(NoName, <<>>), "inline-object-empty">>,
     <<InlineObject(Name(<<"named">>, "upper"), <<MinField(1)>>), "inline-object-named">>,
     <<InlineEnum(Name(<<"named", "kind">>, "upper"), <<"FIRST">>), "inline-enum-named">>,
     <<InlineOneof(Name(<<"named">>, "upper"), <<MinOption(1)>>), "inline-oneof-named">>,
     \* nesting depth 2: inline inside inline (R "Inline Types" applies recursively)
     <<InlineObject(NoName, <<MinField(1), Plain(FieldNames[2], InlineEnum(NoName, <<"FIRST">>))>>), "inline-object>enum">>,
     <<InlineObject(NoName, <<Plain(FieldNames[1], InlineObject(NoName, <<MinField(1)>>)), MinField(2)>>), "inline-object>object">>,
     <<InlineObject(NoName, <<Plain(FieldNames[1], MapOf(InlineObject(NoName, <<MinField(1)>>)))>>), "inline-object>map-object">>,
     <<InlineOneof(NoName, <<Plain(FieldNames[1], InlineObject(NoName, <<Plain(FieldNames[1], InlineEnum(NoName, <<"FIRST">>))>>))>>), "inline-oneof>object>enum">>})

\* R "Map and Array": array:<sub>, map:<sub>, sub-type anything but map/array
Cards == {"single", "array", "map"}
WithCard(t, c) == CASE c = "single" -> t [] c = "array" -> ArrayOf(t) [] c = "map" -> MapOf(t)

\* focus names (R uses fooId; T uses foo_id; acro stresses the casing functions)
FocusFieldNames == { Name(<<"foo", "bar">>, "camel"), Name(<<"foo", "bar">>, "snake"), Name(<<"foo", "id">>, "camel"),
                     Name(<<"foo", "id">>, "acro"), Name(<<"a", "b", "c">>, "snake"), Name(<<"x">>, "camel"), Name(<<"foo", "bar", "baz">>, "camel") }

\* the full catalogue is crossed only with the one-file bundles; multi-file / multi-package bundles exist for references
Wide(b) == Len(b.pkgs) = 1 /\ Len(b.pkgs[1].files) = 1

FieldChoices(b, c, n) ==
    LET pi == PkgIndexOf(c)
        fl == FileOfPath(b, c.path)
        full == Breadth = "full" /\ c.ctx = "object" /\ Wide(b)
        nm == FieldNames[n + 1]
        objctx == Breadth = "full" /\ c.ctx = "object" /\ Len(GetNode(b, c.path).name.w) > 0
        inlsib == IF ~objctx THEN {} ELSE { GetNode(b, c.path)[c.list][i].type.ik : i \in { k \in 1..n : GetNode(b, c.path)[c.list][k].type.k = "inline" } }
        sibLabel == IF inlsib = {} THEN "" ELSE "/after-inline-" \o (CHOOSE k \in inlsib : TRUE)
        selfsibLabel == IF objctx /\ \E i \in 1..n : LET f == GetNode(b, c.path)[c.list][i] IN f.type.k = "inline" /\ f.name.w = GetNode(b, c.path).name.w
                        THEN "/after-self-named" ELSE ""
        scal == UNION { { [e |-> Field(nm, WithCard(Scalar(s), cd), pr[1], pr[2]), rich |-> 1, label |-> s \o "/" \o cd \o PresLabel(pr)]
                          : s \in (IF full THEN ScalarKinds ELSE LiteScalars),
                            \* (`!` on a map used to panic the real compiler; fixed in /repo by commit ce0acd9)
                            pr \in { x \in Presences : (cd = "single" \/ x \in {<<"none", "mark">>, <<"req", "mark">>}) /\ (full \/ x[2] = "mark") } }
                        : cd \in Cards }
        inl == UNION { { [e |-> Field(nm, WithCard(it[1], cd), pr[1], pr[2]), rich |-> 1, label |-> it[2] \o "/" \o cd \o PresLabel(pr) \o selfsibLabel]
                         : it \in InlineTypes(full),
                           pr \in { x \in Presences : x = <<"none", "mark">> \/ (full /\ cd = "single" /\ x \in {<<"req", "mark">>, <<"opt", "mark">>}) } }
                       : cd \in Cards }
        refs == UNION { { [e |-> Plain(nm, WithCard(r, cd)), rich |-> 1,
                           label |-> "ref-" \o rk \o (IF r.pkg = b.pkgs[pi].name THEN (IF r.qual = "" THEN "/local" ELSE "/self-qualified") ELSE "/import-as-" \o r.qual) \o "/" \o r.form \o "/" \o cd]
                         \* arrays and maps of a type of ANOTHER package too: the item type is what brings the import in
                         : r \in RefTargets(b, pi, fl, rk),
                           cd \in { x \in Cards : x = "single" \/ full } }
                       \cup
                       { [e |-> Plain(nm, WithCard(r, cd)), rich |-> 1,
                           label |-> "ref-" \o rk \o "/import-as-" \o r.qual \o "/" \o r.form \o "/" \o cd]
                         : r \in { x \in RefTargets(b, pi, fl, rk) : Breadth = "full" /\ x.pkg # b.pkgs[pi].name /\ x.qual = x.pkg },
                           cd \in {"array", "map"} }
                      : rk \in {"object", "oneof", "enum"} }
        names == IF ~full THEN {} ELSE
                 { [e |-> Plain(ft[1], ft[2][1]), rich |-> 1, label |-> "name-" \o ft[1].src \o "/" \o ft[2][2]]
                   : ft \in (FocusFieldNames \X
                          { <<Scalar("string"), "string">>, <<InlineObject(NoName, <<MinField(1)>>), "inline-object">>,
                             <<InlineEnum(NoName, <<"FIRST">>), "inline-enum">>, <<MapOf(Scalar("string")), "map-string">>,
                             <<MapOf(InlineObject(NoName, <<>>)), "map-inline-object">> })
                       \* the default enum prefix is ScreamingSnake of the derived type NAME ("ABC"), whose word boundaries are
                       \* not recoverable for single-letter words: that combination is left out (casing is ambiguous there)
                       \ { <<Name(<<"a", "b", "c">>, "snake"), <<InlineEnum(NoName, <<"FIRST">>), "inline-enum">>>> } }
        \* R "Inline Types": "The inline type by default will take the name of the field" - also when the field is named like its
        \* parent (object Apple { field apple object {...} }); the real linker rejects the relative type name Apple.Apple (C07)
        \* (every inline kind; next to ANOTHER inline type of the same message the two need each other's names written out:
        \* Apple.Apple captures the lookup of Apple.Alpha, whichever was declared first)
        selfname == IF ~(full \/ (objctx /\ inlsib # {}))
                       \/ (\E i \in 1..n : GetNode(b, c.path)[c.list][i].name.w = GetNode(b, c.path).name.w) THEN {} ELSE
                    {[e |-> Plain(Name(GetNode(b, c.path).name.w, "camel"), it[1]), rich |-> 1,
                      label |-> "name-same-as-parent/" \o it[2] \o sibLabel]
                     : it \in { <<InlineObject(NoName, <<MinField(1)>>), "inline-object">>,
                                <<InlineEnum(NoName, <<"FIRST", "SECOND">>), "inline-enum">>,
                                <<InlineOneof(NoName, <<MinOption(1)>>), "inline-oneof">> } }
        \* ... and when that inline object has a nested type named like an inline type the parent already has
        \* (Apple.GammaOne and Apple.Apple.GammaOne): the existing field must keep referring to Apple.GammaOne
        selfdeep == IF Breadth = "full" /\ c.ctx = "object" /\ Len(GetNode(b, c.path).name.w) > 0
                       /\ \E i \in 1..n : LET f == GetNode(b, c.path)[c.list][i] IN f.name = FieldNames[1] /\ f.type.k = "inline" /\ f.type.ik = "object"
                    THEN {[e |-> Plain(Name(GetNode(b, c.path).name.w, "camel"),
                                       InlineObject(NoName, <<Plain(FieldNames[1], InlineObject(NoName, <<MinField(2)>>))>>)), rich |-> 1,
                           label |-> "name-same-as-parent/nested-sibling-name"]}
                    ELSE {}
        \* an inline object named like a declared type that a field of the same message already refers to
        reftype == IF Breadth = "full" /\ c.ctx \in {"request", "response", "topicmsg", "object"}
                      /\ \E i \in 1..n : LET f == GetNode(b, c.path)[c.list][i] IN f.type.k = "ref" /\ f.type.path = <<DeclNames[1][1].src>>
                   THEN {[e |-> Plain(Name(DeclNames[1][1].w, "camel"), InlineObject(NoName, <<MinField(2)>>)), rich |-> 1,
                          label |-> "inline-named-like-referenced-type"]}
                   ELSE {}
        \* a declared field of the type of the implied metadata field (R "Topics": reqres / upsert messages get request / upsert
        \* metadata as field 1): the implied field stays, the declared one is numbered by its position
        metaref == IF Breadth = "full" /\ c.ctx = "topicmsg"
                   THEN {[e |-> Plain(Name(<<"thing">>, "camel"), Scalar("msgmeta")), rich |-> 1, label |-> "field-of-implied-metadata-type"]}
                   ELSE {}
        \* an inline object named like a type of the package that the file imports under an alias spelled like THIS message
        \* (alias Avocado, message Avocado, field apple object {...}: the nested type is Avocado.Apple, the alias reference
        \* Avocado.Apple of an existing field means foo.v1.Apple)
        aliasnest == IF Breadth \in {"full", "lite"} /\ c.ctx = "object" /\ Len(GetNode(b, c.path).name.w) > 0
                        /\ \E i \in Idx(fl.imports) : fl.imports[i].form = "alias" /\ fl.imports[i].alias = GetNode(b, c.path).name.src
                     THEN {[e |-> Plain(Name(DeclNames[1][1].w, "camel"), InlineObject(NoName, <<MinField(1)>>)), rich |-> 1,
                            label |-> "inline-named-like-aliased-type"]}
                     ELSE {}
        \* multi-package bundles exist for the reference forms: only references (and minimal fields) are added there when Focused
        refsOnly == Focused /\ Len(b.pkgs) > 1
    IN {[e |-> MinField(n + 1), rich |-> 0, label |-> ""]} \cup refs \cup aliasnest
       \cup (IF refsOnly THEN {} ELSE scal \cup inl \cup names \cup selfname \cup selfdeep \cup reftype \cup metaref)

\* R "Oneof": options are objects, inline or by reference
OptionChoices(b, c, n) ==
    LET pi == PkgIndexOf(c)
        fl == FileOfPath(b, c.path)
        nm == FieldNames[n + 1]
    IN {[e |-> MinOption(n + 1), rich |-> 0, label |-> ""]}
       \cup {[e |-> Plain(nm, InlineObject(NoName, <<MinField(1), MinField(2)>>)), rich |-> 1, label |-> "option-inline-object"],
             [e |-> Plain(nm, InlineObject(Name(<<"named">>, "upper"), <<MinField(1)>>)), rich |-> 1, label |-> "option-inline-object-named"],
             [e |-> Plain(Name(<<"foo", "bar">>, "camel"), InlineObject(NoName, <<MinField(1)>>)), rich |-> 1, label |-> "option-name-fooBar"],
             [e |-> Plain(Name(<<"foo", "id">>, "snake"), InlineObject(NoName, <<MinField(1)>>)), rich |-> 1, label |-> "option-name-foo_id"]}
       \cup { [e |-> Plain(nm, r), rich |-> 1, label |-> "option-ref-object/" \o (IF r.qual = "" THEN "local" ELSE "q-" \o r.qual) \o "/" \o r.form]
              : r \in RefTargets(b, pi, fl, "object") }

\* R "Enum": options; S: Enum alias option -> options
\* an option whose name ends in UNSPECIFIED is the explicit zero value only in first position; later it is an ordinary option
EnumOptionChoices(n) == {[e |-> OptionNames[n + 1], rich |-> 0, label |-> ""]}
                        \cup (IF n >= 1 THEN {[e |-> "LIMIT_UNSPECIFIED", rich |-> 1, label |-> "option-named-unspecified"]} ELSE {})
                        \* P schema.proto Enum.Option.number: a declared number (here 2, the number of an earlier option) does
                        \* not move anything - options are numbered by position
                        \cup (IF n >= 2 THEN {[e |-> "NUM2", rich |-> 1, label |-> "option-declares-number"]} ELSE {})
                        \* an option with a description (a comment in the generated file) between options without one: comments
                        \* do not move anything either
                        \cup {[e |-> "NOTED", rich |-> 1, label |-> "option-with-description"]}

\* R "Services": basePath, method, httpMethod, httpPath, request (required), response (optional: P file.proto APIMethod.response
\* "when empty indicates a raw http response"); ":param" path segments name request fields (j5convert/service.go, proto/**/*.j5s)
Verbs == {"GET", "POST", "PUT", "PATCH", "DELETE"}       \* P j5.client.v1.HTTPMethod
PathShapes == {"lit", "param", "lit-param", "param-lit", "two-params", "camel-param", "snake-param", "digit-param", "param-prefix-field"}
PathOf(shape) ==
    \* pd: a digit is a word boundary of the snake-caser (line1 -> line_1), as in address1 / sha256
    LET pa == Name(<<"foo", "id">>, "camel") pb == Name(<<"bar", "id">>, "snake") px == Name(<<"x">>, "camel") pd == Name(<<"line", "1">>, "camel") IN
    CASE shape = "lit" -> [segs |-> <<Lit("things")>>, params |-> <<>>]
      [] shape = "param" -> [segs |-> <<Param(px)>>, params |-> <<px>>]
      [] shape = "lit-param" -> [segs |-> <<Lit("things"), Param(px)>>, params |-> <<px>>]
      [] shape = "param-lit" -> [segs |-> <<Param(px), Lit("things")>>, params |-> <<px>>]
      [] shape = "two-params" -> [segs |-> <<Lit("things"), Param(pa), Lit("sub"), Param(pb)>>, params |-> <<pa, pb>>]
      [] shape = "camel-param" -> [segs |-> <<Lit("things"), Param(pa)>>, params |-> <<pa>>]
      [] shape = "snake-param" -> [segs |-> <<Lit("things"), Param(pb)>>, params |-> <<pb>>]
      [] shape = "digit-param" -> [segs |-> <<Lit("things"), Param(pd)>>, params |-> <<pd>>]
      \* the request also has a field whose name is a proper prefix of the parameter's (foo / fooId): only whole path
      \* segments are parameters (the extra field is the second entry of `params`, see ParamFields: every entry is a field)
      [] shape = "param-prefix-field" -> [segs |-> <<Lit("things"), Param(pa)>>, params |-> <<pa, Name(<<"foo">>, "camel")>>]
ParamFields(ps) == [i \in Idx(ps) |-> Plain(ps[i], Scalar("string"))]
MethodChoices(svc, n) ==
    LET owner == svc.name
        nm == MethodName(owner, n + 1)
        \* the parameters of the service's base path come first in every request (unless the method's own path names them)
        withBase(ps) == svc.baseParams \o SelectSeq(ps, LAMBDA x : \A i \in 1..Len(svc.baseParams) : svc.baseParams[i] # x) IN
    {[e |-> Method(nm, "GET", PathOf("lit").segs, ParamFields(withBase(<<>>)), TRUE, <<>>), rich |-> 0, label |-> ""]}
    \cup { [e |-> Method(nm, v, PathOf(sh).segs, ParamFields(withBase(PathOf(sh).params)), rs, <<>>), rich |-> 1,
            label |-> "method-" \o v \o "/" \o sh \o (IF rs THEN "" ELSE "/no-response")]
           : v \in (IF Breadth = "full" THEN Verbs ELSE {"GET", "POST"}),
             sh \in (IF Breadth = "full" THEN PathShapes ELSE {"lit", "two-params", "digit-param", "param-prefix-field"}), rs \in BOOLEAN }

\* R "Publish": one or more message blocks
TopicMessageChoices(owner, n) == {[e |-> Message(MessageName(owner, n + 1), <<>>), rich |-> 0, label |-> ""]}

\* nested object declarations (S: j5.sourcedef.v1.Object alias object -> schemas.object)
NestChoices(n) == {[e |-> ObjectDecl(Name(<<"inner">>, "upper"), <<MinField(1)>>), rich |-> 1, label |-> "nested-object"]}

DeclChoices(b, c, n) ==
    LET fi == FileIndexOf(c)
        nm == DeclNames[fi][n + 1]
        pk == PkgOfPath(b, c.path)
        full == Breadth = "full" /\ Wide(b)
        fresh(x) == x.src \notin TopNames(pk, {"object", "oneof", "enum", "service", "topic"})
        prefixFree == \A fd \in TopDecls(pk) : fd[2].kind = "enum" => fd[2].prefix # "PFX_"
    IN {[e |-> ObjectDecl(nm, <<>>), rich |-> 0, label |-> ""]}
       \cup {[e |-> OneofDecl(nm, <<>>), rich |-> 1, label |-> "oneof"],
             [e |-> EnumDecl(nm, <<>>, FALSE, ""), rich |-> 1, label |-> "enum"],
             \* R "Enum": UNSPECIFIED may be "explicitly included (as UNSPECIFIED)"
             [e |-> EnumDecl(nm, <<>>, TRUE, ""), rich |-> 1, label |-> "enum-explicit-unspecified"],
             \* P schema.proto Enum.prefix
             [e |-> EnumDecl(nm, <<"FIRST">>, FALSE, IF prefixFree THEN "PFX_" ELSE "PFX_" \o ScreamingSnake(nm) \o "_"), rich |-> 1, label |-> "enum-prefix"],
             [e |-> [EnumDecl(nm, <<"FIRST">>, FALSE, "") EXCEPT !.info = InfoKeys], rich |-> 1, label |-> "enum-option-info"],
             [e |-> ServiceDecl(nm, "/" \o ShortOf(pk.name) \o "/v1", <<>>), rich |-> 1, label |-> "service"],
             [e |-> ServiceDecl(nm, "", <<>>), rich |-> 1, label |-> "service-no-basepath"],
             \* R "Services": path parameters may sit in the basePath; they are rewritten like those of the method's own path
             [e |-> [ServiceDecl(nm, "/" \o ShortOf(pk.name) \o "/v1/:fooId", <<>>)
                       EXCEPT !.baseOut = "/" \o ShortOf(pk.name) \o "/v1/{foo_id}", !.baseParams = <<Name(<<"foo", "id">>, "camel")>>],
              rich |-> 1, label |-> "service-basepath-param"],
             \* R "Topics": publish / reqres / upsert
             [e |-> TopicDecl(nm, "publish", <<Message(MessageName(nm, 1), <<>>)>>), rich |-> 1, label |-> "topic-publish"],
             [e |-> TopicDecl(nm, "reqres", <<Message(Name(<<"request">>, "upper"), <<>>), Message(Name(<<"reply">>, "upper"), <<>>)>>), rich |-> 1, label |-> "topic-reqres"],
             [e |-> TopicDecl(nm, "upsert", <<Message(MessageName(nm, 1), <<>>)>>), rich |-> 1, label |-> "topic-upsert"]}
       \cup (IF ~full THEN {} ELSE
             { [e |-> d[1], rich |-> 1, label |-> d[2]] :
               d \in { x \in { <<ObjectDecl(Name(<<"foo", "bar">>, "upper"), <<MinField(1)>>), "object-name-FooBar">>,
                               <<EnumDecl(Name(<<"foo", "bar">>, "upper"), <<"FIRST">>, FALSE, ""), "enum-name-FooBar">>,
                               <<EnumDecl(Name(<<"foo", "bar", "baz">>, "upper"), <<"FIRST", "SECOND">>, TRUE, ""), "enum-name-FooBarBaz-unspec">>,
                               <<OneofDecl(Name(<<"foo", "id">>, "upper"), <<MinOption(1)>>), "oneof-name-FooId">>,
                               <<TopicDecl(Name(<<"foo", "bar">>, "upper"), "publish", <<Message(MessageName(Name(<<"foo", "bar">>, "upper"), 1), <<>>)>>), "topic-publish-name-FooBar">>,
                               <<TopicDecl(Name(<<"foo", "bar">>, "upper"), "reqres", <<Message(Name(<<"request">>, "upper"), <<>>), Message(Name(<<"reply">>, "upper"), <<>>)>>), "topic-reqres-name-FooBar">>,
                               <<TopicDecl(Name(<<"foo", "bar">>, "upper"), "upsert", <<Message(MessageName(Name(<<"foo", "bar">>, "upper"), 1), <<>>)>>), "topic-upsert-name-FooBar">>,
                               <<ServiceDecl(Name(<<"foo", "bar">>, "upper"), "/x", <<>>), "service-name-FooBar">> } : fresh(x[1].name) } })

\* R "Packages and Imports": import <package>, import <package>:<alias>; file path imports (T)
ImportChoices(b, c) ==
    LET pi == PkgIndexOf(c)
        fl == FileOfPath(b, c.path)
        have == { <<fl.imports[i].pkg, fl.imports[i].form>> : i \in Idx(fl.imports) }
    IN UNION { LET tp == b.pkgs[q] IN
               { x \in {[e |-> Import(tp.name, "pkg", "", ""), rich |-> 0, label |-> ""],
                        [e |-> Import(tp.name, "alias", AliasOf(tp.name), ""), rich |-> 0, label |-> ""]}
                       \cup { [e |-> Import(tp.name, "file", "", tp.files[f].name), rich |-> 0, label |-> ""] : f \in Idx(tp.files) }
                 : <<x.e.pkg, x.e.form>> \notin have }
             : q \in 1..(pi - 1) }      \* only earlier packages: the package graph stays acyclic

Choices(b, c) ==
    LET n == Len(GetNode(b, c.path)[c.list]) IN
    CASE c.ctx = "root" -> IF n < MaxPkgs /\ ~Focused THEN {[e |-> Pkg(PkgNames[n + 1], <<>>), rich |-> 0, label |-> ""]} ELSE {}
      [] c.ctx = "pkg" -> IF n < MaxFiles /\ ~Focused THEN {[e |-> File(FileNames[n + 1], <<>>, <<>>), rich |-> 0, label |-> ""]} ELSE {}
      [] c.ctx = "file" -> (IF n < MaxDecls THEN DeclChoices(b, c, n) ELSE {})
      [] c.ctx \in {"object", "nested", "inline-object", "request", "response", "topicmsg"} ->
            IF n < MaxFields THEN FieldChoices(b, c, n) ELSE {}
      [] c.ctx \in {"oneof", "inline-oneof"} -> IF n < MaxFields THEN OptionChoices(b, c, n) ELSE {}
      [] c.ctx \in {"enum", "inline-enum"} ->
            IF n < MaxFields
            THEN LET have == { GetNode(b, c.path)[c.list][i] : i \in 1..n } IN { x \in EnumOptionChoices(n) : x.e \notin have }
            ELSE {}
      [] c.ctx = "service" -> IF n < MaxFields THEN MethodChoices(GetNode(b, c.path), n) ELSE {}
      [] c.ctx = "topic" -> IF n < MaxFields THEN TopicMessageChoices(GetNode(b, c.path).name, n) ELSE {}
      [] c.ctx = "nest" -> IF n < 1 THEN NestChoices(n) ELSE {}

\* names inside one message must stay distinct (proto name, which is what collides); inline type names must not collide
\* with each other inside the parent
\* (TLC found the second rule: two inline types overridden to the same name violate NumbersContiguous / NamesUniquePerScope)
NestedTypeNames(f) ==
    (IF ElemType(f.type).k = "inline"
     THEN {IF ElemType(f.type).oname.src # "" THEN ElemType(f.type).oname.src ELSE UpperCamel(f.name)} ELSE {})
    \cup (IF f.type.k = "map" THEN {CapAll(f.name.w) \o "Entry"} ELSE {})
FieldNameFree(b, c, e) ==
    c.list \in {"fields", "request", "response"} /\ c.ctx # "nest" =>
        LET fs == GetNode(b, c.path)[c.list] IN
        /\ \A i \in Idx(fs) : Snake(fs[i].name) # Snake(e.name)
        /\ \A i \in Idx(fs) : NestedTypeNames(fs[i]) \cap NestedTypeNames(e) = {}

(* ------------------------------------------------------------------ *)
(* The machine                                                         *)
(* ------------------------------------------------------------------ *)
EditKind(c) ==
    CASE c.list \in {"fields", "request", "response"} -> "field"
      [] c.list = "options" -> "option"
      [] c.list = "decls" -> "decl"
      [] c.list = "methods" -> "method"
      [] c.list = "messages" -> "message"
      [] c.list = "nested" -> "nested"
      [] c.list = "imports" -> "import"
      [] c.list = "files" -> "file"
      [] c.list = "pkgs" -> "package"

Step(c, ch) ==
    /\ steps < MaxSteps
    /\ rich + ch.rich <= MaxFocus
    /\ (~Focused \/ ~started \/ IsPrefix(cur, c.path))
    /\ FieldNameFree(bundle, c, ch.e)
    /\ bundle' = AppendAt(bundle, c.path, c.list, ch.e)
    /\ steps' = steps + 1
    /\ rich' = rich + ch.rich
    /\ cur' = IF started THEN cur ELSE c.path
    /\ started' = TRUE
    /\ hist' = Append(hist, [kind |-> EditKind(c), path |-> c.path, list |-> c.list, label |-> ch.label])
    /\ focus' = IF ch.label = "" THEN focus ELSE IF focus = "" THEN ch.label ELSE focus \o "+" \o ch.label

\* AddImport is a step of its own (free, only in unfocused exploration: the bases carry the imports otherwise)
ImportContainers(b) == IF Focused THEN {} ELSE { [path |-> fp, list |-> "imports", ctx |-> "imports", depth |-> 0] : fp \in FilePaths(b) }

SInit ==
    /\ bundle \in { Base(x) : x \in Bases }
    /\ steps = 0 /\ rich = 0 /\ cur = <<>> /\ started = FALSE /\ hist = <<>> /\ focus = ""

\* The named actions of the language (each is Step restricted to one kind of container / element)
StepIn(ctxs, kinds) ==
    \E c \in Containers(bundle) : c.ctx \in ctxs /\ \E ch \in Choices(bundle, c) : (IF kinds = {} THEN TRUE ELSE ch.e.kind \in kinds) /\ Step(c, ch)
AddField    == StepIn({"object", "nested", "inline-object", "request", "response", "topicmsg"}, {})
AddOption   == StepIn({"oneof", "inline-oneof", "enum", "inline-enum"}, {})       \* oneof option / enum option
AddObject   == StepIn({"file"}, {"object"})
AddOneof    == StepIn({"file"}, {"oneof"})
AddEnum     == StepIn({"file"}, {"enum"})
AddService  == StepIn({"file"}, {"service"})
AddTopic    == StepIn({"file"}, {"topic"})
Nest        == StepIn({"nest"}, {})
AddMethod   == StepIn({"service"}, {})
AddMessage  == StepIn({"topic"}, {})
AddFile     == StepIn({"pkg"}, {})
AddPackage  == StepIn({"root"}, {})
AddImport   == \E c \in ImportContainers(bundle) : \E ch \in ImportChoices(bundle, c) : Step(c, ch)

SNext ==
    \/ AddField \/ AddOption \/ AddObject \/ AddOneof \/ AddEnum \/ AddService \/ AddTopic \/ Nest
    \/ AddMethod \/ AddMessage \/ AddImport \/ AddFile \/ AddPackage

svars == <<bundle, steps, rich, cur, started, hist, focus>>
=============================================================================
