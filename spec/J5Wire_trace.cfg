SPECIFICATION TraceSpec
CONSTANTS
  Mode = "trace"
  Kinds <- NoKinds
  Cards <- NoCards
  Positions <- NoPositions
  Pairs = FALSE
  Combos = FALSE
  EmitCases = FALSE
INVARIANTS LawRoundTrip LawWellFormed LawDecode TraceDone
CHECK_DEADLOCK FALSE
