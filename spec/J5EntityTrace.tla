--------------------------- MODULE J5EntityTrace ---------------------------
(***************************************************************************)
(* Trace validation for the entity expansion (C17, direction T).           *)
(*                                                                         *)
(* For every entity the harness compiled it records the declaration clause *)
(* by clause - one event per action of J5Entity -                          *)
(*   [op |-> "name", name]  [op |-> "key", item]  [op |-> "data", item]    *)
(*   [op |-> "status", item] [op |-> "event", item] [op |-> "command", item]*)
(*   [op |-> "summary", item] [op |-> "advance"] [op |-> "query", query, layout] *)
(* followed by                                                             *)
(*   [op |-> "expand", ast, real]   real = projection of the REAL compiled *)
(*                                  descriptors and client StateEntity     *)
(*   [op |-> "reset"]                                                      *)
(* The declaration is rebuilt with the specification's own actions; at the *)
(* expand event the statement of C17 (ConsistentOn) is evaluated by TLC on *)
(* the logged real expansion (LawConsistent, LawClient), and the logged    *)
(* expansion is compared with EntityExpand(e) (conformance, counted).      *)
(***************************************************************************)
EXTENDS J5Entity, IOUtils

TraceFile == IF "VERIF_TRACE" \in DOMAIN IOEnv THEN IOEnv.VERIF_TRACE ELSE "trace.ndjson"
Trace == ndJsonDeserialize(TraceFile)

VARIABLES l, nDrift, nChecked
tvars == <<vars, l, nDrift, nChecked>>

Ev == Trace[l]
More == l <= Len(Trace)

TraceInit == focus = "trace" /\ phase = "name" /\ e = Empty /\ l = 1 /\ nDrift = 0 /\ nChecked = 0

Step == l' = l + 1 /\ UNCHANGED <<nDrift, nChecked>>

TName    == More /\ Ev.op = "name" /\ SetName(Ev.name) /\ Step
TKey     == More /\ Ev.op = "key" /\ AddKey(Ev.item) /\ Step
TData    == More /\ Ev.op = "data" /\ AddData(Ev.item) /\ Step
TStatus  == More /\ Ev.op = "status" /\ AddStatus(Ev.item) /\ Step
TEvent   == More /\ Ev.op = "event" /\ AddEvent(Ev.item) /\ Step
TCommand == More /\ Ev.op = "command" /\ AppendCommand(Ev.item) /\ Step
TSummary == More /\ Ev.op = "summary" /\ AddSummary(Ev.item) /\ Step
TAdvance == More /\ Ev.op = "advance" /\ Advance /\ Step
TQuery   == More /\ Ev.op = "query" /\ SetQuery(Ev.query, Ev.layout) /\ Step

\* the compiler returned: compare the recorded real expansion with the model's
TExpand ==
    /\ More /\ Ev.op = "expand" /\ phase = "done"
    /\ Ev.ast = e                                    \* the rebuilt declaration is the compiled one
    \* (when no client API could be derived the client part is not compared)
    /\ LET m == EntityExpand(e)
           want == IF Ev.client THEN m ELSE [m EXCEPT !.client = Ev.real.client]
       IN nDrift' = nDrift + (IF want = Ev.real THEN 0 ELSE 1)
    /\ nChecked' = nChecked + 1
    /\ l' = l + 1
    /\ UNCHANGED vars

TReset ==
    /\ More /\ Ev.op = "reset"
    /\ phase' = "name" /\ e' = Empty /\ UNCHANGED focus
    /\ Step

TraceNext == TName \/ TKey \/ TData \/ TStatus \/ TEvent \/ TCommand \/ TSummary \/ TAdvance \/ TQuery \/ TExpand \/ TReset
TraceSpec == TraceInit /\ [][TraceNext]_tvars

AtExpand == More /\ Ev.op = "expand" /\ phase = "done"

(* the statement of C17, evaluated on what the real compiler produced *)
LawNamed      == AtExpand => NamedFromEntity(e, Ev.real)
LawAnnotation == AtExpand => SameAnnotation(e, Ev.real)
LawStateEvent == AtExpand => StateEventShape(e, Ev.real)
LawOneof      == AtExpand => OneofPerEvent(e, Ev.real)
LawPrimary    == AtExpand => (NamedFromEntity(e, Ev.real) => PrimaryKeysInPath(e, Ev.real))
LawStatus     == AtExpand => StatusNumbered(e, Ev.real)

\* the client API groups the parts under the entity: name, primary key in declaration order, one event per
\* declared event, the three query methods, every command service (when a client API could be derived)
LawClient ==
    (AtExpand /\ Ev.client) =>
        LET x == Ev.real IN
        /\ x.client.name = x.entity
        /\ x.client.primaryKey = SelectSeq([i \in 1..Len(e.keys) |-> LowerCamel(e.keys[i].words)],
                                           LAMBDA n : \E i \in 1..Len(e.keys) : IsPrimary(e.keys[i]) /\ LowerCamel(e.keys[i].words) = n)
        /\ Len(x.client.events) = Len(e.events)
        /\ {x.client.events[i] : i \in 1..Len(x.client.events)} = {LowerCamel(e.events[i].words) : i \in 1..Len(e.events)}
        /\ Len(x.client.query) = 3
        /\ {x.client.commands[i] : i \in 1..Len(x.client.commands)} = {CmdServiceName(e, e.commands[i]) : i \in 1..Len(e.commands)}

TraceDone ==
    (l = Len(Trace) + 1) => PrintT(<<"TRACEDONE", ToJson([events |-> l - 1, entities |-> nChecked, drift |-> nDrift])>>)
=============================================================================
