SPECIFICATION Spec
CONSTANTS
  Mode = "strings"
  BytePool <- NoBytes
  CharPool <- Chars
  MinStr = 0
  MaxStr = 3
  EmitCases = TRUE
INVARIANTS TypeOK RenderFits RoundTrip ParseSound RejectLarge Emit
PROPERTIES Progress
CHECK_DEADLOCK FALSE
