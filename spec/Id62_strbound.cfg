SPECIFICATION Spec
CONSTANTS
  Mode = "strbound"
  BytePool <- NoBytes
  CharPool <- NoChars
  MinStr = 0
  MaxStr = 0
  EmitCases = TRUE
INVARIANTS TypeOK RenderFits RoundTrip ParseSound RejectLarge Emit
PROPERTIES Progress
CHECK_DEADLOCK FALSE
