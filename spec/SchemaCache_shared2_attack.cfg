SPECIFICATION Spec
CONSTANTS
  Procs <- P2
  Types <- SharedTypes
  ChildSeq <- SharedChild
  Invalid <- NoneInvalid
  Pkg <- SharedPkg
  CallChoices <- SharedCalls2
  Guard = "none"
  Mode = "attack"
INVARIANTS EmitAttack
VIEW View
CHECK_DEADLOCK FALSE
