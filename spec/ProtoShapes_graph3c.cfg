SPECIFICATION Spec
CONSTANTS
  Mode = "graph"
  Guard = TRUE
  EmitCases = TRUE
  MaxMsgs = 3
  MaxEnums = 0
  MaxFocus = 9
  MaxAnns = 0
  ScalarKinds <- None
  WktAtoms <- None
  Cards <- CardsGraph2
  MapKeys <- KeysString
  OneofSels <- SelsNone
  OneofOpts <- OneofOptsNone
  MsgOpts <- MsgOptsNone
  EnumOpts <- EnumOptsNone
  RecForms <- None
  ValidateAnns <- None
  J5Anns <- None
  ListAnns <- None
  PsmAnns <- None
  MismatchAnns <- None
INVARIANTS TypeOK NoReenter EntersBounded StackBounded StepsBounded BuiltLinked OneResultPerRun Emit
CHECK_DEADLOCK TRUE
