SPECIFICATION Spec
CONSTANTS
  Shape <- ShapeNested
  BundleName = "nested"
  Valid = TRUE
  MaxCompiles = 3
  MaxNews = 2
  SortFiles = TRUE
  PermuteFiles = TRUE
  EmitCases = TRUE
INVARIANTS TypeOK CacheSound HistoryIndependent Emit
CHECK_DEADLOCK FALSE
