SPECIFICATION TraceSpec
CONSTANTS
  Kinds <- KindsAll
  Cards <- CardsAll
  Press <- PressAll
  MaxRules = 0
  WithAnn = TRUE
  IntLo <- NoVals
  IntHi <- NoVals
  LenLo <- NoVals
  LenHi <- NoVals
  CntLo <- NoVals
  CntHi <- NoVals
  EmitCases = FALSE
  Strict = TRUE
INVARIANTS LawValidate LawReflect LawExpect TraceDone
CHECK_DEADLOCK FALSE
