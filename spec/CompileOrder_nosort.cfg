SPECIFICATION Spec
CONSTANTS
  Shape <- Shape23
  BundleName = "nosort"
  Valid = TRUE
  MaxCompiles = 1
  MaxNews = 1
  SortFiles = FALSE
  PermuteFiles = TRUE
  EmitCases = FALSE
INVARIANTS TypeOK CacheSound HistoryIndependent
CHECK_DEADLOCK FALSE
