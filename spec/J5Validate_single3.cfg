SPECIFICATION Spec
CONSTANTS
  Kinds <- KindsV
  Cards <- CardsS
  Press <- PressAll
  MaxRules = 3
  WithAnn = FALSE
  IntLo <- IntLoT
  IntHi <- IntHiT
  LenLo <- LenLoT
  LenHi <- LenHiT
  CntLo <- CntLoQ
  CntHi <- CntHiQ
  EmitCases = TRUE
INVARIANTS TypeOK AllowsTotal NoVacuousRule BothSides Emit
CHECK_DEADLOCK FALSE
