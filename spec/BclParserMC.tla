----------------------------- MODULE BclParserMC -----------------------------
EXTENDS BclParser
VARIABLE dummy
\* one atom per parser-level token type
TypeAtoms == {"IDENT", "BOOL", "STRING", "REGEX", "INT", "DECIMAL", "COMMENT", "BLOCK_COMMENT", "DESCRIPTION", "EOL",
              "=", "{", "}", "[", "]", ".", ",", ":", "+", "!", "?"}
\* plus the multi-line layouts
LayoutAtoms == TypeAtoms \cup {"BLOCK_COMMENT_ML", "STRING_ML"}
Reps == {"INT", "]", ","}
BothFF == {TRUE, FALSE}
Init == PInit /\ dummy = 0
Next == PStep /\ UNCHANGED dummy
Spec == Init /\ [][Next]_<<pvars, dummy>>
Emit == (EmitCases /\ pc = "done") => PrintT(<<"CASE", ToJson(PEmitRecord)>>)
=============================================================================
