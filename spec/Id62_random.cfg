SPECIFICATION Spec
CONSTANTS
  Mode = "random"
  BytePool <- AllBytes
  CharPool <- NoChars
  MinStr = 0
  MaxStr = 0
  EmitCases = TRUE
INVARIANTS TypeOK RenderFits RoundTrip ParseSound RejectLarge Emit
PROPERTIES Progress
CHECK_DEADLOCK FALSE
