SPECIFICATION Spec
CONSTANTS
  MaxLen = 3
  Sym <- SymFull
  FailFastChoices <- BothFF
  EmitCases = TRUE
INVARIANTS PosInBounds TokensOrdered FailFastOne Emit
PROPERTIES Progress
CHECK_DEADLOCK FALSE
