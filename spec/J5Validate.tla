------------------------------ MODULE J5Validate ------------------------------
(***************************************************************************)
(* Property C12: the validation constraints compiled from a j5s field      *)
(* declaration accept a value IFF the value satisfies the declared rules.  *)
(*                                                                         *)
(* State = (declaration, candidate value).  The declaration is built by    *)
(* PickKind / AddRule (module J5Rules); PickCandidate then chooses one     *)
(* candidate from Candidates(decl), which are generated AROUND every bound *)
(* the declaration induces: b-1, b, b+1 for every numeric / length / count *)
(* bound, the type's extreme values (atoms TMIN / TMAX), matching and      *)
(* non-matching pattern atoms, defined and undefined enum numbers, absent  *)
(* versus zero-valued.  Allows(decl, c) is the rule semantics.             *)
(*                                                                         *)
(* Values are atoms: integers are small numbers (TMIN/TMAX stand for the   *)
(* format's extremes), strings are (length in characters, class) where the *)
(* class decides which pattern atoms match, key atoms name well-formed and *)
(* malformed identifiers; the Go harness concretises them.                 *)
(***************************************************************************)
EXTENDS J5Rules

TMIN == -1000    \* smallest value of the integer format
TMAX == 1000     \* largest value of the integer format
LMAX == 5        \* longest string / bytes / list generated

Cand(t, n, s) == [t |-> t, n |-> n, s |-> s, items |-> <<>>]
AbsentC == Cand("absent", 0, "")

(* ---------------- rule semantics ---------------- *)

\* pattern atoms: "lower" = ^[a-z]*$   "digit" = ^[0-9]+$ ; string classes: lower, upper, digit, uni (non-ASCII letters)
PatMatch(p, c) ==
    CASE p = "na" -> TRUE
      [] p = "lower" -> c.n = 0 \/ c.s = "lower"
      [] p = "digit" -> c.n >= 1 /\ c.s = "digit"

IntOK(d, n) ==
    /\ (d.minimum # NA => IF d.xmin = "t" THEN n > d.minimum ELSE n >= d.minimum)
    /\ (d.maximum # NA => IF d.xmax = "t" THEN n < d.maximum ELSE n <= d.maximum)

LenOK(d, n) == (d.minLength # NA => n >= d.minLength) /\ (d.maxLength # NA => n <= d.maxLength)

\* key atoms
KeyAtomOK(k, a) ==
    CASE k = "key_id62" -> a = "id62ok"
      [] k = "key_uuid" -> a = "uuidok"
      [] OTHER -> TRUE          \* informal key: any string

ItemOK(d, c) ==
    CASE d.kind \in IntKinds -> IntOK(d, c.n)
      [] d.kind = "string" -> LenOK(d, c.n) /\ PatMatch(d.pattern, c)
      [] d.kind = "key_custom" -> PatMatch(d.pattern, c)
      [] d.kind \in {"key", "key_id62", "key_uuid"} -> KeyAtomOK(d.kind, c.s)
      [] d.kind = "bytes" -> LenOK(d, c.n)
      [] d.kind = "bool" -> (d.const = "na" \/ (d.const = "t") = (c.n = 1))
      [] d.kind = "enum" -> /\ c.n \in 0..NOpts                        \* defined values only (0 = *_UNSPECIFIED)
                            /\ (d.in # <<>> => c.n \in RangeOf(d.in))
                            /\ c.n \notin RangeOf(d.notIn)

IsZero(c) ==
    CASE c.t = "absent" -> TRUE
      [] c.t = "atom" -> c.s = "empty"
      [] OTHER -> c.n = 0      \* 0, "", empty bytes, false, enum 0, empty list

Distinct(s) == \A i, j \in 1..Len(s) : i # j => s[i] # s[j]

ValueOK(d, c) ==
    IF d.card = "single" THEN ItemOK(d, c)
    ELSE /\ (d.minItems # NA => c.n >= d.minItems)
         /\ (d.maxItems # NA => c.n <= d.maxItems)
         /\ (d.unique = "t" => Distinct(c.items))
         /\ \A i \in 1..Len(c.items) : ItemOK(d, c.items[i])

\* The verdict the statement demands.  A field without explicit presence cannot distinguish "absent" from its
\* zero value: for such a field the zero value is a value like any other, and `required` excludes it.
\* (a primary key is required whether or not the declaration says so)
Req(d) == d.pres = "required" \/ (d.ent = "primary" /\ d.card \in {"single", "array"})
Allows(d, c) ==
    IF c.t = "absent" THEN ~Req(d)
    ELSE (Req(d) => ~IsZero(c)) /\ ValueOK(d, c)

(* ---------------- candidates around every induced boundary ---------------- *)

Around(b) == IF b = NA THEN {} ELSE {b - 1, b, b + 1}

IntPoints(d) ==
    LET pts == {0, 1, TMIN, TMAX} \cup Around(d.minimum) \cup Around(d.maximum)
    IN IF d.kind \in Unsigned THEN {n \in pts : n >= 0} ELSE pts

LenPoints(d) == {n \in ({0, 1} \cup Around(d.minLength) \cup Around(d.maxLength)) : n >= 0 /\ n <= LMAX}

\* ordered enumeration of a finite set of integers
RECURSIVE SortedSeq(_)
SortedSeq(S) == IF S = {} THEN <<>> ELSE LET m == CHOOSE x \in S : \A y \in S : x <= y IN <<m>> \o SortedSeq(S \ {m})

RECURSIVE Flat(_)
Flat(ss) == IF ss = <<>> THEN <<>> ELSE Head(ss) \o Flat(Tail(ss))

StrClasses(d) == IF d.pattern = "na" THEN <<"lower", "uni">> ELSE <<"lower", "upper", "digit", "uni">>

StrCands(d, lens) ==
    Flat([i \in 1..Len(lens) |->
            IF lens[i] = 0 THEN <<Cand("str", 0, "lower")>>
            ELSE [j \in 1..Len(StrClasses(d)) |-> Cand("str", lens[i], StrClasses(d)[j])]])

KeyAtoms(k) ==
    CASE k = "key_id62" -> <<"empty", "id62ok", "id62short", "id62long", "id62sym", "uuidok">>
      [] k = "key_uuid" -> <<"empty", "uuidok", "uuidshort", "uuidnonhex", "id62ok">>
      [] OTHER -> <<"empty", "id62ok", "text">>

ItemCands(d) ==
    CASE d.kind \in IntKinds -> LET s == SortedSeq(IntPoints(d)) IN [i \in 1..Len(s) |-> Cand("int", s[i], "")]
      [] d.kind = "string" -> StrCands(d, SortedSeq(LenPoints(d)))
      [] d.kind = "key_custom" -> StrCands(d, <<0, 1, 3>>)
      [] d.kind \in {"key", "key_id62", "key_uuid"} -> [i \in 1..Len(KeyAtoms(d.kind)) |-> Cand("atom", 0, KeyAtoms(d.kind)[i])]
      [] d.kind = "bytes" -> LET s == SortedSeq(LenPoints(d)) IN [i \in 1..Len(s) |-> Cand("bytes", s[i], "")]
      [] d.kind = "bool" -> <<Cand("bool", 0, ""), Cand("bool", 1, "")>>
      [] d.kind = "enum" -> [i \in 1..(NOpts + 3) |-> Cand("enum", i - 2, "")]    \* -1, 0, 1..NOpts, NOpts+1

SelectOK(d, s, want) == SelectSeq(s, LAMBDA c : ItemOK(d, c) = want)

ListC(items) == [t |-> "list", n |-> Len(items), s |-> "", items |-> items]

CntPoints(d) == {n \in ({0, 1, 2} \cup Around(d.minItems) \cup Around(d.maxItems)) : n >= 0 /\ n <= LMAX}

\* lists of every interesting length: distinct valid items; the same with one duplicate; the same with one invalid
\* item (first / last position); and, at the shortest admissible length, one list led by EVERY item candidate, so
\* that each item boundary value is seen inside a list that the array-level rules accept
Others(good, g, n) == LET rest == SelectSeq(good, LAMBDA x : x # g) IN SubSeq(rest, 1, n)
ListCands(d) ==
    LET all  == ItemCands(d)
        good == SelectOK(d, all, TRUE)
        bad  == SelectOK(d, all, FALSE)
        lens == SortedSeq(CntPoints(d))
        l0   == IF d.minItems # NA /\ d.minItems > 1 THEN d.minItems ELSE 1
        for(L) ==
            (IF Len(good) >= L THEN <<ListC(SubSeq(good, 1, L))>> ELSE <<>>)
            \o (IF L >= 2 /\ Len(good) >= L - 1 THEN <<ListC(<<good[1]>> \o SubSeq(good, 1, L - 1))>> ELSE <<>>)
            \o (IF L >= 1 /\ Len(bad) >= 1 /\ Len(good) >= L - 1 THEN <<ListC(SubSeq(good, 1, L - 1) \o <<bad[1]>>)>> ELSE <<>>)
        led(g) == IF Len(SelectSeq(good, LAMBDA x : x # g)) >= l0 - 1 THEN <<ListC(<<g>> \o Others(good, g, l0 - 1))>> ELSE <<>>
    IN Flat([i \in 1..Len(lens) |-> for(lens[i])]) \o Flat([i \in 1..Len(all) |-> led(all[i])])

Candidates(d) ==
    (IF d.pres = "implicit" THEN <<>> ELSE <<AbsentC>>)
    \o (IF d.card = "single" THEN ItemCands(d) ELSE ListCands(d))

CandSet(d) == RangeOf(Candidates(d))

\* a declaration is admissible only if it accepts something (contradictory combinations are not "valid declarations")
Satisfiable(d) == \E c \in CandSet(d) : Allows(d, c)

(* ---------------- the machine ---------------- *)

StartCand ==
    /\ phase = "rules" /\ Complete(decl) /\ Satisfiable(decl)
    /\ phase' = "cand"
    /\ UNCHANGED <<decl, nrules, cand>>

PickCandidate(c) ==
    /\ phase = "cand"
    /\ cand' = c /\ phase' = "done"
    /\ UNCHANGED <<decl, nrules>>

Next ==
    \/ DeclNext
    \/ StartCand
    \/ phase = "cand" /\ \E c \in CandSet(decl) : PickCandidate(c)

vars == <<phase, decl, nrules, cand>>
Spec == Init /\ [][Next]_vars

(* ---------------- model-level properties ---------------- *)

\* Allows is total: defined (a boolean) for every candidate of every declaration
AllowsTotal == (phase = "cand") => \A c \in CandSet(decl) : Allows(decl, c) \in BOOLEAN

\* rules that constrain something (a false flag, a lower bound of 0 on a length / count / unsigned number are void)
Effective(d) ==
    {a \in {"minimum", "maximum", "minLength", "maxLength", "minItems", "maxItems"} :
        /\ d[a] # NA
        /\ ~(a \in {"minLength", "minItems"} /\ d[a] = 0)
        /\ ~(a = "minimum" /\ d.kind \in Unsigned /\ d[a] = 0)}
    \cup {a \in {"xmin", "xmax", "unique"} : d[a] = "t"}
    \cup {a \in {"const", "pattern"} : d[a] # "na" /\ d.kind # "key_custom"}
    \cup {a \in {"in", "notIn"} : d[a] # <<>>}

Without(d, a) == [d EXCEPT ![a] = Absent(a)]

\* no vacuous rule: every effective rule has a candidate it alone rejects, and the declaration accepts something;
\* `required` rejects a candidate the same declaration without it would accept
NoVacuousRule ==
    (phase = "cand") =>
        /\ \E c \in CandSet(decl) : Allows(decl, c)
        /\ \A a \in Effective(decl) :
              \/ \E c \in CandSet(decl) : ~Allows(decl, c) /\ Allows(Without(decl, a), c)
              \* a bound made redundant by another rule of the same declaration (e.g. `in` inside `notIn`'s complement)
              \/ \A c \in CandSet(decl) : Allows(decl, c) = Allows(Without(decl, a), c)
        /\ (decl.pres = "required" /\ decl.ent # "primary" =>
              \E c \in CandSet(decl) : ~Allows(decl, c) /\ Allows([decl EXCEPT !.pres = "implicit"], c))

\* both sides of every numeric bound are candidates
BothSides ==
    (phase = "cand" /\ decl.card = "single" /\ decl.kind \in IntKinds) =>
        /\ (decl.minimum # NA => \A n \in {decl.minimum, decl.minimum + 1} : Cand("int", n, "") \in CandSet(decl))
        /\ (decl.maximum # NA => \A n \in {decl.maximum, decl.maximum + 1} : Cand("int", n, "") \in CandSet(decl))
        /\ (decl.minimum # NA /\ (decl.kind \notin Unsigned \/ decl.minimum > 0) => Cand("int", decl.minimum - 1, "") \in CandSet(decl))

\* which rule(s), taken away alone, would make a rejected candidate acceptable (names the culprit in a signature)
WithoutX(d, a) == IF a = "pres" THEN [d EXCEPT !.pres = "implicit"] ELSE Without(d, a)
Why(d, c) == IF Allows(d, c) THEN {} ELSE {a \in Effective(d) \cup {"pres"} : Allows(WithoutX(d, a), c)}

Emit ==
    (EmitCases /\ phase = "done") =>
        PrintT(<<"CASE", ToJson([decl |-> decl, cand |-> cand, allows |-> Allows(decl, cand), why |-> Why(decl, cand),
                                 bad |-> {i \in 1..Len(cand.items) : ~ItemOK(decl, cand.items[i])}])>>)

=============================================================================
