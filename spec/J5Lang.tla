------------------------------- MODULE J5Lang -------------------------------
(***************************************************************************)
(* The documented j5s field language, one declaration at a time, for       *)
(* property C07 ("the compiler is total and accepts the whole documented   *)
(* language, without depending on unrelated declarations").                *)
(*                                                                         *)
(* A behaviour builds ONE source file that contains nothing but the        *)
(* construct in focus:                                                     *)
(*   PickContainer  where the field lives (object, oneof option, request,  *)
(*                  response, topic message)                               *)
(*   PickKind       the field type, PickCard its cardinality               *)
(*   PickPresence   required / optional and the syntax form used           *)
(*   AddRule        validation rules admitted for that kind (catalogue     *)
(*                  from proto/j5/j5/schema/v1/schema.proto *.Rules)       *)
(*   InjectFault    optionally one semantic fault (the file is then NOT    *)
(*                  in the language and must be rejected with a position)  *)
(*   Finish                                                                *)
(* Valid is the model's statement of "within the documented language";     *)
(* every clause cites the document that evidences it.  The harness prints  *)
(* the case as .j5s text and compiles it with the real PackageSet.         *)
(***************************************************************************)
EXTENDS Integers, Sequences, FiniteSets, TLC, Json

CONSTANTS MaxRules, WithFaults, EmitCases

\* "request-raw": the request of a service method declared WITHOUT a response block (it returns a raw HTTP body;
\* README "Services", property C16's quantifier "methods without response body")
\* "request-path": the field is the path parameter of the method (httpPath = "/bar/:f"); scalar-like kinds and enums only
Containers == {"object", "oneof", "request", "request-raw", "request-path", "response", "publish", "reqres-request", "reqres-reply", "upsert"}
PathKinds == {"string", "bool", "int32", "int64", "uint32", "uint64", "date", "key", "key-id62", "key-uuid", "key-custom", "enum-ref", "enum-inline"}

\* README "Scalar Types" table + schema.proto Field.type
Scalars == {"string", "bool", "int32", "int64", "uint32", "uint64", "float32", "float64", "bytes", "timestamp", "date", "decimal",
            "key", "key-id62", "key-uuid", "key-custom", "any"}
Named == {"object-ref", "object-inline", "oneof-ref", "oneof-inline", "enum-ref", "enum-inline"}
Kinds == Scalars \cup Named
Cards == {"single", "array", "map"}        \* README "Map and Array"

\* presence: README "Object Field" (! and ? marks, required / optional / explicitlyOptional attributes)
Presences == {"none", "bang", "question", "required-attr", "optional-attr", "explicitlyOptional-attr"}

\* rule catalogue: schema.proto <Kind>Field.Rules; a rule is <<name, value atom>>
IntKinds == {"int32", "int64", "uint32", "uint64"}
RuleNames(k) ==
    CASE k = "string" -> {"minLength", "maxLength", "pattern"}
      [] k \in IntKinds -> {"minimum", "maximum", "exclusiveMinimum", "exclusiveMaximum"}
      [] k \in {"float32", "float64"} -> {"minimum", "maximum", "exclusiveMinimum", "exclusiveMaximum"}
      [] k = "bool" -> {"const"}
      [] k = "bytes" -> {"minLength", "maxLength"}
      [] k \in {"date", "decimal"} -> {"minimum", "maximum", "exclusiveMinimum", "exclusiveMaximum"}
      [] k \in {"enum-ref", "enum-inline"} -> {"in", "notIn"}
      [] OTHER -> {}
CardRuleNames(c) ==
    CASE c = "array" -> {"minItems", "maxItems", "uniqueItems"}       \* ArrayField.Rules
      [] c = "map" -> {"minPairs", "maxPairs"}                        \* MapField.Rules
      [] OTHER -> {}
\* value atoms per rule (concretised by the harness): small, zero, a 32-bit boundary and a value only 64 bits hold
Values(k, r) ==
    \* lengths and counts are uint64 in the schema: "max64" = 2^64 - 1 is a legal literal (and 2^63 the first an int64 cannot hold)
    CASE r \in {"minLength", "maxLength", "minItems", "maxItems", "minPairs", "maxPairs"} -> {"0", "1", "5", "max64", "min63"}
      [] r = "pattern" -> {"re-simple", "re-slash"}
      [] r \in {"exclusiveMinimum", "exclusiveMaximum", "uniqueItems", "const"} -> {"true", "false"}
      [] r \in {"minimum", "maximum"} /\ k \in {"int32", "uint32"} -> {"0", "1", "max31"}
      \* (IntegerField.Rules.minimum / maximum are int64 in the schema, also for UINT64 fields: 2^64 - 1 is not expressible)
      [] r \in {"minimum", "maximum"} /\ k \in {"int64", "uint64"} -> {"0", "1", "max31", "big33"}
      [] r \in {"minimum", "maximum"} /\ k \in {"float32", "float64"} -> {"0", "1", "1.5"}
      [] r \in {"minimum", "maximum"} /\ k = "date" -> {"date"}
      [] r \in {"minimum", "maximum"} /\ k = "decimal" -> {"dec"}
      [] r \in {"in", "notIn"} -> {"first-option"}
      [] OTHER -> {}

\* faults: "structurally valid files with semantic errors" of the property's quantifier
Faults == {"unknown-type", "duplicate-field", "duplicate-declaration", "unknown-attribute", "required-and-optional",
           "unknown-rule", "wrong-literal-type", "integer-without-format", "nested-array", "map-of-map",
           "oneof-scalar-option", "unknown-import", "package-mismatch", "method-without-request", "bad-http-method",
           "enum-no-options", "rule-on-wrong-kind"}

VARIABLES phase, container, kind, card, presence, rules, fault
vars == <<phase, container, kind, card, presence, rules, fault>>

Init == phase = "container" /\ container = "" /\ kind = "" /\ card = "" /\ presence = "" /\ rules = <<>> /\ fault = ""

PickContainer(c) == phase = "container" /\ container' = c /\ phase' = "kind" /\ UNCHANGED <<kind, card, presence, rules, fault>>

\* a oneof's options are objects (README "Oneof": all of the properties must be objects)
KindsIn(c) == IF c = "oneof" THEN {"object-ref", "object-inline"} ELSE IF c = "request-path" THEN PathKinds ELSE Kinds
PickKind(k) == phase = "kind" /\ k \in KindsIn(container) /\ kind' = k /\ phase' = "card" /\ UNCHANGED <<container, card, presence, rules, fault>>

CardsIn(c) == IF c \in {"oneof", "request-path"} THEN {"single"} ELSE Cards
PickCard(c) == phase = "card" /\ c \in CardsIn(container) /\ card' = c /\ phase' = "presence" /\ UNCHANGED <<container, kind, presence, rules, fault>>

PresencesIn(c) == IF c = "oneof" THEN {"none"} ELSE Presences
PickPresence(p) == phase = "presence" /\ p \in PresencesIn(container) /\ presence' = p /\ phase' = "rules" /\ UNCHANGED <<container, kind, card, rules, fault>>

RuleSet == { rules[i][1] : i \in 1..Len(rules) }
AllRuleSeq == <<"minLength", "maxLength", "pattern", "minimum", "maximum", "exclusiveMinimum", "exclusiveMaximum", "const", "in", "notIn",
                "minItems", "maxItems", "uniqueItems", "minPairs", "maxPairs">>
Ord(r) == CHOOSE i \in 1..Len(AllRuleSeq) : AllRuleSeq[i] = r
\* rules of the item kind apply to singular fields; for arrays and maps the catalogue entry in focus is the container's own rules
Admitted == IF card = "single" THEN RuleNames(kind) ELSE CardRuleNames(card)
AddRule(r, v) ==
    /\ phase = "rules" /\ Len(rules) < MaxRules /\ container # "oneof"
    /\ r \in Admitted \ RuleSet /\ v \in Values(kind, r)
    \* an exclusivity flag qualifies a bound: it is only meaningful next to that bound (the converter says so explicitly)
    /\ (r = "exclusiveMinimum" => "minimum" \in RuleSet)
    /\ (r = "exclusiveMaximum" => "maximum" \in RuleSet)
    \* canonical order keeps one representative per rule set; rule pairs only in the plainest setting
    /\ \A i \in 1..Len(rules) : Ord(rules[i][1]) < Ord(r)
    /\ (rules # <<>> => ((container = "object" /\ presence = "none") \/ r \in {"exclusiveMinimum", "exclusiveMaximum"}))
    /\ rules' = Append(rules, <<r, v>>)
    /\ UNCHANGED <<phase, container, kind, card, presence, fault>>

InjectFault(f) ==
    /\ WithFaults /\ phase = "rules" /\ fault = "" /\ rules = <<>> /\ presence = "none" /\ card = "single"
    /\ f \in Faults
    /\ (f = "rule-on-wrong-kind" => kind \in {"timestamp", "any", "key-id62"})
    /\ (f = "integer-without-format" => kind = "int32")
    /\ (f \in {"method-without-request", "bad-http-method"} => container \in {"request", "request-raw", "request-path", "response"})
    /\ (f = "oneof-scalar-option" => container = "oneof")
    /\ (f = "enum-no-options" => kind = "enum-inline")
    /\ (f \in {"nested-array", "map-of-map"} => kind = "string")
    /\ fault' = f /\ phase' = "done"
    /\ UNCHANGED <<container, kind, card, presence, rules>>

Finish == phase = "rules" /\ phase' = "done" /\ UNCHANGED <<container, kind, card, presence, rules, fault>>

Next ==
    \/ \E c \in Containers : PickContainer(c)
    \/ \E k \in Kinds : PickKind(k)
    \/ \E c \in Cards : PickCard(c)
    \/ \E p \in Presences : PickPresence(p)
    \/ \E r \in {"minLength", "maxLength", "pattern", "minimum", "maximum", "exclusiveMinimum", "exclusiveMaximum", "const", "in", "notIn",
                 "minItems", "maxItems", "uniqueItems", "minPairs", "maxPairs"} :
          \E v \in {"0", "1", "5", "re-simple", "re-slash", "true", "false", "max31", "big33", "max64", "min63", "1.5", "date", "dec", "first-option"} : AddRule(r, v)
    \/ \E f \in Faults : InjectFault(f)
    \/ Finish

Spec == Init /\ [][Next]_vars

(* the model's statement of "written within the documented language" *)
Valid ==
    /\ fault = ""
    /\ kind \in KindsIn(container) /\ card \in CardsIn(container) /\ presence \in PresencesIn(container)
    /\ \A i \in 1..Len(rules) : rules[i][1] \in Admitted /\ rules[i][2] \in Values(kind, rules[i][1])
    /\ ("exclusiveMinimum" \in RuleSet => "minimum" \in RuleSet)
    /\ ("exclusiveMaximum" \in RuleSet => "maximum" \in RuleSet)

\* every finished behaviour without a fault is a program of the language (the generator cannot leave it)
GeneratorClosed == (phase = "done" /\ fault = "") => Valid
\* a fault is never mistaken for a valid program
FaultInvalid == (phase = "done" /\ fault # "") => ~Valid

TypeOK == phase \in {"container", "kind", "card", "presence", "rules", "done"} /\ Len(rules) <= MaxRules

Emit ==
    (EmitCases /\ phase = "done") =>
        PrintT(<<"CASE", ToJson([container |-> container, kind |-> kind, card |-> card, presence |-> presence,
                                 rules |-> rules, fault |-> fault, valid |-> Valid])>>)
=============================================================================
