------------------------------ MODULE Pipeline ------------------------------
(***************************************************************************)
(* The tool-chain after the compiler, as stages over one program:          *)
(*                                                                         *)
(*   Compile -> Print -> Reparse -> Reprint                     (C05)      *)
(*           -> Image -> ExportAPI -> ImportAPI -> ReExport     (C15)      *)
(*                                -> ClientAPI -> JSONRender,   (C16)      *)
(*                                               OpenAPI, ClientContract   *)
(*                                                                         *)
(* Each stage is an action that is enabled once its inputs exist; its      *)
(* outcome is "ok", "error", "panic" or "violated" (its post-condition -   *)
(* the property - does not hold).  The abstract program is carried         *)
(* through unchanged: that IS the specification (every stage preserves     *)
(* the schema it is given).  TLC explores all outcome combinations the     *)
(* stage graph admits; the properties are the invariants that say which    *)
(* outcomes a correct tool-chain may show.  In direction T the stage       *)
(* outcomes recorded from the real tool-chain are replayed through the     *)
(* same actions (PipelineTrace).                                           *)
(***************************************************************************)
EXTENDS Integers, Sequences, FiniteSets, TLC

Stages == <<"compile", "print", "reparse", "reprint", "image", "source-api", "import-api", "re-export",
            "client-api", "json-render", "openapi", "client-contract">>
StageSet == { Stages[i] : i \in 1..Len(Stages) }
Outcomes == {"ok", "error", "panic", "violated"}

\* what a stage needs to have succeeded
Needs(s) ==
    CASE s = "compile" -> {}
      [] s = "print" -> {"compile"}
      [] s = "reparse" -> {"print"}
      [] s = "reprint" -> {"reparse"}
      [] s = "image" -> {"compile"}
      [] s = "source-api" -> {"image"}
      [] s = "import-api" -> {"source-api"}
      [] s = "re-export" -> {"import-api"}
      [] s = "client-api" -> {"source-api"}
      [] s \in {"json-render", "openapi", "client-contract"} -> {"client-api"}

VARIABLE done     \* [stage -> outcome] for the stages run so far
vars == <<done>>

Init == done = [s \in {} |-> "ok"]

Run(s, o) ==
    /\ s \notin DOMAIN done
    /\ \A n \in Needs(s) : n \in DOMAIN done /\ done[n] = "ok"
    /\ done' = [x \in DOMAIN done \cup {s} |-> IF x = s THEN o ELSE done[x]]

Next == \E s \in StageSet, o \in Outcomes : Run(s, o)
Spec == Init /\ [][Next]_vars

\* a stage only ever runs on the successful output of its predecessors
StageOrder == \A s \in DOMAIN done : \A n \in Needs(s) : n \in DOMAIN done /\ done[n] = "ok"

(* the properties, as predicates on the outcomes a run showed *)
Ran(s) == s \in DOMAIN done
Ok(s) == Ran(s) => done[s] = "ok"
C05Holds == Ok("print") /\ Ok("reparse") /\ Ok("reprint")
C15Holds == Ok("import-api") /\ Ok("re-export")
C16Holds == Ok("image") /\ Ok("source-api") /\ Ok("client-api") /\ Ok("json-render") /\ Ok("openapi") /\ Ok("client-contract")
\* closure: a run in which every stage that ran succeeded and nothing more can run has run every stage
Enabled(s) == s \notin DOMAIN done /\ \A n \in Needs(s) : n \in DOMAIN done /\ done[n] = "ok"
Closure == ((\A s \in DOMAIN done : done[s] = "ok") /\ (\A s \in StageSet : ~Enabled(s))) => DOMAIN done = StageSet
=============================================================================
