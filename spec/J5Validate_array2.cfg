SPECIFICATION Spec
CONSTANTS
  Kinds <- KindsV
  Cards <- CardsA
  Press <- PressAll
  MaxRules = 2
  WithAnn = FALSE
  IntLo <- IntLoQ
  IntHi <- IntHiQ
  LenLo <- LenLoQ
  LenHi <- LenHiQ
  CntLo <- CntLoQ
  CntHi <- CntHiQ
  EmitCases = TRUE
INVARIANTS TypeOK AllowsTotal NoVacuousRule BothSides Emit
CHECK_DEADLOCK FALSE
