SPECIFICATION TraceSpec
CONSTANTS
  Mode = "trace"
  Guard = TRUE
  EmitCases = FALSE
  StrictLaw = FALSE
  MaxMsgs = 8
  MaxEnums = 8
  MaxFocus = 0
  MaxAnns = 0
  ScalarKinds <- None
  WktAtoms <- None
  Cards <- None
  MapKeys <- None
  OneofSels <- None
  OneofOpts <- None
  MsgOpts <- None
  EnumOpts <- None
  RecForms <- None
  ValidateAnns <- None
  J5Anns <- None
  ListAnns <- None
  PsmAnns <- None
  MismatchAnns <- None
INVARIANTS Law NoReenter EntersBounded StackBounded StepsBounded BuiltLinked TraceDone
CHECK_DEADLOCK FALSE
