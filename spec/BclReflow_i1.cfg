SPECIFICATION Spec
CONSTANTS
  Width = 76
  Indent = 1
  WordLens = {2, 37, 38, 39}
  MaxToks = 4
  EmitCases = TRUE
INVARIANTS TypeOK Idempotent WordsPreserved LinesFit Emit
CHECK_DEADLOCK FALSE
