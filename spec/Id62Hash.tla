----------------------------- MODULE Id62Hash -----------------------------
(***************************************************************************)
(* "Hash-derived identifiers are a pure function of namespace and inputs"  *)
(* (lib/id62.NewHash): the identifier is H(namespace . input1 . input2 ..) *)
(* for a collision-free H (SHA-1 truncated to 16 bytes), so two calls give *)
(* the same identifier EXACTLY when the concatenations of their arguments  *)
(* are equal - whatever was called before.  A behaviour is a sequence of   *)
(* calls; each call's arguments are short sequences over a few atoms that  *)
(* include separators a memoising or keyed implementation might join with. *)
(* H is modelled as the identity on strings.                               *)
(***************************************************************************)
EXTENDS Naturals, Sequences, TLC, Json

CONSTANTS Atoms, MaxArgs, MaxCalls, EmitCases

VARIABLES calls, done
vars == <<calls, done>>

RECURSIVE Cat(_)
Cat(s) == IF s = <<>> THEN "" ELSE s[1] \o Cat(Tail(s))

ArgSeqs == UNION { [1..n -> Atoms] : n \in 1..MaxArgs }     \* namespace first

Init == calls = <<>> /\ done = FALSE
Call(a) == ~done /\ Len(calls) < MaxCalls /\ calls' = Append(calls, a) /\ UNCHANGED done
Finish == ~done /\ Len(calls) >= 2 /\ done' = TRUE /\ UNCHANGED calls
Next == (\E a \in ArgSeqs : Call(a)) \/ Finish
Spec == Init /\ [][Next]_vars

\* the identifier of call i, as the model sees it
Id(i) == Cat(calls[i])
\* purity: a repeated call repeats its identifier, whatever happened in between (true of any function of the arguments)
Pure == \A i, j \in 1..Len(calls) : calls[i] = calls[j] => Id(i) = Id(j)
\* which pairs of calls must agree
SameId == [i \in 1..Len(calls) |-> [j \in 1..Len(calls) |-> Id(i) = Id(j)]]

\* only behaviours that can tell something: two calls whose argument lists differ
Interesting == \E i, j \in 1..Len(calls) : calls[i] # calls[j]
Emit == (done /\ EmitCases /\ Interesting) => PrintT(<<"CASE", ToJson([kind |-> "hash", calls |-> calls, same |-> SameId])>>)
=============================================================================
