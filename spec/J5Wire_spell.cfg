SPECIFICATION Spec
CONSTANTS
  Mode = "spell"
  Kinds <- KindsAll
  Cards <- CardsAll
  Positions <- PositionsAll
  Pairs = FALSE
  Combos = FALSE
  EmitCases = TRUE
INVARIANTS TypeOK ReprTotal SpellingInvariant CanonicalIsSpelling NoKeyCollision Emit
PROPERTIES Progress
CHECK_DEADLOCK FALSE
