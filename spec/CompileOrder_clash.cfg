SPECIFICATION Spec
CONSTANTS
  Shape <- ShapeClash
  BundleName = "clash"
  Valid = TRUE
  MaxCompiles = 3
  MaxNews = 2
  SortFiles = TRUE
  PermuteFiles = TRUE
  EmitCases = TRUE
INVARIANTS TypeOK CacheSound HistoryIndependent Emit
CHECK_DEADLOCK FALSE
