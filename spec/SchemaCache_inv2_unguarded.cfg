SPECIFICATION Spec
CONSTANTS
  Procs <- P2
  Types <- InvTypes
  ChildSeq <- InvChild
  Invalid <- InvInvalid
  Pkg <- InvPkg
  CallChoices <- InvCalls2
  Guard = "none"
  Mode = "check"
INVARIANTS SameAsAlone
CHECK_DEADLOCK FALSE
