SPECIFICATION Spec
CONSTANTS
  Procs <- P3
  Types <- InvTypes
  ChildSeq <- InvChild
  Invalid <- InvInvalid
  Pkg <- InvPkg
  CallChoices <- InvCalls3
  Guard = "mutex"
  Mode = "check"
INVARIANTS TypeOK MutualExclusion NoDataRace SameAsAlone BuiltOnce NoPlaceholderVisible RejectedNeverCached
PROPERTIES Termination
CHECK_DEADLOCK TRUE
