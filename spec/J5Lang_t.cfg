SPECIFICATION Spec
CONSTANTS
  MaxRules = 3
  WithFaults = TRUE
  EmitCases = TRUE
INVARIANTS TypeOK GeneratorClosed FaultInvalid Emit
CHECK_DEADLOCK FALSE
