--------------------------- MODULE SchemaCacheMC ---------------------------
EXTENDS SchemaCache

P2 == {"g1", "g2"}
P3 == {"g1", "g2", "g3"}

\* shared sub-schemas: A{B,C}, B{C}, C{}
SharedTypes == {"A", "B", "C"}
SharedChild == [t \in SharedTypes |-> CASE t = "A" -> <<"B", "C">> [] t = "B" -> <<"C">> [] OTHER -> <<>>]
SharedPkg == [t \in SharedTypes |-> "sa.v1"]
SharedCalls2 == { [p \in P2 |-> IF p = "g1" THEN c[1] ELSE c[2]] :
                    c \in { <<<<"A">>, <<"A">>>>, <<<<"A">>, <<"B">>>>, <<<<"A">>, <<"C">>>>, <<<<"B">>, <<"C">>>>,
                            <<<<"B", "A">>, <<"C", "A">>>> } }
SharedCalls3 == { [p \in P3 |-> IF p = "g1" THEN c[1] ELSE IF p = "g2" THEN c[2] ELSE c[3]] :
                    c \in { <<<<"A">>, <<"B">>, <<"C">>>>, <<<<"A">>, <<"A">>, <<"A">>>>, <<<<"A">>, <<"C">>, <<"B", "A">>>> } }

\* recursion: A{A,B}, B{A} (self and mutual)
RecTypes == {"A", "B"}
RecChild == [t \in RecTypes |-> IF t = "A" THEN <<"A", "B">> ELSE <<"A">>]
RecPkg == [t \in RecTypes |-> "ra.v1"]
RecCalls2 == { [p \in P2 |-> IF p = "g1" THEN c[1] ELSE c[2]] :
                    c \in { <<<<"A">>, <<"A">>>>, <<<<"A">>, <<"B">>>>, <<<<"B">>, <<"B", "A">>>> } }
RecCalls3 == { [p \in P3 |-> IF p = "g1" THEN c[1] ELSE IF p = "g2" THEN c[2] ELSE c[3]] :
                    c \in { <<<<"A">>, <<"B">>, <<"A">>>>, <<<<"B">>, <<"B">>, <<"A", "B">>>> } }

\* packages: A (va.v1) {D}, D (vb.v1) {}, C (vc.v1) {} disjoint
XpTypes == {"A", "C", "D"}
XpChild == [t \in XpTypes |-> IF t = "A" THEN <<"D">> ELSE <<>>]
XpPkg == [t \in XpTypes |-> CASE t = "A" -> "xa.v1" [] t = "D" -> "xb.v1" [] OTHER -> "xc.v1"]
XpCalls2 == { [p \in P2 |-> IF p = "g1" THEN c[1] ELSE c[2]] :
                    c \in { <<<<"A">>, <<"C">>>>, <<<<"A">>, <<"D">>>>, <<<<"D", "A">>, <<"C", "A">>>> } }
XpCalls3 == { [p \in P3 |-> IF p = "g1" THEN c[1] ELSE IF p = "g2" THEN c[2] ELSE c[3]] :
                    c \in { <<<<"A">>, <<"C">>, <<"D">>>>, <<<<"A">>, <<"A">>, <<"D", "C">>>> } }
NoneInvalid == {}

\* a rejected schema: L is flattened into itself (validateBuiltRef), H holds an L, G is unrelated
InvTypes == {"L", "H", "G"}
InvChild == [t \in InvTypes |-> CASE t = "L" -> <<"L">> [] t = "H" -> <<"L">> [] OTHER -> <<>>]
InvPkg == [t \in InvTypes |-> "ia.v1"]
InvInvalid == {"L"}
InvCalls2 == { [p \in P2 |-> IF p = "g1" THEN c[1] ELSE c[2]] :
                    c \in { <<<<"L">>, <<"L">>>>, <<<<"L">>, <<"H">>>>, <<<<"H">>, <<"L", "G">>>>, <<<<"H", "G">>, <<"G", "H">>>> } }
InvCalls3 == { [p \in P3 |-> IF p = "g1" THEN c[1] ELSE IF p = "g2" THEN c[2] ELSE c[3]] :
                    c \in { <<<<"L">>, <<"H">>, <<"G">>>>, <<<<"H">>, <<"H">>, <<"L">>>> } }
=============================================================================
