------------------------------ MODULE J5RulesMC ------------------------------
EXTENDS J5Rules
\* kinds the compiler accepts today (C04 quick); the others are probed separately (C07 territory)
KindsCore == {"string", "int32", "int64", "uint32", "uint64", "bool", "bytes", "enum", "key", "key_id62", "key_uuid", "key_custom", "object"}
KindsRuled == {"string", "int32", "int64", "uint32", "uint64", "bytes", "enum", "key_custom", "date", "decimal"}
PressI    == {"implicit"}
PressIR   == {"implicit", "required"}
KindsAll  == KindsCore \cup {"date", "decimal", "timestamp", "float32", "float64"}
CardsAll  == {"single", "array", "map"}
CardsSA   == {"single", "array"}
CardsS    == {"single"}
PressAll  == {"implicit", "required", "optional"}
IntLoQ == {0, 2}
IntHiQ == {5}
IntLoT == {0, 2}
IntHiT == {0, 5}
LenLoQ == {0, 2}
LenHiQ == {3}
LenLoT == {0, 1, 2}
LenHiT == {0, 3}
CntLoQ == {0, 1}
CntHiQ == {2}
CntLoT == {0, 1, 2}
CntHiT == {0, 2}
=============================================================================
