---------------------------- MODULE PackageExport ----------------------------
(* The package closure of structure.APIFromImage (internal/structure/build_package.go), the export half of property C15.

   An image holds the files of a set of nodes: a node is a root package ("a.v1") or one of its sub-packages ("a.v1.service",
   "a.v1.topic"); every node declares one schema.  The image NAMES some root packages (the bundle being built).  The export
     1. lists every named package                                                        (APIFromImage, loop over image.Packages)
     2. reflects the schemas of every node whose package starts with a named package     (addSchemas with the selector)
     3. follows every reference out of a reflected schema; the target schema is added to the export under its own node, and
        the node's root package is listed as an INDIRECT package if it is not listed yet (getPackage / getSubPackage)
   one schema per step, until nothing is left to follow.

   The re-import (j5schema.PackageSetFromSourceAPI) asserts that every reference of every listed schema resolves inside the
   API: `Closed` below.  `ParentListed` is what step 3 owes to it: a schema reached only through a SUB-package still has its
   root package in the list (the seeded change C15_J loses exactly that entry).

   TLC enumerates every reference graph with at most MaxRefs edges over Roots x Subs and every single named root; the graphs
   are emitted as cases (direction G): lib/p_pipe.py writes each as a proto tree and the pipeline driver exports it once per
   named root (its "partial images") and checks export -> import -> export on the real code.                                *)
EXTENDS Naturals, FiniteSets, Sequences, TLC, Json

CONSTANTS Roots, Subs, MaxRefs, EmitCases

Nodes == Roots \X Subs
RootOf(n) == n[1]

VARIABLES refs,      \* set of <<from, to>> node pairs: the schema of `from` has a field of the schema of `to`
          named,     \* the root packages the image names
          listed,    \* root packages in the exported API  (named or indirect)
          indirect,  \* the listed packages flagged indirect
          exported,  \* nodes whose schema is in the exported API
          phase      \* "choose" -> "follow" -> "done"
vars == <<refs, named, listed, indirect, exported, phase>>

Init == /\ refs = {} /\ named = {} /\ listed = {} /\ indirect = {} /\ exported = {} /\ phase = "choose"

\* the input is built one edge at a time (TLC pitfall: guard first, then the quantifier)
AddRef == /\ phase = "choose"
          /\ Cardinality(refs) < MaxRefs
          /\ \E f \in Nodes, t \in Nodes : <<f, t>> \notin refs /\ refs' = refs \cup {<<f, t>>}
          /\ UNCHANGED <<named, listed, indirect, exported, phase>>

\* steps 1 and 2
Name == /\ phase = "choose"
        /\ \E r \in Roots :
              /\ named' = {r}
              /\ listed' = {r}
              /\ exported' = { n \in Nodes : RootOf(n) = r }
        /\ indirect' = {}
        /\ phase' = "follow"
        /\ UNCHANGED refs

Pending == { e \in refs : e[1] \in exported /\ e[2] \notin exported }

\* step 3
Follow == /\ phase = "follow"
          /\ Pending # {}
          /\ \E e \in Pending :
                /\ exported' = exported \cup {e[2]}
                /\ listed' = listed \cup {RootOf(e[2])}
                /\ indirect' = IF RootOf(e[2]) \in listed THEN indirect ELSE indirect \cup {RootOf(e[2])}
          /\ UNCHANGED <<refs, named, phase>>

Finish == /\ phase = "follow" /\ Pending = {} /\ phase' = "done"
          /\ UNCHANGED <<refs, named, listed, indirect, exported>>

Next == AddRef \/ Name \/ Follow \/ Finish
Spec == Init /\ [][Next]_vars

----------------------------------------------------------------------------
TypeOK == /\ refs \subseteq Nodes \X Nodes /\ named \subseteq Roots /\ listed \subseteq Roots
          /\ indirect \subseteq listed /\ exported \subseteq Nodes

\* what the re-import demands of a finished export: no listed schema refers outside the API
Closed == phase = "done" => \A e \in refs : e[1] \in exported => e[2] \in exported
\* every exported schema sits under a listed package, also when only a sub-package of it was reached
ParentListed == \A n \in exported : RootOf(n) \in listed
\* named packages are never indirect, and an indirect package holds only what was referenced
NamedDirect == named \cap indirect = {}
IndirectMinimal == \A n \in exported : RootOf(n) \in indirect =>
                       \E e \in refs : e[2] = n /\ e[1] \in exported
\* the export of a given image does not depend on the order references are followed in
Reach(S) == S \cup { e[2] : e \in { x \in refs : x[1] \in S } }
RECURSIVE Fix(_)
Fix(S) == IF Reach(S) = S THEN S ELSE Fix(Reach(S))
OrderIndependent == phase = "done" => exported = Fix({ n \in Nodes : RootOf(n) \in named })

\* the package list is exactly the named packages and the roots of what was reached; the latter are the indirect ones
ListedExact == phase = "done" => /\ listed = named \cup { RootOf(n) : n \in exported }
                                 /\ indirect = listed \ named

NodeName(n) == IF n[2] = "" THEN n[1] ELSE n[1] \o "." \o n[2]
RECURSIVE SetToSeq(_)
SetToSeq(S) == IF S = {} THEN <<>> ELSE LET x == CHOOSE y \in S : TRUE IN <<x>> \o SetToSeq(S \ {x})
\* one case per reference graph (the driver rotates the named root itself)
Emit == (EmitCases /\ phase = "choose") =>
           PrintT(<<"CASE", ToJson([refs |-> SetToSeq({ <<NodeName(e[1]), NodeName(e[2])>> : e \in refs })])>>)
=============================================================================
