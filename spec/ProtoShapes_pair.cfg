SPECIFICATION Spec
CONSTANTS
  Mode = "pair"
  Guard = TRUE
  EmitCases = TRUE
  MaxMsgs = 3
  MaxEnums = 2
  MaxFocus = 2
  MaxAnns = 1
  ScalarKinds <- KindsPair
  WktAtoms <- WktPair
  Cards <- CardsTwo
  MapKeys <- KeysString
  OneofSels <- SelsNone
  OneofOpts <- OneofOptsNone
  MsgOpts <- MsgOptsFew
  EnumOpts <- EnumOptsNone
  RecForms <- RecAll
  ValidateAnns <- ValidatePair
  J5Anns <- J5Pair
  ListAnns <- ListPair
  PsmAnns <- PsmPair
  MismatchAnns <- MismatchReps
INVARIANTS TypeOK NoReenter EntersBounded StackBounded StepsBounded BuiltLinked OneResultPerRun Emit
CHECK_DEADLOCK TRUE
