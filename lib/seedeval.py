"""Evaluate one seeded change: confirm it (builds, suite passes, demo fails with / passes without), run checks against it.
usage: seedeval.py <seed dir name> <property> <patch.diff> <demo file> <demo package dir rel to repo> [--tier quick] [--checks C09,C19]"""
import json, os, shutil, subprocess, sys, time
sys.path.insert(0, os.path.dirname(os.path.abspath(__file__)))
import vcheck

def sh(cmd, cwd=None, env=None, timeout=3600):
    p = subprocess.run(cmd, shell=True, cwd=cwd, env=env, capture_output=True, text=True, timeout=timeout)
    return p.returncode, (p.stdout + p.stderr)

def main():
    name, prop, patch, demo, demodir = sys.argv[1:6]
    opts = dict(zip(sys.argv[6::2], sys.argv[7::2]))
    tier = opts.get("--tier", "quick")
    checks = opts.get("--checks", prop).split(",")
    demoargs = opts.get("--demoargs", "")
    wt = "/tmp/mut_" + name
    out = "/tmp/mut_" + name + "_out"
    sh("git -C /repo worktree remove --force %s" % wt); shutil.rmtree(out, ignore_errors=True)
    rc, o = sh("git -C /repo worktree add --detach %s HEAD" % wt)
    assert rc == 0, o
    env = vcheck.go_env()
    meta = {"property": prop, "name": name, "base_commit": sh("git -C /repo rev-parse --short HEAD")[1].strip()}
    try:
        demo_dst = os.path.join(wt, demodir, "zz_seed_demo_test.go" if demo.endswith("_test.go") else "zz_seed_demo.go")
        # clean tree: demo passes
        shutil.copyfile(demo, demo_dst)
        rc0, o0 = sh("go test -vet=off -count=1 %s ./%s/" % (demoargs, demodir), cwd=wt, env=env)
        meta["demo_on_clean"] = "pass" if rc0 == 0 else "FAIL"
        os.remove(demo_dst)
        rc, o = sh("git apply %s" % patch, cwd=wt)
        if rc != 0:
            meta["apply"] = "FAILED: " + o[-500:]
            print(json.dumps(meta, indent=1)); return 1
        rc, o = sh("go build ./... && go test -vet=off -count=1 ./...", cwd=wt, env=env)
        meta["suite_with_change"] = "pass" if rc == 0 else "FAIL: " + o[-800:]
        shutil.copyfile(demo, demo_dst)
        rc1, o1 = sh("go test -vet=off -count=1 %s ./%s/" % (demoargs, demodir), cwd=wt, env=env)
        meta["demo_with_change"] = "fail" if rc1 != 0 else "PASSES (demo does not show the change)"
        meta["demo_output_with_change"] = o1[-1500:]
        os.remove(demo_dst)
        meta["checks"] = {}
        for c in checks:
            e = dict(os.environ); e.update({"VERIF_REPO": wt, "VERIF_OUT": out, "VERIF_EVIDENCE": out + "/evidence"})
            t0 = time.time()
            rc, o = sh("%s/bin/check %s %s" % (vcheck.VERIF, c, tier), env=e, timeout=7200)
            viol = [l for l in o.split("\n") if l.startswith("VIOLATION")]
            meta["checks"][c] = {"tier": tier, "exit": rc, "violations": [v[:400] for v in viol[:6]], "n_violation_lines": len(viol),
                                 "wall_s": round(time.time() - t0, 1), "tail": o[-600:] if rc not in (0, 1) else ""}
    finally:
        sh("git -C /repo worktree remove --force %s" % wt); shutil.rmtree(out, ignore_errors=True)
    d = os.path.join(vcheck.VERIF, "seeded", name)
    os.makedirs(d, exist_ok=True)
    shutil.copyfile(patch, os.path.join(d, "patch.diff"))
    shutil.copyfile(demo, os.path.join(d, os.path.basename(demo)))
    rd = os.path.join(os.path.dirname(patch), "README.md")
    if os.path.exists(rd):
        shutil.copyfile(rd, os.path.join(d, "README.md"))
    meta["demo_package_dir"] = demodir
    meta["ran"] = "lib/seedeval.py: worktree of /repo HEAD; demo on clean tree; git apply patch; go build + full go test; demo with change; bin/check <prop> %s with VERIF_REPO=<worktree>" % tier
    json.dump(meta, open(os.path.join(d, "meta.json"), "w"), indent=1)
    print(json.dumps({k: v for k, v in meta.items() if k != "demo_output_with_change"}, indent=1)[:1800])
    return 0

sys.exit(main())
