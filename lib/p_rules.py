"""C12 / C04: validation rules and annotations of j5s field declarations.
Specs: spec/J5Rules.tla (catalogue, Write/Read), spec/J5Validate.tla (Allows, candidates), spec/J5ValidateTrace.tla."""
import json
import os
import random

import vcheck
from vcheck import log

WORKERS = 6
KNOWN_FILE = os.path.join(vcheck.VERIF, "known_findings.rules.jsonl")


def load_own_known(chk):
    """Proposed known findings of this work package (merged into known_findings.jsonl by the main session)."""
    if not os.path.exists(KNOWN_FILE):
        return
    have = {k["signature"] for k in chk.known}
    for line in open(KNOWN_FILE):
        line = line.strip()
        if not line or line.startswith("#") or line.startswith("fixed:"):
            continue
        k = json.loads(line)
        if k.get("property") == chk.prop and k["signature"] not in have:
            chk.known.append(k)


def check_model(chk, r):
    if r.violated:
        chk.machinery_errors.append("model-level property %s violated (spec bug or design defect, not a code verdict):\n%s"
                                    % (r.violated, r.output[-2500:]))


def decl_key(d):
    return json.dumps(d, sort_keys=True)


def group_validate_cases(cases, seed):
    """(decl, cand, allows) states of J5Validate -> one harness case per declaration with all its candidates."""
    groups = {}
    for c in cases:
        k = decl_key(c["decl"])
        g = groups.get(k)
        if g is None:
            g = groups[k] = {"decl": c["decl"], "cands": []}
        g["cands"].append({"cand": c["cand"], "allows": c["allows"], "why": sorted(c.get("why") or []),
                           "bad": sorted(c.get("bad") or [])})
    out = []
    for k in sorted(groups):
        g = groups[k]
        g["cands"].sort(key=lambda x: json.dumps(x["cand"], sort_keys=True))
        # free choices of the concretiser, derived from the seed and the declaration
        h = random.Random("%d|%s" % (seed, k))
        g["opts"] = {"anchor": h.random() < 0.5, "markForm": h.random() < 0.5, "enumNums": False, "siblings": h.random() < 0.5}
        out.append(g)
        if g["decl"]["kind"] == "enum":
            # the same declaration over an enum whose options carry explicit numbers (number = position)
            g2 = json.loads(json.dumps(g))
            g2["opts"]["enumNums"] = True
            out.append(g2)
            # ... and over an enum that declares its zero option under its full name (COLOR_UNSPECIFIED)
            g3 = json.loads(json.dumps(g))
            g3["opts"]["zeroPrefixed"] = True
            out.append(g3)
            # ... and with the first option of an in / notIn list named twice (as written, and with the enum's prefix):
            # the list denotes the same options, whatever comes after the repeat included
            if g["decl"]["in"] or g["decl"]["notIn"]:
                for rep in ("same", "prefixed"):
                    g4 = json.loads(json.dumps(g))
                    g4["opts"]["listRepeat"] = rep
                    out.append(g4)
    return out


def collect_events(results):
    ev = []
    for e in results:
        for x in ((e.get("out") or {}).get("events") or []):
            ev.append(x)
    return ev


def count_skips(chk, results, label):
    skips = {}
    for e in results:
        s = (e.get("out") or {}).get("skip")
        if s:
            skips[s] = skips.get(s, 0) + 1
    if skips:
        chk.extra_cov.setdefault("skipped_declarations", {})[label] = skips
        for s, n in sorted(skips.items()):
            chk.notes.append("%s: %d declaration(s) skipped: %s" % (label, n, s))
    return skips


# --------------------------------------------------------------------------- direction T

def fix_nulls(o):
    """Go marshals nil slices as null; the trace specification expects sequences."""
    if isinstance(o, dict):
        return {k: ([] if (v is None and k in ("items", "in", "notIn", "dfilt", "names")) else fix_nulls(v)) for k, v in o.items()}
    if isinstance(o, list):
        return [fix_nulls(x) for x in o]
    return o


def validate_trace(chk, events, name, strict=False):
    """TLC evaluates Allows / Read(Write) on the LOGGED declaration and candidate and compares with the logged real verdict."""
    path = os.path.join(chk.dir, name + ".trace.ndjson")
    vcheck.write_ndjson(path, [fix_nulls(e) for e in events])
    r = chk.tlc("J5ValidateTraceMC.tla", "J5Validate_strict.cfg" if strict else "J5Validate_trace.cfg", name, workers=1,
                env={"VERIF_TRACE": path}, timeout=1500)
    done = [o for (t, o) in r.lines if t == "TRACEDONE"]
    if r.violated in ("LawValidate", "LawReflect"):
        return "law", r, None
    if r.violated:
        return "model", r, None
    if not done or done[0]["events"] != len(events):
        return "incomplete", r, (done[0] if done else None)
    return "ok", r, done[0]


def trace_direction(chk, events, expected_bad, name, limit):
    """Counting mode: the number of recorded calls on which TLC finds the law broken must coincide with the number direction G
    flagged on the same events; otherwise the two oracles disagree (machinery error, never a verdict)."""
    if len(events) > limit:
        rng = random.Random(chk.seed)
        idx = sorted(rng.sample(range(len(events)), limit))
        events = [events[i] for i in idx]
        expected_bad = None  # a sample cannot be cross-checked by count; recompute below
    verdict, r, done = validate_trace(chk, events, name)
    if verdict != "ok":
        chk.machinery_errors.append("trace validation %s: %s\n%s" % (verdict, r.violated or r.error, r.output[-1500:]))
        return
    chk.traces_validated += 1
    chk.trace_events += len(events)
    chk.extra_cov.setdefault("trace", {})[name] = done
    if done["badExpect"]:
        chk.machinery_errors.append("%d recorded expectation(s) differ from Read(Write(decl)) evaluated by TLC" % done["badExpect"])
    py_bad = recount(events)
    for k in ("badValidate", "badReflect", "badText"):
        if done[k] != py_bad[k]:
            chk.machinery_errors.append("trace %s: TLC counts %d %s, the replay's own comparison %d: the oracles disagree"
                                        % (name, done[k], k, py_bad[k]))


def recount(events):
    """What direction G saw on the same events: model verdict carried in the case vs real verdict."""
    out = {"badValidate": 0, "badReflect": 0, "badText": 0}
    for e in events:
        if e["op"] == "validate":
            if e.get("err") or e["real"] != e["_allows"]:
                out["badValidate"] += 1
        elif e["op"] == "reflect":
            exp = norm_lists(e["expect"])
            mem = e["real"].get("memory", {})
            if "prop" not in mem or norm_lists(mem["prop"]) != exp:
                out["badReflect"] += 1
            if "text" in e["real"]:
                t = e["real"]["text"]
                if "prop" not in t or norm_lists(t["prop"]) != exp:
                    out["badText"] += 1
    return out


def norm_lists(d):
    return {k: ([] if v is None else v) for k, v in d.items()}


def validate_events(cases, results):
    """events of rules-validate, each joined with the model verdict of its candidate (for the count cross-check only;
    the field is private to python and stripped by TLC's record access, which never reads it)."""
    ev = []
    for c, e in zip(cases, results):
        out = e.get("out") or {}
        allows = {json.dumps(x["cand"], sort_keys=True): x["allows"] for x in c["cands"]}
        for x in out.get("events") or []:
            x = fix_nulls(x)
            k = json.dumps(x["cand"], sort_keys=True)
            if k in allows:
                x["_allows"] = allows[k]
                ev.append(x)
    return ev


# --------------------------------------------------------------------------- C12

def run_c12(chk):
    quick = chk.tier == "quick"
    chk.rule = ("a case is one field declaration (kind x cardinality x presence x rule combination) of spec/J5Validate.tla together "
                "with every candidate value the model generates around the bounds the declaration induces; an evaluation is one "
                "declaration compiled by the real compiler and validated by protovalidate-go on each candidate; non-trivial = the "
                "real validator accepted at least one and rejected at least one candidate of the declaration; distinct by declaration")
    chk.assumptions += [
        "every declaration is compiled next to a `key:id62` sibling field: a file holding only a ruled string/bool/bytes/integer field "
        "does not link on the pinned tree (buf/validate not imported; property C07), the sibling brings the import in",
        "a field without explicit presence cannot distinguish absent from its zero value; the zero value is judged by the rules like any "
        "other value and `required` excludes it (protobuf semantics of implicit presence)",
        "integers are small bounds plus the format's extreme values; strings are (length, character class) atoms concretised by the harness; "
        "patterns are two atoms with a match table; candidates outside these atoms are not explored",
        "a rejection is attributed to the field under test by the violation's field path",
    ]
    runs = []
    if quick:
        runs.append(("J5Validate_single2.cfg", "single2", {}))
        runs.append(("J5Validate_array2.cfg", "array2", {}))
    else:
        runs.append(("J5Validate_single3.cfg", "single3", {}))
        runs.append(("J5Validate_array3.cfg", "array3", {}))
    raw = []
    for cfg, name, kw in runs:
        r = chk.tlc("J5ValidateMC.tla", cfg, name, workers=WORKERS, timeout=1500, **kw)
        check_model(chk, r)
        raw += r.cases
    if not quick:
        r = chk.tlc("J5ValidateMC.tla", "J5Validate_sim.cfg", "sim", workers=WORKERS, simulate=4000, depth=12, seed=chk.seed, timeout=1500)
        check_model(chk, r)
        raw += r.cases
    cases = group_validate_cases(raw, chk.seed)
    chk.extra_cov["declarations"] = len(cases)
    chk.extra_cov["candidate_evaluations"] = sum(len(c["cands"]) for c in cases)
    res = chk.replay("rules-validate", cases, "validate", workers=WORKERS, timeout="60s")
    chk.absorb("rules-validate", cases, res)
    count_skips(chk, res, "rules-validate")
    chk.exhaustive = quick
    ev = validate_events(cases, res)
    trace_direction(chk, ev, None, "trace", 6000 if quick else 40000)
    return cases, res


# --------------------------------------------------------------------------- C04

def reflect_cases(raw, seed):
    out = []
    seen = set()
    for c in raw:
        k = decl_key(c["decl"])
        if k in seen:
            continue
        seen.add(k)
        h = random.Random("%d|%s" % (seed, k))
        g = {"decl": c["decl"], "expect": c["expect"],
             "opts": {"anchor": h.random() < 0.5, "markForm": h.random() < 0.5, "enumNums": False,
                      "acroName": h.random() < 0.5, "siblings": h.random() < 0.5}}
        out.append(g)
        d = c["decl"]
        if d["kind"] == "enum" and (d["in"] or d["notIn"]):
            g2 = json.loads(json.dumps(g))
            g2["opts"]["enumNums"] = True
            out.append(g2)
            g3 = json.loads(json.dumps(g))
            g3["opts"]["zeroPrefixed"] = True
            out.append(g3)
        if d["kind"] == "enum":
            # ... and over an enum whose first option carries a description and the others none
            g4 = json.loads(json.dumps(g))
            g4["opts"]["optDesc"] = True
            out.append(g4)
    out.sort(key=lambda g: decl_key(g["decl"]) + str(g["opts"]["enumNums"]) + str(g["opts"].get("zeroPrefixed")) + str(g["opts"].get("optDesc")))
    return out


def run_c04(chk):
    quick = chk.tier == "quick"
    chk.rule = ("a case is one field declaration of spec/J5Rules.tla (kind x cardinality x presence x every rule / annotation of the "
                "catalogue at its admissible values) with the schema projection Read(Write(decl)) the model expects; an evaluation "
                "compiles it with the real compiler, reflects the in-memory descriptors (SchemaCache.Schema and SchemaSetFromFiles) "
                "and the re-parsed printed .proto text with j5schema, and compares ToJ5Root() with the expectation attribute by "
                "attribute; non-trivial = the declaration carries a rule, an annotation, a presence flag or a container; distinct by declaration")
    chk.assumptions += [
        "void attribute values are not distinguished from absent: a false exclusive / unique / list flag, primaryKey = false "
        "(Norm in spec/J5Rules.tla); descriptions are compared modulo white space",
        "ext.singleForm is not listed by the statement and is compared as drift only",
        "float rules are rejected by the compiler (`TODO: float rules not implemented`, property C07): those declarations are counted as skipped",
        "one declaration per compiled object (optionally next to a key:id62 sibling); rule values are the catalogue's atoms",
    ]
    cfgs = [("J5Rules_reflect1.cfg", "reflect1"), ("J5Rules_pairs.cfg", "pairs")] if quick else [("J5Rules_reflect2.cfg", "reflect2")]
    raw = []
    for cfg, name in cfgs:
        r = chk.tlc("J5RulesMC.tla", cfg, name, workers=WORKERS, timeout=1500)
        check_model(chk, r)
        raw += r.cases
    if not quick:
        r = chk.tlc("J5RulesMC.tla", "J5Rules_sim.cfg", "sim", workers=WORKERS, simulate=3000, depth=10, seed=chk.seed, timeout=1500)
        check_model(chk, r)
        raw += r.cases
    cases = reflect_cases(raw, chk.seed)
    chk.extra_cov["declarations"] = len(cases)
    res = chk.replay("rules-reflect", cases, "reflect", workers=WORKERS, timeout="60s")
    chk.absorb("rules-reflect", cases, res)
    # descriptions on every describable element (types, properties, inline types, enum options, two inline enums in one
    # message): read off the source text by the driver, compared with the reflected schemas (descriptors and printed text)
    dcase = [{"files": {"foo/v1/parcel.j5s": open(os.path.join(vcheck.VERIF, "programs", "descriptions.j5s")).read()}}]
    dres = chk.replay("rules-descriptions", dcase, "descriptions", workers=1, timeout="60s")
    chk.absorb("rules-descriptions", dcase, dres)
    chk.extra_cov["declared_descriptions_compared"] = ((dres[0].get("out") or {}).get("obs") or {}).get("declared", 0) if dres else 0
    if not chk.extra_cov["declared_descriptions_compared"]:
        chk.machinery_errors.append("the descriptions program did not run: %s" % json.dumps(dres[:1])[:400])
    count_skips(chk, res, "rules-reflect")
    chk.exhaustive = quick
    ev = [fix_nulls(x) for x in collect_events(res)]
    trace_direction(chk, ev, None, "trace", 3000 if quick else 20000)
    return cases, res


def run(chk):
    load_own_known(chk)
    if chk.prop == "C12":
        run_c12(chk)
    elif chk.prop == "C04":
        run_c04(chk)
    else:
        raise vcheck.MachineryError("p_rules: no check for " + chk.prop)


def replay(prop, path):
    import check
    return check.generic_replay(prop, path)


def selftest(prop):
    """V4: the binding must reject corrupted recordings and the drivers must flag a broken expectation."""
    chk = vcheck.Check(prop, "selftest")
    ok = True

    def fail(msg):
        nonlocal ok
        ok = False
        log("SELFTEST-FAIL %s: %s" % (prop, msg))

    if prop == "C12":
        r = chk.tlc("J5ValidateMC.tla", "J5Validate_single2.cfg", "st", workers=WORKERS, timeout=600)
        cases = [c for c in group_validate_cases(r.cases, 1) if c["decl"]["kind"] in ("string", "bool", "bytes") and c["decl"]["pres"] != "optional"][:40]
        res = chk.replay("rules-validate", cases, "st", workers=WORKERS, timeout="60s")
        ev = validate_events(cases, res)
        clean = [e for e in ev if not e.get("err") and e["real"] == e["_allows"]]
        if len(clean) < 50:
            fail("too few clean events (%d)" % len(clean))
        v, tr, done = validate_trace(chk, clean, "st_ok", strict=True)
        if v != "ok":
            fail("pristine recording not accepted in strict mode (%s)" % v)
        bad = json.loads(json.dumps(clean))
        bad[7]["real"] = not bad[7]["real"]
        v, tr, done = validate_trace(chk, bad, "st_law", strict=True)
        if v != "law":
            fail("flipped validator verdict not rejected (%s)" % v)
        v, tr, done = validate_trace(chk, bad, "st_count")
        if v != "ok" or done["badValidate"] != 1:
            fail("counting mode did not count the flipped verdict (%s, %s)" % (v, done))
        bad = json.loads(json.dumps(clean))
        bad[3]["decl"]["kind"] = "nonsense"
        v, tr, done = validate_trace(chk, bad, "st_decl")
        if v == "ok":
            fail("a declaration outside the specification was consumed")
        # the driver against a broken expectation: flip the model verdict of one candidate
        stub = json.loads(json.dumps(cases[:5]))
        for c in stub:
            c["cands"][0]["allows"] = not c["cands"][0]["allows"]
        res = chk.replay("rules-validate", stub, "st_stub", workers=2, timeout="60s")
        nv = sum(len((e.get("out") or {}).get("viol") or []) for e in res)
        if nv < len(stub):
            fail("driver did not flag flipped expectations (%d violations for %d stubs)" % (nv, len(stub)))
    else:
        r = chk.tlc("J5RulesMC.tla", "J5Rules_reflect1.cfg", "st", workers=WORKERS, timeout=600)
        cases = [c for c in reflect_cases(r.cases, 1) if c["decl"]["card"] == "single" and c["decl"]["kind"] in ("string", "enum", "key_id62", "int32")
                 and c["decl"]["minimum"] == -99 and c["decl"]["maximum"] == -99 and not c["decl"]["in"] and not c["decl"]["notIn"]
                 and c["decl"]["tenant"] == "na"][:40]
        res = chk.replay("rules-reflect", cases, "st", workers=WORKERS, timeout="60s")
        ev = [fix_nulls(x) for x in collect_events(res)]
        clean = [e for e in ev if recount([e])["badReflect"] == 0 and recount([e])["badText"] == 0]
        if len(clean) < 10:
            fail("too few clean events (%d of %d)" % (len(clean), len(ev)))
        v, tr, done = validate_trace(chk, clean, "st_ok", strict=True)
        if v != "ok":
            fail("pristine recording not accepted in strict mode (%s)" % v)
        bad = json.loads(json.dumps(clean))
        bad[2]["real"]["memory"]["prop"]["pres"] = "optional" if bad[2]["real"]["memory"]["prop"]["pres"] != "optional" else "implicit"
        v, tr, done = validate_trace(chk, bad, "st_law", strict=True)
        if v != "law":
            fail("corrupted reflected projection not rejected (%s)" % v)
        bad = json.loads(json.dumps(clean))
        bad[4]["expect"]["minLength"] = 7
        v, tr, done = validate_trace(chk, bad, "st_expect", strict=True)
        if v == "ok":
            fail("a corrupted expectation was accepted")
        stub = json.loads(json.dumps(cases[:5]))
        for c in stub:
            c["expect"]["pres"] = "optional" if c["expect"]["pres"] != "optional" else "required"
        res = chk.replay("rules-reflect", stub, "st_stub", workers=2, timeout="60s")
        nv = sum(1 for e in res if (e.get("out") or {}).get("viol"))
        if nv < len(stub):
            fail("driver did not flag corrupted expectations (%d of %d)" % (nv, len(stub)))
    log("SELFTEST %s %s" % ("ok" if ok else "FAILED", prop))
    return 0 if ok else 2
